import Knut.FactsAgree.TransTableRender2
/-!
# The translated builder functions of `lib/common/table` agree with the model

`table.New` (the columns of the groups), `Table.Width`, `Row.addCell` and the exported `Row.Add…` methods as functions on ONE row
(a `*Row` receiver is the row value; the method returns the new row — twice, because Go returns the receiver for chaining).
`AddPercent` has no counterpart in the model (no percent cells).
-/
namespace Knut.FactsAgree.TransTableRender
open Knut Knut.GoSem
open Knut.Generated.Go

/-! ## `New` -/

theorem New_loop (g : Int) (size : Int) : ∀ (fuel : Nat) (cols : List Int) (i : Int), 0 ≤ i → (size - i).toNat ≤ fuel →
    table.New.loop1 g size fuel cols i
      = Outcome.ok (cols ++ List.replicate (size - i).toNat g, if i < size then size else i) := by
  intro fuel
  induction fuel with
  | zero =>
    intro cols i h0 hf
    have hl : ¬ i < size := by omega
    have : (size - i).toNat = 0 := by omega
    unfold table.New.loop1
    simp [hl, this]
  | succ fuel ih =>
    intro cols i h0 hf
    unfold table.New.loop1
    by_cases hl : i < size
    · simp only [hl, decide_true, if_true]
      rw [ih (cols ++ [g]) (i + 1) (by omega) (by omega)]
      have h1 : (size - i).toNat = (size - (i + 1)).toNat + 1 := by omega
      rw [h1, List.replicate_succ]
      by_cases h2 : i + 1 < size
      · simp [h2]
      · have : i + 1 = size := by omega
        simp [h2, this]
    · have : (size - i).toNat = 0 := by omega
      simp [hl, this]

/-- the body of the loop over the groups -/
def newStep (st1 : List Int) (el2 : Int × Nat) : Outcome (List Int) :=
  let columns : List Int := st1
  let groupSize : Int := el2.1
  let groupNo : Int := (el2.2 : Int)
  let i : Int := (0 : Int)
  Outcome.bind (table.New.loop1 groupNo groupSize (fuelLt i groupSize) columns i) (fun st4 =>
    let columns : List Int := st4.1
    let i : Int := st4.2
    Outcome.ok columns)

theorem newStep_eq (cols : List Int) (g : Int) (k : Nat) :
    newStep cols (g, k) = Outcome.ok (cols ++ List.replicate g.toNat (k : Int)) := by
  unfold newStep
  simp only [New_loop (k : Int) g (fuelLt 0 g) cols 0 (by omega) (by simp [fuelLt]), Outcome.bind]
  simp

/-- the outer loop of `New` from group number `k` on -/
theorem New_fold : ∀ (gs : List Int) (k : Nat) (cols : List Int),
    foldlE newStep cols (List.zipIdx gs k) = Outcome.ok (cols ++ natsGo (Table.groupColumns k (gs.map Int.toNat))) := by
  intro gs
  induction gs with
  | nil => intro k cols; simp [foldlE, Table.groupColumns, natsGo]
  | cons g gs ih =>
    intro k cols
    rw [List.zipIdx_cons, foldlE_ok _ _ _ _ _ (newStep_eq cols g k), ih]
    simp [Table.groupColumns, natsGo, List.map_replicate]

theorem New_unfold (gs : List Int) :
    table.New gs = Outcome.bind (foldlE newStep ([] : List Int) (List.zipIdx gs)) (fun columns =>
      Outcome.ok ({ columns := columns, rows := GoZero.zero } : table.Table)) := rfl

/-- `table.New(groups…)`: group `k` contributes `groups[k]` columns numbered `k` (a negative size: none) -/
theorem New_agrees (gs : List Int) :
    table.New gs = Outcome.ok (tableGo (Table.Table.new (gs.map Int.toNat))) := by
  rw [New_unfold, New_fold gs 0 []]
  rfl

/-! ## `Width`, the row methods -/

theorem Width_agrees (t : Table.Table) : table.Table.Width (tableGo t) = (t.width : Int) := by
  simp [table.Table.Width, tableGo, Table.Table.width]

/-- `Row.addCell`: the cell is appended; the capacity `width` stays while the row fits, then it is unknown -/
theorem addCell_agrees (width : Nat) (row : List Table.Cell) (c : Table.Cell) :
    table.Row.addCell (rowGoW width row) (cellGo c) = rowGoW width (row ++ [c]) := by
  unfold table.Row.addCell rowGoW
  by_cases h : row.length ≤ width
  · by_cases h2 : row.length + 1 ≤ width
    · have h3 : ((row.length : Nat) : Int) + 1 ≤ (width : Int) := by omega
      simp [h, h2, h3, Slices.appendCap]
    · have h3 : ¬ ((row.length : Nat) : Int) + 1 ≤ (width : Int) := by omega
      simp [h, h2, h3, Slices.appendCap]
  · have h2 : ¬ row.length + 1 ≤ width := by omega
    simp [h, h2, Slices.appendCap]

theorem AddEmpty_agrees (width : Nat) (row : List Table.Cell) :
    table.Row.AddEmpty (rowGoW width row) = (rowGoW width (row ++ [.empty]), rowGoW width (row ++ [.empty])) := by
  have := addCell_agrees width row .empty
  simp only [cellGo] at this
  simp [table.Row.AddEmpty, this]

/-- `table.Alignment` values other than `Left`/`Right`/`Center` are outside the model: the alignments `alignGo` yields -/
theorem AddText_agrees (width : Nat) (row : List Table.Cell) (s : List Char) (a : Table.Align) :
    table.Row.AddText (rowGoW width row) (String.ofList s) (alignGo a)
      = (rowGoW width (row ++ [.text s a 0]), rowGoW width (row ++ [.text s a 0])) := by
  have := addCell_agrees width row (.text s a 0)
  simp only [cellGo] at this
  simp [table.Row.AddText, this]

theorem AddDecimal_agrees (width : Nat) (row : List Table.Cell) (n : Rat) :
    table.Row.AddDecimal (rowGoW width row) n = (rowGoW width (row ++ [.num n]), rowGoW width (row ++ [.num n])) := by
  have := addCell_agrees width row (.num n)
  simp only [cellGo] at this
  simp [table.Row.AddDecimal, this]

theorem AddIndented_agrees (width : Nat) (row : List Table.Cell) (s : List Char) (indent : Int) :
    table.Row.AddIndented (rowGoW width row) (String.ofList s) indent
      = (rowGoW width (row ++ [.text s .left indent]), rowGoW width (row ++ [.text s .left indent])) := by
  have := addCell_agrees width row (.text s .left indent)
  simp only [cellGo, alignGo] at this
  simp [table.Row.AddIndented, table.Left, this]

/-! ## `AddRow`, `AddSeparatorRow`, `AddEmptyRow`

`AddRow` returns a pointer to the row it has appended to `t.rows`: the translation returns the table and the row, and in the callers
the row variable is an alias of `t.rows[len-1]` (`key`), written back after every `addCell`. -/

theorem tableGo_rows (cols : List Nat) (rows : List (List Table.Cell)) :
    tableGo ⟨cols, rows⟩ = { columns := natsGo cols, rows := rows.map (rowGoW cols.length) } := rfl

theorem AddRow_agrees (t : Table.Table) :
    table.Table.AddRow (tableGo t) = Outcome.ok (tableGo t.addRow, rowGoW t.width []) := by
  unfold table.Table.AddRow
  simp only [Width_agrees, Slices.makeCap, Outcome.bind]
  have : ¬ ((t.width : Nat) : Int) < 0 := by omega
  simp only [this, if_false]
  simp [tableGo, Table.Table.addRow, Table.Table.width, rowGoW]

theorem set_last {α : Type} (old : List α) (a b : α) : (old ++ [a]).set old.length b = old ++ [b] := by
  induction old with
  | nil => rfl
  | cons x xs ih => simp [ih]

/-- the loop of `AddSeparatorRow` from `i` separators on -/
theorem AddSeparatorRow_loop (cols : List Nat) (old : List table.Row) : ∀ (fuel : Nat) (i : Nat), i ≤ cols.length → cols.length - i ≤ fuel →
    table.Table.AddSeparatorRow.loop1 old.length fuel
        { columns := natsGo cols, rows := old ++ [rowGoW cols.length (List.replicate i .sep)] }
        (rowGoW cols.length (List.replicate i .sep)) (i : Int)
      = Outcome.ok ({ columns := natsGo cols, rows := old ++ [rowGoW cols.length (List.replicate cols.length .sep)] },
          rowGoW cols.length (List.replicate cols.length .sep), (cols.length : Int)) := by
  intro fuel
  induction fuel with
  | zero =>
    intro i hi hf
    have e : i = cols.length := by omega
    subst e
    unfold table.Table.AddSeparatorRow.loop1
    simp [table.Table.Width]
  | succ fuel ih =>
    intro i hi hf
    unfold table.Table.AddSeparatorRow.loop1
    by_cases hl : i < cols.length
    · have hlt : ((i : Nat) : Int) < table.Table.Width { columns := natsGo cols, rows := old ++ [rowGoW cols.length (List.replicate i .sep)] } := by
        simp [table.Table.Width]; omega
      have hc := addCell_agrees cols.length (List.replicate i .sep) .sep
      simp only [cellGo] at hc
      simp only [hlt, decide_true, if_true, hc, set_last]
      have hr : List.replicate i Table.Cell.sep ++ [Table.Cell.sep] = List.replicate (i + 1) Table.Cell.sep := by
        rw [List.replicate_succ']
      rw [hr]
      have := ih (i + 1) (by omega) (by omega)
      simpa using this
    · have e : i = cols.length := by omega
      subst e
      simp [table.Table.Width]

theorem AddSeparatorRow_agrees (t : Table.Table) :
    table.Table.AddSeparatorRow (tableGo t) = Outcome.ok (tableGo t.addSeparatorRow) := by
  unfold table.Table.AddSeparatorRow
  obtain ⟨cols, rows⟩ := t
  simp only [AddRow_agrees, Outcome.bind]
  have h1 : tableGo (Table.Table.addRow ⟨cols, rows⟩)
      = { columns := natsGo cols, rows := rows.map (rowGoW cols.length) ++ [rowGoW cols.length (List.replicate 0 .sep)] } := by
    simp [tableGo, Table.Table.addRow, Table.Table.width, natsGo]
  have hw : (Table.Table.mk cols rows).width = cols.length := rfl
  simp only [h1, hw, List.length_append, List.length_map, List.length_cons, List.length_nil, Nat.add_sub_cancel]
  have hl := AddSeparatorRow_loop cols (rows.map (rowGoW cols.length)) (fuelLt 0 (cols.length : Int)) 0 (by omega) (by simp [fuelLt])
  simp only [List.length_map, List.replicate_zero, Int.natCast_zero] at hl
  have hW : table.Table.Width { columns := natsGo cols, rows := rows.map (rowGoW cols.length) ++ [rowGoW cols.length []] } = (cols.length : Int) := by
    simp [table.Table.Width]
  simp only [List.replicate_zero, hW, hl]
  simp [tableGo, Table.Table.addSeparatorRow, Table.Table.width, natsGo]

/-- the loop of `AddEmptyRow` from `i` empty cells on -/
theorem AddEmptyRow_loop (cols : List Nat) (old : List table.Row) : ∀ (fuel : Nat) (i : Nat), i ≤ cols.length → cols.length - i ≤ fuel →
    table.Table.AddEmptyRow.loop1 old.length fuel
        { columns := natsGo cols, rows := old ++ [rowGoW cols.length (List.replicate i .empty)] }
        (rowGoW cols.length (List.replicate i .empty)) (i : Int)
      = Outcome.ok ({ columns := natsGo cols, rows := old ++ [rowGoW cols.length (List.replicate cols.length .empty)] },
          rowGoW cols.length (List.replicate cols.length .empty), (cols.length : Int)) := by
  intro fuel
  induction fuel with
  | zero =>
    intro i hi hf
    have e : i = cols.length := by omega
    subst e
    unfold table.Table.AddEmptyRow.loop1
    simp [table.Table.Width]
  | succ fuel ih =>
    intro i hi hf
    unfold table.Table.AddEmptyRow.loop1
    by_cases hl : i < cols.length
    · have hlt : ((i : Nat) : Int) < table.Table.Width { columns := natsGo cols, rows := old ++ [rowGoW cols.length (List.replicate i .empty)] } := by
        simp [table.Table.Width]; omega
      have hc := addCell_agrees cols.length (List.replicate i .empty) .empty
      simp only [cellGo] at hc
      simp only [hlt, decide_true, if_true, hc, set_last]
      have hr : List.replicate i Table.Cell.empty ++ [Table.Cell.empty] = List.replicate (i + 1) Table.Cell.empty := by
        rw [List.replicate_succ']
      rw [hr]
      have := ih (i + 1) (by omega) (by omega)
      simpa using this
    · have e : i = cols.length := by omega
      subst e
      simp [table.Table.Width]

theorem AddEmptyRow_agrees (t : Table.Table) :
    table.Table.AddEmptyRow (tableGo t) = Outcome.ok (tableGo t.addEmptyRow) := by
  unfold table.Table.AddEmptyRow
  obtain ⟨cols, rows⟩ := t
  simp only [AddRow_agrees, Outcome.bind]
  have h1 : tableGo (Table.Table.addRow ⟨cols, rows⟩)
      = { columns := natsGo cols, rows := rows.map (rowGoW cols.length) ++ [rowGoW cols.length (List.replicate 0 .empty)] } := by
    simp [tableGo, Table.Table.addRow, Table.Table.width, natsGo]
  have hw : (Table.Table.mk cols rows).width = cols.length := rfl
  simp only [h1, hw, List.length_append, List.length_map, List.length_cons, List.length_nil, Nat.add_sub_cancel]
  have hl := AddEmptyRow_loop cols (rows.map (rowGoW cols.length)) (fuelLt 0 (cols.length : Int)) 0 (by omega) (by simp [fuelLt])
  simp only [List.length_map, List.replicate_zero, Int.natCast_zero] at hl
  have hW : table.Table.Width { columns := natsGo cols, rows := rows.map (rowGoW cols.length) ++ [rowGoW cols.length []] } = (cols.length : Int) := by
    simp [table.Table.Width]
  simp only [List.replicate_zero, hW, hl]
  simp [tableGo, Table.Table.addEmptyRow, Table.Table.width, natsGo]

/-! ## `FillEmpty`: up to `cap(r.cells)` -/

theorem FillEmpty_loop (width : Nat) : ∀ (fuel : Nat) (row : List Table.Cell), row.length ≤ width → width - row.length ≤ fuel →
    table.Row.FillEmpty.loop1 fuel (rowGoW width row) (row.length : Int)
      = Outcome.ok (rowGoW width (row ++ List.replicate (width - row.length) .empty), (width : Int)) := by
  intro fuel
  induction fuel with
  | zero =>
    intro row h hf
    have e : width - row.length = 0 := by omega
    have e2 : row.length = width := by omega
    unfold table.Row.FillEmpty.loop1
    simp [rowGoW, h, Slices.capE, Outcome.bind, e, e2]
  | succ fuel ih =>
    intro row h hf
    unfold table.Row.FillEmpty.loop1
    have hcap : Slices.capE (rowGoW width row).cells_cap = Outcome.ok (width : Int) := by simp [rowGoW, h, Slices.capE]
    simp only [hcap, Outcome.bind]
    by_cases hl : row.length < width
    · have hlt : ((row.length : Nat) : Int) < (width : Int) := by omega
      simp only [hlt, decide_true, if_true, AddEmpty_agrees]
      have := ih (row ++ [.empty]) (by simp; omega) (by simp; omega)
      simp only [List.length_append, List.length_cons, List.length_nil, Int.natCast_add, Int.natCast_one, Nat.zero_add] at this
      rw [this]
      have e : width - row.length = (width - (row.length + 1)) + 1 := by omega
      rw [e, List.replicate_succ]
      simp
    · have e : width - row.length = 0 := by omega
      have hlt : ¬ ((row.length : Nat) : Int) < (width : Int) := by omega
      have e2 : row.length = width := by omega
      simp [hlt, e, e2]

/-- `Row.FillEmpty` of a row that fits: empty cells up to the width of its table (its capacity) -/
theorem FillEmpty_agrees (width : Nat) (row : List Table.Cell) (h : row.length ≤ width) :
    table.Row.FillEmpty (rowGoW width row)
      = Outcome.ok (rowGoW width (row ++ List.replicate (width - row.length) .empty)) := by
  unfold table.Row.FillEmpty
  have hcap : Slices.capE (rowGoW width row).cells_cap = Outcome.ok (width : Int) := by simp [rowGoW, h, Slices.capE]
  have hlen : len (rowGoW width row).cells = (row.length : Int) := by simp [rowGoW]
  simp only [hcap, hlen, Outcome.bind]
  rw [FillEmpty_loop width (fuelLt (row.length : Int) (width : Int)) row h (by simp [fuelLt])]

/-- a row that has outgrown its table: `append` has reallocated it, its capacity is the runtime's: nothing is claimed (the model's
`fillEmpty` answers `none`) -/
theorem FillEmpty_unknown (width : Nat) (row : List Table.Cell) (h : width < row.length) :
    table.Row.FillEmpty (rowGoW width row) = Outcome.panic Slices.capUnknown := by
  unfold table.Row.FillEmpty
  have : ¬ row.length ≤ width := by omega
  simp [rowGoW, this, Slices.capE, Outcome.bind]

end Knut.FactsAgree.TransTableRender
