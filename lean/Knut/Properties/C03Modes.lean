import Knut.Proofs.MTMDiff
import Knut.Properties.C03Report
import Knut.Properties.C03Command
/-!
# C03 — the report modes beyond cumulative per-account rows

* **`--diff`** – `C03_account_between` (pipeline), `C03_command_cell_diff`: in a valued `--diff` report with per-account
  rows the cell of an asset/liability account in the column of the period end `D_k` is within
  `Spec.stepBound V days a D_{k−1} D_k / 10⁸` of `Spec.mtm V days a D_k − Spec.mtm V days a D_{k−1}` (`D_{−1}` = the eve
  of the window): the change of the exact mark-to-market value inside the period, charged with the valuation steps
  inside that period only.
-/
namespace Knut.C03
open Knut Knut.Dec Knut.MTM Knut.LedgerCommand
open Knut.Table (Cell)

/-! ## `--diff` -/

/-- **pipeline level, two period ends `F < D` inside the window** (see `MTM.run_account_between`): the inserts on an
asset/liability account aligned to column dates in `(F, D]` total `Spec.mtm … D − Spec.mtm … F` up to
`Spec.stepBound … F D` units of the 8th decimal -/
theorem C03_account_between (cfg : BalCfg) (v : Commodity) (a : Account) (days : List Day) (stF : BalState) (F D : Int)
    (hv : cfg.valuation = some v) (hal : a.isAL = true) (hpl : Plain cfg) (hs : Sorted days)
    (hcons : ∀ d ∈ days, ∀ t ∈ d.transactions, t.date = d.date)
    (hz : ∀ d ∈ days, ∀ t ∈ d.transactions, ∀ p ∈ t.postings, p.value = 0)
    (hinc : List.Pairwise (· < ·) (cfg.periods.map (·.stop))) (hD : D ∈ cfg.periods.map (·.stop))
    (hF : F ∈ cfg.periods.map (·.stop)) (hFD : F < D)
    (hFin : cfg.span.contains F = true) (hDin : cfg.span.contains D = true)
    (h : Balance.run cfg days = .ok stF) :
    ∃ mD mF, Spec.mtm v days a D = some mD ∧ Spec.mtm v days a F = some mF ∧
      ((accCum a stF.entries D - accCum a stF.entries F) - (mD - mF)).abs ≤
        (Spec.stepBound v days a F D : Rat) / (10 : Rat) ^ 8 := by
  obtain ⟨mD, mF, h1, h2, h3, h4⟩ := run_account_between cfg v a days stF F D hv hal hpl hs hcons hz hinc hD hF hFD hFin hDin h
  refine ⟨mD, mF, h1, h2, ?_⟩
  rw [← mul_ulp]
  exact abs_le_of h3 h4

/-- the flags of a valued report with per-account rows (cumulative or `--diff`) -/
structure RowFlags (f : BalanceFlags) (v : Commodity) : Prop where
  valuation : f.valuation = some v
  show_ : f.showCommodities = none
  mapping : f.mapping = []
  remap : ∀ s, f.remap s = false
  acc : ∀ s, f.accountFilter s = true
  com : ∀ s, f.commodityFilter s = true

theorem RowFlags.plain {f : BalanceFlags} {v : Commodity} (hf : RowFlags f v) (part : Partition) : Plain (cfgOf f part) :=
  ⟨hf.mapping, hf.remap, hf.acc, hf.com⟩

/-- the eve of column `k`: the previous period end, or the day before the window start for the first column -/
def colEve (part : Partition) (k : Nat) : Int :=
  match k with
  | 0 => part.span.start - 1
  | j + 1 => part.endDates.getD j 0

/-- **the cells of a `--diff` report.**  For every valued `--diff` report with per-account rows and every directive list
whose postings arrive unvalued: whenever the command produces a report and the asset/liability account `a` has an
insert, the rendered table has the row of `a`, and for every column `k` (period end `D_k`, eve `F_k` = the previous
period end, or the day before the window start for `k = 0`) the exact mark-to-market values at `D_k` and `F_k` exist
and the cell shows their difference up to `Spec.stepBound V days a F_k D_k` units of the 8th decimal — the valuation
steps inside the period only. -/
theorem C03_command_cell_diff (f : BalanceFlags) (v : Commodity) (hf : RowFlags f v) (hdf : f.diff = true)
    (ds : List Directive) (hz : ∀ t, Directive.tx t ∈ ds → ∀ p ∈ t.postings, p.value = 0)
    (es : List Entry) (part : Partition) (h : BalanceCmd.entries f ds = .ok (es, part))
    (a : Account) (hal : a.isAL = true) (hmem : ∃ e ∈ es, e.account = a) :
    ∃ pre post cells,
      (BalanceReport.table (BalanceCmd.renderCfg f part) es).rows =
        pre ++ [Cell.text (a.segments.getLast?.getD "").toList .left ((2 * (a.segments.length - 1) : Nat) : Int) :: cells] ++ post ∧
      cells.length = part.endDates.length ∧
      ∀ (k : Nat) (hk : k < part.endDates.length) (hk' : k < cells.length),
        ∃ mD mF, Spec.mtm v (Builder.ofList ds).build a part.endDates[k] = some mD ∧
          Spec.mtm v (Builder.ofList ds).build a (colEve part k) = some mF ∧
          (cellVal cells[k] - (mD - mF)).abs ≤
            (Spec.stepBound v (Builder.ofList ds).build a (colEve part k) part.endDates[k] : Rat) / (10 : Rat) ^ 8 := by
  obtain ⟨hpart, st, hrun, rfl⟩ := entries_ok h
  obtain ⟨e, he, rfl⟩ := hmem
  have hcv : (cfgOf f part).valuation = some v := hf.valuation
  have hpl := hf.plain part
  have hne := window_nonempty_of_entry (cfgOf f part) v hcv hpl _ st hrun e he hal
  have hspan := Performance.newPartition_span hpart
  obtain ⟨hinc, hin⟩ := Performance.endDates_increasing hpart
  have hne' : (BalanceCmd.window f (Builder.ofList ds)).start ≤ (BalanceCmd.window f (Builder.ofList ds)).stop := by
    rw [← hspan]; exact hne
  generalize hrc : BalanceCmd.renderCfg f part = rc
  have hrv : rc.valuation.isSome = true := by rw [← hrc]; unfold BalanceCmd.renderCfg; rw [hf.valuation]; rfl
  have hrs : ∀ s, rc.showCommodities s = false := by
    intro s; rw [← hrc]; unfold BalanceCmd.renderCfg; rw [hf.show_]; rfl
  have hrd : rc.diff = true := by rw [← hrc]; exact hdf
  have hre : rc.endDates = part.endDates := by rw [← hrc]; rfl
  have hdc : (rc.valuation.isNone || rc.hasShowCommodities) = false := by
    rw [← hrc]; unfold BalanceCmd.renderCfg; rw [hf.valuation, hf.show_]; rfl
  obtain ⟨pre, post, hrows⟩ := table_has_row rc st.entries e he hal
  rw [hdc] at hrows
  obtain ⟨cells, hnode, hlen, hcell⟩ := nodeRows_valued_diff rc hrv hrs hrd (st.entries.filter (fun e => e.account.isAL)) false
    e.account.segments (2 * (e.account.segments.length - 1))
  rw [hnode] at hrows
  refine ⟨pre, post, cells, hrows, by rw [hlen, hre], ?_⟩
  intro k hk hk'
  have hvs : (cfgOf f part).valuation.isSome = true := by rw [hcv]; rfl
  have hdates : ∀ x ∈ st.entries.filter (fun e => e.account.isAL), x.account = e.account →
      ∀ D', x.date = some D' → D' ∈ part.endDates := by
    intro x hx _ D' hd
    obtain ⟨txs, _, hes⟩ := run_pipelineRun (cfgOf f part) _ st hrun
    have hx' := (List.mem_filter.mp hx).1
    rw [hes] at hx'
    obtain ⟨t, _, p, _, rfl⟩ := mem_entries_plain (cfgOf f part) hpl hvs txs x hx'
    exact alignIn_mem part.periods t.date D' hd
  have hk2 : k < rc.endDates.length := by rw [hre]; exact hk
  have hcv' := hcell k hk2 hk'
  simp only [Bool.false_eq_true, if_false] at hcv'
  have hreK : rc.endDates[k] = part.endDates[k] := by simp only [hre]
  rw [hcv', hreK]
  have hin' : ∀ D ∈ part.endDates, (cfgOf f part).span.contains D = true := by
    intro D hD
    have := hin hne' _ hD
    show part.span.contains _ = true
    rw [hspan]; exact this
  have hDmem : part.endDates[k] ∈ part.endDates := List.getElem_mem hk
  cases k with
  | zero =>
    rw [diff_eq_accCum_zero e.account _ part.endDates hinc hdates hk, accCum_al e.account hal]
    obtain ⟨mD, mF, h1, h2, h3⟩ := C03_account_window (cfgOf f part) v e.account (daysOf f ds part) st part.endDates[0]
      hcv hal hpl (daysOf_sorted f ds part) (daysOf_consistent f ds part) (daysOf_zero f ds part hz) hinc hDmem
      (hin' _ hDmem) hrun
    rw [mtm_daysOf] at h1 h2
    rw [stepBound_daysOf] at h3
    exact ⟨mD, mF, h1, h2, h3⟩
  | succ j =>
    have hj : j < part.endDates.length := by omega
    have hFmem : part.endDates[j] ∈ part.endDates := List.getElem_mem hj
    have hFD : part.endDates[j] < part.endDates[j + 1] := by
      have := List.pairwise_iff_getElem.mp hinc j (j + 1) hj hk (by omega)
      exact this
    rw [diff_eq_accCum_sub e.account _ part.endDates hinc hdates j hk, accCum_al e.account hal, accCum_al e.account hal]
    obtain ⟨mD, mF, h1, h2, h3⟩ := C03_account_between (cfgOf f part) v e.account (daysOf f ds part) st
      part.endDates[j] part.endDates[j + 1]
      hcv hal hpl (daysOf_sorted f ds part) (daysOf_consistent f ds part) (daysOf_zero f ds part hz) hinc hDmem hFmem hFD
      (hin' _ hFmem) (hin' _ hDmem) hrun
    rw [mtm_daysOf] at h1 h2
    rw [stepBound_daysOf] at h3
    have hev : colEve part (j + 1) = part.endDates[j] := by
      unfold colEve
      simp only [List.getD_eq_getElem?_getD, List.getElem?_eq_getElem hj, Option.getD_some]
    rw [hev]
    exact ⟨mD, mF, h1, h2, h3⟩

/-! ### Non-vacuity (`--diff`)

The journal of `Properties/C03Report.lean`, reported daily from day 2 to day 4 with `--diff`, valued in CHF.  The row of
`Assets:A` shows 1.75, 2.91666665, −1.33333333; `Spec.mtm` is 100 on the eve (day 1), then 101.75, 104.666666655,
103.333333325: the differences are 1.75, 2.916666655 (deviation 5·10⁻⁹, bound 1·10⁻⁸: one price day, no booking in the
period) and −1.33333333 (bound 1·10⁻⁸: one non-zero USD booking). -/

def exFlagsD : BalanceFlags := { valuation := some "CHF", from? := some 2, to := 4, interval := .daily, diff := true }

example : RowFlags exFlagsD "CHF" ∧ exFlagsD.diff = true := ⟨⟨rfl, rfl, rfl, fun _ => rfl, fun _ => rfl, fun _ => rfl⟩, rfl⟩

example : (match BalanceCmd.entries exFlagsD exDirs with
    | .ok (es, part) =>
      decide (part.span = ⟨2, 4⟩ ∧ part.endDates = [2, 3, 4] ∧ (∃ e ∈ es, e.account = exA) ∧
        [Cell.text "A".toList .left 2, Cell.num (7/4), Cell.num (291666665/100000000), Cell.num (-(133333333/100000000))] ∈
          (BalanceReport.table (BalanceCmd.renderCfg exFlagsD part) es).rows ∧
        colEve part 0 = 1 ∧ colEve part 1 = 2 ∧ colEve part 2 = 3 ∧
        Spec.mtm "CHF" (Builder.ofList exDirs).build exA 1 = some 100 ∧
        Spec.mtm "CHF" (Builder.ofList exDirs).build exA 2 = some (10175/100) ∧
        Spec.mtm "CHF" (Builder.ofList exDirs).build exA 3 = some (104666666655/1000000000) ∧
        Spec.mtm "CHF" (Builder.ofList exDirs).build exA 4 = some (103333333325/1000000000) ∧
        Spec.stepBound "CHF" (Builder.ofList exDirs).build exA 2 3 = 1 ∧
        Spec.stepBound "CHF" (Builder.ofList exDirs).build exA 3 4 = 1)
    | .error _ => false) = true := by decide +kernel

end Knut.C03
