import Knut.Properties.C02Go
import Knut.FactsAgree.TransProcessAllBalance
/-!
# C02 (the ledger clause) on the generated definitions, over a WHOLE journal — without the relational hypothesis of `C02Go`

Without valuation and closing `ComputePrices`, `Valuate` and `CloseAccounts` are nil processors and no Go map is ranged over by a
stage: the re-listed run `RunOrd` of `FactsAgree/TransProcessAllBalance.lean` IS `Balance.run` (`run_of_RunOrd`), and the accounts
that reach the query stage are those of the journal (`queryWf_plain`).  **`C02_ledger_cells_process_go`**: whenever the sequential
run (`processAllBalance`: `Pipeline.seqRun` on the translated closures, justified by `C19_confluent`) of `check`, `Filter`, `Query.Into`
over the Go journal succeeds, the cells `SumBy` computes at any node of the report that the log of the translated `Query.Into` leaves are
the LEDGER entries of the journal booked on that path.  No hypothesis relates the processed Go journal to the model any more.
-/
namespace Knut.C02Go2
open Knut Knut.GoSem Knut.Balance
open Knut.Generated.Go
open Knut.FactsAgree.TransAmountsSum Knut.FactsAgree.TransReport Knut.FactsAgree.TransRender Knut.FactsAgree.TransProcessAll
open Knut.FactsAgree.TransQuery (entryOf)

/-- without valuation and closing the transactions that reach the query stage are transactions of the day -/
theorem queryWf_plain (cfg : BalCfg) (hv : cfg.valuation = none) (hc : cfg.close = false) (d : Day)
    (hd : ∀ t ∈ d.transactions, ∀ p ∈ t.postings, p.account.wf = true) : QueryWf cfg d := by
  intro st0 st1 txs h
  unfold Balance.dayTxs at h
  simp only [bind, Except.bind] at h
  cases hcs : Balance.checkStage st0 d with
  | error e => rw [hcs] at h; cases h
  | ok s1 =>
    rw [hcs] at h
    simp only [Balance.valuationStage, hv, Balance.closeStage, hc, Bool.false_eq_true, if_false, Except.ok.injEq, Prod.mk.injEq] at h
    obtain ⟨_, rfl⟩ := h
    unfold Balance.filterStage
    split
    · exact hd
    · intro t ht; cases ht

/-- **without closing, the cells of a row are the ledger's, on the translated pipeline over a whole journal** -/
theorem C02_ledger_cells_process_go (cur : String → Bool) (cfg : BalCfg) (P : BalPar) (q : journal.Query) (hP : ParOK cur cfg P q)
    (G0 : BalGo) (hinit : BalInv cur cfg q (fusedInit G0) {}) (gdays : List journal.Day) (days : List Day)
    (hdays : DaysRel cur gdays days) (hwf : ∀ d ∈ days, ∀ t ∈ d.transactions, ∀ p ∈ t.postings, p.account.wf = true)
    (out : List journal.Day) (hgo : processAllBalance P G0 gdays = some out)
    (hv : cfg.valuation = none) (hc : cfg.close = false) (hd : C02.DaysConsistent days)
    (part : date.Partition) (al : Bool) (byCommodity : Bool) :
    ∃ G' st, runDays (fusedBalance P) (fusedInit G0) gdays = .ok (G', out) ∧ Balance.run cfg days = .ok st ∧
      ((∀ e ∈ G'.2.c, e.1.Commodity = Knut.FactsAgree.TransPosting.commodityGo cur e.1.Commodity.name ∧ e.1.Commodity.name ≠ "") →
       (∀ e ∈ G'.2.c, e.1.Account = GoZero.zero ∨ ∃ a : Knut.Account, e.1.Account = Knut.FactsAgree.TransAccount.accountGo a) →
        ∀ (p : List String) (m : Node), MNode.nodeAt? (C02Go.treeOf al (C02Go.reportOf part G'.2.c)) p = some m →
          ∀ (order1 order2 : List amounts.Key), order1.Perm (AMap.keys m.Value.Amounts) →
            (∀ x, (∃ k ∈ AMap.keys m.Value.Amounts, mfR byCommodity k = x) → x ∈ order2) →
            ∃ vals, amounts.Amounts.SumBy m.Value.Amounts none (pureFn (mfR byCommodity)) order1 order2 = GoSem.Outcome.ok vals ∧
              ∀ (c : Option Knut.Commodity), (∀ s, c = some s → s ≠ "") → ∀ d : Int, d ≠ 0 →
                AMap.get vals (amounts.DateCommodityKey d (comGo cur c)) 0 =
                  BalanceReport.cellAt (((Spec.ledgerEntries cfg days).filter (fun x => x.account.isAL == al)).filter
                    (fun x => decide (x.account.segments = p))) byCommodity c d) := by
  obtain ⟨G', st, hr, hrun, _, hlog⟩ := processAllBalance_agrees_partial cur cfg P q hP G0 hinit gdays days hdays
    (fun d hdm => queryWf_plain cfg hv hc d (hwf d hdm)) out hgo
  have hrun' : Balance.run cfg days = .ok st := run_of_RunOrd cfg hv hc days {} st hrun
  refine ⟨G', st, hr, hrun', ?_⟩
  intro hcom hacc p m hm order1 order2 ho1 ho2
  have hlog' : esOf G'.2.c = st.entries := hlog
  exact C02Go.C02_ledger_cells_go_partial cur part G'.2.c al byCommodity hcom p m hm ho1 ho2 cfg hv hc days hd st hrun'
    (by rw [C02Go.esOf_sec G'.2.c hacc al, hlog'])

end Knut.C02Go2
