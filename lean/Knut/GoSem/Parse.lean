import Knut.GoSem.Basic
import Knut.Basic.Date
/-!
# Meaning of `time.Parse("2006-01-02", s)` and `decimal.NewFromString(s)` in the translated MODEL LAYER code
(`harness/trans_units_create.go`: `directives.Date.Parse`, `directives.Decimal.Parse`, `posting.Create`)

Both take their meaning from the model's own definitions, copied here so that the generated modules need not import the model
(`FactsAgree/TransCreate.lean` proves the copies equal to the originals: `ParseISO_model`, `NewFromString_model`):

* `Time.ParseISO` is `FromSyntax.parseDate` on the bytes of the text (exactly `dddd-dd-dd` in ASCII digits, month 1…12, day within
  the month; the day number of the date) — the function the loader model uses, compared with real Go by the stream `loadtext` of C04;
* `Decimal.NewFromString` is `Import.newFromString` (optional exponent after the first `E`/`e`, at most one `.` in the mantissa,
  optionally signed digit strings, the `int32` bounds of the exponent) — the function the importer models use, compared with real Go
  by the stream `lib-dec` of C13.

Both are compared with the real functions once more, on their own, by the stream `gosemparse` of C11 (`harness/gosem_parse.go`,
`Driver/GoSemParse.lean`): random texts near the accepted ones (wrong lengths, separators, out-of-range months and days, leap days,
signs, several points, exponents, spaces, non-ASCII digits).

An `error` keeps the message class only (`GoSem.Error`); on an error Go returns the zero `time.Time` / `decimal.Decimal`.
-/
namespace Knut.GoSem

namespace Parse

def asciiDigit (b : UInt8) : Bool := 48 ≤ b.toNat && b.toNat ≤ 57

def digitsVal (bs : List UInt8) : Nat := bs.foldl (fun acc b => acc * 10 + (b.toNat - 48)) 0

def daysIn (y m : Int) : Int :=
  if m = 2 then (if Date.isLeap y then 29 else 28)
  else if m = 4 ∨ m = 6 ∨ m = 9 ∨ m = 11 then 30 else 31

/-- `time.Parse("2006-01-02", s)` on the bytes of `s` -/
def parseDate (bs : List UInt8) : Option Int :=
  match bs with
  | [y1, y2, y3, y4, d1, m1, m2, d2, a1, a2] =>
    if d1 = 45 ∧ d2 = 45 ∧ [y1, y2, y3, y4, m1, m2, a1, a2].all asciiDigit then
      let y : Int := digitsVal [y1, y2, y3, y4]
      let m : Int := digitsVal [m1, m2]
      let d : Int := digitsVal [a1, a2]
      if 1 ≤ m ∧ m ≤ 12 ∧ 1 ≤ d ∧ d ≤ daysIn y m then some (Date.ofCivil y m d) else none
    else none
  | _ => none

def isDig (c : Char) : Bool := '0' ≤ c && c ≤ '9'

def charsVal (cs : List Char) : Nat := cs.foldl (fun acc c => acc * 10 + (c.toNat - '0'.toNat)) 0

/-- `[+-]?[0-9]+` as `big.Int.SetString(_, 10)` and `strconv.ParseInt(_, 10, _)` accept it -/
def parseSignedInt (cs : List Char) : Option Int :=
  let neg := cs.head? == some '-'
  let ds := match cs with
    | '-' :: r => r
    | '+' :: r => r
    | _ => cs
  if ds.isEmpty || !ds.all isDig then none
  else some (if neg then -(charsVal ds : Int) else (charsVal ds : Int))

def int32Min : Int := -2147483648
def int32Max : Int := 2147483647

/-- value `v · 10^e` -/
def scale10 (v : Int) (e : Int) : Rat :=
  if 0 ≤ e then ((v * (10 : Int) ^ e.toNat : Int) : Rat) else mkRat v (10 ^ (-e).toNat)

/-- `decimal.NewFromString` -/
def newFromString (s : String) : Option Rat :=
  let cs := s.toList
  let mant := cs.takeWhile (fun c => c != 'E' && c != 'e')
  let rest := cs.dropWhile (fun c => c != 'E' && c != 'e')
  let expo : Option Int := match rest with
    | [] => some 0
    | _ :: e => (parseSignedInt e).bind (fun x => if int32Min ≤ x && x ≤ int32Max then some x else none)
  match expo with
  | none => none
  | some ex =>
    if (mant.filter (· == '.')).length > 1 then none else
    let intChars := mant.filter (· != '.')
    let fracLen : Nat := match mant.dropWhile (· != '.') with
      | [] => 0
      | _ :: f => f.length
    match parseSignedInt intChars with
    | none => none
    | some v =>
      let e : Int := ex - fracLen
      if e < int32Min || int32Max < e then none else some (scale10 v e)

end Parse

namespace Time
/-- `time.Parse("2006-01-02", s)`: the day number, or the error (then the zero time: day 0) -/
def ParseISO (s : String) : Int × Option Error :=
  match Parse.parseDate s.toByteArray.data.toList with
  | some d => (d, none)
  | none => (0, some ⟨"time.Parse"⟩)
end Time

namespace Decimal
/-- `decimal.NewFromString(s)`: the value, or the error (then the zero decimal) -/
def NewFromString (s : String) : Rat × Option Error :=
  match Parse.newFromString s with
  | some r => (r, none)
  | none => (0, some ⟨"can't convert %s to decimal"⟩)
end Decimal

end Knut.GoSem
