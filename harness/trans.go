package main

// Go→Lean translator: the second, mechanical tie between /repo's source and the Lean model.
//
// `harness extract` translates the functions listed in trans_units.go from a delimited Go subset into
// Lean 4 definitions (lean/Knut/Generated/Trans<Pkg>.lean, namespace Knut.Generated.Go.<pkg>); the meaning
// of the primitives they call is lean/Knut/GoSem/*.lean; lean/Knut/FactsAgree/Trans<Pkg>.lean proves each
// generated definition equal to the hand-written model function the property theorems are about.
//
// The subset (everything else is REJECTED with file:line and the construct, never approximated):
//   types       int/int64 (unbounded Int: overflow not modelled), bool, string, time.Time (UTC-midnight dates),
//               decimal.Decimal, named ints with constants, structs, slices, maps (association lists), error
//   statements  x := e, x = e, x op= e, x++, x.f = e (on a local copy or through a pointer receiver: state passing),
//               xs[i] = e, a, b = e1, e2, var x T, if/else, switch (no fallthrough), return, panic,
//               for range over slices (→ List.foldl / foldlE), three-clause and condition-only `for` (→ recursion on
//               explicit fuel derived from the first comparison of the loop condition), break/continue, blocks
//   expressions literals, constants, arithmetic with TRUNCATING / and %, comparisons, && || !, field selection,
//               calls of translated functions and of the prelude, append, len, conversions between integer types,
//               composite literals, indexing and slicing (panic outside the bounds)
// A function that can panic, index, slice, divide by a non-constant or loop on fuel lives in the Outcome monad.

import (
	"fmt"
	"go/ast"
	"go/constant"
	"go/printer"
	"go/token"
	"go/types"
	"sort"
	"strconv"
	"strings"
)

type trReject struct {
	pos token.Pos
	msg string
}

func trFail(pos token.Pos, format string, a ...any) {
	panic(trReject{pos, fmt.Sprintf(format, a...)})
}

// trUnit: one Go package → one generated Lean module
type trUnit struct {
	pkg   string   // path below the repository root, e.g. "lib/common/date"
	mod   string   // Lean module suffix: Knut.Generated.Trans<mod>
	funcs []string // "StartOf", "Period.Clip" (methods as Type.Method)
	// agree: functions whose agreement theorems live in Knut.FactsAgree.Trans<agree[f]> instead of Trans<mod> (a package whose
	// agreement is split over several modules); used for the `trans-reject <Module> <func>` lines that bin/check matches
	agree map[string]string
	// mapOrder: functions that range over a map get the iteration order as an explicit list argument
}

type trFunc struct {
	unit     *trUnit
	pkg      *trPkg
	decl     *ast.FuncDecl
	obj      *types.Func
	leanName string // relative to the package namespace
	effect   bool
	rejected *trReject
	text     string
	deps     []*trFunc
	mut      []int          // indices of the parameters (receiver = 0 for methods) of pointer or map type assigned through
	mutObjs  []types.Object // the same as objects; their new values are the first components of the result
	resType  string         // Lean type of the complete result
	norder   int            // number of extra parameters (map iteration orders, explicit fuels)
	extras   []string       // their Lean types (for callers, which pass their own extra parameters on)
}

type trTranslator struct {
	l       *trLoader
	units   []*trUnit
	funcs   map[*types.Func]*trFunc
	byUnit  map[*trUnit][]*trFunc
	unitOf  map[string]*trUnit // import path → unit
	rejects []string
	// per unit: emitted type/const/var declarations, in order
	decls    map[*trUnit][]string
	declSeen map[types.Object]bool
	imports  map[*trUnit]map[*trUnit]bool
	omitted  map[types.Object]map[string]bool // struct type → fields left out (untranslatable types)
	noEq     map[types.Object]bool            // struct types with a field of function type
	// trees of lib/common/multimap (trans_tree.go)
	treePinOK  bool
	treePinErr string
	usesTree   map[*trUnit]bool
	// write-only builder objects (trans_builder.go)
	builderMs       map[string]*trBuilderMethod
	builderDeclared bool
}

func (t *trTranslator) leanNS(u *trUnit) string {
	return "Knut.Generated.Go." + trMangle(u.pkg[strings.LastIndex(u.pkg, "/")+1:])
}

// qualified Lean name of a declaration `name` of unit u as seen from unit `from`
func (t *trTranslator) qname(from, u *trUnit, name string) string {
	if from == u {
		return name
	}
	if t.imports[from] == nil {
		t.imports[from] = map[*trUnit]bool{}
	}
	t.imports[from][u] = true
	return t.leanNS(u) + "." + name
}

func (t *trTranslator) unitOfPkg(p *types.Package) *trUnit {
	if p == nil {
		return nil
	}
	return t.unitOf[p.Path()]
}

// ---------------------------------------------------------------------------------------------- types

func trIsRune(ty types.Type) bool {
	b, ok := ty.(*types.Basic)
	return ok && (b.Name() == "rune" || b.Kind() == types.UntypedRune)
}

func trIsIntKind(b *types.Basic) bool {
	if b.Name() == "rune" || b.Kind() == types.UntypedRune {
		return false // a rune is a Char: compared, tested and written, never computed with
	}
	switch b.Kind() {
	case types.Int, types.Int64, types.Int32, types.UntypedInt:
		return true
	}
	return false
}

func trIsInt(ty types.Type) bool {
	b, ok := ty.Underlying().(*types.Basic)
	return ok && trIsIntKind(b)
}

func trIsNamed(ty types.Type, pkg, name string) bool {
	n, ok := ty.(*types.Named)
	if !ok {
		return false
	}
	return n.Obj().Pkg() != nil && n.Obj().Pkg().Path() == pkg && n.Obj().Name() == name
}

// the harness module is go 1.21: go/types does not materialise aliases
func trUnalias(ty types.Type) types.Type { return ty }

func trUnparen(e ast.Expr) ast.Expr {
	for {
		p, ok := e.(*ast.ParenExpr)
		if !ok {
			return e
		}
		e = p.X
	}
}

func trIsTime(ty types.Type) bool    { return trIsNamed(ty, "time", "Time") }
func trIsDecimal(ty types.Type) bool { return trIsNamed(ty, "github.com/shopspring/decimal", "Decimal") }
func trIsError(ty types.Type) bool {
	n, ok := ty.(*types.Named)
	return ok && n.Obj().Pkg() == nil && n.Obj().Name() == "error"
}

// leanType translates a Go type as seen from unit `from`; declarations of named knut types are emitted on demand.
func (t *trTranslator) leanType(from *trUnit, ty types.Type, pos token.Pos) string {
	ty = trUnalias(ty)
	if trIsDropped(ty) {
		trFail(pos, "type %s is not part of the translated state (trans_units_mapping.go)", ty)
	}
	switch {
	case trIsTime(ty):
		return "Int"
	case trIsDecimal(ty):
		return "Rat"
	case trIsError(ty):
		return "(Option Error)"
	}
	switch x := ty.(type) {
	case *types.Basic:
		switch {
		case trIsRune(x):
			return "Char"
		case trIsIntKind(x):
			return "Int"
		case x.Kind() == types.Bool || x.Kind() == types.UntypedBool:
			return "Bool"
		case x.Kind() == types.String || x.Kind() == types.UntypedString:
			return "String"
		case trIsFloatKind(x):
			return "Rat" // float64 under the assumption "exact arithmetic" (trans_units_perf.go, GoSem/Float.lean)
		}
		trFail(pos, "type %s is outside the subset", x)
	case *types.Named:
		if x.Obj().Pkg() == nil {
			trFail(pos, "type %s is outside the subset", x)
		}
		if op, ok := trOpaque[x.Obj().Pkg().Path()+"."+x.Obj().Name()]; ok {
			return op
		}
		if r, ok := t.createNodeType(x); ok {
			return r // a struct of the syntax tree: the structure of the syntax-layer translator (trans_units_create.go)
		}
		if r, ok := t.treeType(from, x, pos); ok {
			return r
		}
		if x.Obj().Pkg().Path() == "strings" && x.Obj().Name() == "Builder" {
			return "String" // the text written so far
		}
		if trIsWriter(x) {
			return "String" // io.Writer: the text written so far (trans_units_jprinter.go)
		}
		if x.Obj().Pkg().Path() == "time" && trIsInt(x) {
			return "Int" // time.Month, time.Weekday
		}
		u := t.unitOfPkg(x.Obj().Pkg())
		if u == nil {
			trFail(pos, "type %s belongs to a package that is not translated", x)
		}
		t.needType(u, x.Origin(), pos)
		base := t.qname(from, u, trMangle(x.Obj().Name()))
		if from == u && t.methodNamed(u, trMangle(x.Obj().Name())) {
			base = t.leanNS(u) + "." + base // inside `def T.Day …` the bare name `Day` would be the method
		}
		if x.TypeArgs() != nil && x.TypeArgs().Len() > 0 {
			parts := []string{base}
			for i := 0; i < x.TypeArgs().Len(); i++ {
				if f, ok := trIdentityField(x.TypeArgs().At(i)); ok {
					parts = append(parts, t.leanType(from, f.Type(), pos)) // a pointer identified with one of its fields (trIdentityKey)
					continue
				}
				parts = append(parts, t.leanType(from, x.TypeArgs().At(i), pos))
			}
			return "(" + strings.Join(parts, " ") + ")"
		}
		return base
	case *types.TypeParam:
		return trMangle(x.Obj().Name())
	case *types.Struct:
		if x.NumFields() == 0 {
			return "Unit"
		}
		trFail(pos, "anonymous struct type is outside the subset")
	case *types.Slice:
		if trIsByteSlice(x) {
			return "String" // []byte: the bytes of a text, only passed on to Write (trans_units_jprinter.go)
		}
		return "(List " + t.leanType(from, x.Elem(), pos) + ")"
	case *types.Map:
		if f, ok := trIdentityField(x.Key()); ok {
			return "(AMap " + t.leanType(from, f.Type(), pos) + " " + t.leanType(from, x.Elem(), pos) + ")"
		}
		if _, isPtr := x.Key().Underlying().(*types.Pointer); isPtr && !trIsInterned(x.Key()) {
			trFail(pos, "map keyed by the pointer type %s is outside the subset", x.Key())
		}
		return "(AMap " + t.leanType(from, x.Key(), pos) + " " + t.leanType(from, x.Elem(), pos) + ")"
	case *types.Pointer:
		if r, ok := t.builderType(from, x, pos); ok {
			return r // the log of the calls on a write-only builder object (trans_builder.go)
		}
		if r, ok := t.perfPointerType(from, x, pos); ok {
			return r // Option T for the types of trNilPtr, the map for a pointer to a map (trans_units_perf.go)
		}
		// a pointer to a struct is handled as the struct VALUE; the translator rejects the uses in which the two differ
		// (comparison of pointers, assignment through a pointer that is not the receiver, nil)
		if n, ok := trUnalias(x.Elem()).(*types.Named); ok && n.Obj().Pkg() != nil {
			if op, ok := trOpaque["*"+n.Obj().Pkg().Path()+"."+n.Obj().Name()]; ok {
				return op
			}
			if strings.HasPrefix(n.Obj().Pkg().Path(), trKnutPath+"lib/syntax") {
				return "Ref" // a pointer into the syntax tree: only copied by the translated code (comparison, dereference are rejected)
			}
			if _, ok := n.Underlying().(*types.Struct); ok {
				return t.leanType(from, n, pos)
			}
		}
		trFail(pos, "pointer type %s is outside the subset", x)
	case *types.Signature:
		return t.sigLeanType(from, x, pos)
	case *types.Tuple:
		if x.Len() == 0 {
			return "Unit"
		}
		parts := make([]string, x.Len())
		for i := 0; i < x.Len(); i++ {
			parts[i] = t.leanType(from, x.At(i).Type(), pos)
		}
		if len(parts) == 1 {
			return parts[0]
		}
		return "(" + strings.Join(parts, " × ") + ")"
	}
	trFail(pos, "type %s is outside the subset", ty)
	return ""
}

// trInterned: struct types whose pointers are interned by a registry (one pointer per name, never copied): a pointer to them
// is handled as the struct VALUE also where pointers are compared or used as map keys.
var trInterned = map[string]bool{
	trKnutPath + "lib/model/commodity.Commodity": true,
	trKnutPath + "lib/model/account.Account":     true,
}

func trIsInterned(ty types.Type) bool {
	p, ok := ty.Underlying().(*types.Pointer)
	if !ok {
		return false
	}
	n, ok := p.Elem().(*types.Named)
	return ok && n.Obj().Pkg() != nil && trInterned[n.Obj().Pkg().Path()+"."+n.Obj().Name()]
}

// trPinned: functions of /repo that the translator does not translate but gives a fixed meaning in the prelude (generic helpers).
// The meaning is valid for the pinned source text only: if the text in /repo differs, every function using it is rejected.
type trPin struct {
	src  string // go/printer text of the declaration, whitespace-normalised
	lean string // prelude function for plain calls ("" = only usable in the idiom the translator knows)
}

var trPinned = map[string]trPin{
	trKnutPath + "lib/common/compare.Ordered": {"func Ordered[T constraints.Ordered](t1, t2 T) Order { return cmp.Compare(t1, t2) }", "cmpOrdered"},
	trKnutPath + "lib/common/dict.Keys":       {"func Keys[K comparable, V any](m map[K]V) []K { res := make([]K, 0, len(m)) for k := range m { res = append(res, k) } return res }", ""},
	trKnutPath + "lib/common/compare.Sort":    {"func Sort[T any](ts []T, cmp func(T, T) Order) { sort.Slice(ts, func(i, j int) bool { return cmp(ts[i], ts[j]) == Smaller }) }", ""},
	// dict.SortedKeys(m, cmp) = Keys(m) sorted by sort.Slice with less = (cmp == Smaller): for a comparator that is a strict total order
	// on the (distinct) keys the result does not depend on the map's iteration order nor on the sorting algorithm: prelude `sortedKeys`
	trKnutPath + "lib/common/dict.SortedKeys": {"func SortedKeys[K comparable, V any](m map[K]V, c compare.Compare[K]) []K { res := Keys(m) compare.Sort(res, c) return res }", "sortedKeys"},
	trKnutPath + "lib/common/dict.Values":       {"func Values[K comparable, V any](m map[K]V) []V { res := make([]V, 0, len(m)) for _, v := range m { res = append(res, v) } return res }", ""},
	// dict.SortedValues(m, cmp) = the values sorted by sort.Slice with less = (cmp == Smaller): independent of the iteration order and of the
	// sorting algorithm when cmp is a strict total order on the values that occur: prelude `sortedValues`
	trKnutPath + "lib/common/dict.SortedValues": {"func SortedValues[K comparable, V any](m map[K]V, c compare.Compare[V]) []V { res := Values(m) compare.Sort(res, c) return res }", "sortedValues"},
	trKnutPath + "lib/common/dict.GetDefault": {"func GetDefault[K comparable, V any](m map[K]V, k K, c func() V) V { v, ok := m[k] if !ok { v = c() m[k] = v } return v }", ""},
}

// trPinDeps: pins whose meaning also depends on other pinned texts
var trPinDeps = map[string][]string{
	trKnutPath + "lib/common/dict.SortedKeys":   {trKnutPath + "lib/common/dict.Keys", trKnutPath + "lib/common/compare.Sort"},
	trKnutPath + "lib/common/dict.SortedValues": {trKnutPath + "lib/common/dict.Values", trKnutPath + "lib/common/compare.Sort"},
}

func (t *trTranslator) checkPinned(f *types.Func, pos token.Pos) {
	full := f.Origin().FullName()
	for _, dep := range trPinDeps[full] {
		i := strings.LastIndex(dep, ".")
		if p, err := t.l.load(dep[:i]); err == nil {
			if o, ok := p.tpkg.Scope().Lookup(dep[i+1:]).(*types.Func); ok {
				t.checkPinned(o, pos)
				continue
			}
		}
		trFail(pos, "%s: pinned helper %s not found", full, dep)
	}
	pin := trPinned[full]
	p := t.l.pkgs[f.Pkg().Path()]
	if p == nil {
		trFail(pos, "%s: package not loaded", full)
	}
	for _, file := range p.files {
		for _, d := range file.Decls {
			fd, ok := d.(*ast.FuncDecl)
			if !ok || p.info.Defs[fd.Name] != f.Origin() {
				continue
			}
			var b strings.Builder
			cp := *fd
			cp.Doc = nil
			if err := printer.Fprint(&b, t.l.fset, &cp); err != nil {
				trFail(pos, "%s: %v", full, err)
			}
			got := strings.Join(strings.Fields(b.String()), " ")
			if got != pin.src {
				trFail(pos, "the source of %s changed (the prelude gives a meaning to `%s` only): %s", full, pin.src, got)
			}
			return
		}
	}
	trFail(pos, "%s: declaration not found", full)
}

// trOpaque: Go types that the translated code only passes around and compares; each is one fixed Lean type.
// `*commodity.Commodity` and `*account.Account` are interned by the registry (one pointer per name), so pointer
// equality is equality of names: the Lean side uses the name.
var trOpaque = map[string]string{}

func trJoinLines(ls []string) string {
	if len(ls) == 0 {
		return ""
	}
	return strings.Join(ls, "\n") + "\n"
}

func (t *trTranslator) structObj(ty types.Type) types.Object {
	if p, ok := ty.Underlying().(*types.Pointer); ok {
		ty = p.Elem()
	}
	if n, ok := ty.(*types.Named); ok {
		return n.Origin().Obj()
	}
	return nil
}

func (t *trTranslator) fieldOmitted(ty types.Type, field string) bool {
	o := t.structObj(ty)
	return o != nil && t.omitted[o][field]
}

func (t *trTranslator) hasOmitted(ty types.Type) bool {
	o := t.structObj(ty)
	return o != nil && (len(t.omitted[o]) > 0 || t.noEq[o])
}

// needType emits the Lean declaration of a named knut type (and, for named ints, of its constants).
func (t *trTranslator) needType(u *trUnit, n *types.Named, pos token.Pos) {
	obj := n.Obj()
	if t.declSeen[obj] {
		return
	}
	t.declSeen[obj] = true
	defer func() {
		if r := recover(); r != nil {
			t.declSeen[obj] = false // not declared after all: the next use fails in the same way
			panic(r)
		}
	}()
	name := trMangle(obj.Name())
	tparams := ""
	if n.TypeParams() != nil {
		for i := 0; i < n.TypeParams().Len(); i++ {
			tparams += " (" + trMangle(n.TypeParams().At(i).Obj().Name()) + " : Type)"
		}
	}
	switch ut := n.Underlying().(type) {
	case *types.Basic:
		lt := t.leanType(u, ut, pos)
		var b strings.Builder
		fmt.Fprintf(&b, "/-- Go: `type %s %s` (%s) -/\nabbrev %s := %s\n", obj.Name(), ut, t.l.relPos(obj.Pos()), name, lt)
		// constants of this type declared in the package, in source order
		scope := obj.Pkg().Scope()
		type kc struct {
			name string
			pos  token.Pos
			val  string
		}
		var cs []kc
		for _, nm := range scope.Names() {
			if c, ok := scope.Lookup(nm).(*types.Const); ok && types.Identical(c.Type(), n) {
				t.declSeen[c] = true
				cs = append(cs, kc{trMangle(c.Name()), c.Pos(), t.constLit(c.Val(), c.Type(), c.Pos())})
			}
		}
		sort.Slice(cs, func(i, j int) bool { return cs[i].pos < cs[j].pos })
		for _, c := range cs {
			fmt.Fprintf(&b, "def %s : %s := %s\n", c.name, name, c.val)
		}
		t.decls[u] = append(t.decls[u], b.String())
	case *types.Struct:
		if tparams != "" {
			trFail(pos, "generic struct type %s is outside the subset", obj.Name())
		}
		// field types first (may emit other declarations)
		var fields []string
		var zeros []string
		for i := 0; i < ut.NumFields(); i++ {
			f := ut.Field(i)
			if f.Embedded() {
				trFail(f.Pos(), "embedded field %s is outside the subset", f.Name())
			}
			// a field whose type is not translatable is OMITTED (fields are independent); using it, or comparing the struct, is rejected
			ft := ""
			func() {
				defer func() {
					if r := recover(); r != nil {
						if _, ok := r.(trReject); !ok {
							panic(r)
						}
						ft = ""
					}
				}()
				if !trKeepOmitted[obj.Pkg().Path()+"."+obj.Name()+"."+f.Name()] { // else omitted by decision (trans_units_mapping.go)
					ft = t.leanType(u, f.Type(), f.Pos())
				}
			}()
			if ft != "" && trNilable[obj.Pkg().Path()+"."+obj.Name()+"."+f.Name()] {
				ft = "(Option " + ft + ")" // none = nil: the code observes the nil-ness of this slice (trans_units_jprinter.go)
			}
			if ft != "" && trNilMap[obj.Pkg().Path()+"."+obj.Name()+"."+f.Name()] {
				ft = "(Option " + ft + ")" // none = nil: the code observes the nil-ness of this map (trans_units_perf.go)
			}
			if ft == "" {
				if t.omitted[obj] == nil {
					t.omitted[obj] = map[string]bool{}
				}
				t.omitted[obj][f.Name()] = true
				continue
			}
			fields = append(fields, fmt.Sprintf("  %s : %s", trMangle(f.Name()), ft))
			zeros = append(zeros, fmt.Sprintf("%s := GoZero.zero", trMangle(f.Name())))
			if trCapFields[obj.Pkg().Path()+"."+obj.Name()+"."+f.Name()] {
				// the capacity of the slice, none = unknown after a reallocation (trans_units_tablerender.go)
				fields = append(fields, fmt.Sprintf("  %s_cap : (Option Int)", trMangle(f.Name())))
				zeros = append(zeros, fmt.Sprintf("%s_cap := some 0", trMangle(f.Name())))
			}
		}
		var b strings.Builder
		note := ""
		if len(t.omitted[obj]) > 0 {
			var om []string
			for k := range t.omitted[obj] {
				om = append(om, k)
			}
			sort.Strings(om)
			note = "; fields of untranslatable types omitted: " + strings.Join(om, ", ")
		}
		deriving := "  deriving DecidableEq, Repr\n"
		if t.typeHasFunc(ut, 0) {
			deriving = "" // a field of function type: no decidable equality
			if t.noEq == nil {
				t.noEq = map[types.Object]bool{}
			}
			t.noEq[obj] = true
		}
		fmt.Fprintf(&b, "/-- Go: `type %s struct` (%s)%s -/\nstructure %s where\n%s%s", obj.Name(), t.l.relPos(obj.Pos()), note, name, trJoinLines(fields), deriving)
		fmt.Fprintf(&b, "instance : GoZero %s := ⟨{ %s }⟩\n", name, strings.Join(zeros, ", "))
		t.decls[u] = append(t.decls[u], b.String())
	case *types.Slice, *types.Map, *types.Signature:
		lt := t.leanType(u, ut, pos)
		t.decls[u] = append(t.decls[u], fmt.Sprintf("/-- Go: `type %s %s` (%s) -/\nabbrev %s%s := %s\n", obj.Name(), ut, t.l.relPos(obj.Pos()), name, tparams, lt))
	case *types.Interface:
		t.needSumType(u, n, pos)
	default:
		trFail(pos, "declaration of type %s (%s) is outside the subset", obj.Name(), ut)
	}
}

func (t *trTranslator) constLit(v constant.Value, ty types.Type, pos token.Pos) string {
	switch v.Kind() {
	case constant.Int:
		s := v.ExactString()
		if strings.HasPrefix(s, "-") {
			return "(" + s + ")"
		}
		return s
	case constant.Bool:
		return strconv.FormatBool(constant.BoolVal(v))
	case constant.String:
		return leanStr(constant.StringVal(v))
	}
	trFail(pos, "constant %s of kind %v is outside the subset", v, v.Kind())
	return ""
}
