import Knut.Proofs.MTMGain
import Knut.Proofs.MTMPlain
/-!
# C03: period closing in a valued report

With `--close` every day whose date is a shown period start books, for every income/expense/equity position
(except `Equity:Equity`), the accumulated quantity and VALUE against `Equity:Equity`.  Here:

* `dayQ_close` – a day of the closing run is the day of the run without closing (same checks, prices, valuation,
  filter: `noClose cfg`) followed by the closing transactions computed from the accumulators before the day;
* `closings_valOn` – the closing transactions book `−(accumulated value)` on every closable position;
* `run_cVal` – the value accumulator of a closable position is the total value booked on it so far (closings included);
* hence (`run_close_reset`) after a closing day the total on a closable position is what the day itself booked.
-/
namespace Knut.MTM
open Knut Knut.Dec Knut.Spec

/-- the configuration without closing -/
def noClose (cfg : BalCfg) : BalCfg := { cfg with close := false }

theorem plain_noClose {cfg : BalCfg} (h : Plain cfg) : Plain (noClose cfg) := ⟨h.mapping, h.remap, h.acc, h.com⟩

/-- the state with other closing accumulators and another insert log -/
def setC (st : BalState) (q v : AMap Position Rat) (es : List Entry) : BalState := { st with cQty := q, cVal := v, entries := es }

theorem setC_self (st : BalState) : setC st st.cQty st.cVal st.entries = st := rfl

theorem setC_setC (st : BalState) (q v q' v' : AMap Position Rat) (es es' : List Entry) :
    setC (setC st q v es) q' v' es' = setC st q' v' es' := rfl

theorem checkStage_setC (st : BalState) (q v : AMap Position Rat) (es : List Entry) (d : Day) :
    Balance.checkStage (setC st q v es) d = (Balance.checkStage st d).map (fun s => setC s q v es) := by
  unfold Balance.checkStage setC
  simp only
  cases Check.day st.chk d <;> rfl

theorem pricesDay_setC (w : Commodity) (st : BalState) (q v : AMap Position Rat) (es : List Entry) (d : Day) :
    Balance.pricesDay w (setC st q v es) d = (Balance.pricesDay w st d).map (fun s => setC s q v es) := by
  unfold Balance.pricesDay setC
  simp only [bind, Except.bind]
  cases d.prices.foldlM (fun g p =>
      match Prices.insert g ⟨p.commodity, p.price, p.target⟩ with
      | some g' => Except.ok g'
      | none => Except.error BalErr.zeroPrice) st.graph <;> rfl

theorem valuateDay_setC (w : Commodity) (st : BalState) (q v : AMap Position Rat) (es : List Entry) (d : Day) :
    Balance.valuateDay w (setC st q v es) d = (Balance.valuateDay w st d).map (fun r => (setC r.1 q v es, r.2)) := by
  unfold Balance.valuateDay setC
  simp only [bind, Except.bind]
  cases Balance.adjustments w d.date st.vPrev st.norm st.vQty with
  | error e => rfl
  | ok adj =>
    simp only
    cases (d.transactions ++ adj).mapM (Balance.valueTx w st.norm) <;> rfl

theorem valuationStage_setC (cfg : BalCfg) (st : BalState) (q v : AMap Position Rat) (es : List Entry) (d : Day) :
    Balance.valuationStage cfg (setC st q v es) d = (Balance.valuationStage cfg st d).map (fun r => (setC r.1 q v es, r.2)) := by
  unfold Balance.valuationStage
  cases cfg.valuation with
  | none => rfl
  | some w =>
    simp only [bind, Except.bind]
    rw [pricesDay_setC]
    cases Balance.pricesDay w st d with
    | error e => rfl
    | ok s =>
      simp only [Except.map]
      rw [valuateDay_setC]
      cases Balance.valuateDay w s d <;> rfl

/-- the stages before CloseAccounts: check, prices, valuation, filter -/
def rawDay (cfg : BalCfg) (st : BalState) (d : Day) : Except BalErr (BalState × List Transaction) :=
  match Balance.checkStage st d with
  | .error e => .error e
  | .ok stc =>
    match Balance.valuationStage cfg stc d with
    | .error e => .error e
    | .ok (st1, txs1) => .ok (st1, Balance.filterStage cfg d txs1)

theorem dayTxs_eq_rawDay (cfg : BalCfg) (st : BalState) (d : Day) :
    Balance.dayTxs cfg st d = (rawDay cfg st d).map (fun r => Balance.closeStage cfg r.1 d r.2) := by
  unfold Balance.dayTxs rawDay
  simp only [bind, Except.bind]
  cases Balance.checkStage st d with
  | error e => rfl
  | ok stc =>
    simp only
    cases Balance.valuationStage cfg stc d with
    | error e => rfl
    | ok r => rfl

theorem rawDay_noClose (cfg : BalCfg) (st : BalState) (d : Day) : rawDay (noClose cfg) st d = rawDay cfg st d := rfl

theorem rawDay_setC (cfg : BalCfg) (st : BalState) (q v : AMap Position Rat) (es : List Entry) (d : Day) :
    rawDay cfg (setC st q v es) d = (rawDay cfg st d).map (fun r => (setC r.1 q v es, r.2)) := by
  unfold rawDay
  rw [checkStage_setC]
  cases Balance.checkStage st d with
  | error e => rfl
  | ok s =>
    simp only [Except.map]
    rw [valuationStage_setC]
    cases Balance.valuationStage cfg s d with
    | error e => rfl
    | ok r => rfl

/-- the stages before CloseAccounts leave the closing accumulators alone -/
theorem rawDay_frame (cfg : BalCfg) (st st1 : BalState) (d : Day) (raw : List Transaction)
    (h : rawDay cfg st d = .ok (st1, raw)) : st1.cQty = st.cQty ∧ st1.cVal = st.cVal ∧ st1.entries = st.entries := by
  have h2 := rawDay_setC cfg st [] [] [] d
  rw [h] at h2
  simp only [Except.map] at h2
  -- run from the state with emptied accumulators: the result has them emptied; compare
  have h3 := rawDay_setC cfg (setC st [] [] []) st.cQty st.cVal st.entries d
  rw [setC_setC, setC_self, h, h2] at h3
  simp only [Except.map] at h3
  injection h3 with h3
  injection h3 with h3 _
  rw [h3]
  exact ⟨rfl, rfl, rfl⟩

/-- the closing transactions of a day -/
def closingsOf (cfg : BalCfg) (st : BalState) (d : Day) : List Transaction :=
  if (cfg.periods.map (·.start)).contains d.date then Balance.closings d.date st.cQty st.cVal else []

/-- **a day of the closing run** is the day without closing followed by the closing transactions -/
theorem dayQ_close (cfg : BalCfg) (hcl : cfg.close = true) (st st' : BalState) (d : Day) (txs : List Transaction)
    (h : dayQ cfg st d = .ok (st', txs)) :
    ∃ st1 raw, rawDay cfg st d = .ok (st1, raw) ∧ txs = raw ++ closingsOf cfg st d ∧
      st' = { Balance.accumulate st1 txs with entries := (Balance.accumulate st1 txs).entries ++ txs.flatMap (Balance.queryTx cfg) } := by
  unfold dayQ at h
  rw [dayTxs_eq_rawDay] at h
  cases hr : rawDay cfg st d with
  | error e => rw [hr] at h; cases h
  | ok r =>
    obtain ⟨st1, raw⟩ := r
    rw [hr] at h
    simp only [Except.map] at h
    obtain ⟨f1, f2, _⟩ := rawDay_frame cfg st st1 d raw hr
    unfold Balance.closeStage at h
    simp only [hcl, if_true] at h
    injection h with h; injection h with h1 h2
    refine ⟨st1, raw, rfl, ?_, ?_⟩
    · rw [← h2]; unfold closingsOf; rw [f1, f2]
    · rw [← h1, ← h2]

/-- a day of the run without closing -/
theorem dayQ_noClose (cfg : BalCfg) (st : BalState) (d : Day) :
    dayQ (noClose cfg) st d = (rawDay cfg st d).map (fun r =>
      ({ r.1 with entries := r.1.entries ++ r.2.flatMap (Balance.queryTx cfg) }, r.2)) := by
  unfold dayQ
  rw [dayTxs_eq_rawDay, rawDay_noClose]
  cases rawDay cfg st d with
  | error e => rfl
  | ok r => rfl

/-! ### the value accumulator -/

open Knut.LedgerClose (accStep accumulate_eq accStep_closable accStep_not_closable closable_iff)

/-- the accumulators are keyed alike: no duplicate keys, and a position without a quantity entry has no value -/
def KeyInv (st : BalState) : Prop :=
  AMap.NodupKeys st.cQty ∧ ∀ k, k ∉ st.cQty.map (·.1) → st.cVal.get k 0 = 0

theorem keyInv_init : KeyInv {} := ⟨by unfold AMap.NodupKeys; exact List.nodup_nil, fun _ _ => rfl⟩

/-- total value a list of postings books on a position -/
def valSum (ps : List Posting) (k : Position) : Rat :=
  ((ps.filter (fun p => decide (p.account = k.1) && decide (p.commodity = k.2))).map (·.value)).sum

theorem valSum_cons (p : Posting) (ps : List Posting) (k : Position) :
    valSum (p :: ps) k = (if p.account = k.1 ∧ p.commodity = k.2 then p.value else 0) + valSum ps k := by
  unfold valSum
  by_cases h : p.account = k.1 ∧ p.commodity = k.2
  · simp [h]
  · have : (decide (p.account = k.1) && decide (p.commodity = k.2)) = false := by
      simp only [Bool.and_eq_false_imp, decide_eq_true_eq, decide_eq_false_iff_not]
      intro h1 h2; exact h ⟨h1, h2⟩
    simp only [List.filter_cons, this, h, if_false, Bool.false_eq_true]
    exact (Rat.zero_add _).symm

theorem valOn_eq_valSum (b : Account) (c : Commodity) (ts : List Transaction) :
    valOn b c ts = valSum (ts.flatMap (·.postings)) (b, c) := rfl

theorem fold_cval (ps : List Posting) : ∀ (st : BalState) (k : Position), Spec.closable k.1 = true →
    (ps.foldl accStep st).cVal.get k 0 = st.cVal.get k 0 + valSum ps k := by
  induction ps with
  | nil => intro st k _; unfold valSum; simp only [List.filter_nil, List.map_nil, List.sum_nil, Rat.add_zero]; rfl
  | cons p rest ih =>
    intro st k hk
    simp only [List.foldl_cons]
    rw [ih _ k hk, valSum_cons, ← Rat.add_assoc]
    congr 1
    by_cases hc : Spec.closable p.account = true
    · rw [accStep_closable hc]
      simp only
      rw [AMap.get_set]
      by_cases he : (p.account, p.commodity) = k
      · subst he; simp
      · have : ¬ (p.account = k.1 ∧ p.commodity = k.2) := by
          intro ⟨h1, h2⟩; apply he; cases k; simp_all
        simp only [he, this, if_false]; exact (Rat.add_zero _).symm
    · rw [accStep_not_closable hc]
      have : ¬ (p.account = k.1 ∧ p.commodity = k.2) := by
        intro ⟨h1, _⟩; rw [h1] at hc; exact hc hk
      simp only [this, if_false]; exact (Rat.add_zero _).symm

theorem fold_keyInv (ps : List Posting) : ∀ (st : BalState), KeyInv st → KeyInv (ps.foldl accStep st) := by
  induction ps with
  | nil => intro st h; exact h
  | cons p rest ih =>
    intro st h
    simp only [List.foldl_cons]
    apply ih
    by_cases hc : Spec.closable p.account = true
    · rw [accStep_closable hc]
      refine ⟨AMap.nodup_set h.1 _ _, ?_⟩
      intro k hk
      simp only at hk ⊢
      rw [AMap.keys_set] at hk
      have h1 : ¬ k = (p.account, p.commodity) := fun e => hk (Or.inl e)
      have h2 : k ∉ st.cQty.map (·.1) := fun e => hk (Or.inr e)
      rw [AMap.get_set]
      have h3 : ¬ (p.account, p.commodity) = k := fun e => h1 e.symm
      simp only [h3, if_false]
      exact h.2 k h2
    · rw [accStep_not_closable hc]; exact h

theorem accumulate_cval (st : BalState) (ts : List Transaction) (b : Account) (c : Commodity) (hb : Spec.closable b = true) :
    (Balance.accumulate st ts).cVal.get (b, c) 0 = st.cVal.get (b, c) 0 + valOn b c ts := by
  rw [accumulate_eq, fold_cval _ st (b, c) hb, valOn_eq_valSum]

theorem accumulate_keyInv (st : BalState) (ts : List Transaction) (h : KeyInv st) : KeyInv (Balance.accumulate st ts) := by
  rw [accumulate_eq]; exact fold_keyInv _ st h

/-! ### what the closing transactions book -/

theorem closeTx_valSum (b : Account) (c : Commodity) (hb : Spec.closable b = true) (a : Account) (c' : Commodity) (q w : Rat) :
    valSum (postingBuild a equityAccount c' q w) (b, c) = if a = b ∧ c' = c then -w else 0 := by
  have hbe : ¬ equityAccount = b := by
    intro e
    have := (closable_iff b).mp hb
    exact this.2 e.symm
  unfold postingBuild valSum
  simp only
  generalize (decide (q < 0) || (decide (q = 0) && decide (w < 0))) = sw
  cases sw
  · simp only [Bool.false_eq_true, if_false, List.filter_cons, List.filter_nil]
    by_cases h1 : a = b <;> by_cases h2 : c' = c <;> simp [h1, h2, hbe, Rat.add_zero]
  · simp only [if_true, List.filter_cons, List.filter_nil]
    by_cases h1 : a = b <;> by_cases h2 : c' = c <;> simp [h1, h2, hbe, Rat.add_zero]

theorem valSum_append (xs ys : List Posting) (k : Position) : valSum (xs ++ ys) k = valSum xs k + valSum ys k := by
  unfold valSum
  rw [List.filter_append, List.map_append, sum_append_rat]

/-- **the closing transactions book minus the accumulated value on every closable position** -/
theorem closings_valOn (b : Account) (c : Commodity) (hb : Spec.closable b = true) (date : Int) (cVal : AMap Position Rat) :
    ∀ (cQty : AMap Position Rat), AMap.NodupKeys cQty →
      valOn b c (Balance.closings date cQty cVal) = if (b, c) ∈ cQty.map (·.1) then -(cVal.get (b, c) 0) else 0
  | [], _ => rfl
  | ((a, c'), q) :: rest, hn => by
    unfold AMap.NodupKeys at hn
    rw [List.map_cons, List.nodup_cons] at hn
    have ih := closings_valOn b c hb date cVal rest hn.2
    have hstep : valOn b c (Balance.closings date (((a, c'), q) :: rest) cVal) =
        (if a = b ∧ c' = c then -(cVal.get (a, c') 0) else 0) + valOn b c (Balance.closings date rest cVal) := by
      unfold Balance.closings
      rw [List.filterMap_cons]
      simp only
      by_cases hz : q = 0 ∧ cVal.get (a, c') 0 = 0
      · simp only [hz, decide_true, Bool.and_self, if_true]
        have : (if a = b ∧ c' = c then -(0 : Rat) else 0) = 0 := by split <;> simp [Rat.neg_zero]
        rw [this, Rat.zero_add]
      · have hz' : (decide (q = 0) && decide (cVal.get (a, c') 0 = 0)) = false := by
          simp only [Bool.and_eq_false_imp, decide_eq_true_eq, decide_eq_false_iff_not]
          intro h1 h2; exact hz ⟨h1, h2⟩
        simp only [hz', Bool.false_eq_true, if_false]
        rw [valOn_eq_valSum, valOn_eq_valSum, List.flatMap_cons, valSum_append]
        simp only
        rw [closeTx_valSum b c hb]
    rw [hstep, ih]
    by_cases hk : a = b ∧ c' = c
    · obtain ⟨h1, h2⟩ := hk
      subst h1; subst h2
      have hnot : (a, c') ∉ rest.map (·.1) := hn.1
      simp [hnot, Rat.add_zero]
    · have hne : ¬ (b, c) = (a, c') := by
        intro e
        injection e with e1 e2
        exact hk ⟨e1.symm, e2.symm⟩
      simp only [hk, if_false, Rat.zero_add, List.map_cons, List.mem_cons, hne, false_or]

/-- … which, the accumulators being keyed alike, is minus the accumulated value whether or not the position has an entry -/
theorem closings_valOn_inv (b : Account) (c : Commodity) (hb : Spec.closable b = true) (date : Int) (st : BalState)
    (h : KeyInv st) : valOn b c (Balance.closings date st.cQty st.cVal) = -(st.cVal.get (b, c) 0) := by
  rw [closings_valOn b c hb date st.cVal st.cQty h.1]
  split
  · rfl
  · rename_i hk
    rw [h.2 _ hk]
    exact Rat.neg_zero.symm

/-! ### the closing run, day by day -/

theorem dayQ_close_cval (cfg : BalCfg) (hcl : cfg.close = true) (st st' : BalState) (d : Day) (txs : List Transaction)
    (hk : KeyInv st) (h : dayQ cfg st d = .ok (st', txs)) :
    KeyInv st' ∧ ∀ (b : Account) (c : Commodity), Spec.closable b = true →
      st'.cVal.get (b, c) 0 = st.cVal.get (b, c) 0 + valOn b c txs := by
  obtain ⟨st1, raw, hr, _, hst⟩ := dayQ_close cfg hcl st st' d txs h
  obtain ⟨f1, f2, _⟩ := rawDay_frame cfg st st1 d raw hr
  have hk1 : KeyInv st1 := by unfold KeyInv; rw [f1, f2]; exact hk
  rw [hst]
  refine ⟨accumulate_keyInv st1 txs hk1, ?_⟩
  intro b c hb
  show (Balance.accumulate st1 txs).cVal.get (b, c) 0 = _
  rw [accumulate_cval st1 txs b c hb, f2]

/-- **the value accumulator of a closable position is its start value plus everything the run booked on it** -/
theorem run_cval (cfg : BalCfg) (hcl : cfg.close = true) : ∀ (ds : List Day) (st st' : BalState) (txs : List Transaction),
    KeyInv st → pipelineRun cfg st ds = .ok (st', txs) →
    KeyInv st' ∧ ∀ (b : Account) (c : Commodity), Spec.closable b = true →
      st'.cVal.get (b, c) 0 = st.cVal.get (b, c) 0 + valOn b c txs
  | [], st, st', txs, hk, h => by
    unfold pipelineRun at h
    injection h with h; injection h with h1 h2; subst h1; subst h2
    exact ⟨hk, fun b c _ => by show _ = _ + valOn b c []; unfold valOn posOn; simp [Rat.add_zero]⟩
  | d :: ds, st, st', txs, hk, h => by
    unfold pipelineRun at h
    cases hq : dayQ cfg st d with
    | error e => rw [hq] at h; cases h
    | ok r =>
      obtain ⟨sd, td⟩ := r
      rw [hq] at h; simp only at h
      cases hr : pipelineRun cfg sd ds with
      | error e => rw [hr] at h; cases h
      | ok r2 =>
        obtain ⟨s2, rest⟩ := r2
        rw [hr] at h; simp only at h
        injection h with h; injection h with h1 h2; subst h1; subst h2
        obtain ⟨k1, v1⟩ := dayQ_close_cval cfg hcl st sd d td hk hq
        obtain ⟨k2, v2⟩ := run_cval cfg hcl ds sd s2 rest k1 hr
        refine ⟨k2, ?_⟩
        intro b c hb
        rw [v2 b c hb, v1 b c hb, valOn_append]
        grind

/-- **a closing day resets a closable position**: what the day hands to Query on it is what the day itself booked minus
everything accumulated before -/
theorem dayQ_close_reset (cfg : BalCfg) (hcl : cfg.close = true) (st st' : BalState) (d : Day) (txs : List Transaction)
    (hk : KeyInv st) (hstart : (cfg.periods.map (·.start)).contains d.date = true)
    (h : dayQ cfg st d = .ok (st', txs)) (b : Account) (c : Commodity) (hb : Spec.closable b = true) :
    ∃ st1 raw, rawDay cfg st d = .ok (st1, raw) ∧ valOn b c txs = valOn b c raw - st.cVal.get (b, c) 0 := by
  obtain ⟨st1, raw, hr, htx, _⟩ := dayQ_close cfg hcl st st' d txs h
  refine ⟨st1, raw, hr, ?_⟩
  rw [htx, valOn_append]
  unfold closingsOf
  rw [hstart]
  simp only [if_true]
  rw [closings_valOn_inv b c hb d.date st hk]
  grind

/-! ### the run without closing, in parallel -/

/-- the states of the two runs differ in the closing accumulators and the insert log only -/
def CEq (st stN : BalState) : Prop := ∃ q v e, stN = setC st q v e

theorem cEq_refl (st : BalState) : CEq st st := ⟨st.cQty, st.cVal, st.entries, rfl⟩

theorem accStep_setC' (st : BalState) (p : Posting) : ∃ q v, accStep st p = setC st q v st.entries := by
  unfold accStep
  split
  · exact ⟨st.cQty, st.cVal, rfl⟩
  · exact ⟨_, _, rfl⟩

theorem accumulate_setC' (st : BalState) (ts : List Transaction) : ∃ q v, Balance.accumulate st ts = setC st q v st.entries := by
  rw [accumulate_eq]
  generalize ts.flatMap (·.postings) = ps
  induction ps generalizing st with
  | nil => exact ⟨st.cQty, st.cVal, rfl⟩
  | cons p rest ih =>
    rw [List.foldl_cons]
    obtain ⟨q1, v1, h1⟩ := accStep_setC' st p
    rw [h1]
    obtain ⟨q2, v2, h2⟩ := ih (setC st q1 v1 st.entries)
    rw [h2]
    exact ⟨q2, v2, rfl⟩

theorem dayQ_parallel (cfg : BalCfg) (hcl : cfg.close = true) (st st' stN : BalState) (d : Day) (txs : List Transaction)
    (hc : CEq st stN) (h : dayQ cfg st d = .ok (st', txs)) :
    ∃ stN' raw, dayQ (noClose cfg) stN d = .ok (stN', raw) ∧ CEq st' stN' ∧ txs = raw ++ closingsOf cfg st d := by
  obtain ⟨st1, raw, hr, htx, hst⟩ := dayQ_close cfg hcl st st' d txs h
  obtain ⟨q, v, e, rfl⟩ := hc
  refine ⟨setC st1 q v (e ++ raw.flatMap (Balance.queryTx cfg)), raw, ?_, ?_, htx⟩
  · rw [dayQ_noClose, rawDay_setC, hr]
    rfl
  · obtain ⟨q2, v2, h2⟩ := accumulate_setC' st1 txs
    rw [hst, h2]
    exact ⟨q, v, _, rfl⟩

/-- the closing transactions never touch an asset/liability account -/
theorem closingsOf_no_AL (cfg : BalCfg) (st : BalState) (d : Day) (hinv : CloseInv st) :
    ∀ t ∈ closingsOf cfg st d, ∀ p ∈ t.postings, p.account.isAL = false := by
  intro t ht p hp
  cases hal : p.account.isAL with
  | false => rfl
  | true =>
    exfalso
    unfold closingsOf at ht
    split at ht
    · have := posOn_closings p.account p.commodity d.date st.cQty st.cVal hal hinv
      have hm : p ∈ posOn p.account p.commodity (Balance.closings d.date st.cQty st.cVal) := by
        unfold posOn
        rw [List.mem_filter]
        exact ⟨List.mem_flatMap.mpr ⟨t, ht, hp⟩, by unfold onPos; simp⟩
      rw [this] at hm
      cases hm
    · cases ht

/-- **the two runs in parallel**: the run without closing succeeds on the same days; it hands the same transactions to
Query except for the closing transactions, so the inserts on asset/liability accounts are the same, and on days without
a period start all inserts are the same -/
theorem pipelineRun_parallel (cfg : BalCfg) (v : Commodity) (hv : cfg.valuation = some v) (hcl : cfg.close = true)
    (hpl : Plain cfg) :
    ∀ (ds : List Day) (st st' stN : BalState) (txs : List Transaction), CEq st stN → CloseInv st →
      pipelineRun cfg st ds = .ok (st', txs) →
      ∃ stN' raw, pipelineRun (noClose cfg) stN ds = .ok (stN', raw) ∧ CEq st' stN' ∧ CloseInv st' ∧
        (∀ (sel : Entry → Bool), (∀ e, sel e = true → e.account.isAL = true) →
          (txs.flatMap (Balance.queryTx cfg)).filter sel = (raw.flatMap (Balance.queryTx cfg)).filter sel) ∧
        ((∀ d ∈ ds, (cfg.periods.map (·.start)).contains d.date = false) → raw = txs)
  | [], st, st', stN, txs, hc, hinv, h => by
    unfold pipelineRun at h
    injection h with h; injection h with h1 h2; subst h1; subst h2
    exact ⟨stN, [], rfl, hc, hinv, fun _ _ => rfl, fun _ => rfl⟩
  | d :: ds, st, st', stN, txs, hc, hinv, h => by
    unfold pipelineRun at h
    cases hq : dayQ cfg st d with
    | error e => rw [hq] at h; cases h
    | ok r =>
      obtain ⟨sd, td⟩ := r
      rw [hq] at h; simp only at h
      cases hr : pipelineRun cfg sd ds with
      | error e => rw [hr] at h; cases h
      | ok r2 =>
        obtain ⟨s2, rest⟩ := r2
        rw [hr] at h; simp only at h
        injection h with h; injection h with h1 h2; subst h1; subst h2
        obtain ⟨sdN, rawd, hqN, hcd, htd⟩ := dayQ_parallel cfg hcl st sd stN d td hc hq
        obtain ⟨_, _, hinvd, _⟩ := dayQ_any cfg v st sd d td ⟨["Assets"]⟩ "" hv (by decide) hinv hq
        obtain ⟨s2N, rawr, hrN, hc2, hinv2, hal2, hsame2⟩ := pipelineRun_parallel cfg v hv hcl hpl ds sd s2 sdN rest hcd hinvd hr
        refine ⟨s2N, rawd ++ rawr, ?_, hc2, hinv2, ?_, ?_⟩
        · unfold pipelineRun
          rw [hqN]
          simp only
          rw [hrN]
        · intro sel hsel
          rw [List.flatMap_append, List.flatMap_append, List.filter_append, List.filter_append, hal2 sel hsel, htd,
            List.flatMap_append, List.filter_append]
          have hnil : ((closingsOf cfg st d).flatMap (Balance.queryTx cfg)).filter sel = [] := by
            rw [List.filter_eq_nil_iff]
            intro e he hs
            have hvs : cfg.valuation.isSome = true := by rw [hv]; rfl
            obtain ⟨t, ht, p, hp, rfl⟩ := mem_entries_plain cfg hpl hvs _ e he
            have := closingsOf_no_AL cfg st d hinv t ht p hp
            have h2 := hsel _ hs
            simp only at h2
            rw [this] at h2
            cases h2
          rw [hnil, List.append_nil]
        · intro hno
          have h1 : closingsOf cfg st d = [] := by
            unfold closingsOf
            rw [hno d List.mem_cons_self]
            rfl
          rw [htd, h1, List.append_nil, hsame2 (fun x hx => hno x (List.mem_cons_of_mem _ hx))]

/-! ### sums by commodity -/

theorem sum_indicator_gen {κ : Type} [DecidableEq κ] (x : κ) (r : Rat) : ∀ (K : List κ), K.Nodup → x ∈ K →
    (K.map (fun c => if x = c then r else 0)).sum = r
  | [], _, hx => by cases hx
  | k :: K, hn, hx => by
    rw [List.nodup_cons] at hn
    rw [List.map_cons, List.sum_cons]
    by_cases hk : x = k
    · subst hk
      rw [sum_map_zero _ K (fun c hc => by
        have : x ≠ c := fun e => hn.1 (e ▸ hc)
        simp [this])]
      simp only [if_true, Rat.add_zero]
    · simp only [hk, if_false, Rat.zero_add]
      rcases List.mem_cons.mp hx with e | e
      · exact absurd e hk
      · exact sum_indicator_gen x r K hn.2 e

theorem sum_by_key_gen {α κ : Type} [DecidableEq κ] (key : α → κ) (val : α → Rat) (S : List κ) (hS : S.Nodup) :
    ∀ (L : List α), (∀ x ∈ L, key x ∈ S) →
    (L.map val).sum = (S.map (fun a => ((L.filter (fun x => decide (key x = a))).map val).sum)).sum
  | [], _ => by
    simp only [List.filter_nil, List.map_nil, List.sum_nil]
    exact (sum_map_zero _ S (fun _ _ => rfl)).symm
  | x :: L, h => by
    have ih := sum_by_key_gen key val S hS L (fun y hy => h y (List.mem_cons_of_mem _ hy))
    have hcons : ∀ a, (((x :: L).filter (fun y => decide (key y = a))).map val).sum =
        (if key x = a then val x else 0) + ((L.filter (fun y => decide (key y = a))).map val).sum := by
      intro a
      rw [List.filter_cons]
      by_cases h1 : key x = a <;> simp [h1, Rat.zero_add]
    rw [funext hcons, sum_map_add, ← ih, List.map_cons, List.sum_cons,
      sum_indicator_gen (key x) (val x) S hS (h x List.mem_cons_self)]

/-- two lists of transactions that book the same value on every position of `b` book the same value on `b` -/
theorem sumVal_congr_positions (b : Account) (T1 T2 : List Transaction) (h : ∀ c, valOn b c T1 = valOn b c T2) :
    sumVal (accSel b) T1 = sumVal (accSel b) T2 := by
  let K := (((T1 ++ T2).flatMap (·.postings)).map (·.commodity)).eraseDups
  have hKn : K.Nodup := ReportPerm.nodup_eraseDups _ _ (Nat.le_refl _)
  have key : ∀ (T : List Transaction), (∀ p ∈ T.flatMap (·.postings), p.commodity ∈ K) →
      sumVal (accSel b) T = (K.map (fun c => valOn b c T)).sum := by
    intro T hcov
    unfold sumVal
    rw [sum_by_key_gen (fun (p : Posting) => p.commodity) (·.value) K hKn _ (fun p hp => hcov p (List.mem_filter.mp hp).1)]
    congr 1
    apply List.map_congr_left
    intro c _
    unfold valOn posOn
    rw [List.filter_filter]
    congr 2
    apply List.filter_congr
    intro p _
    unfold accSel onPos
    exact Bool.and_comm _ _
  rw [key T1 (fun p hp => by
      rw [List.mem_eraseDups]
      exact List.mem_map.mpr ⟨p, by rw [List.flatMap_append]; exact List.mem_append_left _ hp, rfl⟩),
    key T2 (fun p hp => by
      rw [List.mem_eraseDups]
      exact List.mem_map.mpr ⟨p, by rw [List.flatMap_append]; exact List.mem_append_right _ hp, rfl⟩)]
  congr 1
  apply List.map_congr_left
  intro c _
  exact h c

/-! ### the day of a period start heads the days of its period -/

theorem sorted_head_start (s D : Int) (hsD : s ≤ D) (days : List Day) (hs : Sorted days) (hmem : s ∈ days.map (·.date)) :
    ∃ d Q, days.filter (fun d => !decide (d.date < s) && decide (d.date ≤ D)) = d :: Q ∧ d.date = s ∧
      ∀ x ∈ Q, s < x.date ∧ x.date ≤ D := by
  obtain ⟨d0, hd0, hd0s⟩ := List.mem_map.mp hmem
  have hs1 := sorted_filter (fun d => !decide (d.date < s) && decide (d.date ≤ D)) days hs
  have hd0m : d0 ∈ days.filter (fun d => !decide (d.date < s) && decide (d.date ≤ D)) := by
    rw [List.mem_filter]
    refine ⟨hd0, ?_⟩
    have h1 : ¬ d0.date < s := by omega
    have h2 : d0.date ≤ D := by omega
    simp [h1, h2]
  generalize hB : days.filter (fun d => !decide (d.date < s) && decide (d.date ≤ D)) = B at hs1 hd0m
  have hsub : ∀ x ∈ B, ¬ x.date < s ∧ x.date ≤ D := by
    intro x hx
    rw [← hB] at hx
    have := (List.mem_filter.mp hx).2
    simpa using this
  cases B with
  | nil => cases hd0m
  | cons h Q =>
    unfold Sorted at hs1
    rw [List.pairwise_cons] at hs1
    have hh := hsub h List.mem_cons_self
    have hhs : h.date = s := by
      rcases List.mem_cons.mp hd0m with e | e
      · rw [← e]; exact hd0s
      · have := hs1.1 d0 e
        omega
    refine ⟨h, Q, rfl, hhs, ?_⟩
    intro x hx
    have h1 := hs1.1 x hx
    have h2 := hsub x (List.mem_cons_of_mem _ hx)
    omega

/-! ### with closing, a cumulative column shows the flows of its own period -/

theorem pipelineRun_single (cfg : BalCfg) (st st' : BalState) (d : Day) (txs : List Transaction)
    (h : pipelineRun cfg st [d] = .ok (st', txs)) : dayQ cfg st d = .ok (st', txs) := by
  unfold pipelineRun at h
  cases hq : dayQ cfg st d with
  | error e => rw [hq] at h; cases h
  | ok r =>
    obtain ⟨sd, td⟩ := r
    rw [hq] at h
    simp only at h
    unfold pipelineRun at h
    simp only [List.append_nil] at h
    exact congrArg _ (by injection h)

theorem closingsOf_valOn (cfg : BalCfg) (st : BalState) (d : Day) (hk : KeyInv st)
    (hstart : (cfg.periods.map (·.start)).contains d.date = true) (b : Account) (c : Commodity)
    (hb : Spec.closable b = true) : valOn b c (closingsOf cfg st d) = -(st.cVal.get (b, c) 0) := by
  unfold closingsOf
  rw [hstart]
  simp only [if_true]
  exact closings_valOn_inv b c hb d.date st hk

/-- **the closing run against the run without closing.**  For a plain valued configuration with closing, a date-sorted
day list and a period `[s, D]` of the partition whose start `s` is the date of a day (the command adds such days) and
such that no other period starts inside `(s, D]`: the run without closing succeeds on the same days, has the same
inserts on asset/liability accounts, and the cumulative value of a closable account `b` (income, expenses, equity
other than `Equity:Equity`) in the column of `D` is, in terms of the run WITHOUT closing, its cumulative value at `D`
minus its cumulative value at `s − 1`: the closing transfer on day `s` removes everything booked before `s`. -/
theorem run_close_period (cfg : BalCfg) (v : Commodity) (hv : cfg.valuation = some v) (hcl : cfg.close = true)
    (hpl : Plain cfg) (days : List Day) (hs : Sorted days)
    (hcons : ∀ d ∈ days, ∀ t ∈ d.transactions, t.date = d.date)
    (hinc : List.Pairwise (· < ·) (cfg.periods.map (·.stop)))
    (st : BalState) (h : Balance.run cfg days = .ok st) :
    ∃ stN, Balance.run (noClose cfg) days = .ok stN ∧
      (∀ (sel : Entry → Bool), (∀ e, sel e = true → e.account.isAL = true) → st.entries.filter sel = stN.entries.filter sel) ∧
      ∀ (s D : Int), D ∈ cfg.periods.map (·.stop) → s ≤ D → s ∈ days.map (·.date) →
        (cfg.periods.map (·.start)).contains s = true →
        (∀ x ∈ cfg.periods.map (·.start), x ≤ s ∨ D < x) → IsEve cfg (s - 1) D → cfg.span.contains D = true →
        ∀ (b : Account), Spec.closable b = true →
          accCum b st.entries D = accCum b stN.entries D - accCum b stN.entries (s - 1) := by
  have hvs : cfg.valuation.isSome = true := by rw [hv]; rfl
  have hinv0 : CloseInv {} := by intro k hk; cases hk
  obtain ⟨txs, hp, he⟩ := run_pipelineRun cfg days st h
  obtain ⟨stN, raw, hpN, _, _, hAL, _⟩ := pipelineRun_parallel cfg v hv hcl hpl days {} st {} txs (cEq_refl _) hinv0 hp
  have hrunN : Balance.run (noClose cfg) days = .ok stN := run_of_pipelineRun (noClose cfg) days stN raw hpN
  have heN : stN.entries = raw.flatMap (Balance.queryTx cfg) := by
    have := pipelineRun_entries (noClose cfg) days {} stN raw hpN
    rw [this]; rfl
  refine ⟨stN, hrunN, ?_, ?_⟩
  · intro sel hsel
    rw [he, heN]
    exact hAL sel hsel
  intro s D hD hsD hsday hstart hnostart hF hDin b hb
  have hplN : Plain (noClose cfg) := plain_noClose hpl
  have hbnd : ¬ (D < cfg.span.start) ∧ ¬ (D > cfg.span.stop) := by
    unfold Period.contains at hDin
    simpa using hDin
  have hslo : cfg.span.start ≤ s := by
    rcases hF with e | ⟨_, _, h3⟩
    · omega
    · unfold Period.contains at h3
      have : ¬ (s - 1 < cfg.span.start) ∧ ¬ (s - 1 > cfg.span.stop) := by simpa using h3
      omega
  -- the days: before `s`, the day of `s`, the days in `(s, D]`, the days after `D`
  obtain ⟨hsplit, _⟩ := sorted_split3 s D (by omega) days hs
  obtain ⟨d, Q, hB1, hds, hQ⟩ := sorted_head_start s D hsD days hs hsday
  rw [hB1] at hsplit
  generalize hA' : days.filter (fun d => decide (d.date < s)) = A at hsplit
  generalize hB2' : days.filter (fun d => !decide (d.date < s) && !decide (d.date ≤ D)) = B2 at hsplit
  have hAsub : ∀ x ∈ A, x ∈ days ∧ x.date < s := by
    intro x hx; rw [← hA'] at hx
    have := List.mem_filter.mp hx
    exact ⟨this.1, by simpa using this.2⟩
  have hB2sub : ∀ x ∈ B2, x ∈ days ∧ D < x.date := by
    intro x hx; rw [← hB2'] at hx
    have := List.mem_filter.mp hx
    refine ⟨this.1, ?_⟩
    have h2 := this.2
    simp only [Bool.and_eq_true, Bool.not_eq_true', decide_eq_false_iff_not] at h2
    omega
  have hdQsub : ∀ x ∈ d :: Q, x ∈ days := by
    intro x hx
    rw [← hB1] at hx
    exact (List.mem_filter.mp hx).1
  -- the closing run, split
  have hp' := hp
  rw [hsplit] at hp'
  obtain ⟨stB, tAB, tB2, h12, h3, e1⟩ := pipelineRun_append cfg _ _ _ _ _ hp'
  obtain ⟨stA, tA, tB1, hA, hB, e2⟩ := pipelineRun_append cfg _ _ _ _ _ h12
  have hB' : pipelineRun cfg stA ([d] ++ Q) = .ok (stB, tB1) := hB
  obtain ⟨std, td, tQ, hd1, hQ1, e3⟩ := pipelineRun_append cfg _ _ _ _ _ hB'
  -- the run without closing, in parallel, segment by segment
  obtain ⟨stAN, rawA, hAN, cA, iA, _, _⟩ := pipelineRun_parallel cfg v hv hcl hpl A {} stA {} tA (cEq_refl _) hinv0 hA
  obtain ⟨stdN, rawd, hdN, cd, id, _, _⟩ := pipelineRun_parallel cfg v hv hcl hpl [d] stA std stAN td cA iA hd1
  obtain ⟨stQN, rawQ, hQN, cQ, iQ, _, sQ⟩ := pipelineRun_parallel cfg v hv hcl hpl Q std stB stdN tQ cd id hQ1
  obtain ⟨stFN, rawB2, hB2N, _, _, _, _⟩ := pipelineRun_parallel cfg v hv hcl hpl B2 stB st stQN tB2 cQ iQ h3
  have hQsame : rawQ = tQ := by
    apply sQ
    intro x hx
    obtain ⟨q1, q2⟩ := hQ x hx
    cases hc : (cfg.periods.map (·.start)).contains x.date with
    | false => rfl
    | true =>
      exfalso
      have hm : x.date ∈ cfg.periods.map (·.start) := by simpa using hc
      rcases hnostart _ hm with h1 | h1 <;> omega
  subst hQsame
  have hcomp : pipelineRun (noClose cfg) {} days = .ok (stFN, rawA ++ (rawd ++ rawQ) ++ rawB2) := by
    rw [hsplit]
    apply pipelineRun_append_ok (noClose cfg) _ _ _ _ _ _ _ _ hB2N
    apply pipelineRun_append_ok (noClose cfg) _ _ _ _ _ _ _ hAN
    exact pipelineRun_append_ok (noClose cfg) [d] Q _ _ _ _ _ hdN hQN
  rw [hcomp] at hpN
  injection hpN with hpN; injection hpN with _ hraw
  -- the day `d` alone: its raw transactions followed by the closings
  have hq := pipelineRun_single cfg stA std d td hd1
  obtain ⟨sdN, rawdd, hqN, _, htdd⟩ := dayQ_parallel cfg hcl stA std stAN d td cA hq
  have hqN2 := pipelineRun_single (noClose cfg) stAN stdN d rawd hdN
  rw [hqN] at hqN2
  injection hqN2 with hqN2; injection hqN2 with _ hrawd
  subst hrawd
  have htd : td = rawdd ++ closingsOf cfg stA d := htdd
  clear htdd
  have hmain : accCum b st.entries D = accCum b stN.entries D - accCum b stN.entries (s - 1) := by
    -- the accumulators before `d`
    obtain ⟨kA, vA⟩ := run_cval cfg hcl A {} stA tA keyInv_init hA
    have hdstart : (cfg.periods.map (·.start)).contains d.date = true := by rw [hds]; exact hstart
    have hpos : ∀ c, valOn b c (tA ++ td) = valOn b c rawdd := by
      intro c
      rw [valOn_append, htd, valOn_append, closingsOf_valOn cfg stA d kA hdstart b c hb, vA b c hb]
      have : ({} : BalState).cVal.get (b, c) 0 = 0 := rfl
      rw [this]
      grind
    have hsum := sumVal_congr_positions b (tA ++ td) rawdd hpos
    -- the inserts of the closing run up to `D`
    have hesC : st.entries = (tA ++ td).flatMap (Balance.queryTx cfg) ++ rawQ.flatMap (Balance.queryTx cfg) ++
        tB2.flatMap (Balance.queryTx cfg) := by
      rw [he, e1, e2, e3]
      simp only [List.flatMap_append, List.append_assoc]
    have hle : ∀ (L : List Day) (s1 s2 : BalState) (T : List Transaction) (c' : BalCfg), c'.periods = cfg.periods →
        Plain c' → c'.valuation.isSome = true →
        pipelineRun c' s1 L = .ok (s2, T) → (∀ x ∈ L, x ∈ days ∧ x.date ≤ D) →
        accCum b (T.flatMap (Balance.queryTx c')) D = sumVal (accSel b) T := by
      intro L s1 s2 T c' hper hp' hv' hrun hL
      rw [accCum_eq_total b _ D (fun e hem => by
        obtain ⟨t, ht, p, hpt, rfl⟩ := mem_entries_plain c' hp' hv' T e hem
        obtain ⟨x, hx, hxt⟩ := pipelineRun_dates c' L s1 s2 T (fun x hx => hcons x (hL x hx).1) hrun t ht
        rw [hper]
        exact alignIn_le cfg.periods t.date D hinc hD (by rw [hxt]; exact (hL x hx).2)), accTotal_flatMap c' hp' hv' b T]
      rfl
    have hgt : ∀ (L : List Day) (s1 s2 : BalState) (T : List Transaction) (c' : BalCfg) (X : Int), c'.periods = cfg.periods →
        Plain c' → c'.valuation.isSome = true →
        pipelineRun c' s1 L = .ok (s2, T) → (∀ x ∈ L, x ∈ days ∧ X < x.date) →
        accCum b (T.flatMap (Balance.queryTx c')) X = 0 := by
      intro L s1 s2 T c' X hper hp' hv' hrun hL
      apply accCum_zero_of_filter_nil
      intro e hem hc
      obtain ⟨t, ht, p, hpt, rfl⟩ := mem_entries_plain c' hp' hv' T e hem
      obtain ⟨x, hx, hxt⟩ := pipelineRun_dates c' L s1 s2 T (fun x hx => hcons x (hL x hx).1) hrun t ht
      obtain ⟨_, D', h1, h2⟩ := hc
      simp only at h1
      rw [hper] at h1
      have := alignIn_gt cfg.periods t.date X D' (by rw [hxt]; exact (hL x hx).2) h1
      omega
    have hAd : pipelineRun cfg {} (A ++ [d]) = .ok (std, tA ++ td) := pipelineRun_append_ok cfg A [d] _ _ _ _ _ hA hd1
    have hAdsub : ∀ x ∈ A ++ [d], x ∈ days ∧ x.date ≤ D := by
      intro x hx
      rcases List.mem_append.mp hx with h1 | h1
      · have := hAsub x h1; exact ⟨this.1, by omega⟩
      · simp only [List.mem_singleton] at h1
        subst h1
        exact ⟨hdQsub _ List.mem_cons_self, by omega⟩
    have hQsub : ∀ x ∈ Q, x ∈ days ∧ x.date ≤ D := fun x hx => ⟨hdQsub x (List.mem_cons_of_mem _ hx), (hQ x hx).2⟩
    have hvsN : (noClose cfg).valuation.isSome = true := hvs
    have c1 : accCum b st.entries D = sumVal (accSel b) (tA ++ td) + sumVal (accSel b) rawQ := by
      rw [hesC, accCum_append, accCum_append, hle _ _ _ _ cfg rfl hpl hvs hAd hAdsub, hle _ _ _ _ cfg rfl hpl hvs hQ1 hQsub,
        hgt _ _ _ _ cfg D rfl hpl hvs h3 hB2sub, Rat.add_zero]
    -- the inserts of the run without closing
    have hesN : stN.entries = rawA.flatMap (Balance.queryTx (noClose cfg)) ++ rawdd.flatMap (Balance.queryTx (noClose cfg)) ++
        rawQ.flatMap (Balance.queryTx (noClose cfg)) ++ rawB2.flatMap (Balance.queryTx (noClose cfg)) := by
      rw [heN, ← hraw]
      simp only [List.flatMap_append, List.append_assoc]
      rfl
    have hAsub' : ∀ x ∈ A, x ∈ days ∧ x.date ≤ D := fun x hx => ⟨(hAsub x hx).1, by have := (hAsub x hx).2; omega⟩
    have hdsub : ∀ x ∈ [d], x ∈ days ∧ x.date ≤ D := by
      intro x hx
      simp only [List.mem_singleton] at hx
      subst hx
      exact ⟨hdQsub _ List.mem_cons_self, by omega⟩
    have c2 : accCum b stN.entries D = sumVal (accSel b) rawA + sumVal (accSel b) rawdd + sumVal (accSel b) rawQ := by
      rw [hesN, accCum_append, accCum_append, accCum_append, hle _ _ _ _ (noClose cfg) rfl hplN hvsN hAN hAsub',
        hle _ _ _ _ (noClose cfg) rfl hplN hvsN hdN hdsub, hle _ _ _ _ (noClose cfg) rfl hplN hvsN hQN hQsub,
        hgt _ _ _ _ (noClose cfg) D rfl hplN hvsN hB2N hB2sub, Rat.add_zero]
    have hdgt : ∀ x ∈ [d], x ∈ days ∧ s - 1 < x.date := by
      intro x hx
      simp only [List.mem_singleton] at hx
      subst hx
      exact ⟨hdQsub _ List.mem_cons_self, by omega⟩
    have hQgt : ∀ x ∈ Q, x ∈ days ∧ s - 1 < x.date :=
      fun x hx => ⟨hdQsub x (List.mem_cons_of_mem _ hx), by have := (hQ x hx).1; omega⟩
    have hB2gt : ∀ x ∈ B2, x ∈ days ∧ s - 1 < x.date := fun x hx => ⟨(hB2sub x hx).1, by have := (hB2sub x hx).2; omega⟩
    have c3 : accCum b stN.entries (s - 1) = sumVal (accSel b) rawA := by
      rw [hesN, accCum_append, accCum_append, accCum_append, hgt _ _ _ _ (noClose cfg) (s - 1) rfl hplN hvsN hdN hdgt,
        hgt _ _ _ _ (noClose cfg) (s - 1) rfl hplN hvsN hQN hQgt, hgt _ _ _ _ (noClose cfg) (s - 1) rfl hplN hvsN hB2N hB2gt,
        Rat.add_zero, Rat.add_zero, Rat.add_zero]
      rcases hF with hFe | ⟨hF1, _, _⟩
      · have hs0 : s = cfg.span.start := by omega
        have hAout : ∀ x ∈ A, (noClose cfg).span.contains x.date = false := by
          intro x hx
          have := (hAsub x hx).2
          show cfg.span.contains x.date = false
          unfold Period.contains
          have h5 : x.date < cfg.span.start := by omega
          simp [h5]
        have : rawA = [] := pipelineRun_noclose_out (noClose cfg) rfl A {} stAN rawA hAout hAN
        rw [this]
        rfl
      · rw [accCum_eq_total b _ (s - 1) (fun e hem => by
          obtain ⟨t, ht, p, hpt, rfl⟩ := mem_entries_plain (noClose cfg) hplN hvsN rawA e hem
          obtain ⟨x, hx, hxt⟩ := pipelineRun_dates (noClose cfg) A {} stAN rawA (fun x hx => hcons x (hAsub x hx).1) hAN t ht
          have := (hAsub x hx).2
          exact alignIn_le cfg.periods t.date (s - 1) hinc hF1 (by rw [hxt]; omega)),
          accTotal_flatMap (noClose cfg) hplN hvsN b rawA]
        rfl
    rw [c1, c2, c3, hsum]
    grind
  exact hmain

end Knut.MTM
