package main

// Units of the Go→Lean translator: which functions of which packages are translated, effect analysis, output.

import (
	"fmt"
	"go/ast"
	"go/token"
	"go/types"
	"os"
	"path/filepath"
	"sort"
	"strings"
)

// trUnits: the translated functions. Order matters only between packages (a package may use the ones before it).
var trUnits = []*trUnit{
	{pkg: "lib/common/date", mod: "Date", funcs: []string{
		"ParseInterval", "Date", "StartOf", "EndOf", "Period.Clip", "Period.Contains", "Partition.Contains", "NewPartition",
		"Partition.Size", "Partition.StartDates", "Partition.EndDates", "Partition.Align",
	}},
	{pkg: "lib/common/compare", mod: "Compare", funcs: []string{"Time", "Decimal"}},
	{pkg: "lib/model/commodity", mod: "Commodity", funcs: []string{"Commodity.Name", "Compare"}},
	{pkg: "lib/model/account", mod: "Account", funcs: []string{
		"Account.Segments", "Account.Name", "Account.Type", "Account.IsAL", "Account.IsIE", "Account.Level", "Compare", "Account.String",
	}},
	{pkg: "lib/model/posting", mod: "Posting", funcs: []string{"Builder.Build", "Builders.Build", "Compare"}},
	{pkg: "lib/model/transaction", mod: "Transaction", funcs: []string{"Compare", "Builder.Build", "expand"}},
	{pkg: "lib/model/open", mod: "Open", funcs: nil},
	{pkg: "lib/model/close", mod: "Close", funcs: nil},
	{pkg: "lib/model/assertion", mod: "Assertion", funcs: nil},
	{pkg: "lib/common/set", mod: "Set", funcs: []string{"Set.Add", "Set.Has", "Set.Remove", "New"},
		agree: map[string]string{"New": "AmountsSum"}},
	// lib/amounts: not listed (and why): Amounts.Index (compare.Sort = the unstable sort.Slice over a function VALUE that may be nil; the result
	// depends on the iteration order unless cmp is a strict total order; not used by the balance report), CommodityMatches / AccountMatches /
	// OtherAccountMatches (regexp)
	{pkg: "lib/amounts", mod: "Amounts", funcs: []string{"AccountCommodityKey", "Amounts.Add",
		"DateKey", "DateCommodityKey", "CommodityKey", "AccountKey", "Amounts.Amount", "Amounts.Clone", "Amounts.Minus", "Amounts.Plus",
		"Amounts.Commodities", "Amounts.CommoditiesSorted", "Amounts.Dates", "Amounts.DatesSorted",
		"Amounts.SumIntoBy", "Amounts.SumBy", "Amounts.SumOver", "KeyMapper.Build", "FilterDates"},
		agree: map[string]string{"DateKey": "AmountsSum", "DateCommodityKey": "AmountsSum", "CommodityKey": "AmountsSum", "AccountKey": "AmountsSum",
			"Amounts.Amount": "AmountsSum", "Amounts.Clone": "AmountsSum", "Amounts.Minus": "AmountsSum", "Amounts.Plus": "AmountsSum",
			"Amounts.Commodities": "AmountsSum", "Amounts.CommoditiesSorted": "AmountsSum",
			"Amounts.Dates": "AmountsSum", "Amounts.DatesSorted": "AmountsSum", "Amounts.SumIntoBy": "AmountsSum", "Amounts.SumBy": "AmountsSum",
			"Amounts.SumOver": "AmountsSum", "KeyMapper.Build": "AmountsSum", "FilterDates": "AmountsSum"}},
	{pkg: "lib/journal/check", mod: "Check", funcs: []string{"Checker.open", "Checker.posting", "Checker.balance", "Checker.close"}},
	{pkg: "lib/common/table", mod: "Table", funcs: []string{"addThousandsSep", "TextRenderer.numToString"}},
	{pkg: "lib/model/price", mod: "Price", funcs: []string{
		"Multiply", "newNormalizedPrices", "Prices.addPrice", "Prices.Insert", "NormalizedPrices.Price", "NormalizedPrices.Valuate",
		"Prices.normalize", "Prices.Normalize",
	}},
	{pkg: "lib/common/predicate", mod: "Predicate", funcs: []string{"True"}},
	{pkg: "lib/common/mapper", mod: "Mapper", funcs: []string{"Identity"}},
	{pkg: "lib/model", mod: "Model", funcs: nil},
	{pkg: "lib/journal/printer", mod: "JPrinter", funcs: []string{"New", "Printer.Write", "padRight", "Printer.printPosting", "Printer.printOpen", "Printer.printClose",
		"Printer.printPrice", "Printer.printAssertion", "Printer.printTransaction", "Printer.PrintDirective", "Printer.PrintDirectiveLn",
		"Printer.UpdatePadding", "Printer.Initialize"}},
	{pkg: "lib/journal", mod: "Journal", funcs: []string{"ComputePrices", "Valuate", "Filter", "CloseAccounts", "CompareDays", "New", "Builder.Day", "Builder.Build",
		"Builder.Add", "Builder.Period", "Query.Into", "Sort", "Print"},
		agree: map[string]string{"ComputePrices": "Process", "Valuate": "Process", "Filter": "Process", "CloseAccounts": "Process", "Query.Into": "Query",
			"Sort": "JPrinter2", "Print": "JPrinter2"}},
	{pkg: "lib/journal/beancount", mod: "Beancount", funcs: []string{"stripNonAlphanum", "writePosting", "writeTrx", "Transcode"}},
	{pkg: "lib/reports/balance", mod: "Report", funcs: []string{"NewReport", "Report.Insert", "Report.SortAlpha", "Report.SortWeighted", "Report.Totals", "Renderer.render"}},
}

func (u *trUnit) agreeMod(fn string) string {
	if m, ok := u.agree[fn]; ok {
		return m
	}
	return u.mod
}

func (t *trTranslator) findFunc(p *trPkg, name string) *ast.FuncDecl {
	recv, fn := "", name
	if i := strings.Index(name, "."); i >= 0 {
		recv, fn = name[:i], name[i+1:]
	}
	for _, f := range p.files {
		for _, d := range f.Decls {
			fd, ok := d.(*ast.FuncDecl)
			if !ok || fd.Name.Name != fn {
				continue
			}
			r := ""
			if fd.Recv != nil && len(fd.Recv.List) == 1 {
				rt := fd.Recv.List[0].Type
				if st, ok := rt.(*ast.StarExpr); ok {
					rt = st.X
				}
				if ix, ok := rt.(*ast.IndexExpr); ok { // generic receiver Set[T]
					rt = ix.X
				}
				if id, ok := rt.(*ast.Ident); ok {
					r = id.Name
				}
			}
			if r == recv {
				return fd
			}
		}
	}
	return nil
}

// directEffect: the body needs the Outcome monad by itself
func (t *trTranslator) directEffect(f *trFunc) bool {
	if trDispatchOf[f] != nil {
		return false // dynamic dispatch over a closed sum (trans_units_tablerender.go)
	}
	if trFragsOf(f) != nil {
		return true // only fragments of the function are translated, each in the monad (trans_units_mapping.go)
	}
	return t.directEffectIn(f.pkg.info, f.decl.Body)
}

func (t *trTranslator) directEffectIn(info *types.Info, root ast.Node) bool {
	eff := false
	ast.Inspect(root, func(n ast.Node) bool {
		if trTableEffect(info, n) {
			eff = true // make([]T, n), a csv.Writer (trans_units_tablerender.go)
		}
		if trPerfEffect(info, n) {
			eff = true // dereference of a nilable pointer, store into a nilable map (trans_units_perf.go)
		}
		if trCreateEffect(info, n) {
			eff = true // r.Extract() on a syntax node (trans_units_create.go)
		}
		switch x := n.(type) {
		case *ast.ForStmt:
			eff = true
		case *ast.SliceExpr:
			eff = true
		case *ast.IndexExpr:
			if tv, ok := info.Types[x.X]; ok && tv.Type != nil {
				_, isMap := tv.Type.Underlying().(*types.Map)
				_, isFunc := tv.Type.Underlying().(*types.Signature) // F[T]: an instantiation, not an index
				if !isMap && !isFunc {
					eff = true
				}
			}
		case *ast.BinaryExpr:
			if x.Op == token.QUO || x.Op == token.REM {
				if tv := info.Types[x.Y]; tv.Value == nil || tv.Value.ExactString() == "0" {
					eff = true
				}
			}
		case *ast.AssignStmt:
			if x.Tok == token.QUO_ASSIGN || x.Tok == token.REM_ASSIGN {
				if tv := info.Types[x.Rhs[0]]; tv.Value == nil || tv.Value.ExactString() == "0" {
					eff = true
				}
			}
		case *ast.CallExpr:
			switch fn := trUnparen(x.Fun).(type) {
			case *ast.Ident:
				if b, ok := info.Uses[fn].(*types.Builtin); ok && b.Name() == "panic" {
					eff = true
				}
				if v, ok := info.Uses[fn].(*types.Var); ok && trSigOf(v.Type()) != nil {
					eff = true // a call of a function value (nil panics)
				}
			case *ast.SelectorExpr:
				var fo *types.Func
				if sel, ok := info.Selections[fn]; ok {
					fo, _ = sel.Obj().(*types.Func)
					if sel.Kind() == types.FieldVal && trSigOf(sel.Type()) != nil {
						eff = true // a call of a field of function type
					}
				} else {
					fo, _ = info.Uses[fn.Sel].(*types.Func)
				}
				if fo != nil {
					if p, ok := trPrims[fo.FullName()]; ok && p.effect {
						eff = true
					}
					if fo.FullName() == "sort.Search" {
						eff = true
					}
					if fo.Pkg() != nil && fo.Pkg().Path() == trMultimapPath && fo.Name() == "PostOrder" {
						eff = true // the traversal runs on fuel and its function may panic
					}
				}
			}
		}
		return true
	})
	return eff
}

func (t *trTranslator) callees(f *trFunc) []*trFunc {
	if d := trDispatchOf[f]; d != nil {
		return d.impls
	}
	if trFragsOf(f) != nil {
		return t.fragCallees(f) // only fragments of the function are translated (trans_units_mapping.go)
	}
	res := t.calleesIn(f.pkg.info, f.decl.Body)
	if !trCreateUnitSet[f.unit] {
		// the functions of the Create units are translated for those units only (trans_units_create.go)
		var keep []*trFunc
		for _, g := range res {
			if !trCreateUnitSet[g.unit] {
				keep = append(keep, g)
			}
		}
		res = keep
	}
	return res
}

func (t *trTranslator) calleesIn(info *types.Info, root ast.Node) []*trFunc {
	var res []*trFunc
	ast.Inspect(root, func(n ast.Node) bool {
		call, ok := n.(*ast.CallExpr)
		if !ok {
			return true
		}
		var fo *types.Func
		switch fn := trUnparen(call.Fun).(type) {
		case *ast.Ident:
			fo, _ = info.Uses[fn].(*types.Func)
		case *ast.SelectorExpr:
			if sel, ok := info.Selections[fn]; ok {
				fo, _ = sel.Obj().(*types.Func)
			} else {
				fo, _ = info.Uses[fn.Sel].(*types.Func)
			}
		case *ast.IndexExpr: // F[T](…): an explicit instantiation (trans_units_mapping.go)
			fo = trInstantiatedFunc(info, fn.X)
		case *ast.IndexListExpr:
			fo = trInstantiatedFunc(info, fn.X)
		}
		if fo != nil {
			if g := t.funcs[fo.Origin()]; g != nil && !t.builderCallFromOutside(info, fo) {
				res = append(res, g)
			}
		}
		if g, _ := t.writerCallee(info, call); g != nil {
			res = append(res, g) // fmt.Fprintf(p, …) calls p.Write
		}
		res = append(res, t.fmtCallees(info, call)...) // and the String methods of its operands
		return true
	})
	return res
}

// mutParams: parameters (receiver = index 0 of a method) of pointer or map type that the body assigns through
func (t *trTranslator) mutParams(f *trFunc) {
	if trDispatchOf[f] != nil || trFragsOf(f) != nil {
		return
	}
	sig := f.obj.Type().(*types.Signature)
	var params []*types.Var
	if sig.Recv() != nil {
		params = append(params, sig.Recv())
	}
	for i := 0; i < sig.Params().Len(); i++ {
		params = append(params, sig.Params().At(i))
	}
	c := &trCtx{t: t, fn: f, names: map[types.Object]string{}, used: map[string]bool{}}
	assigned := map[types.Object]bool{}
	for _, o := range c.assignedIn2(true, f.decl.Body) {
		assigned[o] = true
	}
	f.mut, f.mutObjs = nil, nil
	mv := t.writerMoveOf(f)
	for i, p := range params {
		if mv != nil && mv.param == p {
			// an io.Writer parameter moved into a local struct: the final text of the sink is returned (trans_units_jprinter.go)
			f.mut = append(f.mut, i)
			f.mutObjs = append(f.mutObjs, p)
			continue
		}
		switch p.Type().Underlying().(type) {
		case *types.Pointer, *types.Map:
			if assigned[p] {
				f.mut = append(f.mut, i)
				f.mutObjs = append(f.mutObjs, p)
			}
		case *types.Interface:
			// an io.Writer parameter that is written to: the text written so far, returned first (trans_units_beancount.go)
			if trIsWriter(p.Type()) && assigned[p] {
				f.mut = append(f.mut, i)
				f.mutObjs = append(f.mutObjs, p)
			}
		}
	}
}

func (t *trTranslator) translateFunc(f *trFunc) {
	defer func() {
		if r := recover(); r != nil {
			if rj, ok := r.(trReject); ok {
				f.rejected = &rj
				return
			}
			if _, ok := r.(trPureFail); ok {
				f.rejected = &trReject{f.decl.Pos(), "internal: effect outside an effectful position"}
				return
			}
			panic(r)
		}
	}()
	if d := trDispatchOf[f]; d != nil {
		t.translateDispatch(f, d)
		return
	}
	if trFragsOf(f) != nil {
		t.translateFragments(f) // designated parts of a function that as a whole is outside the subset (trans_units_mapping.go)
		return
	}
	if f.decl.Body == nil {
		trFail(f.decl.Pos(), "function without a body")
	}
	if errs := f.pkg.errorsIn(f.decl.Pos(), f.decl.End()); len(errs) > 0 {
		trFail(errs[0].Pos, "uses a declaration outside the prelude and the translated packages: %s", errs[0].Msg)
	}
	if ret, cbs := t.closureCtor(f); ret != nil {
		t.translateClosureCtor(f, ret, cbs)
		return
	}
	c := &trCtx{t: t, fn: f, names: map[types.Object]string{}, used: map[string]bool{"fuel": true}}
	c.writerMove = t.writerMoveOf(f)
	c.ambientDeclare() // color.NoColor, the float formatter (trans_units_tablerender.go)
	sig := f.obj.Type().(*types.Signature)
	if sig.Variadic() && !trVariadicOK[f.obj.FullName()] {
		trFail(f.decl.Pos(), "variadic function is outside the subset")
	}
	// reserve the names of all identifiers of the function so that generated temporaries cannot collide
	ast.Inspect(f.decl, func(n ast.Node) bool {
		if id, ok := n.(*ast.Ident); ok {
			_ = id
		}
		return true
	})
	var params []string
	// type parameters (of the function or of its generic receiver): comparable → DecidableEq; every one may be zero-valued
	addTParams := func(l *types.TypeParamList) {
		if l == nil {
			return
		}
		for i := 0; i < l.Len(); i++ {
			tp := l.At(i)
			n := trMangle(tp.Obj().Name())
			if trTParamUnused(tp, sig) {
				continue // occurs only in the constraints of other type parameters (mapper.Nil[P interface{*T}, T any]) (trans_units_mapping.go)
			}
			switch cons := tp.Constraint().String(); cons {
			case "comparable":
				params = append(params, "{"+n+" : Type} [DecidableEq "+n+"] [GoZero "+n+"]")
			case "any", "interface{}":
				params = append(params, "{"+n+" : Type} [GoZero "+n+"]")
			default:
				if ps, ok := c.constraintParams(tp, sig); ok {
					params = append(params, ps...) // a pointer constraint / an interface of methods as dictionary parameters (trans_units_mapping.go)
					continue
				}
				trFail(f.decl.Pos(), "type parameter %s with the constraint %s is outside the subset", n, cons)
			}
		}
	}
	addTParams(sig.RecvTypeParams())
	addTParams(sig.TypeParams())
	c.opaqueParams = map[types.Object]bool{}
	addParam := func(v *types.Var, pos token.Pos) {
		// a parameter whose type is not translatable (the registry, a syntax node) is dropped: it may only occur inside calls of
		// untranslated functions, whose results are parameters themselves
		var lt string
		func() {
			defer func() {
				if r := recover(); r != nil {
					if _, ok := r.(trReject); ok {
						lt = ""
						return
					}
					panic(r)
				}
			}()
			lt = c.varType(v, pos)
		}()
		if lt == "" {
			c.opaqueParams[v] = true
			return
		}
		n := c.local(v)
		if n == "_" || n == "" {
			n = c.fresh("unused")
		}
		params = append(params, "("+n+" : "+lt+")")
	}
	if sig.Recv() != nil {
		addParam(sig.Recv(), f.decl.Pos())
	}
	for i := 0; i < sig.Params().Len(); i++ {
		addParam(sig.Params().At(i), f.decl.Pos())
	}
	// a method whose body is `return func(params) T { … }` is translated as the curried function (Partition.Align)
	body := f.decl.Body.List
	results := sig.Results()
	if len(body) == 1 {
		if ret, ok := body[0].(*ast.ReturnStmt); ok && len(ret.Results) == 1 {
			if fl, ok := ret.Results[0].(*ast.FuncLit); ok {
				fsig, ok := c.typeOf(fl).(*types.Signature)
				if !ok {
					trFail(fl.Pos(), "function literal without a signature")
				}
				for i := 0; i < fsig.Params().Len(); i++ {
					addParam(fsig.Params().At(i), fl.Pos())
				}
				body = fl.Body.List
				results = fsig.Results()
				trCurried[f] = fsig.Params().Len() // a call with the outer arguments only is a function value (trans_units_mapping.go)
				c.inCallback = true // the returned closure runs many times: untranslated calls are FUNCTIONS of their arguments (trans_units_mapping.go)
			}
		}
	}
	// named results: locals that start at their zero values (every return must list its values: a bare return is rejected)
	var namedRes [][2]string
	for i := 0; i < results.Len(); i++ {
		if r := results.At(i); r.Name() != "" && r.Name() != "_" {
			namedRes = append(namedRes, [2]string{c.local(r), c.leanType(r.Type(), f.decl.Pos())})
		}
	}
	c.nresults = results.Len()
	for i := 0; i < results.Len(); i++ {
		c.resultTypes = append(c.resultTypes, results.At(i).Type())
	}
	// result type: the new values of the parameters assigned through, then the results
	var rts []string
	for _, m := range f.mutObjs {
		rts = append(rts, c.leanType(m.Type(), f.decl.Pos()))
	}
	for i := 0; i < results.Len(); i++ {
		rts = append(rts, c.perfResultType(results.At(i).Type(), f.decl.Pos()))
	}
	switch len(rts) {
	case 0:
		f.resType = "Unit"
	case 1:
		f.resType = rts[0]
	default:
		f.resType = "(" + strings.Join(rts, " × ") + ")"
	}
	end := func() trLines {
		if results.Len() > 0 {
			trFail(f.decl.End(), "internal: control reaches the end of a function with results")
		}
		return c.returnTerm(nil, f.decl.End())
	}
	term := c.stmts(body, end)
	for i := len(namedRes) - 1; i >= 0; i-- {
		term = trLet(namedRes[i][0], namedRes[i][1], trOne("GoZero.zero"), term)
	}
	params = append(params, c.extraParams...)
	f.norder = len(c.extraParams)
	f.extras = c.extraTypes
	ret := f.resType
	if f.effect {
		ret = "Outcome " + f.resType
	}
	var b strings.Builder
	for _, a := range c.aux {
		b.WriteString(a + "\n")
	}
	extDoc := ""
	if len(c.externals) > 0 {
		extDoc = "; results of untranslated calls as parameters: " + strings.Join(c.externals, ", ")
	}
	fmt.Fprintf(&b, "/-- Go: `%s` (%s)%s -/\n", trSigText(f.decl), t.l.relPos(f.decl.Pos()), extDoc)
	fmt.Fprintf(&b, "def %s %s : %s :=\n%s\n", f.leanName, strings.Join(params, " "), ret, term.indent(2).String())
	b.WriteString(c.createExternalsDef()) // (trans_units_create.go)
	f.text = b.String()
}

func trSigText(fd *ast.FuncDecl) string {
	s := "func "
	if fd.Recv != nil && len(fd.Recv.List) == 1 {
		s += "(" + trTypeText(fd.Recv.List[0].Type) + ") "
	}
	return s + fd.Name.Name
}

func trTypeText(e ast.Expr) string {
	switch x := e.(type) {
	case *ast.Ident:
		return x.Name
	case *ast.StarExpr:
		return "*" + trTypeText(x.X)
	}
	return "?"
}

// needPkgVar: package-level `var x = e` with a translatable initialiser that is never assigned → def
func (t *trTranslator) needPkgVar(u *trUnit, o *types.Var, pos token.Pos) {
	if t.declSeen[o] {
		return
	}
	t.declSeen[o] = true
	p := t.l.pkgs[o.Pkg().Path()]
	var init ast.Expr
	for _, f := range p.files {
		for _, d := range f.Decls {
			gd, ok := d.(*ast.GenDecl)
			if !ok || gd.Tok != token.VAR {
				continue
			}
			for _, sp := range gd.Specs {
				vs := sp.(*ast.ValueSpec)
				for i, n := range vs.Names {
					if p.info.Defs[n] == o && i < len(vs.Values) && len(vs.Values) == len(vs.Names) {
						init = vs.Values[i]
					}
				}
			}
		}
		// never assigned anywhere in the package
		ast.Inspect(f, func(n ast.Node) bool {
			switch x := n.(type) {
			case *ast.AssignStmt:
				for _, l := range x.Lhs {
					if id := trBaseIdent(l); id != nil && p.info.Uses[id] == o {
						trFail(x.Pos(), "package variable %s is assigned here: outside the subset", o.Name())
					}
				}
			case *ast.UnaryExpr:
				if x.Op == token.AND {
					if id := trBaseIdent(x.X); id != nil && p.info.Uses[id] == o {
						trFail(x.Pos(), "the address of package variable %s is taken here: outside the subset", o.Name())
					}
				}
			}
			return true
		})
	}
	if init == nil {
		trFail(pos, "package variable %s has no single initialiser", o.Name())
	}
	f := &trFunc{unit: u, pkg: p, leanName: o.Name()}
	c := &trCtx{t: t, fn: f, names: map[types.Object]string{}, used: map[string]bool{}}
	val := c.expr(init)
	ty := c.leanType(o.Type(), pos)
	t.decls[u] = append(t.decls[u], fmt.Sprintf("/-- Go: `var %s` (%s) -/\ndef %s : %s := %s\n", o.Name(), t.l.relPos(o.Pos()), trMangle(o.Name()), ty, val))
}

// run translates all units; returns file name → content and the list of rejections
func trRun(repo string) (map[string]string, []string) {
	l := newTrLoader(repo)
	t := &trTranslator{l: l, units: trUnits, funcs: map[*types.Func]*trFunc{}, byUnit: map[*trUnit][]*trFunc{}, unitOf: map[string]*trUnit{},
		decls: map[*trUnit][]string{}, declSeen: map[types.Object]bool{}, imports: map[*trUnit]map[*trUnit]bool{}, omitted: map[types.Object]map[string]bool{}}
	files := map[string]string{}
	for _, u := range trUnits {
		if t.unitOf[trKnutPath+u.pkg] == nil { // several units may share a Go package: its types belong to the first (trans_units_create.go)
			t.unitOf[trKnutPath+u.pkg] = u
		}
	}
	for _, u := range trUnits {
		p, err := l.load(trKnutPath + u.pkg)
		if err != nil {
			t.rejects = append(t.rejects, fmt.Sprintf("trans-reject %s *: cannot load package %s: %v", u.mod, u.pkg, err))
			continue
		}
		for _, name := range u.funcs {
			fd := t.findFunc(p, name)
			if fd == nil {
				t.rejects = append(t.rejects, fmt.Sprintf("trans-reject %s %s: function not found in %s", u.agreeMod(name), name, u.pkg))
				continue
			}
			obj, _ := p.info.Defs[fd.Name].(*types.Func)
			if obj == nil {
				t.rejects = append(t.rejects, fmt.Sprintf("trans-reject %s %s: no type information", u.mod, name))
				continue
			}
			parts := strings.Split(name, ".")
			for i := range parts {
				parts[i] = trMangle(parts[i])
			}
			f := &trFunc{unit: u, pkg: p, decl: fd, obj: obj, leanName: strings.Join(parts, ".")}
			t.funcs[obj] = f
			t.byUnit[u] = append(t.byUnit[u], f)
		}
	}
	t.addDispatchFuncs() // interface methods of closed sums (trans_units_tablerender.go)
	// parameters assigned through, then effects, both to a fixpoint over the call graph
	var all []*trFunc
	for _, u := range trUnits {
		all = append(all, t.byUnit[u]...)
	}
	for changed := true; changed; {
		changed = false
		for _, f := range all {
			n := len(f.mut)
			t.mutParams(f)
			if len(f.mut) != n {
				changed = true
			}
		}
	}
	for _, f := range all {
		f.effect = t.directEffect(f)
	}
	for changed := true; changed; {
		changed = false
		for _, f := range all {
			if f.effect {
				continue
			}
			for _, g := range t.callees(f) {
				if g.effect {
					f.effect, changed = true, true
				}
			}
		}
	}
	// translate in call order (callees first); a rejected callee rejects its callers
	done := map[*trFunc]bool{}
	order := map[*trUnit][]*trFunc{}
	var visit func(f *trFunc, stack map[*trFunc]bool)
	visit = func(f *trFunc, stack map[*trFunc]bool) {
		if done[f] {
			return
		}
		if stack[f] {
			f.rejected = &trReject{f.decl.Pos(), "recursive function is outside the subset"}
			return
		}
		stack[f] = true
		for _, g := range t.callees(f) {
			if g != f {
				visit(g, stack)
			} else {
				f.rejected = &trReject{f.decl.Pos(), "recursive function is outside the subset"}
			}
		}
		for _, g := range t.valueRefs(f) {
			if g != f {
				visit(g, stack) // a translated function used as a VALUE is emitted before its user too (trans_units_mapping.go)
			}
		}
		delete(stack, f)
		if done[f] {
			return
		}
		done[f] = true
		if f.rejected == nil {
			for _, g := range t.callees(f) {
				if g.rejected != nil {
					f.rejected = &trReject{f.decl.Pos(), "calls " + g.leanName + ", which is rejected"}
				}
			}
		}
		if f.rejected == nil {
			t.translateFunc(f)
		}
		order[f.unit] = append(order[f.unit], f)
	}
	for _, f := range all {
		visit(f, map[*trFunc]bool{})
	}
	// output
	var index strings.Builder
	index.WriteString("/- GENERATED by `harness extract` (harness/trans*.go) on every run of bin/check. Do not edit. -/\nnamespace Knut.Generated.Trans\n\n")
	index.WriteString("/-- (module, Go function, \"translated\" or the reason of the rejection) -/\ndef functions : List (String × String × String) := [\n")
	first := true
	for _, u := range trUnits {
		var b strings.Builder
		ns := t.leanNS(u)
		var body strings.Builder
		for _, f := range order[u] {
			status := "translated"
			if f.rejected != nil {
				where := l.relPos(f.rejected.pos)
				status = where + ": " + f.rejected.msg
				t.rejects = append(t.rejects, fmt.Sprintf("trans-reject %s %s: %s: %s", u.agreeMod(f.leanName), f.leanName, where, f.rejected.msg))
				fmt.Fprintf(&body, "-- REJECTED %s: %s: %s\n\n", f.leanName, where, f.rejected.msg)
			} else {
				body.WriteString(f.text + "\n")
			}
			if !first {
				index.WriteString(",\n")
			}
			first = false
			fmt.Fprintf(&index, "  (%s, %s, %s)", trLeanStr(u.mod), trLeanStr(f.leanName), trLeanStr(status))
		}
		fmt.Fprintf(&b, "/- GENERATED by `harness extract` (harness/trans*.go) from %s/*.go on every run of bin/check. Do not edit.\n   Meaning of the primitives: lean/Knut/GoSem; agreement with the model: lean/Knut/FactsAgree/Trans%s.lean. -/\n", u.pkg, u.mod)
		b.WriteString("import Knut.GoSem.Basic\nimport Knut.GoSem.Time\nimport Knut.GoSem.Decimal\nimport Knut.GoSem.Strings\n")
		if t.usesTree[u] {
			b.WriteString("import Knut.GoSem.Multimap\n")
		}
		if s := body.String(); strings.Contains(s, "Fmt.pad") || strings.Contains(s, "Writer.Write") || strings.Contains(s, "Strings.Join") || strings.Contains(s, "Time.FormatISO") {
			b.WriteString("import Knut.GoSem.Fmt\n") // io.Writer, fmt's padding, strings.Join, Time.Format (trans_units_jprinter.go)
		}
		b.WriteString(trPerfImports(body.String() + strings.Join(t.decls[u], "\n")))
		b.WriteString(trTableImports(body.String() + strings.Join(t.decls[u], "\n")))
		b.WriteString(trCreateImports(body.String())) // syntax nodes, time.Parse, decimal.NewFromString (trans_units_create.go)
		b.WriteString(trImportImports(body.String())) // time.Parse with the importers' layouts (trans_units_import.go)
		for _, imp := range trMappingImports(body.String() + strings.Join(t.decls[u], "\n")) {
			b.WriteString(imp + "\n") // Regexp.Ptr (trans_units_mapping.go)
		}
		for _, imp := range trBeanImports(body.String()) {
			b.WriteString(imp + "\n") // Regexp, Strings.HasPrefix, sortSlice (trans_units_beancount.go)
		}
		var imps []string
		for v := range t.imports[u] {
			imps = append(imps, "import Knut.Generated.Trans"+v.mod)
		}
		sort.Strings(imps)
		for _, s := range imps {
			b.WriteString(s + "\n")
		}
		fmt.Fprintf(&b, "set_option linter.unusedVariables false\nnamespace %s\nopen Knut Knut.GoSem\n\n", ns)
		for _, d := range t.decls[u] {
			b.WriteString(d + "\n")
		}
		b.WriteString(body.String())
		fmt.Fprintf(&b, "end %s\n", ns)
		files["Trans"+u.mod+".lean"] = b.String()
	}
	index.WriteString("\n]\n\nend Knut.Generated.Trans\n")
	files["Trans.lean"] = index.String()
	return files, t.rejects
}

// trWrite writes the generated modules next to Facts.lean (only the files whose content changed)
func trWrite(repo, dir string) {
	files, rejects := trRun(repo)
	for name, content := range files {
		path := filepath.Join(dir, name)
		if old, err := os.ReadFile(path); err == nil && string(old) == content {
			continue
		}
		tmp := path + ".tmp"
		if err := os.WriteFile(tmp, []byte(content), 0o644); err != nil {
			fatalf("%v", err)
		}
		if err := os.Rename(tmp, path); err != nil {
			fatalf("%v", err)
		}
	}
	for _, r := range rejects {
		fmt.Println(r)
	}
}
