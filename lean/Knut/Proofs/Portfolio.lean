import Knut.Model.Weights
import Knut.Proofs.Builder
import Knut.Proofs.Partition
/-! Lemmas for C20 (exact-arithmetic model of `portfolio returns` / `portfolio weights`). -/
namespace Knut.Performance
open Knut

/-! ### the days of a run -/

theorem perfDay_date {cfg : Cfg} {ps ps' : PState} {d : Day} {p : DayPerf} (h : perfDay cfg ps d = .ok (ps', p)) :
    p.date = d.date ∧ p.v0 = ps.prev ∧ p.v1 = ps'.prev := by
  unfold perfDay at h
  simp only [bind, Except.bind] at h
  split at h
  · cases h
  · injection h with h
    injection h with h1 h2
    subst h1; subst h2
    exact ⟨rfl, rfl, rfl⟩

/-- one record per day, in order -/
theorem perfFrom_dates {cfg : Cfg} : ∀ (days : List Day) (ps : PState) (perfs : List DayPerf),
    perfFrom cfg ps days = .ok perfs → perfs.map (·.date) = days.map (·.date) := by
  intro days
  induction days with
  | nil => intro ps perfs h; simp only [perfFrom] at h; injection h with h; subst h; rfl
  | cons d rest ih =>
    intro ps perfs h
    simp only [perfFrom, bind, Except.bind] at h
    cases hd : perfDay cfg ps d with
    | error e => rw [hd] at h; cases h
    | ok r =>
      obtain ⟨ps1, p⟩ := r
      rw [hd] at h; simp only at h
      cases hr : perfFrom cfg ps1 rest with
      | error e => rw [hr] at h; cases h
      | ok perfs' =>
        rw [hr] at h; simp only at h
        injection h with h; subst h
        simp [(perfDay_date hd).1, ih ps1 perfs' hr]

/-- `V0` of a day is `V1` of the day before (`prev` is handed on) -/
def Linked : AMap Commodity Rat → List DayPerf → Prop
  | _, [] => True
  | prev, p :: rest => p.v0 = prev ∧ Linked p.v1 rest

theorem perfFrom_linked {cfg : Cfg} : ∀ (days : List Day) (ps : PState) (perfs : List DayPerf),
    perfFrom cfg ps days = .ok perfs → Linked ps.prev perfs := by
  intro days
  induction days with
  | nil => intro ps perfs h; simp only [perfFrom] at h; injection h with h; subst h; trivial
  | cons d rest ih =>
    intro ps perfs h
    simp only [perfFrom, bind, Except.bind] at h
    cases hd : perfDay cfg ps d with
    | error e => rw [hd] at h; cases h
    | ok r =>
      obtain ⟨ps1, p⟩ := r
      rw [hd] at h; simp only at h
      cases hr : perfFrom cfg ps1 rest with
      | error e => rw [hr] at h; cases h
      | ok perfs' =>
        rw [hr] at h; simp only at h
        injection h with h; subst h
        obtain ⟨_, h0, h1⟩ := perfDay_date hd
        exact ⟨h0, by rw [h1]; exact ih ps1 perfs' hr⟩

/-! ### one line per period -/

/-- the dates `Perf` prints: the days inside the window that are period end days -/
theorem perfLines_dates (span : Period) (ends : List Int) : ∀ (perfs : List DayPerf) (r : Option Rat),
    (perfLines span ends r perfs).map (·.1) =
      (perfs.map (·.date)).filter (fun d => span.contains d && ends.contains d) := by
  intro perfs
  induction perfs with
  | nil => intro r; rfl
  | cons p rest ih =>
    intro r
    unfold perfLines
    by_cases hc : span.contains p.date = true
    · simp only [hc, Bool.not_true, Bool.false_eq_true, if_false, List.map_cons, List.filter_cons, Bool.true_and]
      by_cases he : ends.contains p.date = true
      · simp only [he, if_true, List.map_cons, ih]
      · have he' : ends.contains p.date = false := by simpa using he
        simp only [he', Bool.false_eq_true, if_false, ih]
    · have hc' : span.contains p.date = false := by simpa using hc
      simp only [hc', Bool.not_false, if_true, List.map_cons, List.filter_cons, Bool.false_and, Bool.false_eq_true, if_false, ih]

/-- sorted lists with the same elements are equal -/
theorem sorted_ext : ∀ (a b : List Int), List.Pairwise (· < ·) a → List.Pairwise (· < ·) b →
    (∀ x, x ∈ a ↔ x ∈ b) → a = b := sorted_dates_unique

theorem pairwise_filter_lt {l : List Int} (f : Int → Bool) (h : List.Pairwise (· < ·) l) : List.Pairwise (· < ·) (l.filter f) :=
  h.sublist List.filter_sublist

/-- **every period**: if the period end days exist in the journal (they are registered before it is built), the printed
dates are exactly the period ends inside the window, each once, in order -/
theorem perfLines_every_period (span : Period) (ends : List Int) (perfs : List DayPerf) (r : Option Rat)
    (hs : List.Pairwise (· < ·) (perfs.map (·.date))) (he : List.Pairwise (· < ·) ends)
    (hreg : ∀ e ∈ ends, e ∈ perfs.map (·.date)) :
    (perfLines span ends r perfs).map (·.1) = ends.filter (fun e => span.contains e) := by
  rw [perfLines_dates]
  apply sorted_ext _ _ (pairwise_filter_lt _ hs) (pairwise_filter_lt _ he)
  intro x
  simp only [List.mem_filter, Bool.and_eq_true, List.contains_iff_mem]
  constructor
  · rintro ⟨_, h1, h2⟩; exact ⟨h2, h1⟩
  · rintro ⟨h1, h2⟩; exact ⟨hreg x h1, h2, h1⟩

/-! ### the chained return -/

theorem mulOpt_one (a : Option Rat) : mulOpt a (some 1) = a := by
  cases a <;> simp [mulOpt, Rat.mul_one]

/-- **zero return**: if every day inside the window has growth factor 1, every reported return is 0 -/
theorem perfLines_all_one (span : Period) (ends : List Int) : ∀ (perfs : List DayPerf),
    (∀ p ∈ perfs, span.contains p.date = true → factor p = some 1) →
    ∀ l ∈ perfLines span ends (some 1) perfs, l.2 = some 0 := by
  intro perfs
  induction perfs with
  | nil => intro _ l hl; simp [perfLines] at hl
  | cons p rest ih =>
    intro h l hl
    have ih' := ih (fun q hq => h q (List.mem_cons_of_mem _ hq))
    unfold perfLines at hl
    by_cases hc : span.contains p.date = true
    · simp only [hc, Bool.not_true, Bool.false_eq_true, if_false, h p List.mem_cons_self hc, mulOpt_one] at hl
      split at hl
      · rcases List.mem_cons.mp hl with rfl | hl
        · simp [Rat.sub_self]
        · exact ih' l hl
      · exact ih' l hl
    · have hc' : span.contains p.date = false := by simpa using hc
      simp only [hc', Bool.not_false, if_true] at hl
      exact ih' l hl

/-- the growth factor is 1 when the change in value equals the net flow (and the denominator is not zero) -/
theorem factor_one_of_net_flow (p : DayPerf) (hpf : p.portfolioFlows = 0)
    (hnet : sumVals p.v1 - sumVals p.v0 = p.inflow + p.outflow) (hden : sumVals p.v0 + p.inflow ≠ 0) :
    factor p = some 1 := by
  unfold factor
  simp only [hpf, Rat.lt_irrefl, if_false, Rat.zero_add]
  split
  · rfl
  · first | rw [if_neg hden] | skip
    have : sumVals p.v1 - p.outflow = sumVals p.v0 + p.inflow := by grind
    rw [this, Rat.div_def, Rat.mul_inv_cancel _ hden]

/-- without flows the growth factor is `V1 / V0` -/
theorem factor_no_flows (p : DayPerf) (hpf : p.portfolioFlows = 0) (hi : p.inflow = 0) (ho : p.outflow = 0)
    (h0 : sumVals p.v0 ≠ 0) : factor p = some (sumVals p.v1 / sumVals p.v0) := by
  unfold factor
  simp only [hpf, hi, ho, Rat.lt_irrefl, if_false, Rat.add_zero, Rat.sub_eq_add_neg, Rat.neg_zero, and_self, and_true]
  split
  · rename_i heq
    rw [← heq, Rat.div_def, Rat.mul_inv_cancel _ h0]
  · first | rfl | rw [if_neg h0]

/-- the days of one period: consecutive records, all inside the window, none but the last a period end -/
def chainFactor (start : Rat) : List DayPerf → Rat
  | [] => start
  | p :: rest => chainFactor (start * (sumVals p.v1 / sumVals p.v0)) rest

/-- `V1` of the last record (`prev` if there is none) -/
def lastV1 : AMap Commodity Rat → List DayPerf → AMap Commodity Rat
  | prev, [] => prev
  | _, p :: rest => lastV1 p.v1 rest

/-- telescoping: over linked days without flows the chained factor is (last V1) / (first V0) -/
theorem chain_telescopes : ∀ (perfs : List DayPerf) (prev : AMap Commodity Rat) (acc first : Rat),
    Linked prev perfs → (∀ p ∈ perfs, sumVals p.v0 ≠ 0) → first ≠ 0 → acc = sumVals prev / first →
    chainFactor acc perfs = sumVals (lastV1 prev perfs) / first := by
  intro perfs
  induction perfs with
  | nil => intro prev acc first _ _ _ ha; simp [chainFactor, lastV1, ha]
  | cons p rest ih =>
    intro prev acc first hl hnz hf ha
    obtain ⟨h0, hl'⟩ := hl
    simp only [chainFactor]
    have hp0 := hnz p List.mem_cons_self
    have hacc : acc * (sumVals p.v1 / sumVals p.v0) = sumVals p.v1 / first := by
      rw [ha, ← h0, Rat.div_def, Rat.div_def, Rat.div_def]
      calc sumVals p.v0 * first⁻¹ * (sumVals p.v1 * (sumVals p.v0)⁻¹)
          = sumVals p.v1 * first⁻¹ * (sumVals p.v0 * (sumVals p.v0)⁻¹) := by grind
        _ = sumVals p.v1 * first⁻¹ := by rw [Rat.mul_inv_cancel _ hp0, Rat.mul_one]
    rw [ih p.v1 _ first hl' (fun q hq => hnz q (List.mem_cons_of_mem _ hq)) hf hacc]
    rfl

/-- what `Perf` prints for a period whose days (inside the window, none before the last a period end) carry no flows:
the chained factor minus one -/
theorem perfLines_period (span : Period) (ends : List Int) : ∀ (days : List DayPerf) (last : DayPerf) (rest : List DayPerf)
    (r : Rat),
    (∀ p ∈ days, span.contains p.date = true ∧ ends.contains p.date = false) →
    span.contains last.date = true → ends.contains last.date = true →
    (∀ p ∈ days ++ [last], p.portfolioFlows = 0 ∧ p.inflow = 0 ∧ p.outflow = 0 ∧ sumVals p.v0 ≠ 0) →
    (perfLines span ends (some r) (days ++ last :: rest)).head? =
      some (last.date, some (chainFactor r (days ++ [last]) - 1)) := by
  intro days
  induction days with
  | nil =>
    intro last rest r _ hc he hf
    obtain ⟨f1, f2, f3, f4⟩ := hf last (by simp)
    simp only [List.nil_append]
    unfold perfLines
    simp only [hc, he, Bool.not_true, Bool.false_eq_true, if_false, if_true, factor_no_flows last f1 f2 f3 f4, mulOpt,
      List.head?_cons, Option.map_some, chainFactor]
  | cons p days' ih =>
    intro last rest r hd hc he hf
    obtain ⟨c1, c2⟩ := hd p List.mem_cons_self
    obtain ⟨f1, f2, f3, f4⟩ := hf p (by simp)
    simp only [List.cons_append]
    unfold perfLines
    simp only [c1, c2, Bool.not_true, Bool.false_eq_true, if_false, factor_no_flows p f1 f2 f3 f4, mulOpt, chainFactor]
    exact ih last rest _ (fun q hq => hd q (List.mem_cons_of_mem _ hq)) hc he
      (fun q hq => hf q (by simp only [List.cons_append, List.mem_cons]; exact Or.inr hq))

/-! ### the days of the built journal -/

theorem ensureDays_sorted : ∀ (dates : List Int) (days : List Day), Sorted days → Sorted (dates.foldl insertDay days) := by
  intro dates
  induction dates with
  | nil => intro days h; exact h
  | cons x rest ih => intro days h; exact ih _ (insertDay_sorted days x h)

theorem ensureDays_mem : ∀ (dates : List Int) (days : List Day) (x : Int),
    x ∈ (dates.foldl insertDay days).map (·.date) ↔ x ∈ dates ∨ x ∈ days.map (·.date) := by
  intro dates
  induction dates with
  | nil => intro days x; simp
  | cons y rest ih =>
    intro days x
    simp only [List.foldl_cons]
    rw [ih, insertDay_mem_dates]
    simp only [List.mem_cons]
    constructor
    · rintro (h | h | h)
      · exact Or.inl (Or.inr h)
      · exact Or.inl (Or.inl h)
      · exact Or.inr h
    · rintro ((h | h) | h)
      · exact Or.inr (Or.inl h)
      · exact Or.inl h
      · exact Or.inr (Or.inr h)

/-- the journal the portfolio commands process: sorted by date, and holding every period end day -/
theorem setup_days {f : Flags} {ds : List Directive} {part : Partition} {days : List Day}
    (h : setup f ds = .ok (part, days)) :
    List.Pairwise (· < ·) (days.map (·.date)) ∧ (∀ e ∈ part.endDates, e ∈ days.map (·.date)) ∧
    ∃ window, newPartition window f.interval f.last = .ok part := by
  unfold setup at h
  simp only at h
  split at h
  · cases h
  · rename_i part' hnp
    injection h with h
    injection h with h1 h2
    subst h1; subst h2
    have hs := (ofList_spec openKind ds).1
    refine ⟨?_, ?_, _, hnp⟩
    · unfold Builder.build Builder.ensureDays
      simp only
      rw [List.pairwise_map]
      exact ensureDays_sorted _ _ hs
    · intro e he
      unfold Builder.build Builder.ensureDays
      simp only
      exact (ensureDays_mem _ _ e).mpr (Or.inl he)

/-! ### the period ends of a partition -/

theorem tiles_stops_decreasing {a : Int} {iv : Interval} : ∀ {e : Int} {L : List Period}, Tiles a iv e L →
    List.Pairwise (fun p q => q.stop < p.stop) L
  | _, [], _ => List.Pairwise.nil
  | e, p :: rest, h => by
    unfold Tiles at h
    obtain ⟨h1, _, _, h4, h5⟩ := h
    rw [List.pairwise_cons]
    refine ⟨?_, tiles_stops_decreasing h5⟩
    intro q hq
    have := (Tiles.mem_bounds h5 q hq).2.2.1
    omega

theorem tiles_within {a : Int} {iv : Interval} {e : Int} {L : List Period} (h : Tiles a iv e L) :
    ∀ p ∈ L, a ≤ p.stop ∧ p.stop ≤ e := by
  intro p hp
  have := Tiles.mem_bounds h p hp
  omega

theorem newPartition_span {span : Period} {iv : Interval} {last : Int} {P : Partition}
    (h : newPartition span iv last = .ok P) : P.span = span := by
  unfold newPartition at h
  split at h
  · cases h
  · injection h with h; subst h; rfl

/-- the period ends of a partition increase strictly, and lie inside a non-empty window -/
theorem endDates_increasing {span : Period} {iv : Interval} {last : Int} {P : Partition}
    (h : newPartition span iv last = .ok P) :
    List.Pairwise (· < ·) P.endDates ∧ (span.start ≤ span.stop → ∀ e ∈ P.endDates, span.contains e = true) := by
  unfold newPartition at h
  split at h
  · cases h
  · injection h with h; subst h
    unfold Partition.endDates
    simp only
    unfold periodsOf
    split
    · refine ⟨by simp, ?_⟩
      intro hle e he
      simp only [List.map_cons, List.map_nil, List.mem_singleton] at he
      subst he
      simp [Period.contains]; omega
    · have key : ∀ L : List Period, List.Pairwise (fun p q => q.stop < p.stop) L → (∀ p ∈ L, span.start ≤ p.stop ∧ p.stop ≤ span.stop) →
          List.Pairwise (· < ·) (L.reverse.map (·.stop)) ∧ (span.start ≤ span.stop → ∀ e ∈ L.reverse.map (·.stop), span.contains e = true) := by
        intro L hp hb
        constructor
        · rw [List.pairwise_map, List.pairwise_reverse]; exact hp
        · intro _ e he
          obtain ⟨p, hpL, rfl⟩ := List.mem_map.mp he
          have := hb p (List.mem_reverse.mp hpL)
          simp [Period.contains]; omega
      by_cases hl : last ≤ 0
      · have ht := partLoop_tiles span.start iv last span.stop 0 hl
        exact key _ (tiles_stops_decreasing ht) (tiles_within ht)
      · rw [partLoop_last _ _ _ _ _ (by omega) (Int.le_refl _) (by omega)]
        have ht := partLoop_tiles span.start iv 0 span.stop 0 (Int.le_refl _)
        exact key _ ((tiles_stops_decreasing ht).sublist (List.take_sublist _ _))
          (fun p hp => tiles_within ht p (List.mem_of_mem_take hp))

/-! ### the first reported period (repair `32cd4f9`: `Perf` skips the days before it) -/

theorem tiles_starts_decreasing {a : Int} {iv : Interval} : ∀ {e : Int} {L : List Period}, Tiles a iv e L →
    List.Pairwise (fun p q => q.stop < p.start) L
  | _, [], _ => List.Pairwise.nil
  | e, p :: rest, h => by
    unfold Tiles at h
    obtain ⟨_, _, _, _, h5⟩ := h
    rw [List.pairwise_cons]
    refine ⟨?_, tiles_starts_decreasing h5⟩
    intro q hq
    have := (Tiles.mem_bounds h5 q hq).2.2.1
    omega

/-- in a newest-first list with decreasing, well-formed periods the oldest start is below every end -/
theorem oldest_start_le : ∀ (L : List Period), List.Pairwise (fun p q => q.stop < p.start) L →
    (∀ p ∈ L, p.start ≤ p.stop) → ∀ s, (L.reverse.map (·.start)).head? = some s → ∀ p ∈ L, s ≤ p.stop := by
  intro L hp hw s hs p hpL
  rw [List.head?_map, List.head?_reverse] at hs
  cases hl : L.getLast? with
  | none => rw [hl] at hs; cases hs
  | some q =>
    rw [hl] at hs; injection hs with hs; subst hs
    have hq : q ∈ L := List.mem_of_getLast? hl
    by_cases hpq : p = q
    · subst hpq; exact hw p hpL
    · -- p comes before q in L
      obtain ⟨init, hinit⟩ : ∃ init, L = init ++ [q] := List.getLast?_eq_some_iff.mp hl
      subst hinit
      rw [List.pairwise_append] at hp
      have hpi : p ∈ init := by
        rcases List.mem_append.mp hpL with h | h
        · exact h
        · simp at h; exact absurd h hpq
      have h1 := hp.2.2 p hpi q (by simp)
      have h2 := hw p hpL
      have h3 := hw q (by simp)
      show q.start ≤ p.stop
      omega

/-- every reported period end inside the span is not before the first reported period start -/
theorem first_start_le_end {span : Period} {iv : Interval} {last : Int} {P : Partition}
    (h : newPartition span iv last = .ok P) :
    ∀ s, P.startDates.head? = some s → ∀ e ∈ P.endDates, span.contains e = true → s ≤ e := by
  unfold newPartition at h
  split at h
  · cases h
  · injection h with h; subst h
    unfold Partition.startDates Partition.endDates
    simp only
    unfold periodsOf
    split
    · intro s hs e he hc
      simp only [List.map_cons, List.map_nil, List.head?_cons, Option.some.injEq] at hs
      simp only [List.map_cons, List.map_nil, List.mem_singleton] at he
      subst hs; subst he
      simp [Period.contains] at hc; omega
    · have key : ∀ L : List Period, List.Pairwise (fun p q => q.stop < p.start) L → (∀ p ∈ L, p.start ≤ p.stop) →
          ∀ s, (L.reverse.map (·.start)).head? = some s → ∀ e ∈ L.reverse.map (·.stop), span.contains e = true → s ≤ e := by
        intro L hp hw s hs e he _
        obtain ⟨p, hpL, rfl⟩ := List.mem_map.mp he
        exact oldest_start_le L hp hw s hs p (List.mem_reverse.mp hpL)
      by_cases hl : last ≤ 0
      · have ht := partLoop_tiles span.start iv last span.stop 0 hl
        exact key _ (tiles_starts_decreasing ht) (fun p hp => (Tiles.mem_bounds ht p hp).2.1)
      · rw [partLoop_last _ _ _ _ _ (by omega) (Int.le_refl _) (by omega)]
        have ht := partLoop_tiles span.start iv 0 span.stop 0 (Int.le_refl _)
        exact key _ ((tiles_starts_decreasing ht).sublist (List.take_sublist _ _))
          (fun p hp => (Tiles.mem_bounds ht p (List.mem_of_mem_take hp)).2.1)

/-- the period ends `Perf` sees are the period ends inside the span -/
theorem perfSpan_filter {span : Period} {iv : Interval} {last : Int} {P : Partition}
    (h : newPartition span iv last = .ok P) :
    P.endDates.filter (fun e => (perfSpan P).contains e) = P.endDates.filter (fun e => P.span.contains e) := by
  apply List.filter_congr
  intro e he
  have hspan := newPartition_span h
  unfold perfSpan
  cases hsd : P.startDates with
  | nil => rfl
  | cons s rest =>
    simp only
    have hle := first_start_le_end h s (by rw [hsd]; rfl) e he
    rw [hspan] at *
    have hle' : span.contains e = true → s ≤ e := hle
    simp only [Period.contains, Bool.and_eq_true, Bool.not_eq_true', decide_eq_false_iff_not] at hle'
    simp only [Period.contains]
    split <;> grind

end Knut.Performance
