import Knut.Model.Check
import Knut.Model.Partition
import Knut.Model.Prices
/-!
# Model of the `balance` command's processing pipeline

`check → ComputePrices → Valuate → Filter → CloseAccounts → Query` (cmd/commands/balance.go,
lib/journal/process.go), run sequentially: day by day, each day through all stages in order.
(`cpr.Seq` runs the stages concurrently, one goroutine per stage with hand-over of the day; the
sequential result is what C19 shows every schedule produces.)

The report is kept as the *log of inserted entries* `(column date, mapped account, commodity,
amount)`; `Knut.Model.BalanceReport` turns the log into the rendered table.
-/
namespace Knut
open Knut.Prices (NPrices)

/-- one `Report.Insert` -/
structure Entry where
  date : Option Int        -- `Partition.Align` of the transaction date (`none` = after the window)
  account : Account        -- after remap and shorten
  commodity : Commodity
  amount : Rat
  deriving DecidableEq, Repr, Inhabited

/-- `account.Rule` with the regular expression as a predicate on account names -/
structure MapRule where
  level : Nat
  suffix : Nat
  test : String → Bool

/-- flags of the balance command that influence the entries -/
structure BalCfg where
  valuation : Option Commodity := none
  span : Period                         -- `Multiperiod` period clipped to the journal period
  periods : List Period                 -- the partition's periods (oldest first)
  close : Bool := true
  mapping : List MapRule := []          -- `-m`
  remap : String → Bool := fun _ => false   -- `--remap`
  accountFilter : String → Bool := fun _ => true   -- `--account`
  commodityFilter : String → Bool := fun _ => true -- `--commodity`

/-- `Registry.SwapType` -/
def swapType (a : Account) : Account :=
  match a.segments with
  | [] => a
  | s :: rest =>
    if s = "Assets" then ⟨"Liabilities" :: rest⟩
    else if s = "Liabilities" then ⟨"Assets" :: rest⟩
    else if s = "Income" then ⟨"Expenses" :: rest⟩
    else if s = "Expenses" then ⟨"Income" :: rest⟩
    else a

/-- `Mapping.Level`: first matching rule -/
def mappingLevel (m : List MapRule) (name : String) : Option (Nat × Nat) :=
  match m.find? (fun r => r.test name) with
  | some r => some (r.level, r.suffix)
  | none => none

/-- `account.Shorten` (after the repair that copies before appending); `none` = hidden -/
def shorten (m : List MapRule) (a : Account) : Option Account :=
  match mappingLevel m a.name with
  | none => some a
  | some (level, suffix) =>
    if level = 0 then none
    else if suffix ≥ a.level then some a
    else if level > a.level - suffix then some a
    else some ⟨a.segments.take level ++ a.segments.drop (a.level - suffix)⟩

/-- `mapper.Sequence(account.Remap, account.Shorten)` -/
def mapAccount (cfg : BalCfg) (a : Account) : Option Account :=
  shorten cfg.mapping (if cfg.remap a.name then swapType a else a)

/-- `Registry.ValuationAccountFor`: `Income:` + the account's path without its first segment -/
def valuationAccountFor (a : Account) : Account := ⟨"Income" :: a.segments.drop 1⟩

def equityAccount : Account := ⟨["Equity", "Equity"]⟩

inductive BalErr where
  | check (e : CheckErr)
  | zeroPrice
  | noPrice (c : Commodity)
  deriving Repr

/-- state of all stages -/
structure BalState where
  chk : CheckState := {}
  graph : Prices.Prices := []              -- ComputePrices: declared prices
  norm : Option NPrices := none            -- ComputePrices: `previous`
  vPrev : Option NPrices := none           -- Valuate: `prevPrices`
  vQty : AMap Position Rat := []           -- Valuate: `quantities`
  cQty : AMap Position Rat := []           -- CloseAccounts: `quantities`
  cVal : AMap Position Rat := []           -- CloseAccounts: `values`
  entries : List Entry := []               -- Report inserts, oldest first

namespace Balance

/-- `ComputePrices`: insert the day's prices; `DayEnd` normalises if the day declared any price -/
def pricesDay (v : Commodity) (st : BalState) (d : Day) : Except BalErr BalState := do
  let g ← d.prices.foldlM (fun g p =>
      match Prices.insert g ⟨p.commodity, p.price, p.target⟩ with
      | some g' => .ok g'
      | none => .error BalErr.zeroPrice) st.graph
  let norm := if d.prices.isEmpty then st.norm else some (Prices.normalize g v)
  .ok { st with graph := g, norm := norm }

def lookupPrice (np : Option NPrices) (c : Commodity) : Except BalErr Rat :=
  match np with
  | none => .error (.noPrice c)
  | some m => match Prices.find c m with
    | some p => .ok p
    | none => .error (.noPrice c)

/-- `Valuate.DayStart`, one position: a value adjustment if the position is open, foreign and its price changed -/
def adjustStep (v : Commodity) (date : Int) (prev cur : Option NPrices) (acc : List Transaction)
    (e : Position × Rat) : Except BalErr (List Transaction) :=
  if e.1.2 = v || !e.1.1.isAL || e.2 = 0 then .ok acc else do
    let pp ← lookupPrice prev e.1.2
    let cp ← lookupPrice cur e.1.2
    if cp - pp = 0 then .ok acc else
      .ok (acc ++ [{ date := date,
                     description := "Adjust value of " ++ e.1.2 ++ " in account " ++ e.1.1.name,
                     postings := postingBuild (valuationAccountFor e.1.1) e.1.1 e.1.2 0 (Prices.multiply (cp - pp) e.2),
                     targets := some [e.1.2] }])

/-- `Valuate.DayStart`: one value adjustment per open foreign asset/liability position whose price changed -/
def adjustments (v : Commodity) (date : Int) (prev cur : Option NPrices) (qty : AMap Position Rat) :
    Except BalErr (List Transaction) :=
  qty.foldlM (adjustStep v date prev cur) []

/-- `Valuate.Posting`: the value of one posting at the day's prices -/
def valuePosting (v : Commodity) (cur : Option NPrices) (p : Posting) : Except BalErr Posting :=
  if p.quantity = 0 then .ok p
  else if p.commodity = v then .ok { p with value := p.quantity }
  else do
    let pr ← lookupPrice cur p.commodity
    .ok { p with value := Prices.multiply p.quantity pr }

def valueTx (v : Commodity) (cur : Option NPrices) (t : Transaction) : Except BalErr Transaction := do
  let ps ← t.postings.mapM (valuePosting v cur)
  .ok { t with postings := ps }

/-- quantities of asset/liability positions (`Valuate.Posting`, first half) -/
def addQty (qty : AMap Position Rat) (ts : List Transaction) : AMap Position Rat :=
  ts.foldl (fun q t => t.postings.foldl (fun q p =>
    if p.quantity = 0 then q
    else if p.account.isAL then q.set (p.account, p.commodity) (q.get (p.account, p.commodity) 0 + p.quantity)
    else q) q) qty

/-- the Valuate stage on one day: returns the day's transactions (with adjustments, valued) -/
def valuateDay (v : Commodity) (st : BalState) (d : Day) : Except BalErr (BalState × List Transaction) := do
  let adj ← adjustments v d.date st.vPrev st.norm st.vQty
  let txs ← (d.transactions ++ adj).mapM (valueTx v st.norm)
  .ok ({ st with vQty := addQty st.vQty (d.transactions ++ adj), vPrev := st.norm }, txs)

/-- `CloseAccounts.DayStart`: closing transactions for every accumulated non-zero position -/
def closings (date : Int) (cQty cVal : AMap Position Rat) : List Transaction :=
  cQty.filterMap (fun e =>
    let ((a, c), q) := e
    let v := cVal.get (a, c) 0
    if q = 0 && v = 0 then none
    else some { date := date,
                description := "Closing account " ++ a.name ++ " in " ++ c,
                postings := postingBuild a equityAccount c q v })

/-- `CloseAccounts.Posting`: accumulate income/expense/equity (except Equity:Equity) postings -/
def accumulate (st : BalState) (ts : List Transaction) : BalState :=
  ts.foldl (fun st t => t.postings.foldl (fun st p =>
    if p.account.isAL || p.account = equityAccount then st
    else
      let k : Position := (p.account, p.commodity)
      { st with cQty := st.cQty.set k (st.cQty.get k 0 + p.quantity),
                cVal := st.cVal.set k (st.cVal.get k 0 + p.value) }) st) st

/-- `Query.Into(report)` for one posting: a report insert if it passes the filters and is not hidden -/
def queryPosting (cfg : BalCfg) (t : Transaction) (p : Posting) : Option Entry :=
  if cfg.accountFilter p.account.name && cfg.commodityFilter p.commodity then
    match mapAccount cfg p.account with
    | some a => some { date := alignIn cfg.periods t.date, account := a, commodity := p.commodity,
                       amount := if cfg.valuation.isSome then p.value else p.quantity }
    | none => none
  else none

def queryTx (cfg : BalCfg) (t : Transaction) : List Entry := t.postings.filterMap (queryPosting cfg t)

/-- stage 1 (check) as a state transformer -/
def checkStage (st : BalState) (d : Day) : Except BalErr BalState :=
  match Check.day st.chk d with
  | .ok c => .ok { st with chk := c }
  | .error e => .error (BalErr.check e)

/-- stages 2+3 (ComputePrices, Valuate): the day's transactions, valued and with adjustments -/
def valuationStage (cfg : BalCfg) (st : BalState) (d : Day) : Except BalErr (BalState × List Transaction) :=
  match cfg.valuation with
  | none => .ok (st, d.transactions)
  | some v => do
    let st ← pricesDay v st d
    valuateDay v st d

/-- stage 4 (Filter) -/
def filterStage (cfg : BalCfg) (d : Day) (txs : List Transaction) : List Transaction :=
  if cfg.span.contains d.date then txs else []

/-- stage 5 (CloseAccounts) -/
def closeStage (cfg : BalCfg) (st : BalState) (d : Day) (txs : List Transaction) : BalState × List Transaction :=
  if cfg.close then
    let cl := if (cfg.periods.map (·.start)).contains d.date then closings d.date st.cQty st.cVal else []
    (accumulate st (txs ++ cl), txs ++ cl)
  else (st, txs)

/-- the transactions that reach the Query stage on day `d` -/
def dayTxs (cfg : BalCfg) (st : BalState) (d : Day) : Except BalErr (BalState × List Transaction) := do
  let st ← checkStage st d
  let (st, txs) ← valuationStage cfg st d
  .ok (closeStage cfg st d (filterStage cfg d txs))

/-- one day through all stages -/
def day (cfg : BalCfg) (st : BalState) (d : Day) : Except BalErr BalState := do
  let (st, txs) ← dayTxs cfg st d
  .ok { st with entries := st.entries ++ txs.flatMap (queryTx cfg) }

def run (cfg : BalCfg) (days : List Day) : Except BalErr BalState := days.foldlM (day cfg) {}

end Balance
end Knut
