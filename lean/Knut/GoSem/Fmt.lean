import Knut.GoSem.Basic
import Knut.GoSem.Time
import Knut.GoSem.Strings
/-!
# `io.Writer`, `fmt`'s padding, `strings.Join`, `Time.Format("2006-01-02")` for the translated code

Used by the translation of `lib/journal/printer` and `journal.Print` (`harness/trans_units_jprinter.go`).

* An `io.Writer` is **the text written so far** (as `strings.Builder`): `w.Write(bs)` appends the bytes and answers
  `(len(bs), nil)`.  The sink is an in-memory text: an error of the underlying writer (closed pipe, full disk) does not occur
  in this reading.  A `[]byte` is the bytes of a valid UTF-8 text, a `String`.
* `fmt.Fprintf(p, format, …)` on a value with a translated `Write` method is `p.Write(text)` for the formatted text (`fmt`
  formats into a buffer and calls `Write` once); the translator splits the constant format string: literal parts, `%s`/`%v`
  operands (strings, `String()` methods), and for a width `Fmt.pad` (`%10s`, `%-10s`) or `Fmt.padStar` (`%*s`, `%-*s`).
  `fmt` counts the width in runes (`utf8.RuneCountInString`), pads with spaces, takes a negative `*` width as the flag `-`
  and prints `%!(BADWIDTH)` without padding for a `*` width beyond ±10^6.
* `t.Format("2006-01-02")`: year, month, day through `time.appendInt` (a sign, then the digits zero-padded to 4, 2, 2).

Each definition is compared with real Go by the stream `gosemfmt` of C11 (`harness/gosem_fmt.go`, `Driver/GoSemFmt.lean`).
-/
namespace Knut.GoSem

namespace Strings
/-- `strings.Join(elems, sep)` -/
def Join (elems : List String) (sep : String) : String := sep.intercalate elems
end Strings

namespace Time
/-- `appendInt(b, x, width)` of package `time`: a minus sign for negative `x`, then the decimal digits zero-padded to `width` -/
def appendInt (x : Int) (width : Nat) : String :=
  let ds := toString x.natAbs
  (if x < 0 then "-" else "") ++ String.ofList (List.replicate (width - ds.length) '0') ++ ds

/-- `t.Format("2006-01-02")` of a UTC-midnight date -/
def FormatISO (t : Int) : String :=
  appendInt (Knut.Date.year t) 4 ++ "-" ++ appendInt (Knut.Date.month t) 2 ++ "-" ++ appendInt (Knut.Date.day t) 2
end Time

namespace Fmt
/-- `fmt.writePadding(n)` with the space as padding character: nothing for `n ≤ 0` -/
def spaces (n : Int) : String := String.ofList (List.replicate n.toNat ' ')

/-- `fmt.padString` for `%<w>s` (`minus = false`: padded on the left) and `%-<w>s` (padded on the right); the width counts runes -/
def pad (minus : Bool) (w : Int) (s : String) : String :=
  if minus then s ++ spaces (w - s.length) else spaces (w - s.length) ++ s

/-- `%*s` / `%-*s` with the width operand `w`: beyond ±10^6 `fmt` prints `%!(BADWIDTH)` and does not pad; a negative width
sets the flag `-` -/
def padStar (minus : Bool) (w : Int) (s : String) : String :=
  if w > 1000000 ∨ w < -1000000 then "%!(BADWIDTH)" ++ s
  else if w < 0 then pad true (-w) s
  else pad minus w s
end Fmt

namespace Writer
/-- `w.Write(bs)` of an `io.Writer` that is an in-memory text: the new text, `len(bs)`, no error -/
def Write (w bs : String) : String × Int × Option Error := (w ++ bs, Strings.byteLen bs, none)
end Writer

end Knut.GoSem
