package main

// Differential stream `gosemmap` (run as part of C11, after `gosemfloat`): what the translation of the account mapping (builder
// trans10; lean/Knut/GoSem/RegexpMatch.lean, Mapping.lean; harness/trans_units_mapping.go) adds to the prelude, against real Go:
//   strings.TrimPrefix on texts with multi-byte code points (prefixes that end on and inside rune boundaries are both drawn: the
//   latter are not valid UTF-8 by themselves and are skipped, a Lean String cannot hold them);
//   (*regexp.Regexp).MatchString: on a nil pointer the nil-pointer panic; on a compiled expression a PURE function of the text —
//   two calls, and a call on a second compilation of the same pattern, answer alike (the reading "a compiled expression is its
//   match predicate" needs exactly this).

import (
	"fmt"
	"regexp"
	"strings"
	"unicode/utf8"
)

func runGoSemMappingStream(c *Ctx, n int) {
	bt := c.NewBatch()
	defer bt.Flush()
	cmp := func(i int, op string, in map[string]any, impl string, fields ...string) {
		in["op"] = op
		bt.Add(func(model string) { c.Compare("gosemmap", i, "gosemmap "+op, in, impl, model) }, append([]string{"gosemmap"}, fields...)...)
	}
	pieces := []string{"", "Assets", "Liabilities", "Income", "Expenses", "Equity", ":", "Bank", "Assets:", "A", "ssets", "é", "日本", "😀", "Incom", "Expenses:Tax", "1", " ", "TBD"}
	patterns := []string{"", "^Assets", "Bank$", "^Equity", "Income|Expenses", "é", "^$", ".", "^Expenses:Tax$", "[0-9]", "A.*s", "(?i)assets", `\bBank\b`, "日", ":"}
	for i := 0; i < n; i++ {
		if !c.Want("gosemmap", i) {
			continue
		}
		r := c.Rng("gosemmap", i)
		c.Evals++
		// ---- strings.TrimPrefix
		s := ""
		for k := r.Range(0, 4); k > 0; k-- {
			s += Pick(r, pieces)
		}
		var p string
		switch r.Intn(4) {
		case 0:
			p = Pick(r, pieces)
		case 1: // a prefix of s (rune boundary)
			rs := []rune(s)
			p = string(rs[:r.Intn(len(rs)+1)])
		case 2: // a byte prefix of s, possibly inside a code point
			p = s[:r.Intn(len(s)+1)]
		default:
			p = s + Pick(r, pieces)
		}
		if utf8.ValidString(p) {
			cmp(i, "trimprefix", map[string]any{"s": s, "prefix": p}, Hex(strings.TrimPrefix(s, p)), "trimprefix", Hex(s), Hex(p))
			c.Class(fmt.Sprintf("gosemmap/trimprefix/%v/plen%s", strings.HasPrefix(s, p), bucket(len(p))))
		}
		// ---- MatchString on a nil *regexp.Regexp
		if i%16 == 0 {
			var re *regexp.Regexp
			impl := func() (res string) {
				defer func() {
					if e := recover(); e != nil {
						res = "panic:" + strings.TrimPrefix(fmt.Sprint(e), "runtime error: ")
					}
				}()
				return itoa(gosemB2i(re.MatchString(s)))
			}()
			cmp(i, "matchnil", map[string]any{"s": s}, impl, "matchnil", Hex(s))
			c.Class("gosemmap/matchnil")
		}
		// ---- MatchString on a compiled expression: a pure function of the text
		pat := Pick(r, patterns)
		re1, re2 := regexp.MustCompile(pat), regexp.MustCompile(pat)
		b1 := re1.MatchString(s)
		_ = re1.MatchString(s + "x") // another text in between
		b2, b3 := re1.MatchString(s), re2.MatchString(s)
		impl := itoa(gosemB2i(b1)) + itoa(gosemB2i(b2))
		if b3 != b1 {
			impl = "second compilation differs"
		}
		cmp(i, "match", map[string]any{"pattern": pat, "s": s}, impl, "match", itoa(gosemB2i(b1)), Hex(s))
		c.Class(fmt.Sprintf("gosemmap/match/%v/%d", b1, len(pat)%4))
	}
}
