import Knut.Model.Balance
/-!
# Independent ledger specification of the unvalued balance report (property C02)

The report is determined by a list of *ledger entries* `(column date, row account, commodity, amount)`:

1. every user posting dated inside the window, if it passes the account/commodity filters and its
   account is not hidden by the mapping, contributes its signed quantity to the row it is mapped to,
   in the column of the period containing its date (dates before the first shown period: first column);
2. with period closing, at every shown period start `s` and for every income/expense/equity position
   `k ≠ Equity:Equity` whose bookings dated in `[previous closing day, s)` (inside the window) sum to
   `T ≠ 0`, the pair `(k, −T)`, `(Equity:Equity, +T)` dated `s` is added — subject to the same filters
   and mapping as any other posting.

Nothing here goes through the pipeline's accumulators: totals are direct sums over date ranges.
-/
namespace Knut.Spec
open Knut

/-- user postings of the journal with their dates -/
def datedPostings (days : List Day) : List (Int × Posting) :=
  days.flatMap (fun d => d.transactions.flatMap (fun t => t.postings.map (fun p => (t.date, p))))

def entryOf (cfg : BalCfg) (date : Int) (account : Account) (c : Commodity) (amount : Rat) : Option Entry :=
  if cfg.accountFilter account.name && cfg.commodityFilter c then
    (mapAccount cfg account).map (fun a => { date := alignIn cfg.periods date, account := a, commodity := c, amount := amount })
  else none

/-- part 1: the bookings inside the window -/
def bookingEntries (cfg : BalCfg) (days : List Day) : List Entry :=
  (datedPostings days).filterMap (fun (d, p) =>
    if cfg.span.contains d then entryOf cfg d p.account p.commodity p.quantity else none)

def closable (a : Account) : Bool := !a.isAL && a != equityAccount

/-- the closing days: shown period starts -/
def closingDays (cfg : BalCfg) : List Int := cfg.periods.map (·.start)

/-- total booked on position `k` on days in `[lo, hi)` inside the window -/
def bookedBetween (cfg : BalCfg) (days : List Day) (k : Position) (lo : Option Int) (hi : Int) : Rat :=
  (((datedPostings days).filter (fun (d, p) =>
      cfg.span.contains d && decide (d < hi) && (match lo with | some l => decide (l ≤ d) | none => true) &&
      p.account = k.1 && p.commodity = k.2)).map (fun x => x.2.quantity)).sum

/-- closable positions that occur in the journal, in order of first occurrence -/
def positions (days : List Day) : List Position :=
  ((datedPostings days).filterMap (fun (_, p) => if closable p.account then some (p.account, p.commodity) else none)).eraseDups

/-- the closing day preceding `s` -/
def prevClosing (cfg : BalCfg) (s : Int) : Option Int :=
  ((closingDays cfg).filter (· < s)).getLast?

/-- part 2: closing entries -/
def closingEntries (cfg : BalCfg) (days : List Day) : List Entry :=
  if !cfg.close then [] else
  (closingDays cfg).flatMap (fun s =>
    (positions days).flatMap (fun k =>
      let T := bookedBetween cfg days k (prevClosing cfg s) s
      if T = 0 then []
      else (entryOf cfg s k.1 k.2 (-T)).toList ++ (entryOf cfg s equityAccount k.2 T).toList))

/-- the ledger: bookings and closings -/
def ledgerEntries (cfg : BalCfg) (days : List Day) : List Entry :=
  bookingEntries cfg days ++ closingEntries cfg days

end Knut.Spec
