package main

// Differential stream `gosemfmt` (run as part of C11, after `gosem`): the meaning lean/Knut/GoSem/Fmt.lean gives to io.Writer,
// fmt's padding (%10s, %-10s, %*s, %-*s incl. negative and too large * widths), strings.Join and Time.Format("2006-01-02") —
// and the reading harness/trans_units_jprinter.go makes of fmt.Fprintf / io.WriteString on a value with a Write method (one call of
// Write with the whole formatted text) — against the real Go packages.

import (
	"fmt"
	"io"
	"strings"
	"time"
)

// gosemRecWriter records every call of Write
type gosemRecWriter struct {
	calls int
	text  []byte
}

func (w *gosemRecWriter) Write(bs []byte) (int, error) {
	w.calls++
	w.text = append(w.text, bs...)
	return len(bs), nil
}

func gosemHexList(xs []string) string {
	if len(xs) == 0 {
		return "-"
	}
	hs := make([]string, len(xs))
	for i, x := range xs {
		hs[i] = Hex(x)
	}
	return strings.Join(hs, ",")
}

func runGoSemFmtStream(c *Ctx, n int) {
	bt := c.NewBatch()
	defer bt.Flush()
	cmp := func(i int, op string, in map[string]any, impl string, fields ...string) {
		in["op"] = op
		bt.Add(func(model string) { c.Compare("gosemfmt", i, "gosemfmt "+op, in, impl, model) }, append([]string{"gosemfmt"}, fields...)...)
	}
	words := []string{"", "a", "Assets:Bank", "Zürich", "日本", "Expenses:Café:日本", " ", "x y", "-12.5", "1000000", "é", "Equity:Opening"}
	for i := 0; i < n; i++ {
		if !c.Want("gosemfmt", i) {
			continue
		}
		r := c.Rng("gosemfmt", i)
		c.Evals++
		s := Pick(r, words) + Pick(r, words)
		// ---- %<w>s and %-<w>s with a constant width
		w := r.Range(0, 40)
		if r.Chance(1, 10) {
			w = r.Range(41, 300)
		}
		minus := r.Chance(1, 2)
		flag := ""
		if minus {
			flag = "-"
		}
		format := "%" + flag + itoa(w) + "s"
		if w == 0 {
			format = "%" + flag + "s" // a width 0 is written without digits (a leading 0 would be the zero flag)
		}
		cmp(i, "pad", map[string]any{"format": format, "s": s}, Hex(fmt.Sprintf(format, s)), "pad", itoa(gosemB2i(minus)), itoa(w), Hex(s))
		// ---- %*s and %-*s: small, negative, and beyond ±10^6 (BADWIDTH)
		var sw int
		switch r.Intn(6) {
		case 0:
			sw = r.Range(-1000003, -999997)
		case 1:
			sw = r.Range(999997, 1000003)
		case 2:
			sw = r.Range(-3000000, 3000000)
		default:
			sw = r.Range(-30, 60)
		}
		if sw <= 1000000 && sw >= -1000000 && (sw > 2000 || sw < -2000) {
			sw = sw % 2000 // keep the padded texts short
		}
		cmp(i, "padstar", map[string]any{"format": "%" + flag + "*s", "w": sw, "s": s}, Hex(fmt.Sprintf("%"+flag+"*s", sw, s)), "padstar", itoa(gosemB2i(minus)), itoa(sw), Hex(s))
		c.Class(fmt.Sprintf("gosemfmt/pad/minus%v/w%s/star%s", minus, bucket(w), sign(sw)))
		// ---- strings.Join
		var xs []string
		for k := r.Range(0, 4); k > 0; k-- {
			xs = append(xs, Pick(r, words))
		}
		sep := Pick(r, []string{",", "", ", ", "é"})
		cmp(i, "join", map[string]any{"xs": xs, "sep": sep}, Hex(strings.Join(xs, sep)), "join", gosemHexList(xs), Hex(sep))
		// ---- Time.Format("2006-01-02"): years below 0, below 1000, above 9999
		var t time.Time
		switch r.Intn(4) {
		case 0:
			t = gosemDate(r.Range(-3000, 300), r.Range(1, 12), r.Range(1, 28))
		case 1:
			t = gosemDate(r.Range(9000, 12000), r.Range(1, 12), r.Range(1, 28))
		default:
			t = gosemDate(r.Range(1, 9999), r.Range(1, 12), r.Range(1, 31))
		}
		cmp(i, "fmtiso", map[string]any{"day": dayNum(t)}, t.Format("2006-01-02"), "fmtiso", itoa(dayNum(t)))
		c.Class(fmt.Sprintf("gosemfmt/fmtiso/y%s", bucket(gosemAbs(t.Year()))))
		// ---- io.Writer as the text written so far; fmt.Fprintf and io.WriteString call Write once with the whole text
		a, b2, q, com := Pick(r, words), Pick(r, words), Pick(r, words), Pick(r, words)
		pw := r.Range(-5, 30)
		rec := &gosemRecWriter{text: []byte(s)}
		n1, err1 := fmt.Fprintf(rec, "%-*s %-*s %10s %s", pw, a, pw, b2, q, com)
		n2, err2 := io.WriteString(rec, "\n")
		n3, err3 := rec.Write([]byte(com))
		cmp(i, "fprintf", map[string]any{"w": pw, "a": a, "b": b2, "q": q, "c": com, "before": s},
			fmt.Sprintf("%d %s %d %d %d %v %v %v", rec.calls, Hex(string(rec.text)), n1, n2, n3, err1 == nil, err2 == nil, err3 == nil),
			"fprintf", Hex(s), itoa(pw), Hex(a), Hex(b2), Hex(q), Hex(com))
	}
}
