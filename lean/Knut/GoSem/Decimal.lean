import Knut.Basic.Dec
import Knut.GoSem.Basic
/-!
# `shopspring/decimal` for the translated code

A `decimal.Decimal` is its value in `Rat` (see `Knut/Basic/Dec.lean`; the exponent is not
observable through the operations below).  `Div` and `QuoRem` panic on a zero divisor.
-/
namespace Knut.GoSem

abbrev Decimal := Rat

namespace Decimal
open Knut.Dec

@[simp] def Add (a b : Rat) : Rat := a + b
@[simp] def Sub (a b : Rat) : Rat := a - b
@[simp] def Mul (a b : Rat) : Rat := a * b
@[simp] def Neg (a : Rat) : Rat := -a
@[simp] def Abs (a : Rat) : Rat := if a < 0 then -a else a
/-- `d.Truncate(n)` for a literal `n ≥ 0` -/
@[simp] def Truncate (a : Rat) (n : Int) : Rat := trunc n.toNat a
/-- `d.Round(n)` -/
@[simp] def Round (a : Rat) (n : Int) : Rat := roundPlaces n a
/-- `a.Div(b)`: `DivRound(b, DivisionPrecision = 16)`; "decimal division by 0" panic -/
def Div (a b : Rat) : Outcome Rat :=
  if b = 0 then .panic "decimal division by 0" else .ok (div16 a b)
/-- `a.QuoRem(b, p)`; "decimal division by 0" panic -/
def QuoRem (a b : Rat) (p : Int) : Outcome (Rat × Rat) :=
  match quoRem a b p.toNat with
  | some r => .ok r
  | none => .panic "decimal division by 0"
/-- `d.Shift(n)`: multiplication by `10^n`, exact -/
def Shift (a : Rat) (n : Int) : Rat := if 0 ≤ n then a * ((10 ^ n.toNat : Nat) : Rat) else a / ((10 ^ (-n).toNat : Nat) : Rat)
@[simp] def IsZero (a : Rat) : Bool := decide (a = 0)
@[simp] def IsNegative (a : Rat) : Bool := decide (a < 0)
@[simp] def IsPositive (a : Rat) : Bool := decide (a > 0)
@[simp] def Sign (a : Rat) : Int := if a < 0 then -1 else if a > 0 then 1 else 0
@[simp] def Equal (a b : Rat) : Bool := decide (a = b)
@[simp] def Cmp (a b : Rat) : Int := if a < b then -1 else if a > b then 1 else 0
@[simp] def LessThan (a b : Rat) : Bool := decide (a < b)
@[simp] def GreaterThan (a b : Rat) : Bool := decide (a > b)
/-- `decimal.NewFromInt(n)` -/
@[simp] def NewFromInt (n : Int) : Rat := (n : Rat)
/-- `decimal.Zero` -/
@[simp] def Zero : Rat := 0
/-- `d.String()` -/
@[simp] def String (a : Rat) : _root_.String := showDec a
/-- `d.StringFixed(n)` -/
@[simp] def StringFixed (a : Rat) (n : Int) : _root_.String := showFixed n a

end Decimal
end Knut.GoSem
