package main

// Constructs of the Go→Lean translator that lib/journal/performance and lib/reports/weights need (builder trans8).
//
//   float64              a Lean `Rat` under the MODELLING ASSUMPTION "EXACT ARITHMETIC" (lean/Knut/GoSem/Float.lean): `+ - *` and unary
//                        minus are exact, comparisons are comparisons of rationals, an int converts exactly, `decimal.Float64()` /
//                        `InexactFloat64()` is the value itself (second result `true`).  A division whose IEEE result would not be a
//                        finite number (`x / 0`: ±Inf or NaN) is the DISTINCT, panic-like outcome `Outcome.panic F64.undefined`:
//                        the translated code stops there, whereas Go goes on computing with ±Inf/NaN — about what the Go code does
//                        after such a division nothing is said.  Division by a non-zero constant is pure.  `math.Max/Min` are the
//                        rational max/min.  What depends on IEEE rounding stays outside: `fmt.Printf("%0.1f")` is not interpreted
//                        (see stdout below), `math.Round`, `Sprintf` of floats are rejected.
//   a && b, a || b       with a right operand that can panic (index, call of a function value, deref): the operand is evaluated only
//                        when the left one lets it: `Outcome.bind (if a then b' else Outcome.ok false) …`
//   *T (trNilPtr)        for the struct types listed in trNilPtr a pointer is `Option T` (none = nil), because the code tests and creates
//                        them: `p == nil`, `new(T)` (= `some zero`), `p.f` dereferences (`derefE`: the nil-pointer panic), `p.f = v`
//                        rebinds `p := some { (← derefE p) with f := v }`.  A copy `q = p` is a copy of the VALUE: the translator records
//                        every such copy of a captured variable in `F.copies`; the reading is exact when the object is not read through
//                        the other pointer before the copy is stored back (pinned by the agreement module).
//   *map[K]V             a pointer to a map (`&prev`, parameters `in, out *pcv`) is the map itself, passed by state passing
//   get(&m)              `func get(m *pcv) pcv` of package performance, PINNED by source text: `get(&m)` is m itself, made non-nil
//                        (nil map = empty association list): `get(&m)[k] op= v` is `m[k] op= v`; `x := get(&m)` makes x another name
//                        of m (the two share one Lean variable)
//   xs == nil            for the slice variables, parameters and results listed in trNilSlices: `Option (List T)` (none = nil) as for
//                        the struct fields of trNilable (trans_units_jprinter.go); read as a list elsewhere.  A value stored there
//                        must have a known nil-ness: nil, another tracked value, a nilable field, the result of a function with a
//                        tracked result, or a local declared `var x []T` and only ever extended by `x = append(x, …)` (nil ⇔ empty)
//   m == nil / nil       for map FIELDS listed in trNilMap (`Value.Weights`): `Option (AMap K V)`; reading a nil map reads the empty map,
//                        storing into it is Go's panic `assignment to entry in nil map`
//   fmt.Printf(f, a…)    as a statement of a closure: the closure state gets a field `stdout : List Stdout.PrintfCall`, the call appends
//                        the constant format and the EXACT operands (time.Time, float64, int, string); the formatting is not interpreted

import (
	"go/ast"
	"go/constant"
	"go/token"
	"go/types"
	"strings"
)

const trPerfPath = trKnutPath + "lib/journal/performance"

func init() {
	// units: after lib/journal (they use journal.Day / journal.Performance)
	trUnits = append(trUnits,
		&trUnit{pkg: "lib/journal/performance", mod: "Performance", funcs: []string{
			"split", "pickTargets", "Calculator.isPortfolioAccount", "sum", "Performance", "Universe.Locate",
			"Calculator.ComputeValues", "Calculator.ComputeFlows", "Perf",
		}, agree: map[string]string{"split": "PerformanceFlows", "Calculator.ComputeFlows": "PerformanceFlows", "Perf": "PerformanceFlows"}},
		// lib/reports/weights: not listed (and why): Query.Execute (`append(ss[:level], …)` writes into the array of the slice that
		// Universe.Locate returned, i.e. into the universe: capacity and sharing of arrays are not modelled; account.Mapping.Level uses
		// regexp), Renderer.* (the table builder: pointers into the table, time.Format, a recursive method)
		&trUnit{pkg: "lib/reports/weights", mod: "Weights", funcs: []string{
			"NewReport", "Report.Add", "Report.PropagateWeights", "Report.SortWeighted",
		}},
	)
	trPerfStub("math", "func Max(", "func Max(x, y float64) float64")
	trPerfStub("math", "func Min(", "func Min(x, y float64) float64")
	trPerfStub("github.com/shopspring/decimal", "func (d Decimal) Float64(", "func (d Decimal) Float64() (f float64, exact bool)")
	trPerfStub("github.com/shopspring/decimal", "func (d Decimal) InexactFloat64(", "func (d Decimal) InexactFloat64() float64")
	trPerfStub("fmt", "func Printf(", "func Printf(format string, a ...any) (n int, err error)")
	trPrims["math.Max"] = trPrim{lean: "F64.max"}
	trPrims["math.Min"] = trPrim{lean: "F64.min"}
	trPrims["(github.com/shopspring/decimal.Decimal).Float64"] = trPrim{lean: "F64.ofDecimal2"}
	trPrims["(github.com/shopspring/decimal.Decimal).InexactFloat64"] = trPrim{lean: "F64.ofDecimal"}
	trPinned[trPerfPath+".get"] = trPin{"func get(m *pcv) pcv { if *m == nil { *m = make(pcv) } return *m }", ""}
}

// trPerfStub adds a declaration to the stub source of a prelude package (once)
func trPerfStub(pkg, marker, decl string) {
	s := trStubs[pkg]
	if s == "" {
		s = "package " + pkg[strings.LastIndex(pkg, "/")+1:] + "\n"
	}
	if !strings.Contains(s, marker) {
		if !strings.HasSuffix(s, "\n") {
			s += "\n"
		}
		s += decl + "\n"
	}
	trStubs[pkg] = s
}

// ---------------------------------------------------------------------------------------------- float64

func trIsFloatKind(b *types.Basic) bool {
	switch b.Kind() {
	case types.Float64, types.UntypedFloat:
		return true
	}
	return false
}

func trIsFloat(ty types.Type) bool {
	if ty == nil {
		return false
	}
	b, ok := ty.Underlying().(*types.Basic)
	return ok && trIsFloatKind(b)
}

// floatConst: a constant of type float64 as an exact rational literal
func (c *trCtx) floatConst(v constant.Value, pos token.Pos) string {
	f := constant.ToFloat(v)
	if f.Kind() != constant.Float && f.Kind() != constant.Int {
		trFail(pos, "constant %s is not a number", v)
	}
	num, den := constant.Num(f), constant.Denom(f)
	if num.Kind() != constant.Int || den.Kind() != constant.Int {
		trFail(pos, "constant %s has no exact fraction", v)
	}
	n, d := num.ExactString(), den.ExactString()
	if d == "1" {
		return "(" + n + " : Rat)"
	}
	return "((" + n + " : Rat) / " + d + ")"
}

// floatBinary: arithmetic and ordering on float64 operands
func (c *trCtx) floatBinary(x *ast.BinaryExpr, tx, ty types.Type, a, b string) (string, bool) {
	if !trIsFloat(tx) || !trIsFloat(ty) {
		return "", false
	}
	switch x.Op {
	case token.LSS, token.LEQ, token.GTR, token.GEQ:
		op := map[token.Token]string{token.LSS: "<", token.LEQ: "≤", token.GTR: ">", token.GEQ: "≥"}[x.Op]
		return "(decide (" + a + " " + op + " " + b + "))", true
	case token.ADD, token.SUB, token.MUL:
		return "(" + a + " " + x.Op.String() + " " + b + ")", true
	case token.QUO:
		if tv := c.info().Types[x.Y]; tv.Value != nil && constant.Sign(constant.ToFloat(tv.Value)) != 0 {
			return "(" + a + " / " + b + ")", true
		}
		return c.hoist("F64.divE "+a+" "+b, x.Pos()), true
	}
	return "", false
}

// ---------------------------------------------------------------------------------------------- a && b with an effectful b

// shortCircuit: the right operand hoisted effects: it runs only when the left operand lets it
func (c *trCtx) shortCircuit(x *ast.BinaryExpr) string {
	a := c.expr(x.X)
	saved := c.pre
	c.pre = nil
	b := c.expr(x.Y)
	inner := c.takePre()
	c.pre = saved
	op := " && "
	if x.Op == token.LOR {
		op = " || "
	}
	if len(inner) == 0 {
		return "(" + a + op + b + ")"
	}
	body := strings.Join(trWrapPre(inner, trOne("Outcome.ok "+b)), " ")
	if x.Op == token.LAND {
		return c.hoist("if "+a+" then "+body+" else Outcome.ok false", x.Pos())
	}
	return c.hoist("if "+a+" then Outcome.ok true else "+body, x.Pos())
}

// ---------------------------------------------------------------------------------------------- *T as Option T

// trNilPtr: struct types whose pointers are `Option T` (none = nil): the code tests them for nil and creates them with new
var trNilPtr = map[string]bool{
	trKnutPath + "lib/journal.Performance": true,
}

// trNilPtrElem: the struct type T when ty is *T with T in trNilPtr
func trNilPtrElem(ty types.Type) *types.Named {
	if ty == nil {
		return nil
	}
	p, ok := ty.Underlying().(*types.Pointer)
	if !ok {
		return nil
	}
	n, ok := p.Elem().(*types.Named)
	if !ok || n.Obj().Pkg() == nil || !trNilPtr[n.Obj().Pkg().Path()+"."+n.Obj().Name()] {
		return nil
	}
	return n
}

// nilPtrDeref: the struct value a nilable pointer expression points to (the nil-pointer panic hoisted)
func (c *trCtx) nilPtrDeref(e ast.Expr) string {
	return c.hoist("derefE "+c.expr(e), e.Pos())
}

// nilPtrSelect: `p.f` through a nilable pointer
func (c *trCtx) nilPtrSelect(x *ast.SelectorExpr) (string, bool) {
	if trNilPtrElem(c.typeOf(x.X)) == nil {
		return "", false
	}
	c.leanType(c.typeOf(x.X), x.Pos())
	return c.nilPtrDeref(x.X) + "." + trMangle(x.Sel.Name), true
}

// nilPtrStore: `p.f = val` through a nilable pointer: p := some { (← derefE p) with f := val }
func (c *trCtx) nilPtrStore(l *ast.SelectorExpr, val string, pos token.Pos) (name, typ, term string, ok bool) {
	if trNilPtrElem(c.typeOf(l.X)) == nil {
		return "", "", "", false
	}
	if trBaseIdent(l.X) == nil {
		trFail(pos, "assignment through the pointer %s is outside the subset", trSrc(l.X))
	}
	inner := "(some { " + c.nilPtrDeref(l.X) + " with " + trMangle(l.Sel.Name) + " := " + val + " })"
	name, typ, term = c.storeTerm(l.X, inner, pos)
	return name, typ, term, true
}

// nilPtrCompare: `p == nil` / `p != nil`
func (c *trCtx) nilPtrCompare(other ast.Expr, op token.Token) (string, bool) {
	ty := c.typeOfOrNil(other)
	if trNilPtrElem(ty) == nil && !c.nilSliceExpr(other) && !c.nilMapExpr(other) {
		return "", false
	}
	raw := c.nilRaw(other)
	if op == token.EQL {
		return "(Option.isNone " + raw + ")", true
	}
	return "(Option.isSome " + raw + ")", true
}

// nilRaw: the Option value of an expression of a nil-tracked kind
func (c *trCtx) nilRaw(e ast.Expr) string {
	if c.nilSliceExpr(e) {
		return c.nilSliceValue(e, c.typeOf(e))
	}
	if sel, ok := c.nilMapSel(e); ok {
		return c.nilMapRaw(sel)
	}
	return c.expr(e)
}

// nilPtrEffect: the node dereferences a nilable pointer or stores into a nilable map (needs the Outcome monad)
func trNilPtrEffect(info *types.Info, x *ast.SelectorExpr) bool {
	sel, ok := info.Selections[x]
	if !ok || sel.Kind() != types.FieldVal {
		return false
	}
	return trNilPtrElem(sel.Recv()) != nil
}

// ---------------------------------------------------------------------------------------------- *map[K]V, get(&m)

func trIsMapPtr(ty types.Type) bool {
	if ty == nil {
		return false
	}
	p, ok := ty.Underlying().(*types.Pointer)
	if !ok {
		return false
	}
	_, isMap := p.Elem().Underlying().(*types.Map)
	return isMap
}

// trAddrOfMap: `&e` with e of map type: e
func trAddrOfMap(info *types.Info, e ast.Expr) (ast.Expr, bool) {
	u, ok := trUnparen(e).(*ast.UnaryExpr)
	if !ok || u.Op != token.AND {
		return nil, false
	}
	tv, ok := info.Types[u.X]
	if !ok || tv.Type == nil {
		return nil, false
	}
	if _, isMap := tv.Type.Underlying().(*types.Map); !isMap {
		return nil, false
	}
	return u.X, true
}

// perfGetArg: x is a call of the pinned `get`: the map expression it stands for (`get(&m)` ↦ m, `get(p)` ↦ p for p *pcv)
func (c *trCtx) perfGetArg(x *ast.CallExpr) (ast.Expr, bool) {
	return trPerfGetArg(c.info(), x)
}

func trPerfGetArg(info *types.Info, x *ast.CallExpr) (ast.Expr, bool) {
	id, ok := trUnparen(x.Fun).(*ast.Ident)
	if !ok || len(x.Args) != 1 {
		return nil, false
	}
	fo, ok := info.Uses[id].(*types.Func)
	if !ok || fo.FullName() != trPerfPath+".get" {
		return nil, false
	}
	if m, ok := trAddrOfMap(info, x.Args[0]); ok {
		return m, true
	}
	return x.Args[0], true
}

// perfGetExpr: `get(&m)` in an expression: m (a nil map is the empty association list already)
func (c *trCtx) perfGetExpr(x *ast.CallExpr) (string, bool) {
	m, ok := c.perfGetArg(x)
	if !ok {
		return "", false
	}
	c.t.checkPinned(c.calledFunc(x), x.Pos())
	return c.expr(m), true
}

// perfGetAlias: `x := get(&m)` with m a variable: x is another name of m
func (c *trCtx) perfGetAlias(x *ast.AssignStmt) bool {
	if x.Tok != token.DEFINE || len(x.Lhs) != 1 || len(x.Rhs) != 1 {
		return false
	}
	call, ok := trUnparen(x.Rhs[0]).(*ast.CallExpr)
	if !ok {
		return false
	}
	m, ok := c.perfGetArg(call)
	if !ok {
		return false
	}
	c.t.checkPinned(c.calledFunc(call), x.Pos())
	mid, ok := trUnparen(m).(*ast.Ident)
	lid, ok2 := x.Lhs[0].(*ast.Ident)
	if !ok || !ok2 {
		trFail(x.Pos(), "x := get(&m): m must be a variable")
	}
	mo := c.info().Uses[mid]
	n, known := c.names[mo]
	if !known {
		trFail(x.Pos(), "x := get(&m): %s has no value here", mid.Name)
	}
	lo := c.info().Defs[lid]
	if lo == nil {
		trFail(x.Pos(), "x := get(&m): x must be a new variable")
	}
	// sharing one Lean variable is exact only while neither name is rebound: `x = …` or `m = …` anywhere in the function would
	// separate the two in Go (x keeps pointing to the old map) but not in the translation
	if c.fn != nil && c.fn.decl != nil {
		ast.Inspect(c.fn.decl, func(n ast.Node) bool {
			as, ok := n.(*ast.AssignStmt)
			if !ok || as == x {
				return true
			}
			for _, l := range as.Lhs {
				id, isID := trUnparen(l).(*ast.Ident)
				if !isID {
					continue
				}
				o := c.info().Uses[id]
				if o == nil {
					o = c.info().Defs[id]
				}
				if o == lo || o == mo {
					trFail(as.Pos(), "%s is assigned here and is one of the two names of the map in `%s := get(&%s)`: outside the subset", id.Name, lid.Name, mid.Name)
				}
			}
			return true
		})
	}
	c.names[lo] = n // the two variables share one Lean variable: an assignment through either rebinds it
	return true
}

// perfAssignedIn: what the calls this file gives a meaning to assign (for the analysis of joins, loop states, parameters assigned through)
func (c *trCtx) perfAssignedIn(x *ast.CallExpr, mark func(ast.Expr), assigned map[types.Object]bool) {
	if m, ok := c.perfGetArg(x); ok {
		mark(m)
	}
	if c.stdoutObj != nil && trIsPrintf(c.info(), x) {
		assigned[c.stdoutObj] = true
	}
}

// ---------------------------------------------------------------------------------------------- xs == nil for tracked slices

// trNilSlices: per function, the slice variables / parameters (by name) and results ("<result>") whose nil-ness is tracked
var trNilSlices = map[string][]string{
	trPerfPath + ".pickTargets":                   {"tgts", "<result>"},
	"(*" + trPerfPath + ".Calculator).ComputeFlows": {"tgts"},
}

func (c *trCtx) nilSliceNames() []string {
	if c.fn == nil || c.fn.obj == nil {
		return nil
	}
	return trNilSlices[c.fn.obj.FullName()]
}

// nilSliceVar: the variable is nil-tracked in the function being translated
func (c *trCtx) nilSliceVar(o types.Object) bool {
	v, ok := o.(*types.Var)
	if !ok || v.IsField() {
		return false
	}
	if _, isSlice := v.Type().Underlying().(*types.Slice); !isSlice {
		return false
	}
	for _, n := range c.nilSliceNames() {
		if n == v.Name() {
			return true
		}
	}
	return false
}

func trNilSliceResult(fo *types.Func) bool {
	for _, n := range trNilSlices[fo.FullName()] {
		if n == "<result>" {
			return true
		}
	}
	return false
}

func trNilSliceParam(fo *types.Func, i int) bool {
	sig := fo.Type().(*types.Signature)
	if i >= sig.Params().Len() {
		return false
	}
	p := sig.Params().At(i)
	if _, isSlice := p.Type().Underlying().(*types.Slice); !isSlice {
		return false
	}
	for _, n := range trNilSlices[fo.FullName()] {
		if n == p.Name() {
			return true
		}
	}
	return false
}

// nilSliceExpr: the expression is a use of a tracked variable
func (c *trCtx) nilSliceExpr(e ast.Expr) bool {
	id, ok := trUnparen(e).(*ast.Ident)
	if !ok {
		return false
	}
	return c.nilSliceVar(c.info().Uses[id])
}

// nilSliceValue: an expression of slice type as an `Option (List T)` (its nil-ness must be known)
func (c *trCtx) nilSliceValue(e ast.Expr, ty types.Type) string {
	lt := c.leanType(ty, e.Pos())
	if c.isNil(e) {
		return "(none : Option " + lt + ")"
	}
	if sel, ok := c.nilableSel(e); ok {
		return c.nilableRaw(sel)
	}
	if r, ok := c.createNilSliceValue(e, ty); ok {
		return r // a slice literal, an append (trans_units_create.go)
	}
	switch x := trUnparen(e).(type) {
	case *ast.Ident:
		o := c.info().Uses[x]
		if c.nilSliceVar(o) {
			if n, ok := c.names[o]; ok {
				return n
			}
			trFail(e.Pos(), "variable %s is used before the translator saw its declaration", x.Name)
		}
		if v, ok := o.(*types.Var); ok && c.appendOnlyFromNil(v) {
			return "(nilIfEmpty " + c.expr(e) + ")" // declared nil, only extended by append: nil ⇔ empty
		}
	case *ast.CallExpr:
		if fo := c.calledFunc(x); fo != nil && trNilSliceResult(fo) {
			return c.expr(x)
		}
	}
	trFail(e.Pos(), "the nil-ness of this slice value is not known (it is stored where nil-ness is observed)")
	return ""
}

// appendOnlyFromNil: the local is declared `var x []T` and every assignment to it is `x = append(x, …)`
func (c *trCtx) appendOnlyFromNil(v *types.Var) bool {
	if c.fn == nil || c.fn.decl == nil {
		return false
	}
	declared, ok := false, true
	ast.Inspect(c.fn.decl, func(n ast.Node) bool {
		switch s := n.(type) {
		case *ast.ValueSpec:
			for _, nm := range s.Names {
				if c.info().Defs[nm] == v {
					declared = len(s.Values) == 0
				}
			}
		case *ast.AssignStmt:
			for i, l := range s.Lhs {
				id, isID := trUnparen(l).(*ast.Ident)
				if !isID || (c.info().Uses[id] != v && c.info().Defs[id] != v) {
					if b := trBaseIdent(l); b != nil && c.info().Uses[b] == v {
						ok = false // x[i] = …
					}
					continue
				}
				good := false
				if s.Tok == token.ASSIGN && len(s.Lhs) == len(s.Rhs) {
					if call, isCall := trUnparen(s.Rhs[i]).(*ast.CallExpr); isCall && len(call.Args) >= 2 && call.Ellipsis == token.NoPos {
						if fid, isF := trUnparen(call.Fun).(*ast.Ident); isF {
							if b, isB := c.info().Uses[fid].(*types.Builtin); isB && b.Name() == "append" {
								if a0, isA := trUnparen(call.Args[0]).(*ast.Ident); isA && c.info().Uses[a0] == v {
									good = true
								}
							}
						}
					}
				}
				if !good {
					ok = false
				}
			}
		case *ast.UnaryExpr:
			if s.Op == token.AND {
				if id := trBaseIdent(s.X); id != nil && c.info().Uses[id] == v {
					ok = false
				}
			}
		}
		return true
	})
	return declared && ok
}

// perfVarType: the Lean type of a tracked slice variable
func (c *trCtx) perfVarType(o types.Object, pos token.Pos) (string, bool) {
	if c.nilSliceVar(o) {
		return "(Option " + c.leanType(o.Type(), pos) + ")", true
	}
	return "", false
}

// ---------------------------------------------------------------------------------------------- m == nil for map fields

// trNilMap: struct fields of map type whose nil-ness the code observes
var trNilMap = map[string]bool{
	trKnutPath + "lib/reports/weights.Value.Weights": true,
}

func trNilMapField(recv types.Type, field string) bool {
	if recv == nil {
		return false
	}
	if p, ok := recv.Underlying().(*types.Pointer); ok {
		recv = p.Elem()
	}
	n, ok := recv.(*types.Named)
	if !ok || n.Obj().Pkg() == nil {
		return false
	}
	return trNilMap[n.Obj().Pkg().Path()+"."+n.Obj().Name()+"."+field]
}

func (c *trCtx) nilMapSel(e ast.Expr) (*ast.SelectorExpr, bool) {
	sel, ok := trUnparen(e).(*ast.SelectorExpr)
	if !ok {
		return nil, false
	}
	s, ok := c.info().Selections[sel]
	if !ok || s.Kind() != types.FieldVal || len(s.Index()) != 1 {
		return nil, false
	}
	return sel, trNilMapField(s.Recv(), sel.Sel.Name)
}

func (c *trCtx) nilMapExpr(e ast.Expr) bool {
	_, ok := c.nilMapSel(e)
	return ok
}

func (c *trCtx) nilMapRaw(sel *ast.SelectorExpr) string {
	c.leanType(c.info().Selections[sel].Recv(), sel.Pos())
	return c.expr(sel.X) + "." + trMangle(sel.Sel.Name)
}

// ---------------------------------------------------------------------------------------------- fmt.Printf as a log

func trIsPrintf(info *types.Info, x *ast.CallExpr) bool {
	sel, ok := trUnparen(x.Fun).(*ast.SelectorExpr)
	if !ok {
		return false
	}
	if _, isSel := info.Selections[sel]; isSel {
		return false
	}
	fo, _ := info.Uses[sel.Sel].(*types.Func)
	return fo != nil && fo.FullName() == "fmt.Printf"
}

// printfStmt: fmt.Printf(f, a…) as a statement: stdout := stdout ++ [⟨f, [a…]⟩]
func (c *trCtx) printfStmt(call *ast.CallExpr, k trK) (trLines, bool) {
	if !trIsPrintf(c.info(), call) {
		return nil, false
	}
	if c.stdoutObj == nil {
		trFail(call.Pos(), "fmt.Printf outside a closure of a constructor of closures is outside the subset")
	}
	tv := c.info().Types[call.Args[0]]
	if tv.Value == nil || tv.Value.Kind() != constant.String {
		trFail(call.Pos(), "fmt.Printf with a non-constant format is outside the subset")
	}
	if call.Ellipsis != token.NoPos {
		trFail(call.Pos(), "call with … is outside the subset")
	}
	var args []string
	for _, a := range call.Args[1:] {
		ty := c.typeOf(a)
		switch {
		case trIsTime(ty):
			args = append(args, "Stdout.PrintArg.time "+c.expr(a))
		case trIsFloat(ty):
			args = append(args, "Stdout.PrintArg.float "+c.expr(a))
		case ty == types.Typ[types.Int]:
			args = append(args, "Stdout.PrintArg.int "+c.expr(a))
		case ty == types.Typ[types.String]:
			args = append(args, "Stdout.PrintArg.str "+c.expr(a))
		default:
			trFail(a.Pos(), "fmt.Printf: an operand of type %s is outside the subset", ty)
		}
	}
	pre := c.takePre()
	n := c.names[c.stdoutObj]
	entry := "({ format := " + trLeanStr(constant.StringVal(tv.Value)) + ", args := [" + strings.Join(args, ", ") + "] } : Stdout.PrintfCall)"
	return trWrapPre(pre, trLet(n, "(List Stdout.PrintfCall)", trOne("("+n+" ++ ["+entry+"])"), k())), true
}

// stdoutLog: the pseudo variable `stdout` of a constructor of closures one of whose closures calls fmt.Printf
func (t *trTranslator) stdoutLog(f *trFunc, cbs []trCallback) *types.Var {
	found := false
	for _, cb := range cbs {
		ast.Inspect(cb.lit, func(n ast.Node) bool {
			if call, ok := n.(*ast.CallExpr); ok && trIsPrintf(f.pkg.info, call) {
				found = true
			}
			return true
		})
	}
	if !found {
		return nil
	}
	return types.NewVar(f.decl.End(), f.pkg.tpkg, "stdout", types.Typ[types.Invalid])
}

// ---------------------------------------------------------------------------------------------- hooks of the shared translator files

// perfPointerType: *T for T in trNilPtr ↦ Option T; *map[K]V ↦ the map
func (t *trTranslator) perfPointerType(from *trUnit, x *types.Pointer, pos token.Pos) (string, bool) {
	if n := trNilPtrElem(x); n != nil {
		return "(Option " + t.leanType(from, n, pos) + ")", true
	}
	if trIsMapPtr(x) {
		return t.leanType(from, x.Elem(), pos), true
	}
	return "", false
}

// perfSelect: `p.f` through a nilable pointer; a nilable map field read as a map (nil reads as empty)
func (c *trCtx) perfSelect(x *ast.SelectorExpr, sel *types.Selection) (string, bool) {
	if len(sel.Index()) != 1 {
		return "", false
	}
	if r, ok := c.nilPtrSelect(x); ok {
		return r, true
	}
	if trNilMapField(sel.Recv(), x.Sel.Name) {
		c.leanType(sel.Recv(), x.Pos())
		return "(Option.getD " + c.expr(x.X) + "." + trMangle(x.Sel.Name) + " [])", true
	}
	return "", false
}

// perfNew: new(T) for T in trNilPtr
func (c *trCtx) perfNew(x *ast.CallExpr) string {
	ty := c.typeOf(x)
	if trNilPtrElem(ty) == nil {
		trFail(x.Pos(), "new(%s) is outside the subset", c.typeOf(x.Args[0]))
	}
	n := trNilPtrElem(ty)
	return "(some (GoZero.zero : " + c.leanType(n, x.Pos()) + "))"
}

// perfNil: nil in a position of nilable-pointer or map type
func (c *trCtx) perfNil(e ast.Expr, ty types.Type) (string, bool) {
	if trNilPtrElem(ty) != nil {
		return "(none : " + c.leanType(ty, e.Pos()) + ")", true
	}
	if _, ok := ty.Underlying().(*types.Map); ok {
		return "([] : " + c.leanType(ty, e.Pos()) + ")", true // a nil map reads as the empty map (storing into it is not modelled: see trNilMap)
	}
	return "", false
}

// perfRetValue: the i-th value of a return statement
func (c *trCtx) perfRetValue(r ast.Expr, i int) string {
	if c.fn != nil && c.fn.obj != nil && c.statePack == nil && c.retHook == nil && trNilSliceResult(c.fn.obj) {
		if _, isSlice := c.resultTypes[i].Underlying().(*types.Slice); isSlice {
			return c.nilSliceValue(r, c.resultTypes[i])
		}
	}
	return c.exprAs(r, c.resultTypes[i])
}

// perfResultType: the Lean type of a result of the function being translated
func (c *trCtx) perfResultType(ty types.Type, pos token.Pos) string {
	if _, isSlice := ty.Underlying().(*types.Slice); isSlice && c.fn != nil && c.fn.obj != nil && trNilSliceResult(c.fn.obj) {
		return "(Option " + c.leanType(ty, pos) + ")"
	}
	return c.leanType(ty, pos)
}

// perfAssignValue: the value of `lhs = rhs` / `lhs := rhs` when lhs is a tracked slice variable, a nilable map field or a nilable pointer
func (c *trCtx) perfAssignValue(x *ast.AssignStmt) (string, bool) {
	lhs, rhs := x.Lhs[0], x.Rhs[0]
	if id, ok := trUnparen(lhs).(*ast.Ident); ok {
		o := c.info().Uses[id]
		if o == nil {
			o = c.info().Defs[id]
		}
		if c.nilSliceVar(o) {
			return c.nilSliceValue(rhs, o.Type()), true
		}
	}
	if _, ok := c.nilMapSel(lhs); ok && x.Tok == token.ASSIGN {
		ty := c.typeOf(lhs)
		lt := c.leanType(ty, lhs.Pos())
		if c.isNil(rhs) {
			return "(none : Option " + lt + ")", true
		}
		if sel, ok := c.nilMapSel(rhs); ok {
			return c.nilMapRaw(sel), true
		}
		if call, ok := trUnparen(rhs).(*ast.CallExpr); ok {
			if id, ok := trUnparen(call.Fun).(*ast.Ident); ok {
				if b, ok := c.info().Uses[id].(*types.Builtin); ok && b.Name() == "make" {
					return "(some " + c.expr(rhs) + ")", true
				}
			}
		}
		if cl, ok := trUnparen(rhs).(*ast.CompositeLit); ok {
			return "(some " + c.expr(cl) + ")", true
		}
		trFail(rhs.Pos(), "a map field whose nil-ness is observed may only be set from nil, make, a literal or another such field")
	}
	if x.Tok == token.ASSIGN && trNilPtrElem(c.typeOfOrNil(lhs)) != nil && !c.isNil(rhs) {
		if _, isCall := trUnparen(rhs).(*ast.CallExpr); !isCall {
			// q = p: a copy of the VALUE; recorded next to the externals (pinned by the agreement module)
			c.externals = append(c.externals, "copy "+trSrcText(c.t.l.fset, x)+" [a pointer copied as a value: exact while the object is not read through the other pointer before the copy is stored back]")
		}
	}
	return "", false
}

// trPerfImports: the prelude module of this file, when the generated text uses it
func trPerfImports(text string) string {
	for _, m := range []string{"F64.", "derefE", "nilMapE", "nilIfEmpty", "Stdout."} {
		if strings.Contains(text, m) {
			return "import Knut.GoSem.Float\n"
		}
	}
	return ""
}

// trPerfEffect: the node needs the Outcome monad: a field read or written through a nilable pointer, a store into a nilable map field
func trPerfEffect(info *types.Info, n ast.Node) bool {
	switch x := n.(type) {
	case *ast.SelectorExpr:
		return trNilPtrEffect(info, x)
	case *ast.IndexExpr:
		if sel, ok := trUnparen(x.X).(*ast.SelectorExpr); ok {
			if s, ok := info.Selections[sel]; ok && s.Kind() == types.FieldVal && trNilMapField(s.Recv(), sel.Sel.Name) {
				return true
			}
		}
	}
	return false
}

// perfFuncInst: `F[T]` where F is a declared generic function, used as a value
func (c *trCtx) perfFuncInst(x *ast.IndexExpr) (string, bool) {
	switch f := trUnparen(x.X).(type) {
	case *ast.Ident:
		if _, ok := c.info().Uses[f].(*types.Func); ok {
			return c.expr(x.X), true
		}
	case *ast.SelectorExpr:
		if _, isSel := c.info().Selections[f]; !isSel {
			if _, ok := c.info().Uses[f.Sel].(*types.Func); ok {
				return c.expr(x.X), true
			}
		}
	}
	return "", false
}

// perfPinnedValue: a pinned helper that has a prelude function (compare.Ordered ↦ cmpOrdered) used as a value
func (c *trCtx) perfPinnedValue(o *types.Func, pos token.Pos) (string, bool) {
	pin, ok := trPinned[o.Origin().FullName()]
	if !ok || pin.lean == "" {
		return "", false
	}
	c.t.checkPinned(o.Origin(), pos)
	return pin.lean, true
}
