package main

// Differential stream `gosemfloat` (run as part of C11, after `gosembean`): the meaning lean/Knut/GoSem/Float.lean gives to float64 —
// an EXACT rational (harness/trans_units_perf.go: the modelling assumption "exact arithmetic" of the translated lib/journal/performance
// and lib/reports/weights).  That reading is not what an IEEE-754 machine computes in general; it is on DYADIC operands k / 2^j of
// small size, where float64 addition, subtraction, multiplication, math.Max/Min, comparison, conversion of ints and of dyadic decimals
// are exact, and division is exact for a divisor ±2^m.  On these the prelude and the real float64 must agree to the last bit, and a
// division by zero must be the prelude's distinct outcome `undef` exactly where Go computes ±Inf or NaN (and does not panic).

import (
	"fmt"
	"math"
	"math/big"

	"github.com/shopspring/decimal"
)

// gosemRatOf: the exact value of a finite float64 as numerator/denominator in lowest terms (as Lean prints a Rat)
func gosemRatOf(f float64) string {
	if math.IsInf(f, 0) || math.IsNaN(f) {
		return "undef"
	}
	r := new(big.Rat)
	if r.SetFloat64(f) == nil {
		return "undef"
	}
	return r.Num().String() + "/" + r.Denom().String()
}

func runGoSemFloatStream(c *Ctx, n int) {
	bt := c.NewBatch()
	defer bt.Flush()
	cmp := func(i int, op string, in map[string]any, impl string, fields ...string) {
		in["op"] = op
		bt.Add(func(model string) { c.Compare("gosemfloat", i, "gosemfloat "+op, in, impl, model) }, append([]string{"gosemfloat", op}, fields...)...)
	}
	for i := 0; i < n; i++ {
		if !c.Want("gosemfloat", i) {
			continue
		}
		r := c.Rng("gosemfloat", i)
		c.Evals++
		dy := func() (int, int, float64) {
			k := r.Range(-(1 << 20), 1<<20)
			switch {
			case r.Chance(1, 8):
				k = 0
			case r.Chance(1, 4):
				k = r.Range(-20, 20)
			}
			j := r.Range(0, 10)
			return k, j, float64(k) / float64(int64(1)<<uint(j))
		}
		k1, j1, a := dy()
		k2, j2, b := dy()
		in := func() map[string]any { return map[string]any{"a": fmt.Sprintf("%d/2^%d", k1, j1), "b": fmt.Sprintf("%d/2^%d", k2, j2)} }
		f4 := []string{itoa(k1), itoa(j1), itoa(k2), itoa(j2)}
		cmp(i, "add", in(), gosemRatOf(a+b), f4...)
		cmp(i, "sub", in(), gosemRatOf(a-b), f4...)
		cmp(i, "mul", in(), gosemRatOf(a*b), f4...)
		cmp(i, "neg", in(), gosemRatOf(-a), f4...)
		cmp(i, "max", in(), gosemRatOf(math.Max(a, b)), f4...)
		cmp(i, "min", in(), gosemRatOf(math.Min(a, b)), f4...)
		cmp(i, "lt", in(), fmt.Sprint(a < b), f4...)
		cmp(i, "le", in(), fmt.Sprint(a <= b), f4...)
		cmp(i, "eq", in(), fmt.Sprint(a == b), f4...)
		cmp(i, "ofint", in(), gosemRatOf(float64(k1)), f4...)
		// division: exact for a divisor ±2^m; zero gives ±Inf / NaN in Go (no panic) and `undef` in the prelude
		m := r.Range(0, 10)
		dk, dj := 1, m
		if r.Chance(1, 2) {
			dk = -1
		}
		if r.Chance(1, 3) {
			dk, dj = 1<<uint(m), 0
		}
		if r.Chance(1, 5) {
			dk = 0
		}
		d := float64(dk) / float64(int64(1)<<uint(dj))
		cmp(i, "div", map[string]any{"a": fmt.Sprintf("%d/2^%d", k1, j1), "b": fmt.Sprintf("%d/2^%d", dk, dj)}, gosemRatOf(a/d),
			itoa(k1), itoa(j1), itoa(dk), itoa(dj))
		// decimal.Float64 / InexactFloat64 of a dyadic decimal: exact
		dec := decimal.New(int64(k1), 0).Div(decimal.New(int64(1)<<uint(j1), 0)) // k1 / 2^j1 has a finite decimal expansion (≤ 10 digits)
		f, exact := dec.Float64()
		cmp(i, "ofdec", map[string]any{"d": dec.String()}, gosemRatOf(dec.InexactFloat64())+" "+gosemRatOf(f)+" "+fmt.Sprint(exact), f4...)
		zero := "nz"
		if dk == 0 {
			zero = "zero"
		}
		c.Class(fmt.Sprintf("gosemfloat/a%s/b%s/div%s", sign(k1), sign(k2), zero))
	}
}
