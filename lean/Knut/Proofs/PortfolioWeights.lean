import Knut.Spec.PortfolioSpec
/-! Lemmas for C20: the weights report (exact arithmetic). -/
namespace Knut.Weights
open Knut Knut.Performance Knut.PortfolioSpec

/-! ### sums -/

theorem sum_map_div (l : List Rat) (t : Rat) : (l.map (· / t)).sum = l.sum / t := by
  induction l with
  | nil => simp [Rat.div_def]
  | cons x xs ih =>
    simp only [List.map_cons, List.sum_cons, ih]
    simp only [Rat.div_def, Rat.add_mul]

theorem sum_map_zero {α : Type} (l : List α) : (l.map (fun _ => (0 : Rat))).sum = 0 := by
  induction l with
  | nil => rfl
  | cons x xs ih => simp [ih, Rat.add_zero]

/-- adding `a` at the single position `s0` of a duplicate-free key list -/
theorem sum_map_bump (ks : List String) (hn : ks.Nodup) (s0 : String) (hs : s0 ∈ ks) (a : Rat) (g : String → Rat) :
    (ks.map (fun s => (if s = s0 then a else 0) + g s)).sum = a + (ks.map g).sum := by
  induction ks with
  | nil => cases hs
  | cons k rest ih =>
    rw [List.nodup_cons] at hn
    simp only [List.map_cons, List.sum_cons]
    by_cases hk : k = s0
    · subst hk
      have hrest : (rest.map (fun s => (if s = k then a else 0) + g s)).sum = (rest.map g).sum := by
        congr 1
        apply List.map_congr_left
        intro s hs'
        have : s ≠ k := fun e => hn.1 (e ▸ hs')
        simp [this, Rat.zero_add]
      rw [hrest]
      simp only [if_true]
      grind
    · have hs' : s0 ∈ rest := by
        rcases List.mem_cons.mp hs with h | h
        · exact absurd h.symm hk
        · exact h
      rw [ih hn.2 hs']
      simp only [hk, if_false]
      grind

/-- **splitting a sum by an optional key** over a duplicate-free list of all keys -/
theorem sum_by_key {α : Type} (key : α → Option String) (f : α → Rat) (ks : List String) (hn : ks.Nodup) :
    ∀ (xs : List α), (∀ x ∈ xs, ∀ s, key x = some s → s ∈ ks) →
    (xs.map f).sum = ((xs.filter (fun x => key x = none)).map f).sum +
      (ks.map (fun s => ((xs.filter (fun x => key x = some s)).map f).sum)).sum := by
  intro xs
  induction xs with
  | nil => intro _; simp [sum_map_zero, Rat.add_zero]
  | cons x rest ih =>
    intro hk
    have ih' := ih (fun y hy => hk y (List.mem_cons_of_mem _ hy))
    simp only [List.map_cons, List.sum_cons, ih']
    cases hx : key x with
    | none =>
      simp only [List.filter_cons, hx, decide_true, if_true, List.map_cons, List.sum_cons]
      have : ∀ s : String, decide ((none : Option String) = some s) = false := by intro s; simp
      simp only [this, Bool.false_eq_true, if_false]
      grind
    | some s0 =>
      have hs0 := hk x List.mem_cons_self s0 hx
      have e1 : (List.filter (fun x => decide (key x = none)) (x :: rest)) = List.filter (fun x => decide (key x = none)) rest := by
        simp [List.filter_cons, hx]
      rw [e1]
      have e2 : (ks.map (fun s => ((List.filter (fun x => decide (key x = some s)) (x :: rest)).map f).sum)) =
          ks.map (fun s => (if s = s0 then f x else 0) + ((rest.filter (fun x => decide (key x = some s))).map f).sum) := by
        apply List.map_congr_left
        intro s _
        simp only [List.filter_cons, hx]
        by_cases hs : s = s0
        · subst hs; simp
        · have : ¬ s0 = s := fun e => hs e.symm
          simp [hs, this, Rat.zero_add]
      rw [e2, sum_map_bump ks hn s0 hs0]
      grind

/-! ### `dedup` -/

theorem mem_dedup (l : List String) (a : String) : a ∈ dedup l ↔ a ∈ l := by
  induction l with
  | nil => simp [dedup]
  | cons x xs ih =>
    simp only [dedup, List.mem_cons, List.mem_filter, decide_eq_true_eq, ih]
    constructor
    · rintro (h | ⟨h, _⟩)
      · exact Or.inl h
      · exact Or.inr h
    · rintro (h | h)
      · exact Or.inl h
      · by_cases e : a = x
        · exact Or.inl e
        · exact Or.inr ⟨h, e⟩

theorem nodup_dedup (l : List String) : (dedup l).Nodup := by
  induction l with
  | nil => simp [dedup]
  | cons x xs ih =>
    simp only [dedup, List.nodup_cons, List.mem_filter, decide_eq_true_eq]
    refine ⟨fun h => h.2 rfl, ?_⟩
    exact ih.sublist List.filter_sublist

/-! ### prefixes -/

theorem isPrefixOf_snoc (π : List String) (s : String) : ∀ (l : List String),
    (π ++ [s]).isPrefixOf l = (π.isPrefixOf l && decide ((l.drop π.length).head? = some s)) := by
  induction π with
  | nil =>
    intro l
    cases l with
    | nil => simp [List.isPrefixOf]
    | cons x xs =>
      simp only [List.nil_append, List.isPrefixOf, List.length_nil, List.drop_zero, List.head?_cons, Bool.true_and]
      by_cases h : s = x
      · subst h; simp [List.isPrefixOf]
      · have : ¬ x = s := fun e => h e.symm
        simp [h, this, List.isPrefixOf]
  | cons a rest ih =>
    intro l
    cases l with
    | nil => simp [List.isPrefixOf]
    | cons x xs =>
      simp only [List.cons_append, List.isPrefixOf, List.length_cons, List.drop_succ_cons, ih xs, Bool.and_assoc]

theorem nextSeg_none_iff (π : List String) : ∀ (l : List String), π.isPrefixOf l = true →
    ((l.drop π.length).head? = none ↔ l = π) := by
  induction π with
  | nil =>
    intro l _
    cases l <;> simp
  | cons a rest ih =>
    intro l h
    cases l with
    | nil => simp [List.isPrefixOf] at h
    | cons x xs =>
      simp only [List.isPrefixOf, Bool.and_eq_true, beq_iff_eq] at h
      simp only [List.length_cons, List.drop_succ_cons, ih xs h.2, List.cons.injEq, h.1, true_and]

/-! ### a group's weight is the sum of its members -/

theorem group_sum (adds : List Add) (π : List String) (D : Int) :
    wsum adds π D = ownSum adds π D + ((childSegs adds π).map (fun s => wsum adds (π ++ [s]) D)).sum := by
  have hkeys : ∀ x ∈ (below adds π).filter (fun a => a.date = D), ∀ s, nextSeg π x = some s → s ∈ childSegs adds π := by
    intro x hx s hs
    unfold childSegs
    rw [mem_dedup]
    exact List.mem_filterMap.mpr ⟨x, (List.mem_filter.mp hx).1, hs⟩
  have h := sum_by_key (nextSeg π) (·.weight) (childSegs adds π) (nodup_dedup _) _ hkeys
  unfold wsum
  rw [h]
  congr 1
  · -- the adds at `π` itself
    unfold ownSum below
    rw [List.filter_filter, List.filter_filter]
    congr 2
    apply List.filter_congr
    intro a _
    by_cases hp : π.isPrefixOf a.path = true
    · have := nextSeg_none_iff π a.path hp
      unfold nextSeg
      by_cases he : a.path = π
      · have h1 := this.mpr he
        simp only [h1, he, decide_true, Bool.true_and, Bool.and_true, hp]
        rw [← he]; simp
      · have hne : ¬ (a.path.drop π.length).head? = none := fun e => he (this.mp e)
        have hd : decide ((a.path.drop π.length).head? = none) = false := decide_eq_false hne
        have hd2 : decide (a.path = π) = false := decide_eq_false he
        simp only [hd, hd2, Bool.false_and]
    · have hne : ¬ a.path = π := by
        intro e; apply hp; rw [e]; simp
      simp [hp, hne]
  · -- the adds below child `s`
    congr 1
    apply List.map_congr_left
    intro s _
    unfold below
    rw [List.filter_filter, List.filter_filter, List.filter_filter]
    congr 2
    apply List.filter_congr
    intro a _
    rw [isPrefixOf_snoc]
    unfold nextSeg
    cases π.isPrefixOf a.path <;> cases decide (a.date = D) <;> simp

/-! ### the query on one day -/

/-- the adds of a day: one per commodity of `V1`, in map order, weight = value / total -/
theorem queryDay_weights (mapping : List MapRule) (u : Universe) (date : Int) (v1 : AMap Commodity Rat)
    (adds : List Add) (u' : Universe) (h : queryDay mapping u date v1 = some (adds, u')) :
    adds.map (·.weight) = v1.map (fun e => e.2 / sumVals v1) ∧ (∀ a ∈ adds, a.date = date) ∧
    (v1 ≠ [] → sumVals v1 ≠ 0) := by
  unfold queryDay at h
  simp only at h
  split at h
  · rename_i he
    injection h with h; injection h with h1 _; subst h1
    have : v1 = [] := by simpa using he
    subst this
    exact ⟨rfl, (by intro a ha; cases ha), fun hne => absurd rfl hne⟩
  · split at h
    · cases h
    · rename_i ht
      injection h with h
      suffices hgen : ∀ (l : List (Commodity × Rat)) (acc : List Add × Universe),
          ((l.foldl (fun (acc : List Add × Universe) e =>
            let r := shortenPath mapping acc.2 e.1
            (acc.1 ++ [{ path := r.1, date := date, weight := e.2 / sumVals v1 }], r.2)) acc).1.map (·.weight) =
              acc.1.map (·.weight) ++ l.map (fun e => e.2 / sumVals v1)) ∧
          ((∀ a ∈ acc.1, a.date = date) → ∀ a ∈ (l.foldl (fun (acc : List Add × Universe) e =>
            let r := shortenPath mapping acc.2 e.1
            (acc.1 ++ [{ path := r.1, date := date, weight := e.2 / sumVals v1 }], r.2)) acc).1, a.date = date) by
        have := hgen v1 ([], u)
        rw [h] at this
        exact ⟨by simpa using this.1, this.2 (by intro a ha; cases ha), fun _ => ht⟩
      intro l
      induction l with
      | nil => intro acc; exact ⟨by simp, fun h => h⟩
      | cons e rest ih =>
        intro acc
        simp only [List.foldl_cons]
        obtain ⟨i1, i2⟩ := ih ((acc.1 ++ [{ path := (shortenPath mapping acc.2 e.1).1, date := date, weight := e.2 / sumVals v1 }], (shortenPath mapping acc.2 e.1).2))
        refine ⟨?_, ?_⟩
        · rw [i1]; simp
        · intro hacc
          apply i2
          intro a ha
          rcases List.mem_append.mp ha with ha | ha
          · exact hacc a ha
          · simp only [List.mem_singleton] at ha; subst ha; rfl

/-- **the weights of a day sum to one** -/
theorem queryDay_sum_one (mapping : List MapRule) (u : Universe) (date : Int) (v1 : AMap Commodity Rat)
    (adds : List Add) (u' : Universe) (h : queryDay mapping u date v1 = some (adds, u')) (hne : v1 ≠ []) :
    (adds.map (·.weight)).sum = 1 := by
  obtain ⟨hw, _, ht⟩ := queryDay_weights mapping u date v1 adds u' h
  rw [hw]
  have : v1.map (fun e => e.2 / sumVals v1) = (v1.map (·.2)).map (· / sumVals v1) := by simp [List.map_map]
  rw [this, sum_map_div]
  have := ht hne
  unfold sumVals at this ⊢
  rw [Rat.div_def, Rat.mul_inv_cancel _ this]

/-! ### the whole query: the weights of every reported date sum to one -/

theorem queryFrom_dates (mapping : List MapRule) (ends : List Int) : ∀ (perfs : List DayPerf) (u : Universe) (adds : List Add),
    queryFrom mapping ends u perfs = some adds → ∀ a ∈ adds, a.date ∈ perfs.map (·.date) := by
  intro perfs
  induction perfs with
  | nil => intro u adds h a ha; simp only [queryFrom] at h; injection h with h; subst h; cases ha
  | cons p rest ih =>
    intro u adds h a ha
    unfold queryFrom at h
    split at h
    · cases hq : queryDay mapping u p.date p.v1 with
      | none => rw [hq] at h; cases h
      | some r =>
        obtain ⟨dayAdds, u'⟩ := r
        rw [hq] at h
        simp only at h
        cases hr : queryFrom mapping ends u' rest with
        | none => rw [hr] at h; cases h
        | some restAdds =>
          rw [hr] at h; simp only [Option.map_some] at h
          injection h with h; subst h
          rcases List.mem_append.mp ha with ha | ha
          · have := (queryDay_weights mapping u p.date p.v1 dayAdds u' hq).2.1 a ha
            simp [this]
          · exact List.mem_cons_of_mem _ (ih u' restAdds hr a ha)
    · exact List.mem_cons_of_mem _ (ih u adds h a ha)

/-- **per reported date the weights sum to one** -/
theorem queryFrom_sum_one (mapping : List MapRule) (ends : List Int) : ∀ (perfs : List DayPerf) (u : Universe) (adds : List Add),
    queryFrom mapping ends u perfs = some adds → List.Pairwise (· < ·) (perfs.map (·.date)) →
    ∀ D, D ∈ adds.map (·.date) → ((adds.filter (fun a => a.date = D)).map (·.weight)).sum = 1 := by
  intro perfs
  induction perfs with
  | nil => intro u adds h _ D hD; simp only [queryFrom] at h; injection h with h; subst h; simp at hD
  | cons p rest ih =>
    intro u adds h hs D hD
    simp only [List.map_cons, List.pairwise_cons] at hs
    unfold queryFrom at h
    split at h
    · cases hq : queryDay mapping u p.date p.v1 with
      | none => rw [hq] at h; cases h
      | some r =>
        obtain ⟨dayAdds, u'⟩ := r
        rw [hq] at h
        simp only at h
        cases hr : queryFrom mapping ends u' rest with
        | none => rw [hr] at h; cases h
        | some restAdds =>
          rw [hr] at h; simp only [Option.map_some] at h
          injection h with h; subst h
          have hday := (queryDay_weights mapping u p.date p.v1 dayAdds u' hq).2.1
          have hrest := queryFrom_dates mapping ends rest u' restAdds hr
          rw [List.filter_append, List.map_append, List.sum_append]
          by_cases hDp : D = p.date
          · subst hDp
            have e1 : dayAdds.filter (fun a => a.date = p.date) = dayAdds := by
              rw [List.filter_eq_self]; intro a ha; simp [hday a ha]
            have e2 : restAdds.filter (fun a => a.date = p.date) = [] := by
              rw [List.filter_eq_nil_iff]; intro a ha
              have := hs.1 a.date (hrest a ha)
              simp; omega
            rw [e1, e2]
            simp only [List.map_nil, List.sum_nil, Rat.add_zero]
            apply queryDay_sum_one mapping u p.date p.v1 dayAdds u' hq
            intro hv
            -- some add carries the date, and the rest of the journal does not: the day's adds are not empty
            rw [List.map_append, List.mem_append] at hD
            rcases hD with hD | hD
            · have hw := (queryDay_weights mapping u p.date p.v1 dayAdds u' hq).1
              rw [hv] at hw
              have : dayAdds = [] := by simpa using hw
              rw [this] at hD; cases hD
            · obtain ⟨a, ha, hda⟩ := List.mem_map.mp hD
              have := hs.1 a.date (hrest a ha)
              omega
          · have e1 : dayAdds.filter (fun a => a.date = D) = [] := by
              rw [List.filter_eq_nil_iff]; intro a ha; simp [hday a ha]; exact fun e => hDp e.symm
            rw [e1]
            simp only [List.map_nil, List.sum_nil, Rat.zero_add]
            apply ih u' restAdds hr hs.2 D
            rw [List.map_append, List.mem_append] at hD
            rcases hD with hD | hD
            · obtain ⟨a, ha, hda⟩ := List.mem_map.mp hD
              exact absurd (hda ▸ hday a ha) hDp
            · exact hD
    · exact ih u adds h hs.2 D hD

theorem below_nil (adds : List Add) : below adds [] = adds := by
  unfold below
  rw [List.filter_eq_self]
  intro a _
  simp [List.isPrefixOf]

/-- **the top level sums to 100 %** when no weight is put on the (unrendered) root -/
theorem top_level_sum (adds : List Add) (hr : rooted adds = true) (D : Int)
    (h1 : ((adds.filter (fun a => a.date = D)).map (·.weight)).sum = 1) :
    ((childSegs adds []).map (fun s => wsum adds [s] D)).sum = 1 := by
  have hg := group_sum adds [] D
  have hown : ownSum adds [] D = 0 := by
    unfold ownSum
    have : adds.filter (fun a => a.path = [] && a.date = D) = [] := by
      rw [List.filter_eq_nil_iff]
      intro a ha
      unfold rooted at hr
      rw [List.all_eq_true] at hr
      have := hr a ha
      cases hp : a.path with
      | nil => simp [hp] at this
      | cons x xs => simp
    rw [this]; rfl
  rw [hown, Rat.zero_add] at hg
  simp only [List.nil_append] at hg
  rw [← hg]
  unfold wsum
  rw [below_nil]
  exact h1

end Knut.Weights
