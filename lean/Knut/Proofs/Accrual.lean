import Knut.Model.Accrual
import Knut.Spec.AccrualSpec
/-!
# Lemmas for C10: sums over postings, the symmetric pair builder, the split of a quantity
-/
namespace Knut.Accrual
open Knut Knut.Dec Knut.Spec

/-! ## `QuoRem` -/

/-- `q, r := x.QuoRem(n, p)` satisfies `q·n + r = x` (whenever it does not panic, i.e. `n ≠ 0`) -/
theorem quoRem_sum (x n : Rat) (p : Nat) (q r : Rat) (h : quoRem x n p = some (q, r)) : q * n + r = x := by
  unfold quoRem at h
  split at h
  · cases h
  · simp only [Option.some.injEq, Prod.mk.injEq] at h
    obtain ⟨hq, hr⟩ := h
    subst hq
    rw [← hr]
    grind

theorem quoRem_ne_zero (x n : Rat) (p : Nat) (qr : Rat × Rat) (h : quoRem x n p = some qr) : n ≠ 0 := by
  unfold quoRem at h
  split at h
  · cases h
  · assumption

theorem quoRem_isSome (x n : Rat) (p : Nat) (h : n ≠ 0) : ∃ qr, quoRem x n p = some qr := by
  unfold quoRem
  simp [h]

/-! ## sums -/

theorem booked_append (a : Account) (c : Commodity) (l1 l2 : List Posting) :
    booked a c (l1 ++ l2) = booked a c l1 + booked a c l2 := by
  induction l1 with
  | nil => simp only [List.nil_append, booked]; grind
  | cons p ps ih => simp only [List.cons_append, booked, ih]; grind

theorem bookedTxs_append (a : Account) (c : Commodity) (l1 l2 : List Transaction) :
    bookedTxs a c (l1 ++ l2) = bookedTxs a c l1 + bookedTxs a c l2 := by
  induction l1 with
  | nil => simp only [List.nil_append, bookedTxs]; grind
  | cons p ps ih => simp only [List.cons_append, bookedTxs, ih]; grind

/-- total quantity of commodity `c` over a list of postings (all accounts) -/
def comSum (c : Commodity) : List Posting → Rat
  | [] => 0
  | p :: ps => (if p.commodity = c then p.quantity else 0) + comSum c ps

theorem comSum_append (c : Commodity) (l1 l2 : List Posting) :
    comSum c (l1 ++ l2) = comSum c l1 + comSum c l2 := by
  induction l1 with
  | nil => simp only [List.nil_append, comSum]; grind
  | cons p ps ih => simp only [List.cons_append, comSum, ih]; grind

/-! ## the symmetric pair builder -/

/-- the two postings of `posting.Builder.Build` (no value) -/
theorem postingBuild_eq (cr dr : Account) (c : Commodity) (q : Rat) :
    postingBuild cr dr c q =
      if q < 0 then
        [{ account := dr, other := cr, commodity := c, quantity := -(-q), value := -(-0) },
         { account := cr, other := dr, commodity := c, quantity := -q, value := -0 }]
      else
        [{ account := cr, other := dr, commodity := c, quantity := -q, value := -0 },
         { account := dr, other := cr, commodity := c, quantity := q, value := 0 }] := by
  unfold postingBuild
  by_cases h : q < 0 <;> simp [h]

/-- whatever the sign, the debit account receives `q` and the credit account `-q` -/
theorem booked_postingBuild (cr dr : Account) (c : Commodity) (q : Rat) (a : Account) (c' : Commodity) :
    booked a c' (postingBuild cr dr c q) =
      (if dr = a ∧ c = c' then q else 0) + (if cr = a ∧ c = c' then -q else 0) := by
  rw [postingBuild_eq]
  by_cases h : q < 0
  · simp only [h, if_true, booked]
    by_cases h1 : dr = a ∧ c = c' <;> by_cases h2 : cr = a ∧ c = c' <;> simp [h1, h2] <;> grind
  · simp only [h, if_false, booked]
    by_cases h1 : dr = a ∧ c = c' <;> by_cases h2 : cr = a ∧ c = c' <;> simp [h1, h2] <;> grind

theorem comSum_postingBuild (cr dr : Account) (c : Commodity) (q : Rat) (c' : Commodity) :
    comSum c' (postingBuild cr dr c q) = 0 := by
  rw [postingBuild_eq]
  by_cases h : q < 0
  · simp only [h, if_true, comSum]
    by_cases h1 : c = c' <;> simp [h1] <;> grind
  · simp only [h, if_false, comSum]
    by_cases h1 : c = c' <;> simp [h1] <;> grind

/-- what a transaction's bookings book sums to zero per commodity -/
theorem comSum_postingsOf (bs : List Booking) (c : Commodity) : comSum c (postingsOf bs) = 0 := by
  induction bs with
  | nil => simp [postingsOf, comSum]
  | cons b rest ih =>
    have : postingsOf (b :: rest) = postingBuild b.credit b.debit b.commodity b.quantity ++ postingsOf rest := by
      simp [postingsOf]
    rw [this, comSum_append, comSum_postingBuild, ih]
    grind

theorem balancedPair_rebook (t : Transaction) (date : Int) (desc : String) (acc : Account) (p : Posting) (q : Rat) :
    balancedPair acc (rebook t date desc acc p q) = true := by
  unfold balancedPair rebook
  simp only
  rw [postingBuild_eq]
  by_cases h : q < 0 <;> simp [h]

/-- a re-booked transaction has a posting on the original posting's account and commodity -/
theorem rebook_books (t : Transaction) (date : Int) (desc : String) (acc : Account) (p : Posting) (q : Rat) :
    (rebook t date desc acc p q).postings.any (fun x => decide (x.account = p.account ∧ x.commodity = p.commodity)) = true := by
  unfold rebook
  simp only
  rw [postingBuild_eq]
  by_cases h : q < 0 <;> simp [h]

theorem bookedTxs_rebook (t : Transaction) (date : Int) (desc : String) (acc : Account) (p : Posting) (q : Rat)
    (a : Account) (c : Commodity) :
    booked a c (rebook t date desc acc p q).postings =
      (if p.account = a ∧ p.commodity = c then q else 0) + (if acc = a ∧ p.commodity = c then -q else 0) := by
  unfold rebook
  exact booked_postingBuild acc p.account p.commodity q a c

/-! ## the split of one income/expense posting -/

/-- sum of the quantities assigned by the loop from index `i` on -/
def ieSum (amount rem : Rat) : Nat → List Int → Rat
  | _, [] => 0
  | i, _ :: rest => (if i = 0 then amount + rem else amount) + ieSum amount rem (i + 1) rest

theorem ieSum_succ (amount rem : Rat) (i : Nat) (dates : List Int) :
    ieSum amount rem (i + 1) dates = amount * ((dates.length : Int) : Rat) := by
  induction dates generalizing i with
  | nil => simp [ieSum]
  | cons d rest ih =>
    simp only [ieSum, ih, List.length_cons, Nat.add_eq_zero_iff, Nat.succ_ne_self, and_false, if_false]
    simp [Rat.intCast_add]
    grind

theorem ieSum_zero (amount rem : Rat) (d : Int) (rest : List Int) :
    ieSum amount rem 0 (d :: rest) = amount * (((d :: rest).length : Int) : Rat) + rem := by
  simp only [ieSum, if_true, ieSum_succ, List.length_cons]
  simp [Rat.intCast_add]
  grind

theorem bookedTxs_ieLoop (t : Transaction) (acc : Account) (p : Posting) (n : Nat) (amount rem : Rat)
    (i : Nat) (dates : List Int) (a : Account) (c : Commodity) :
    bookedTxs a c (ieLoop t acc p n amount rem i dates) =
      (if p.account = a ∧ p.commodity = c then ieSum amount rem i dates else 0) +
      (if acc = a ∧ p.commodity = c then -(ieSum amount rem i dates) else 0) := by
  induction dates generalizing i with
  | nil => simp only [ieLoop, bookedTxs, ieSum]; grind
  | cons d rest ih =>
    simp only [ieLoop, bookedTxs, ih, bookedTxs_rebook, ieSum]
    by_cases h1 : p.account = a ∧ p.commodity = c <;> by_cases h2 : acc = a ∧ p.commodity = c <;>
      simp [h1, h2] <;> grind

theorem ieLoop_dates (t : Transaction) (acc : Account) (p : Posting) (n : Nat) (amount rem : Rat)
    (i : Nat) (dates : List Int) : (ieLoop t acc p n amount rem i dates).map (·.date) = dates := by
  induction dates generalizing i with
  | nil => simp [ieLoop]
  | cons d rest ih => simp [ieLoop, ih, rebook]

theorem ieLoop_length (t : Transaction) (acc : Account) (p : Posting) (n : Nat) (amount rem : Rat)
    (i : Nat) (dates : List Int) : (ieLoop t acc p n amount rem i dates).length = dates.length := by
  induction dates generalizing i with
  | nil => simp [ieLoop]
  | cons d rest ih => simp [ieLoop, ih]

theorem ieLoop_all (t : Transaction) (acc : Account) (p : Posting) (n : Nat) (amount rem : Rat)
    (i : Nat) (dates : List Int) (P : Transaction → Prop)
    (hP : ∀ date desc q, P (rebook t date desc acc p q)) : ∀ g ∈ ieLoop t acc p n amount rem i dates, P g := by
  induction dates generalizing i with
  | nil => simp [ieLoop]
  | cons d rest ih =>
    intro g hg
    simp only [ieLoop, List.mem_cons] at hg
    rcases hg with rfl | hg
    · exact hP _ _ _
    · exact ih (i + 1) g hg

/-- descriptions of the parts: `"<description> (accrual i/n)"`, `i = 1 … n` in order -/
theorem ieLoop_descriptions (t : Transaction) (acc : Account) (p : Posting) (n : Nat) (amount rem : Rat)
    (i : Nat) (dates : List Int) :
    (ieLoop t acc p n amount rem i dates).map (·.description) =
      (List.range dates.length).map (fun k => partDesc t.description (i + k) n) := by
  induction dates generalizing i with
  | nil => simp [ieLoop]
  | cons d rest ih =>
    simp only [ieLoop, List.map_cons, ih, List.length_cons, List.range_succ_eq_map, List.map_map]
    simp [rebook, Function.comp_def, Nat.add_assoc, Nat.add_comm 1]

/-! ## one posting, all postings -/

theorem periodsOf_ne_nil (span : Period) (iv : Interval) (h : span.start ≤ span.stop) : periodsOf span iv 0 ≠ [] := by
  unfold periodsOf
  split
  · simp
  · rw [partLoop]
    have : ¬ (span.stop < span.start ∨ (0 : Int) ≥ 0 ∧ (0 : Int) > 0) := by omega
    simp only [this, dite_false]
    simp

theorem newPartition_ok (span : Period) (iv : Interval) (last : Int) (P : Partition)
    (h : newPartition span iv last = .ok P) : span.start ≠ 0 ∧ P.periods = periodsOf span iv last := by
  unfold newPartition at h
  split at h
  · cases h
  · injection h with h; subst h; exact ⟨by assumption, rfl⟩

/-- the generated transactions of one posting book it on its account and the opposite on the accrual account -/
theorem bookedTxs_expandPosting (t : Transaction) (ad : Addon) (p : Posting) (txs : List Transaction)
    (h : expandPosting t ad p = .ok txs) (a : Account) (c : Commodity) :
    bookedTxs a c txs =
      (if p.account = a ∧ p.commodity = c then p.quantity else 0) +
      (if ad.account = a ∧ p.commodity = c then -p.quantity else 0) := by
  unfold expandPosting at h
  split at h
  · injection h with h
    subst h
    simp only [bookedTxs, bookedTxs_rebook]
    grind
  · split at h
    · cases h
    · rename_i part hpart
      split at h
      · cases h
      · rename_i amount rem hq
        injection h with h
        subst h
        rw [bookedTxs_ieLoop]
        have hn := quoRem_ne_zero _ _ _ _ hq
        have hsum := quoRem_sum _ _ _ _ _ hq
        have hlen : part.endDates.length = part.size := by simp [Partition.endDates, Partition.size]
        have hS : ieSum amount rem 0 part.endDates = p.quantity := by
          cases hd : part.endDates with
          | nil =>
            rw [hd] at hlen
            simp only [List.length_nil] at hlen
            rw [← hlen] at hn
            simp at hn
          | cons d rest =>
            rw [ieSum_zero, ← hd, hlen]
            exact hsum
        rw [hS]

/-- the loop over all postings: every account receives what the original postings book on it, and the
accrual account additionally the negated total of the commodity -/
theorem bookedTxs_expandLoop (t : Transaction) (ad : Addon) (ps : List Posting) (txs : List Transaction)
    (h : expandLoop t ad ps = .ok txs) (a : Account) (c : Commodity) :
    bookedTxs a c txs = booked a c ps + (if ad.account = a then -(comSum c ps) else 0) := by
  induction ps generalizing txs with
  | nil =>
    simp only [expandLoop, Step.ok.injEq] at h
    subst h
    simp only [bookedTxs, booked, comSum]
    grind
  | cons p rest ih =>
    simp only [expandLoop] at h
    cases h1 : expandPosting t ad p with
    | panic s => simp [h1] at h
    | ok txs1 =>
      simp only [h1] at h
      cases h2 : expandLoop t ad rest with
      | panic s => simp [h2] at h
      | ok txs2 =>
        simp only [h2, Step.ok.injEq] at h
        subst h
        rw [bookedTxs_append, bookedTxs_expandPosting t ad p txs1 h1 a c, ih txs2 h2]
        simp only [booked, comSum]
        by_cases ha : ad.account = a <;> by_cases hc : p.commodity = c <;> by_cases hp : p.account = a <;>
          simp [ha, hc, hp] <;> grind

theorem expandPosting_balanced (t : Transaction) (ad : Addon) (p : Posting) (txs : List Transaction)
    (h : expandPosting t ad p = .ok txs) : ∀ g ∈ txs, balancedPair ad.account g = true := by
  unfold expandPosting at h
  split at h
  · injection h with h
    subst h
    intro g hg
    simp only [List.mem_singleton] at hg
    subst hg
    exact balancedPair_rebook _ _ _ _ _ _
  · split at h
    · cases h
    · split at h
      · cases h
      · injection h with h
        subst h
        exact ieLoop_all _ _ _ _ _ _ _ _ _ (fun date desc q => balancedPair_rebook t date desc ad.account p q)

theorem expandLoop_balanced (t : Transaction) (ad : Addon) (ps : List Posting) (txs : List Transaction)
    (h : expandLoop t ad ps = .ok txs) : ∀ g ∈ txs, balancedPair ad.account g = true := by
  induction ps generalizing txs with
  | nil =>
    simp only [expandLoop, Step.ok.injEq] at h
    subst h; simp
  | cons p rest ih =>
    simp only [expandLoop] at h
    cases h1 : expandPosting t ad p with
    | panic s => simp [h1] at h
    | ok txs1 =>
      simp only [h1] at h
      cases h2 : expandLoop t ad rest with
      | panic s => simp [h2] at h
      | ok txs2 =>
        simp only [h2, Step.ok.injEq] at h
        subst h
        intro g hg
        rcases List.mem_append.mp hg with hg | hg
        · exact expandPosting_balanced t ad p txs1 h1 g hg
        · exact ih txs2 h2 g hg

/-- shape of what one posting generates -/
theorem expandPosting_shape (t : Transaction) (ad : Addon) (p : Posting) (txs : List Transaction)
    (h : expandPosting t ad p = .ok txs) :
    (p.account.isIE = false → ∃ g, txs = [g] ∧ g.date = t.date ∧ g.description = t.description ∧ g.targets = t.targets) ∧
    (p.account.isIE = true → ad.start ≠ 0 ∧
      txs.map (·.date) = (periodsOf ⟨ad.start, ad.stop⟩ ad.interval 0).map (·.stop) ∧
      txs.map (·.description) = (List.range txs.length).map (fun k => partDesc t.description k txs.length)) ∧
    (∀ g ∈ txs, g.postings.any (fun x => decide (x.account = p.account ∧ x.commodity = p.commodity)) = true) := by
  unfold expandPosting at h
  split at h
  · rename_i hie
    injection h with h
    subst h
    refine ⟨fun _ => ⟨_, rfl, rfl, rfl, rfl⟩, ?_, ?_⟩
    · intro h'; simp [h'] at hie
    · intro g hg
      simp only [List.mem_singleton] at hg
      subst hg
      exact rebook_books _ _ _ _ _ _
  · rename_i hie
    split at h
    · cases h
    · rename_i part hpart
      split at h
      · cases h
      · injection h with h
        subst h
        have ⟨h0, hper⟩ := newPartition_ok _ _ _ _ hpart
        refine ⟨?_, ?_, ?_⟩
        · intro h'; simp [h'] at hie
        · intro _
          refine ⟨h0, ?_, ?_⟩
          · rw [ieLoop_dates]; simp [Partition.endDates, hper]
          · rw [ieLoop_descriptions, ieLoop_length]
            simp [Partition.endDates, Partition.size]
        · exact ieLoop_all _ _ _ _ _ _ _ _ _ (fun date desc q => rebook_books t date desc ad.account p q)

theorem expandLoop_dates (t : Transaction) (ad : Addon) (ps : List Posting) (txs : List Transaction)
    (h : expandLoop t ad ps = .ok txs) :
    datesB t.date ((periodsOf ⟨ad.start, ad.stop⟩ ad.interval 0).map (·.stop)) ps txs = true := by
  induction ps generalizing txs with
  | nil =>
    simp only [expandLoop, Step.ok.injEq] at h
    subst h; simp [datesB]
  | cons p rest ih =>
    simp only [expandLoop] at h
    cases h1 : expandPosting t ad p with
    | panic s => simp [h1] at h
    | ok txs1 =>
      simp only [h1] at h
      cases h2 : expandLoop t ad rest with
      | panic s => simp [h2] at h
      | ok txs2 =>
        simp only [h2, Step.ok.injEq] at h
        subst h
        have ⟨hA, hB, hC⟩ := expandPosting_shape t ad p txs1 h1
        simp only [datesB]
        by_cases hie : p.account.isIE = true
        · obtain ⟨_, hd, _⟩ := hB hie
          have hlen : txs1.length = ((periodsOf ⟨ad.start, ad.stop⟩ ad.interval 0).map (·.stop)).length := by
            rw [← hd]; simp
          simp only [hie, if_true]
          rw [List.take_left' hlen, List.drop_left' hlen, hd, ih txs2 h2]
          simp only [decide_true, Bool.true_and, Bool.and_true, List.all_eq_true]
          exact hC
        · have hie' : p.account.isIE = false := by simpa using hie
          obtain ⟨g, hg, hdate, _⟩ := hA hie'
          subst hg
          simp only [hie', Bool.false_eq_true, if_false]
          rw [List.take_left' (by simp), List.drop_left' (by simp), ih txs2 h2]
          simp only [List.map_cons, List.map_nil, hdate, decide_true, Bool.true_and, Bool.and_true, List.all_eq_true]
          exact hC

/-! ## the generated list, posting by posting (the readable form of `datesB`) -/

/-- what one original posting `p` turns into: a single transaction on the original date with the
original description if `p` is not on an income/expense account; otherwise one transaction per
period of the accrual window, dated at the period ends in order and described `"… (accrual i/n)"`.
Every one of them books `p`'s account and commodity against the accrual account. -/
structure LegShape (t : Transaction) (ad : Addon) (p : Posting) (txs : List Transaction) : Prop where
  other : p.account.isIE = false →
    ∃ g, txs = [g] ∧ g.date = t.date ∧ g.description = t.description ∧ g.targets = t.targets
  ie : p.account.isIE = true →
    txs.map (·.date) = (periodsOf ⟨ad.start, ad.stop⟩ ad.interval 0).map (·.stop) ∧
    txs.map (·.description) = (List.range txs.length).map (fun k => partDesc t.description k txs.length)
  books : ∀ g ∈ txs, g.postings.any (fun x => decide (x.account = p.account ∧ x.commodity = p.commodity)) = true
  balanced : ∀ g ∈ txs, balancedPair ad.account g = true
  amount : ∀ a c, bookedTxs a c txs =
    (if p.account = a ∧ p.commodity = c then p.quantity else 0) +
    (if ad.account = a ∧ p.commodity = c then -p.quantity else 0)

/-- the generated transactions are the concatenation, in posting order, of each posting's legs -/
inductive Legs (t : Transaction) (ad : Addon) : List Posting → List Transaction → Prop
  | nil : Legs t ad [] []
  | cons {p : Posting} {ps : List Posting} {txs1 txs2 : List Transaction} :
      LegShape t ad p txs1 → Legs t ad ps txs2 → Legs t ad (p :: ps) (txs1 ++ txs2)

theorem expandLoop_legs (t : Transaction) (ad : Addon) (ps : List Posting) (txs : List Transaction)
    (h : expandLoop t ad ps = .ok txs) : Legs t ad ps txs := by
  induction ps generalizing txs with
  | nil =>
    simp only [expandLoop, Step.ok.injEq] at h
    subst h; exact Legs.nil
  | cons p rest ih =>
    simp only [expandLoop] at h
    cases h1 : expandPosting t ad p with
    | panic s => simp [h1] at h
    | ok txs1 =>
      simp only [h1] at h
      cases h2 : expandLoop t ad rest with
      | panic s => simp [h2] at h
      | ok txs2 =>
        simp only [h2, Step.ok.injEq] at h
        subst h
        have ⟨hA, hB, hC⟩ := expandPosting_shape t ad p txs1 h1
        exact Legs.cons ⟨hA, fun hie => (hB hie).2, hC, expandPosting_balanced t ad p txs1 h1,
          bookedTxs_expandPosting t ad p txs1 h1⟩ (ih txs2 h2)

/-! ## success, rejection, the zero-time panic -/

theorem expandPosting_ok (t : Transaction) (ad : Addon) (p : Posting) (h0 : ad.start ≠ 0) (hle : ad.start ≤ ad.stop) :
    ∃ txs, expandPosting t ad p = .ok txs := by
  unfold expandPosting
  split
  · exact ⟨_, rfl⟩
  · have hnp : newPartition ⟨ad.start, ad.stop⟩ ad.interval 0 =
        .ok { span := ⟨ad.start, ad.stop⟩, interval := ad.interval, periods := periodsOf ⟨ad.start, ad.stop⟩ ad.interval 0 } := by
      unfold newPartition; simp [h0]
    rw [hnp]
    simp only
    have hne := periodsOf_ne_nil ⟨ad.start, ad.stop⟩ ad.interval hle
    have hsz : ((((periodsOf ⟨ad.start, ad.stop⟩ ad.interval 0).length : Nat) : Int) : Rat) ≠ 0 := by
      have : (periodsOf ⟨ad.start, ad.stop⟩ ad.interval 0).length ≠ 0 := by
        intro h; exact hne (List.length_eq_zero_iff.mp h)
      intro hz
      have : (((periodsOf ⟨ad.start, ad.stop⟩ ad.interval 0).length : Nat) : Int) = 0 := by
        exact_mod_cast hz
      omega
    obtain ⟨qr, hq⟩ := quoRem_isSome p.quantity _ quoRemPlaces hsz
    simp only [Partition.size, hq]
    exact ⟨_, rfl⟩

theorem expandLoop_ok (t : Transaction) (ad : Addon) (ps : List Posting) (h0 : ad.start ≠ 0) (hle : ad.start ≤ ad.stop) :
    ∃ txs, expandLoop t ad ps = .ok txs := by
  induction ps with
  | nil => exact ⟨[], rfl⟩
  | cons p rest ih =>
    obtain ⟨txs1, h1⟩ := expandPosting_ok t ad p h0 hle
    obtain ⟨txs2, h2⟩ := ih
    exact ⟨txs1 ++ txs2, by simp [expandLoop, h1, h2]⟩

theorem expandLoop_zero_panics (t : Transaction) (ad : Addon) (ps : List Posting) (h0 : ad.start = 0)
    (hie : ∃ p ∈ ps, p.account.isIE = true) :
    expandLoop t ad ps = .panic "can't create partition with zero time" := by
  induction ps with
  | nil => obtain ⟨p, hp, _⟩ := hie; simp at hp
  | cons p rest ih =>
    simp only [expandLoop]
    by_cases hp : p.account.isIE = true
    · have : expandPosting t ad p = .panic "can't create partition with zero time" := by
        unfold expandPosting newPartition
        simp [hp, h0]
      rw [this]
    · have hp' : p.account.isIE = false := by simpa using hp
      have : expandPosting t ad p = .ok [rebook t t.date t.description ad.account p p.quantity] := by
        unfold expandPosting; simp [hp']
      rw [this]
      simp only
      have : ∃ q ∈ rest, q.account.isIE = true := by
        obtain ⟨q, hq, hqi⟩ := hie
        rcases List.mem_cons.mp hq with rfl | hq'
        · rw [hqi] at hp'; cases hp'
        · exact ⟨q, hq', hqi⟩
      rw [ih this]

/-! ## meaning of the executable conservation check -/

theorem booked_eq_zero_of_not_mem (a : Account) (c : Commodity) (ps : List Posting)
    (h : (a, c) ∉ positionsOf ps) : booked a c ps = 0 := by
  induction ps with
  | nil => rfl
  | cons p rest ih =>
    simp only [positionsOf, List.map_cons, List.mem_cons, not_or] at h
    have h1 : ¬ (p.account = a ∧ p.commodity = c) := by
      intro x; exact h.1 (by rw [x.1, x.2])
    simp only [booked, if_neg h1, ih h.2]
    grind

theorem bookedTxs_eq_booked_flat (a : Account) (c : Commodity) (gen : List Transaction) :
    bookedTxs a c gen = booked a c (gen.flatMap (·.postings)) := by
  induction gen with
  | nil => rfl
  | cons g rest ih => simp only [bookedTxs, List.flatMap_cons, booked_append, ih]

theorem conservedB_sound (orig : List Posting) (gen : List Transaction) (h : conservedB orig gen = true)
    (a : Account) (c : Commodity) : bookedTxs a c gen = booked a c orig := by
  by_cases hm : (a, c) ∈ positionsOf orig ++ positionsOf (gen.flatMap (·.postings))
  · simp only [conservedB, List.all_eq_true, decide_eq_true_eq] at h
    exact h (a, c) (List.mem_eraseDups.mpr hm)
  · simp only [List.mem_append, not_or] at hm
    rw [bookedTxs_eq_booked_flat, booked_eq_zero_of_not_mem a c _ hm.2, booked_eq_zero_of_not_mem a c _ hm.1]

/-- an account no booking mentions has nothing booked on it -/
theorem booked_untouched (acc : Account) (c : Commodity) (bs : List Booking)
    (h : ∀ b ∈ bs, b.credit ≠ acc ∧ b.debit ≠ acc) : booked acc c (postingsOf bs) = 0 := by
  induction bs with
  | nil => rfl
  | cons b rest ih =>
    have : postingsOf (b :: rest) = postingBuild b.credit b.debit b.commodity b.quantity ++ postingsOf rest := by
      simp [postingsOf]
    rw [this, booked_append, booked_postingBuild, ih (fun b' hb' => h b' (List.mem_cons_of_mem _ hb'))]
    have hb := h b List.mem_cons_self
    have h1 : ¬ (b.debit = acc ∧ b.commodity = c) := fun x => hb.2 x.1
    have h2 : ¬ (b.credit = acc ∧ b.commodity = c) := fun x => hb.1 x.1
    simp only [if_neg h1, if_neg h2]
    grind

end Knut.Accrual
