package main

// Stream `big` of C08 (and `bigcli`, the same files through the command): SIZE.  The other text streams draw journals of
// 0-7 directives with 1-4 bookings per transaction; nothing that the parser or the printer keeps ACROSS directives (a
// buffer, a chunk, an arena, a table that grows, a counter) ever fills up in them.  This stream draws files of hundreds to
// thousands of directives and transactions of 1-40 bookings, and steers a running count - booking lines, directives,
// transactions, lines, bytes - so that it reaches a boundary value (a power of two or a multiple of 32/64/128/256/4096,
// -1/0/+1) at a chosen offset INSIDE a directive (the `straddler`: a transaction or a multi-line assertion of 2-40 lines, or a
// one-line directive); in one file every boundary value up to the file's size gets its own straddler and its own offset.
// The filler in front of a straddler is single-booking transactions only, mixed, or many-booking transactions, in the random
// layouts of the `journal` stream (wide whitespace, CRLF, Unicode, annotations, comments).  Mode `line` steers the byte / rune
// length of ONE line or field (account, description, comment, commodity, amount, include path, whitespace run) in the same way.
// One case in eight is mutated afterwards (an error late in a big file).  The cases go through c08run.one like those of
// every other stream: model comparison byte for byte, the output parses, formatOK on the two real trees, idempotence.

import (
	"fmt"
	"strings"
)

type c08item struct {
	text                string
	bookings, dirs, trx int
}

func (it c08item) size(metric string) int {
	switch metric {
	case "bookings":
		return it.bookings
	case "dirs":
		return it.dirs
	case "trx":
		return it.trx
	case "lines":
		return strings.Count(it.text, "\n")
	}
	return len(it.text)
}

type c08big struct {
	r                          *RNG
	g                          *synGen
	b                          strings.Builder
	bookings, dirs, trx, lines int
	profile                    int  // filler: 0 single-booking transactions only, 1 mixed, 2 transactions of 2-40 bookings
	plain                      bool // no annotations
	compact                    bool // short fields
}

func (w *c08big) count(metric string) int {
	switch metric {
	case "bookings":
		return w.bookings
	case "dirs":
		return w.dirs
	case "trx":
		return w.trx
	case "lines":
		return w.lines
	}
	return w.b.Len()
}

func (w *c08big) emit(it c08item) {
	w.b.WriteString(it.text)
	w.bookings += it.bookings
	w.dirs += it.dirs
	w.trx += it.trx
	w.lines += strings.Count(it.text, "\n")
}

// fields: those of the `journal` stream, or - compact - short ones, so that large counts fit into few bytes
func (w *c08big) date() string {
	if w.compact {
		return fmt.Sprintf("20%02d-%02d-%02d", w.r.Intn(100), w.r.Range(1, 12), w.r.Range(1, 28))
	}
	return w.g.date()
}

func (w *c08big) account() string {
	if w.compact {
		return Pick(w.r, []string{"A", "B", "C", "A:B", "E1", "Ω", "Assets:Cash"})
	}
	return w.g.account()
}

func (w *c08big) decimal() string {
	if w.compact {
		return Pick(w.r, []string{"1", "2", "20", "3.5", "-7", "0.01"})
	}
	return w.g.decimal()
}

func (w *c08big) commodity() string {
	if w.compact {
		return Pick(w.r, []string{"X", "X", "CHF"})
	}
	return w.g.commodity()
}

func (w *c08big) sp() string {
	if w.compact {
		if w.r.Chance(1, 10) {
			return "  "
		}
		return " "
	}
	return w.g.sp()
}

func (w *c08big) eol() string {
	if w.compact {
		return w.g.nl
	}
	return w.g.eol()
}

func (w *c08big) description() string {
	if w.compact {
		return Pick(w.r, []string{"", "x", "Rent"})
	}
	return w.g.description()
}

func (w *c08big) booking() string {
	return w.account() + w.sp() + w.account() + w.sp() + w.decimal() + w.sp() + w.commodity()
}

func (w *c08big) balance() string {
	return w.account() + w.sp() + w.decimal() + w.sp() + w.commodity()
}

// blank: the line that ends a transaction or a multi-line assertion (whitespace is allowed on it)
func (w *c08big) blank() string { return w.eol() }

// trxItem: a transaction of k bookings with its closing blank line
func (w *c08big) trxItem(k int) c08item {
	g := w.g
	var b strings.Builder
	if !w.plain {
		switch w.r.Intn(12) {
		case 0:
			b.WriteString(g.performance() + w.eol())
		case 1:
			b.WriteString(g.accrual() + w.eol())
		case 2:
			b.WriteString(g.performance() + w.eol() + g.accrual() + w.eol())
		case 3:
			b.WriteString(g.accrual() + w.eol() + g.performance() + w.eol())
		}
	}
	b.WriteString(w.date() + w.sp() + "\"" + w.description() + "\"" + w.eol())
	for i := 0; i < k; i++ {
		b.WriteString(w.booking() + w.eol())
	}
	b.WriteString(w.blank())
	return c08item{text: b.String(), bookings: k, dirs: 1, trx: 1}
}

// balItem: a multi-line assertion of k balances with its closing blank line
func (w *c08big) balItem(k int) c08item {
	var b strings.Builder
	b.WriteString(w.date() + w.sp() + "balance" + w.eol())
	for i := 0; i < k; i++ {
		b.WriteString(w.balance() + w.eol())
	}
	b.WriteString(w.blank())
	return c08item{text: b.String(), dirs: 1}
}

// lineItem: a directive on one line (sometimes with annotations in front, which the parser drops)
func (w *c08big) lineItem() c08item {
	g := w.g
	var s string
	switch w.r.Intn(7) {
	case 0, 1:
		s = w.date() + w.sp() + "open" + w.sp() + w.account()
	case 2:
		s = w.date() + w.sp() + "close" + w.sp() + w.account()
	case 3, 4:
		s = w.date() + w.sp() + "price" + w.sp() + w.commodity() + w.sp() + w.decimal() + w.sp() + w.commodity()
	case 5:
		s = "include" + w.sp() + "\"" + g.freeText(true) + "\""
	default:
		s = w.date() + w.sp() + "balance" + w.sp() + w.balance()
	}
	if !w.plain && w.r.Chance(1, 12) {
		if w.r.Bool() {
			s = g.performance() + w.eol() + s
		} else {
			s = g.accrual() + w.eol() + s
		}
	}
	return c08item{text: s + w.eol(), dirs: 1}
}

// gapItem: comment lines and blank lines between directives
func (w *c08big) gapItem() c08item {
	g := w.g
	var b strings.Builder
	for n := w.r.Range(1, 3); n > 0; n-- {
		switch w.r.Intn(3) {
		case 0:
			b.WriteString(g.comment() + g.nl)
		case 1:
			b.WriteString(strings.Repeat(Pick(w.r, g.ws), w.r.Range(0, 3)) + g.nl)
		default:
			b.WriteString(g.nl)
		}
	}
	return c08item{text: b.String()}
}

func (w *c08big) bookingsPerTrx() int {
	switch w.profile {
	case 0:
		return 1
	case 2:
		return w.r.Range(2, 40)
	}
	switch w.r.Intn(8) {
	case 0, 1, 2, 3:
		return 1
	case 4, 5, 6:
		return w.r.Range(2, 4)
	}
	return w.r.Range(5, 40)
}

func (w *c08big) filler() c08item {
	switch w.r.Intn(10) {
	case 0:
		return w.gapItem()
	case 1, 2:
		if w.profile != 0 || w.r.Chance(1, 3) {
			return w.lineItem()
		}
	case 3:
		if w.profile == 1 && w.r.Chance(1, 3) {
			return w.balItem(w.r.Range(1, 6))
		}
	}
	return w.trxItem(w.bookingsPerTrx())
}

// unit: the smallest item that advances the metric by one
func (w *c08big) unit(metric string) c08item {
	switch metric {
	case "bookings", "trx":
		return w.trxItem(1)
	case "lines":
		return c08item{text: w.g.nl}
	}
	return w.lineItem()
}

// fillTo appends filler until the metric stands at want exactly (bytes: a comment line of the missing length ends the filler)
func (w *c08big) fillTo(metric string, want int) {
	minPad := len(w.g.nl) + 1
	for {
		rem := want - w.count(metric)
		if rem <= 0 {
			return
		}
		it := w.filler()
		sz := it.size(metric)
		if metric == "bytes" {
			if rem < minPad {
				return
			}
			if sz == rem || sz <= rem-minPad {
				w.emit(it)
				continue
			}
			if it = w.lineItem(); len(it.text) == rem || len(it.text) <= rem-minPad {
				w.emit(it)
				continue
			}
			w.emit(c08item{text: Pick(w.r, []string{"#", "*"}) + strings.Repeat(Pick(w.r, []string{"x", " ", "-"}), rem-minPad) + w.g.nl})
			continue
		}
		if sz <= rem {
			w.emit(it)
		} else {
			w.emit(w.unit(metric))
		}
	}
}

// straddler: the directive inside which the boundary is to fall
func (w *c08big) straddler(metric string) (c08item, string) {
	k := w.r.Range(2, 40)
	switch w.r.Intn(8) {
	case 0, 1:
		k = w.r.Range(2, 4)
	case 2:
		k = Pick(w.r, []int{31, 32, 33, 40})
	}
	if metric == "bookings" || metric == "trx" || w.r.Chance(3, 5) {
		return w.trxItem(k), "trx"
	}
	if w.r.Chance(1, 2) {
		return w.balItem(k), "balanceN"
	}
	return w.lineItem(), "line"
}

func c08pow2(lo, hi int) []int {
	var res []int
	for t := lo; t <= hi; t *= 2 {
		res = append(res, t)
	}
	return res
}

// c08BigSteered: one file, a metric, boundary values in ascending order, one straddler per boundary value.
// scale bounds the largest boundary value (an index into the size tables).
func c08BigSteered(r *RNG, scale int) (string, []string) {
	g := &synGen{r: r, nl: "\n", ws: []string{" ", " ", "\t"}, tags: map[string]bool{}}
	switch r.Intn(6) {
	case 0:
		g.nl = "\r\n"
		g.ws = []string{" ", "\t", "\r"}
	case 1:
		g.ws = []string{" ", "\t", "\r", "  "}
	}
	g.unicode = r.Chance(1, 3)
	w := &c08big{r: r, g: g, profile: r.Intn(3), plain: r.Chance(1, 3)}
	metric := Pick(r, []string{"bookings", "bookings", "bookings", "dirs", "trx", "lines", "bytes", "bytes"})
	w.compact = metric != "bytes" && r.Chance(1, 2)
	var tmax int
	if metric == "bytes" {
		tmax = []int{1024, 4096, 8192, 16384, 65536, 131072}[r.Intn(min(scale+2, 6))]
	} else {
		tmax = []int{64, 128, 256, 512, 1024, 2048, 4096}[r.Intn(min(scale+3, 7))]
	}
	var targets []int
	how := "pow2"
	switch r.Intn(4) {
	case 0: // the largest value only
		targets = []int{tmax}
		how = "one"
	case 1: // every multiple of a base
		base := Pick(r, []int{32, 64, 128, 256})
		if metric == "bytes" {
			base = Pick(r, []int{512, 4096, 4096})
		}
		for base > tmax {
			base /= 2
		}
		for t := base; t <= tmax; t += base {
			targets = append(targets, t)
		}
		how = fmt.Sprintf("mult%d", base)
	default:
		targets = c08pow2(32, tmax)
	}
	hit := 0
	for _, t := range targets {
		st, _ := w.straddler(metric)
		j := r.Range(0, st.size(metric))
		want := t + r.Range(-1, 1) - j
		if want < w.count(metric) {
			continue // the previous straddler already reaches over this value
		}
		w.fillTo(metric, want)
		if metric == "bytes" && w.count(metric) != want {
			continue
		}
		w.emit(st)
		hit++
	}
	// tail: the last boundary is not always at the end of the file
	if r.Chance(2, 3) {
		w.fillTo("dirs", w.dirs+r.Range(1, 40))
	}
	text := w.b.String()
	switch r.Intn(6) {
	case 0: // no final newline, the last directive ends at EOF
		text = strings.TrimRight(text, " \t\r\n")
	case 1: // the closing blank line is missing
		text = strings.TrimSuffix(text, g.nl)
	}
	kinds := []string{"big:" + metric, how, fmt.Sprintf("max%d", tmax), fmt.Sprintf("profile%d", w.profile), fmt.Sprintf("hit%s", bucket(hit))}
	if w.plain {
		kinds = append(kinds, "plain")
	}
	if w.compact {
		kinds = append(kinds, "compact")
	}
	if g.nl != "\n" {
		kinds = append(kinds, "~crlf")
	}
	if g.unicode {
		kinds = append(kinds, "~unicode")
	}
	return text, kinds
}

// c08BigLine: the length of one line or one field is steered (bytes or runes), with a few directives around it
func c08BigLine(r *RNG, scale int) (string, []string) {
	g := &synGen{r: r, nl: Pick(r, []string{"\n", "\n", "\r\n"}), ws: []string{" ", " ", "\t"}, tags: map[string]bool{}, unicode: r.Chance(1, 3)}
	w := &c08big{r: r, g: g, profile: 1, plain: r.Chance(1, 2)}
	t := []int{32, 64, 128, 256, 1024, 4096, 16384, 65536}[r.Intn(min(scale+5, 8))]
	n := t + r.Range(-1, 1)
	around := r.Range(0, 20)
	if t > 4096 {
		around = r.Range(0, 2)
	}
	before := r.Intn(around + 1)
	w.fillTo("dirs", before)
	unit := Pick(r, []string{"a", "Z", "é", "漢", "7"})
	digit := Pick(r, []string{"7", "0", "٣"})
	// rep(k): k runes; the line mode subtracts the rest of the line afterwards
	field := r.Intn(12)
	wholeLine := r.Chance(1, 2)
	build := func(k int) (string, string) {
		if k < 1 {
			k = 1
		}
		long := strings.Repeat(unit, k)
		nl := g.nl
		switch field {
		case 0:
			return "2020-01-01 open " + long + nl, "account-open"
		case 1:
			return "2020-01-01 open A:" + long + ":B" + nl, "segment"
		case 2:
			return "2020-01-02 \"x\"" + nl + long + " B:C 1 CHF" + nl + "A B 2 CHF" + nl + nl, "credit"
		case 3:
			return "2020-01-02 \"x\"" + nl + "A B 2 CHF" + nl + "A:B " + long + " 1.50 CHF" + nl + nl, "debit"
		case 4:
			return "2020-01-02 \"" + long + "\"" + nl + "A B 2 CHF" + nl + nl, "description"
		case 5:
			return "# " + long + nl, "comment"
		case 6:
			return "2020-01-01 price " + long + " 1.5 CHF" + nl, "commodity"
		case 7:
			return "2020-01-02 \"x\"" + nl + "A B " + strings.Repeat(digit, k) + ".5 CHF" + nl + nl, "amount"
		case 8:
			return "include \"" + long + "\"" + nl, "include-path"
		case 9:
			return "2020-01-02 \"x\"" + nl + "A" + strings.Repeat(Pick(r, []string{" ", "\t"}), k) + "B 2 CHF" + nl + nl, "ws-run"
		case 10:
			return "2020-01-01 balance" + nl + long + " 1 CHF" + nl + "B 2 USD" + nl + nl, "balance-account"
		default:
			return "2020-01-01 open A:B" + strings.Repeat(" ", k) + nl, "trailing-ws"
		}
	}
	s, kind := build(n)
	how := "field"
	if wholeLine {
		// the longest line of the item gets n bytes (terminator included)
		longest := 0
		for _, l := range strings.SplitAfter(s, "\n") {
			longest = max(longest, len(l))
		}
		over := longest - n
		perRune := len(unit)
		if field == 7 {
			perRune = len(digit)
		} else if field == 9 || field == 11 {
			perRune = 1
		}
		s, kind = build(n - (over+perRune-1)/perRune)
		how = "line"
	}
	w.emit(c08item{text: s, dirs: 1})
	w.fillTo("dirs", w.dirs+around-before)
	text := w.b.String()
	if r.Chance(1, 6) {
		text = strings.TrimRight(text, " \t\r\n")
	}
	return text, []string{"bigline:" + kind, how, fmt.Sprintf("n%d", t)}
}

// c08Big draws one case of the stream
func c08Big(r *RNG, scale int) (string, []string) {
	var text string
	var kinds []string
	if r.Chance(1, 5) {
		text, kinds = c08BigLine(r, scale)
	} else {
		text, kinds = c08BigSteered(r, scale)
	}
	if r.Chance(1, 8) {
		text = synMutate(r, text)
		kinds = append(kinds, "mutated")
	}
	return text, kinds
}
