package main

import (
	"encoding/json"
	"flag"
	"fmt"
	"os"
	"strconv"
	"time"
)

// runners maps a property id to its correspondence/monitor run.
var runners = map[string]func(*Ctx){}

func main() {
	if len(os.Args) < 2 {
		fatalf("usage: harness run|extract ...")
	}
	switch os.Args[1] {
	case "run":
		run(os.Args[2:])
	case "extract":
		extract(os.Args[2:])
	default:
		fatalf("unknown subcommand %q", os.Args[1])
	}
}

func run(args []string) {
	fs := flag.NewFlagSet("run", flag.ExitOnError)
	prop := fs.String("prop", "", "property id")
	tier := fs.String("tier", "quick", "quick|thorough")
	seed := fs.String("seed", "1", "seed")
	driver := fs.String("driver", "", "path of the compiled Lean driver")
	knut := fs.String("knut", "", "path of the knut binary built with -tags verif")
	work := fs.String("work", "", "scratch directory")
	out := fs.String("out", "", "result json")
	onlyStream := fs.String("only-stream", "", "replay: stream")
	onlyIndex := fs.Int("only-index", -1, "replay: index")
	replayInput := fs.String("replay-input", "", "replay: file holding the JSON input of the finding")
	fs.Parse(args)
	f, ok := runners[*prop]
	if !ok {
		fatalf("no runner for property %q", *prop)
	}
	s, err := strconv.ParseUint(*seed, 10, 64)
	if err != nil {
		fatalf("bad seed %q", *seed)
	}
	drv, err := StartDriver(*driver)
	if err != nil {
		fatalf("cannot start driver: %v", err)
	}
	defer drv.Close()
	ctx := &Ctx{Prop: *prop, Tier: *tier, Seed: s, KnutBin: *knut, WorkDir: *work, Drv: drv, Replay: *onlyStream != "", OnlyIndex: *onlyIndex, OnlyStr: *onlyStream,
		FindingCount: map[string]int{}, Classes: map[string]int{}, Tags: map[string]int{}, Extra: map[string]any{}, start: time.Now(), maxFinding: 15}
	if *replayInput != "" {
		b, err := os.ReadFile(*replayInput)
		if err != nil {
			fatalf("%v", err)
		}
		if err := json.Unmarshal(b, &ctx.ReplayInput); err != nil {
			fatalf("%v", err)
		}
	}
	if *work != "" {
		os.MkdirAll(*work, 0o755)
	}
	f(ctx)
	res := ctx.Result()
	if *out != "" {
		if err := writeJSON(*out, res); err != nil {
			fatalf("%v", err)
		}
	}
	fmt.Printf("harness %s tier=%s seed=%d evaluations=%d compared=%d monitored=%d distinct=%d findings=%d wall=%.1fs\n",
		res.Property, res.Tier, res.Seed, res.Evaluations, res.Compared, res.Monitored, res.Distinct, len(res.Findings), res.WallS)
}
