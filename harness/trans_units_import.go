package main

// Units "Import…" of the Go→Lean translator: the per-record functions of the importers (cmd/importer/*).
//
//   p.reader.Read()        (encoding/csv.Reader, listed in trExtStd) like a call of an untranslated function of /repo: its RESULT
//                          `([]string, error)` is an extra parameter `ext<N> : List String × Option Error` — the record as encoding/csv
//                          decoded it (or its error); the reader, the file and the loop around the per-record function stay outside
//   p.registry.…           the registry field is omitted from the translated `parser` (untranslatable type); the calls through it
//                          (`Commodities().MustGet(x)`, `Accounts().TBDAccount()`) are `ext` parameters as everywhere
//   time.Parse("02.01.2006", s)   prelude `Time.ParseDMYdot` (GoSem/ParseLayout.lean: the model's layout interpreter on `layoutDMYdot`)

import (
	"go/ast"
	"go/types"
	"strings"
)

// trExtStd: functions outside /repo whose calls are external calls (result = an `ext` parameter), by full name
var trExtStd = map[string]bool{}

func init() {
	trUnits = append(trUnits,
		&trUnit{pkg: "cmd/importer/swisscard2", mod: "ImportSwisscard2", funcs: []string{"parser.readBooking"},
			agree: map[string]string{"parser.readBooking": "ImportSwisscard2"}},
		&trUnit{pkg: "cmd/importer/supercard", mod: "ImportSupercard",
			funcs: []string{"parser.parseCurrency", "parser.parseWords", "parser.parseDate", "parser.parseAmount", "parser.parseBooking", "parser.readLine"},
			agree: map[string]string{"parser.parseCurrency": "ImportSupercard", "parser.parseWords": "ImportSupercard", "parser.parseDate": "ImportSupercard",
				"parser.parseAmount": "ImportSupercard", "parser.parseBooking": "ImportSupercard", "parser.readLine": "ImportSupercard"}},
	)
	trRegexpPrelude[`\s+`] = "Regexp.replaceAllWs" // GoSem/ImportStr.lean
	trStubEnsure("encoding/csv", "type Reader struct", "type Reader struct{ _ int }")
	trStubEnsure("encoding/csv", "func (r *Reader) Read(", "func (r *Reader) Read() (record []string, err error)")
	trExtStd["(*encoding/csv.Reader).Read"] = true
	// time.Parse: the constant layout selects the prelude function (ISO as in the Create units: trans_units_create.go)
	trPrims["time.Parse"] = trPrim{lean: "Time.ParseISO",
		args: func(c *trCtx, call *ast.CallExpr) []ast.Expr {
			trTimeLayout(c, call)
			return call.Args[1:]
		},
		leanOf: trTimeLayout}
}

// trTimeLayouts: the constant layouts of time.Parse that have a meaning in the prelude
var trTimeLayouts = map[string]string{
	`"2006-01-02"`: "Time.ParseISO",    // GoSem/Parse.lean
	`"02.01.2006"`: "Time.ParseDMYdot", // GoSem/ParseLayout.lean
}

func trTimeLayout(c *trCtx, call *ast.CallExpr) string {
	tv := c.info().Types[call.Args[0]]
	if tv.Value != nil {
		if n, ok := trTimeLayouts[tv.Value.ExactString()]; ok {
			return n
		}
	}
	trFail(call.Args[0].Pos(), "time.Parse with a layout other than the constants \"2006-01-02\", \"02.01.2006\" is outside the subset")
	return ""
}

func trImportImports(text string) string {
	res := ""
	if strings.Contains(text, "Time.ParseDMYdot") {
		res += "import Knut.GoSem.ParseLayout\n"
	}
	if strings.Contains(text, "Regexp.replaceAllWs") {
		res += "import Knut.GoSem.ImportStr\n"
	}
	return res
}

// trImportUnits: the importer units (hooks below apply only there)
var trImportUnits = map[string]bool{"ImportSwisscard2": true, "ImportSupercard": true}

func (c *trCtx) importMode() bool {
	return c != nil && c.fn != nil && c.fn.unit != nil && trImportUnits[c.fn.unit.mod]
}

// importReturnCall (hook of the return statement): `return f(…)` for a call with exactly the results of the function
// (`return time.Parse("02.01.2006", r[i])` in parseDate): the value of the call is returned as it is
func (c *trCtx) importReturnCall(x *ast.ReturnStmt) (trLines, bool) {
	if !c.importMode() || len(x.Results) != 1 || c.nresults < 2 {
		return nil, false
	}
	call, ok := trUnparen(x.Results[0]).(*ast.CallExpr)
	if !ok {
		return nil, false
	}
	tup, ok := c.typeOf(call).(*types.Tuple)
	if !ok || tup.Len() != c.nresults {
		return nil, false
	}
	for i := 0; i < tup.Len(); i++ {
		if !types.Identical(tup.At(i).Type(), c.resultTypes[i]) {
			trFail(x.Pos(), "return of a call whose result %d has another type than the result of the function is outside the subset", i)
		}
	}
	if len(c.fn.mutObjs) > 0 || c.statePack != nil {
		return nil, false
	}
	v := c.expr(call)
	pre := c.takePre()
	return trWrapPre(pre, c.retRaw(v, x.Pos())), true
}

// importCasePre (hook of the switch statement): a TAGLESS switch whose case expressions can panic (`case len(r[fieldGutschrift]) > 0:`
// in parseAmount): Go evaluates the expressions of a case when the case is reached, top to bottom; the effectful subterms of a
// case are bound in front of the if/else chain of THAT case (inside the else branch of the cases before it). One expression per case
// only (`case a, b:` would evaluate b only when a is false).
func (c *trCtx) importCasePre(x *ast.SwitchStmt, cc *ast.CaseClause) bool {
	return c.importMode() && x.Tag == nil && len(cc.List) == 1
}

// importShadowsType (hook of local): a local variable with the name of a TYPE of its own package (`field field` in supercard's
// parseAmount) would capture the type name in the `let`s that follow it: it gets a suffix
func (c *trCtx) importShadowsType(obj types.Object) bool {
	if !c.importMode() || obj.Pkg() == nil {
		return false
	}
	_, isType := obj.Pkg().Scope().Lookup(obj.Name()).(*types.TypeName)
	return isType
}
