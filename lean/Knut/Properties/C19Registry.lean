import Knut.Model.Registry
/-!
# C19 — one object per name under every interleaving (the shared registries)

"No directive is lost or duplicated: the journal that is processed is exactly the union of the directives of
all files."  The per-file converters run concurrently and resolve commodity and account names through shared
registries; positions, prices and report rows are keyed by the identity of the object returned.  If two
converters could obtain two objects for one name, the bookings of that name would be split over two
keys — the union would not be what is processed.

* `C19_registry_unique`    — for every set of programs, every schedule: all calls for one name return the same object
* `C19_registry_injective` — and calls for different names return different objects
* `C19_registry_valid`     — an object is only ever returned for a valid name or one already registered; an invalid
                              unregistered name gives the error, for every schedule
* `registry_without_recheck_splits` — the variant without the second lookup under the write lock does hand out two
                              objects for one name (a concrete schedule): the re-check is what the theorem rests on,
                              and `FactsAgree` ties its presence to the source on every run.
-/
namespace Knut.C19
open Knut.Registry

/-- registry invariant: identities are below the allocation counter and pairwise different -/
def RegInv (r : Reg) : Prop :=
  (∀ e ∈ r.index, e.2 < r.next) ∧ r.index.Pairwise (fun a b => a.2 ≠ b.2)

theorem lookup_mem {r : Reg} {n : String} {i : Nat} (h : r.lookup n = some i) : (n, i) ∈ r.index := by
  unfold Reg.lookup at h
  cases hf : r.index.find? (fun e => e.1 == n) with
  | none => simp [hf] at h
  | some e =>
    simp [hf] at h
    have h1 := List.find?_some hf
    have h2 := List.mem_of_find?_eq_some hf
    have : e = (n, i) := by
      cases e; simp at h h1 ⊢; exact ⟨h1, h⟩
    exact this ▸ h2

theorem lookup_inj {r : Reg} (hi : RegInv r) {n m : String} {i : Nat}
    (hn : r.lookup n = some i) (hm : r.lookup m = some i) : n = m := by
  have h1 := lookup_mem hn
  have h2 := lookup_mem hm
  have hp := hi.2
  generalize r.index = l at h1 h2 hp
  induction l with
  | nil => cases h1
  | cons e l ih =>
    rw [List.pairwise_cons] at hp
    rcases List.mem_cons.1 h1 with a | a <;> rcases List.mem_cons.1 h2 with b | b
    · have h3 := a.trans b.symm; injection h3
    · subst a; exact absurd rfl (hp.1 (m, i) b)
    · subst b; exact absurd rfl (hp.1 (n, i) a)
    · exact ih a b hp.2

/-- section 2 with the re-check: invariant kept, bindings never change, the result is the binding -/
theorem slow_spec {valid : String → Bool} {r r' : Reg} {n : String} {ret : Ret}
    (hi : RegInv r) (h : slow true valid r n = (r', ret)) :
    RegInv r' ∧ (∀ m i, r.lookup m = some i → r'.lookup m = some i) ∧
    (∀ i, ret = .obj i → r'.lookup n = some i) ∧
    (ret = .err → valid n = false ∧ r.lookup n = none) ∧
    (∀ i, ret = .obj i → valid n = true ∨ r.lookup n = some i) := by
  unfold slow at h
  simp only [if_true] at h
  cases hl : r.lookup n with
  | some i =>
    simp only [hl] at h
    injection h with h1 h2; subst h1; subst h2
    refine ⟨hi, fun _ _ h => h, ?_, ?_, ?_⟩
    · intro j hj; injection hj with hj; subst hj; exact hl
    · intro h; cases h
    · intro j hj; injection hj with hj; subst hj; exact .inr rfl
  | none =>
    simp only [hl] at h
    cases hv : valid n with
    | false =>
      simp [hv] at h
      obtain ⟨h1, h2⟩ := h; subst h1; subst h2
      refine ⟨hi, fun _ _ h => h, ?_, ?_, ?_⟩
      · intro j hj; cases hj
      · intro _; exact ⟨rfl, rfl⟩
      · intro j hj; cases hj
    | true =>
      simp [hv] at h
      obtain ⟨h1, h2⟩ := h; subst h1; subst h2
      refine ⟨⟨?_, ?_⟩, ?_, ?_, ?_, ?_⟩
      · intro e he
        rcases List.mem_cons.1 he with he | he
        · subst he; exact Nat.lt_succ_self _
        · exact Nat.lt_succ_of_lt (hi.1 e he)
      · rw [List.pairwise_cons]
        exact ⟨fun e he => Nat.ne_of_gt (hi.1 e he), hi.2⟩
      · intro m i hm
        unfold Reg.lookup at hm ⊢
        have hne : (n == m) = false := by
          cases hnm : (n == m) with
          | false => rfl
          | true =>
            have : n = m := by simpa using hnm
            subst this
            unfold Reg.lookup at hl
            rw [hl] at hm; cases hm
        simp only [List.find?_cons, hne]
        exact hm
      · intro i hi'
        injection hi' with hi'; subst hi'
        unfold Reg.lookup
        simp
      · intro h; cases h
      · intro _ _; exact .inl rfl

/-- one scheduled section: invariant kept, bindings never change, a returned object is the binding of its name -/
theorem step_spec {valid : String → Bool} {s s' : Sys} {t : Nat} {e : Option Event}
    (hi : RegInv s.reg) (h : step true valid s t = (s', e)) :
    RegInv s'.reg ∧ (∀ m i, s.reg.lookup m = some i → s'.reg.lookup m = some i) ∧
    (∀ ev i, e = some ev → ev.ret = .obj i → s'.reg.lookup ev.name = some i) := by
  unfold step at h
  split at h
  · injection h with h1 h2; subst h1; subst h2
    exact ⟨hi, fun _ _ h => h, fun _ _ h => (by cases h)⟩
  · rename_i th _
    split at h
    · rename_i n _
      cases hs : slow true valid s.reg n with
      | mk r' ret =>
        simp only [hs] at h
        injection h with h1 h2; subst h1; subst h2
        have ⟨a, b, c, _, _⟩ := slow_spec hi hs
        refine ⟨a, b, ?_⟩
        intro ev i hev hr
        injection hev with hev; subst hev
        exact c i hr
    · split at h
      · injection h with h1 h2; subst h1; subst h2
        exact ⟨hi, fun _ _ h => h, fun _ _ h => (by cases h)⟩
      · rename_i n rest _
        split at h
        · rename_i i hl
          injection h with h1 h2; subst h1; subst h2
          refine ⟨hi, fun _ _ h => h, ?_⟩
          intro ev j hev hr
          injection hev with hev; subst hev
          injection hr with hr; subst hr
          exact hl
        · injection h with h1 h2; subst h1; subst h2
          exact ⟨hi, fun _ _ h => h, fun _ _ h => (by cases h)⟩

/-- a whole schedule: every returned object is the FINAL binding of its name -/
theorem run_spec {valid : String → Bool} : ∀ (ts : List Nat) {s s' : Sys} {es : List Event},
    RegInv s.reg → run true valid s ts = (s', es) →
    RegInv s'.reg ∧ (∀ m i, s.reg.lookup m = some i → s'.reg.lookup m = some i) ∧
    (∀ ev ∈ es, ∀ i, ev.ret = .obj i → s'.reg.lookup ev.name = some i)
  | [], s, s', es, hi, h => by
    unfold run at h
    injection h with h1 h2; subst h1; subst h2
    exact ⟨hi, fun _ _ h => h, fun _ h => (by cases h)⟩
  | t :: ts, s, s', es, hi, h => by
    unfold run at h
    cases h1 : step true valid s t with
    | mk s1 e =>
      cases h2 : run true valid s1 ts with
      | mk s2 es2 =>
        simp only [h1, h2] at h
        injection h with ha hb; subst ha; subst hb
        have ⟨i1, m1, r1⟩ := step_spec hi h1
        have ⟨i2, m2, r2⟩ := run_spec ts i1 h2
        refine ⟨i2, fun m i h => m2 m i (m1 m i h), ?_⟩
        intro ev hev i hr
        rcases List.mem_append.1 hev with hev | hev
        · cases e with
          | none => cases hev
          | some e0 =>
            have : ev = e0 := by simpa using hev
            subst this
            exact m2 _ _ (r1 ev i rfl hr)
        · exact r2 ev hev i hr

theorem regInv_start (programs : List (List String)) : RegInv (start programs).reg :=
  ⟨fun _ h => (by cases h), List.Pairwise.nil⟩

/-- **one object per name**: whatever the programs of the goroutines and whatever the schedule, two calls of `Get`
with the same name return the same object. -/
theorem C19_registry_unique (valid : String → Bool) (programs : List (List String)) (schedule : List Nat)
    {e1 e2 : Event} {i j : Nat}
    (h1 : e1 ∈ (run true valid (start programs) schedule).2) (h2 : e2 ∈ (run true valid (start programs) schedule).2)
    (hn : e1.name = e2.name) (hi : e1.ret = .obj i) (hj : e2.ret = .obj j) : i = j := by
  have ⟨_, _, r⟩ := run_spec (valid := valid) schedule (regInv_start programs) rfl
  have a := r e1 h1 i hi
  have b := r e2 h2 j hj
  rw [hn] at a; rw [a] at b; injection b

/-- **different names, different objects** -/
theorem C19_registry_injective (valid : String → Bool) (programs : List (List String)) (schedule : List Nat)
    {e1 e2 : Event} {i : Nat}
    (h1 : e1 ∈ (run true valid (start programs) schedule).2) (h2 : e2 ∈ (run true valid (start programs) schedule).2)
    (hi : e1.ret = .obj i) (hj : e2.ret = .obj i) : e1.name = e2.name := by
  have ⟨inv, _, r⟩ := run_spec (valid := valid) schedule (regInv_start programs) rfl
  exact lookup_inj inv (r e1 h1 i hi) (r e2 h2 i hj)

/-- **errors are decided by the name alone**: from the start state, a call returns the error only for an invalid
name, and an object only for a valid one — for every schedule (so whether a journal loads does not depend on
the interleaving either). -/
theorem C19_registry_valid (valid : String → Bool) (programs : List (List String)) (schedule : List Nat)
    {e : Event} (h : e ∈ (run true valid (start programs) schedule).2) :
    (e.ret = .err → valid e.name = false) ∧ (∀ i, e.ret = .obj i → valid e.name = true) := by
  -- invariant: every registered name is valid
  have key : ∀ (ts : List Nat) (s s' : Sys) (es : List Event),
      RegInv s.reg → (∀ m i, s.reg.lookup m = some i → valid m = true) → run true valid s ts = (s', es) →
      (∀ m i, s'.reg.lookup m = some i → valid m = true) ∧
      ∀ ev ∈ es, (ev.ret = .err → valid ev.name = false) ∧ (∀ i, ev.ret = .obj i → valid ev.name = true) := by
    intro ts
    induction ts with
    | nil =>
      intro s s' es _ hv h
      unfold run at h
      injection h with h1 h2; subst h1; subst h2
      exact ⟨hv, fun _ h => (by cases h)⟩
    | cons t ts ih =>
      intro s s' es hi hv h
      unfold run at h
      cases h1 : step true valid s t with
      | mk s1 e =>
        cases h2 : run true valid s1 ts with
        | mk s2 es2 =>
          simp only [h1, h2] at h
          injection h with ha hb; subst ha; subst hb
          have ⟨i1, _, _⟩ := step_spec hi h1
          -- the step keeps "registered ⇒ valid" and its event obeys the claim
          have hstep : (∀ m i, s1.reg.lookup m = some i → valid m = true) ∧
              ∀ ev, e = some ev → (ev.ret = .err → valid ev.name = false) ∧ (∀ i, ev.ret = .obj i → valid ev.name = true) := by
            unfold step at h1
            split at h1
            · injection h1 with g1 g2; subst g1; subst g2
              exact ⟨hv, fun _ h => (by cases h)⟩
            · split at h1
              · rename_i n _
                cases hs : slow true valid s.reg n with
                | mk r' ret =>
                  simp only [hs] at h1
                  injection h1 with g1 g2; subst g1; subst g2
                  have ⟨_, mono, bind, er, ob⟩ := slow_spec hi hs
                  constructor
                  · intro m i hm
                    simp only at hm
                    -- either an old binding or the new one for `n`
                    unfold slow at hs
                    simp only [if_true] at hs
                    cases hl : s.reg.lookup n with
                    | some k =>
                      simp only [hl] at hs
                      injection hs with hs1 _; subst hs1; exact hv m i hm
                    | none =>
                      simp only [hl] at hs
                      cases hvn : valid n with
                      | false => simp [hvn] at hs; obtain ⟨hs1, _⟩ := hs; subst hs1; exact hv m i hm
                      | true =>
                        simp [hvn] at hs
                        obtain ⟨hs1, _⟩ := hs; subst hs1
                        unfold Reg.lookup at hm
                        simp only [List.find?_cons] at hm
                        cases hnm : (n == m) with
                        | true => have : n = m := by simpa using hnm
                                  subst this; exact hvn
                        | false => simp only [hnm] at hm; exact hv m i hm
                  · intro ev hev
                    injection hev with hev; subst hev
                    refine ⟨fun h => (er h).1, fun i h => ?_⟩
                    rcases ob i h with h | h
                    · exact h
                    · exact hv _ _ h
              · split at h1
                · injection h1 with g1 g2; subst g1; subst g2
                  exact ⟨hv, fun _ h => (by cases h)⟩
                · split at h1
                  · rename_i n rest _ i hl
                    injection h1 with g1 g2; subst g1; subst g2
                    refine ⟨hv, ?_⟩
                    intro ev hev
                    injection hev with hev; subst hev
                    exact ⟨fun h => (by cases h), fun _ _ => hv _ _ hl⟩
                  · injection h1 with g1 g2; subst g1; subst g2
                    exact ⟨hv, fun _ h => (by cases h)⟩
          have ⟨hv2, hes⟩ := ih s1 s2 es2 i1 hstep.1 h2
          refine ⟨hv2, ?_⟩
          intro ev hev
          rcases List.mem_append.1 hev with hev | hev
          · cases e with
            | none => cases hev
            | some e0 =>
              have : ev = e0 := by simpa using hev
              subst this
              exact hstep.2 ev rfl
          · exact hes ev hev
  exact (key schedule (start programs) _ _ (regInv_start programs) (fun m i h => by
    simp [start, Reg.lookup] at h) rfl).2 e h

/-! ### the re-check is necessary; non-vacuity -/

/-- without the second lookup two goroutines that both miss in section 1 each allocate their own object:
threads 0 and 1 both resolve `"K"`, schedule 0,1 (both miss), 0,1 (both insert). -/
theorem registry_without_recheck_splits :
    (run false (fun _ => true) (start [["K"], ["K"]]) [0, 1, 0, 1]).2 =
      [⟨0, "K", .obj 0⟩, ⟨1, "K", .obj 1⟩] := by decide

/-- the same programs and schedule with the code as it is: one object -/
example : (run true (fun _ => true) (start [["K"], ["K"]]) [0, 1, 0, 1]).2 =
    [⟨0, "K", .obj 0⟩, ⟨1, "K", .obj 0⟩] := by decide

/-- an invalid name fails for everybody, a valid one registered meanwhile is shared -/
example : (run true (fun n => n != "bad") (start [["bad", "K"], ["K", "bad"]]) [0, 1, 1, 0, 0, 1, 1, 0]).2 =
    [⟨1, "K", .obj 0⟩, ⟨0, "bad", .err⟩, ⟨0, "K", .obj 0⟩, ⟨1, "bad", .err⟩] := by decide

end Knut.C19
