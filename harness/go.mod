module verifharness

go 1.21

require (
	github.com/sboehler/knut v0.0.0
	github.com/shopspring/decimal v1.3.1
)

replace github.com/sboehler/knut => /repo
