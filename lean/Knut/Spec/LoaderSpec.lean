/-!
# C14: what is observed of one run of a command, and the predicate "fails cleanly"

An `Observation` is what the harness sees of a subprocess: how it ended, whether standard output and standard
error are empty, whether standard error carries a Go panic or crash trace. `failsCleanly` is the statement of
C14 about one run; the monitor evaluates it on every run of the real binary, `Properties/C14.lean` proves it of
the outcome model.
-/
namespace Knut.Spec.Clean

/-- how the process ended -/
inductive Ending where
  /-- it exited with the given status -/
  | exited (status : Nat)
  /-- it was still running at the wall-clock bound (hang) -/
  | timeout
  /-- it was killed by a signal or hit the memory limit (`fatal error: … out of memory`, SIGKILL, SIGSEGV) -/
  | killed
  deriving DecidableEq, Repr

structure Observation where
  ending : Ending
  stdoutEmpty : Bool
  stderrEmpty : Bool
  /-- standard error contains `panic:`, `goroutine ` or `fatal error:` -/
  crashTrace : Bool
  deriving DecidableEq, Repr

/-- the commands whose report goes to standard output and must be all-or-nothing
(balance, print, transcode, infer, check --write; also the portfolio reports) -/
abbrev ReportCommand := Bool

/-- **C14 for one run**: the command terminated by itself; with status 0, or with a non-zero status and a
diagnostic on standard error; it did not crash; and a failing report command wrote nothing to standard output. -/
def failsCleanly (report : ReportCommand) (o : Observation) : Bool :=
  match o.ending with
  | .timeout => false
  | .killed => false
  | .exited status =>
    !o.crashTrace &&
    (status == 0 || (!o.stderrEmpty && (!report || o.stdoutEmpty)))

/-- a failing run: non-zero status -/
def failed (o : Observation) : Bool :=
  match o.ending with
  | .exited 0 => false
  | _ => true

/-- **an error in any included file fails the whole command**: `expectFail` says that some file of the include
graph is missing, unreadable, cyclic or malformed -/
def includedErrorFails (expectFail : Bool) (o : Observation) : Bool := !expectFail || failed o

end Knut.Spec.Clean
