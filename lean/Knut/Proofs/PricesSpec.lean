import Knut.Proofs.Prices
/-!
# Lemmas tying the price map to the declarations (`latest`), the executable search `reach`,
and the map-order independence of `Normalize`
-/
namespace Knut.Prices
open Knut Knut.Dec Knut.Spec

/-! ## truncation is idempotent: a price with at most `n` decimals is not changed by `Truncate(n)` -/

theorem mkRat_num_den (k : Int) (D : Nat) (hD : D ≠ 0) : (mkRat k D).num * D = k * (mkRat k D).den := by
  have h := Rat.mkRat_self (mkRat k D)
  exact (Rat.mkRat_eq_iff (mkRat k D).den_nz hD).mp h

/-- a decimal with at most `n` fractional digits (`k / 10^n`) is a fixed point of `Truncate(n)` -/
theorem trunc_mkRat (n : Nat) (k : Int) : trunc n (mkRat k (10 ^ n)) = mkRat k (10 ^ n) := by
  have hD : (10 : Nat) ^ n ≠ 0 := Nat.ne_of_gt (Nat.pow_pos (by decide))
  unfold trunc scaledTrunc pow10
  have h := mkRat_num_den k (10 ^ n) hD
  have hc : ((10 : Int) ^ n) = (((10 : Nat) ^ n : Nat) : Int) := by simp
  rw [hc, h]
  have hden : ((mkRat k (10 ^ n)).den : Int) ≠ 0 := by
    have := (mkRat k (10 ^ n)).den_nz; omega
  rw [Int.mul_tdiv_cancel _ hden]

theorem trunc_idem (n : Nat) (x : Rat) : trunc n (trunc n x) = trunc n x := by
  unfold trunc
  exact trunc_mkRat n _

theorem multiply_one (x : Rat) : multiply x 1 = trunc 8 x := by
  simp [multiply, multiplyPlaces, Rat.mul_one]

/-- the stored reciprocal already has 8 decimals: multiplying it by the price 1 changes nothing -/
theorem multiply_recip_one (p : Rat) : multiply (recip p) 1 = recip p := by
  rw [multiply_one]
  unfold recip insertPlaces
  exact trunc_idem 8 _

/-! ## `Insert` stores exactly the latest declaration of each pair -/

theorem edge_addPrice (ps : Prices) (t c : Commodity) (p : Rat) (a b : Commodity) :
    edge (addPrice ps t c p) a b = if a = t ∧ b = c then some p else edge ps a b := by
  unfold edge addPrice
  rw [find_set]
  by_cases hat : a = t
  · subst hat
    simp only [if_true, Option.bind_some, find_set, true_and]
    by_cases hbc : b = c
    · simp [hbc]
    · simp only [hbc, if_false]
      cases find a ps with
      | none => simp [find]
      | some m => simp
  · simp [hat]

theorem edge_insert (ps ps' : Prices) (d : Decl) (h : insert ps d = some ps') (a b : Commodity) :
    edge ps' a b =
      if a = d.commodity ∧ b = d.target then some (recip d.price)
      else if a = d.target ∧ b = d.commodity then some d.price
      else edge ps a b := by
  unfold insert at h
  split at h
  · cases h
  · injection h with h
    subst h
    rw [edge_addPrice, edge_addPrice]

theorem insert_eq_none_iff (ps : Prices) (d : Decl) : insert ps d = none ↔ d.price = 0 := by
  unfold insert
  split <;> simp_all

theorem edge_insertAll (ds : List Decl) (ps ps' : Prices) (h : insertAll ps ds = some ps') (a b : Commodity) :
    edge ps' a b = (match latest ds a b with | some x => some x | none => edge ps a b) := by
  induction ds generalizing ps with
  | nil =>
    simp only [insertAll, Option.some.injEq] at h
    subst h; simp [latest]
  | cons d rest ih =>
    simp only [insertAll] at h
    cases hi : insert ps d with
    | none => simp [hi] at h
    | some ps1 =>
      simp only [hi] at h
      rw [ih ps1 h, edge_insert ps ps1 d hi]
      simp only [latest]
      cases latest rest a b with
      | some x => rfl
      | none =>
        by_cases h1 : a = d.commodity ∧ b = d.target
        · simp only [if_pos h1]
        · simp only [if_neg h1]
          by_cases h2 : a = d.target ∧ b = d.commodity
          · simp only [if_pos h2]
          · simp only [if_neg h2]

/-- after inserting the declarations into the empty map, `ps[a][b]` is the latest declared price of `b` in `a` -/
theorem edge_eq_latest (ds : List Decl) (ps : Prices) (h : insertAll [] ds = some ps) :
    edge ps = latest ds := by
  funext a b
  rw [edge_insertAll ds [] ps h a b]
  cases latest ds a b <;> simp [edge, find]

theorem insertAll_eq_none_iff (ds : List Decl) (ps : Prices) :
    insertAll ps ds = none ↔ ∃ d ∈ ds, d.price = 0 := by
  induction ds generalizing ps with
  | nil => simp [insertAll]
  | cons d rest ih =>
    simp only [insertAll]
    cases hi : insert ps d with
    | none =>
      have := (insert_eq_none_iff ps d).mp hi
      simp [this]
    | some ps1 =>
      have hne : d.price ≠ 0 := by
        intro h0
        have := (insert_eq_none_iff ps d).mpr h0
        simp [hi] at this
      simp [ih ps1, hne]

theorem latest_mem_names (ds : List Decl) (a b : Commodity) (x : Rat) (h : latest ds a b = some x) :
    a ∈ declNames ds ∧ b ∈ declNames ds := by
  unfold declNames
  rw [List.mem_eraseDups, List.mem_eraseDups]
  induction ds generalizing x with
  | nil => simp [latest] at h
  | cons d rest ih =>
    simp only [latest] at h
    cases hl : latest rest a b with
    | some y =>
      have := ih y hl
      simp only [List.flatMap_cons, List.mem_append]
      exact ⟨Or.inr this.1, Or.inr this.2⟩
    | none =>
      simp only [hl] at h
      simp only [List.flatMap_cons, List.mem_append, List.mem_cons]
      by_cases h1 : a = d.commodity ∧ b = d.target
      · exact ⟨Or.inl (Or.inl h1.1), Or.inl (Or.inr (Or.inl h1.2))⟩
      · by_cases h2 : a = d.target ∧ b = d.commodity
        · exact ⟨Or.inl (Or.inr (Or.inl h2.1)), Or.inl (Or.inl h2.2)⟩
        · simp [h1, h2] at h

/-- the declaration `d` is about the pair `{a, b}` -/
def mentions (d : Decl) (a b : Commodity) : Prop :=
  (a = d.commodity ∧ b = d.target) ∨ (a = d.target ∧ b = d.commodity)

theorem latest_none_of_not_mentions (ds : List Decl) (a b : Commodity) (h : ∀ d ∈ ds, ¬ mentions d a b) :
    latest ds a b = none := by
  induction ds with
  | nil => rfl
  | cons d rest ih =>
    have hd := h d List.mem_cons_self
    have h1 : ¬ (a = d.commodity ∧ b = d.target) := fun x => hd (Or.inl x)
    have h2 : ¬ (a = d.target ∧ b = d.commodity) := fun x => hd (Or.inr x)
    simp only [latest, ih (fun d' hd' => h d' (List.mem_cons_of_mem _ hd')), if_neg h1, if_neg h2]

theorem latest_prefix (pre rest : List Decl) (a b : Commodity) (x : Rat) (h : latest rest a b = some x) :
    latest (pre ++ rest) a b = some x := by
  induction pre with
  | nil => exact h
  | cons d pre ih => simp only [List.cons_append, latest, ih]

/-- "most recent": if `price b p a` is followed by no declaration of the pair, the latest price of `b` in `a` is `p` -/
theorem latest_of_last (pre post : List Decl) (d : Decl) (a b : Commodity) (hd : a = d.target ∧ b = d.commodity)
    (hab : a ≠ b) (hpost : ∀ d' ∈ post, ¬ mentions d' a b) : latest (pre ++ d :: post) a b = some d.price := by
  apply latest_prefix
  have h1 : ¬ (a = d.commodity ∧ b = d.target) := by
    intro x; exact hab (x.1.trans hd.2.symm)
  simp only [latest, latest_none_of_not_mentions post a b hpost, if_neg h1, if_pos hd]

/-- … and if it was declared the other way round, `price a p b`, it is the truncated reciprocal -/
theorem latest_of_last_rev (pre post : List Decl) (d : Decl) (a b : Commodity) (hd : a = d.commodity ∧ b = d.target)
    (hpost : ∀ d' ∈ post, ¬ mentions d' a b) : latest (pre ++ d :: post) a b = some (recip d.price) := by
  apply latest_prefix
  simp only [latest, latest_none_of_not_mentions post a b hpost, if_pos hd]

/-! ## the bounded chain search is sound and complete for simple chains -/

theorem reach_sound (e : Commodity → Commodity → Option Rat) (univ : List Commodity) (tgt : Commodity) (y : Rat)
    (fuel : Nat) (vis : List Commodity) (cur : Commodity) (x : Rat)
    (h : reach e univ tgt y fuel vis cur x = true) : ∃ path, chainFrom e cur x path = some (tgt, y) := by
  induction fuel generalizing vis cur x with
  | zero =>
    simp only [reach, Bool.and_eq_true, decide_eq_true_eq] at h
    exact ⟨[], by simp [chainFrom, h.1, h.2]⟩
  | succ f ih =>
    simp only [reach, Bool.or_eq_true, Bool.and_eq_true, decide_eq_true_eq, List.any_eq_true] at h
    rcases h with h | ⟨n, _, _, hn⟩
    · exact ⟨[], by simp [chainFrom, h.1, h.2]⟩
    · cases he : e cur n with
      | none => simp [he] at hn
      | some p =>
        simp only [he] at hn
        obtain ⟨path, hp⟩ := ih (n :: vis) n (multiply p x) hn
        exact ⟨n :: path, by simp [chainFrom, he, hp]⟩

theorem reach_complete (e : Commodity → Commodity → Option Rat) (univ : List Commodity) (tgt : Commodity) (y : Rat)
    (path : List Commodity) (fuel : Nat) (vis : List Commodity) (cur : Commodity) (x : Rat)
    (hc : chainFrom e cur x path = some (tgt, y)) (hlen : path.length ≤ fuel)
    (huniv : ∀ d ∈ path, d ∈ univ) (hnd : path.Nodup) (hvis : ∀ d ∈ path, d ∉ vis) :
    reach e univ tgt y fuel vis cur x = true := by
  induction path generalizing fuel vis cur x with
  | nil =>
    simp only [chainFrom, Option.some.injEq, Prod.mk.injEq] at hc
    cases fuel <;> simp [reach, hc.1, hc.2]
  | cons n rest ih =>
    cases fuel with
    | zero => simp at hlen
    | succ f =>
      simp only [chainFrom] at hc
      cases he : e cur n with
      | none => simp [he] at hc
      | some p =>
        simp only [he] at hc
        simp only [reach, Bool.or_eq_true, List.any_eq_true]
        right
        refine ⟨n, huniv n List.mem_cons_self, ?_⟩
        have hnv : n ∉ vis := hvis n List.mem_cons_self
        simp only [he, Bool.and_eq_true, Bool.not_eq_true', List.contains_eq_mem, decide_eq_false_iff_not]
        refine ⟨hnv, ?_⟩
        have hnd' := List.nodup_cons.mp hnd
        apply ih f (n :: vis) n (multiply p x) hc (by simpa using hlen)
          (fun d hd => huniv d (List.mem_cons_of_mem _ hd)) hnd'.2
        intro d hd hmem
        rcases List.mem_cons.mp hmem with rfl | hm
        · exact hnd'.1 hd
        · exact hvis d (List.mem_cons_of_mem _ hd) hm

/-- every commodity on a chain (after the start) is the head of a declared price -/
theorem chainFrom_nodes (e : Commodity → Commodity → Option Rat) (cur : Commodity) (x : Rat)
    (path : List Commodity) (r : Commodity × Rat) (h : chainFrom e cur x path = some r) :
    ∀ d ∈ path, ∃ a, (e a d).isSome := by
  induction path generalizing cur x with
  | nil => intro d hd; simp at hd
  | cons n rest ih =>
    simp only [chainFrom] at h
    cases he : e cur n with
    | none => simp [he] at h
    | some p =>
      simp only [he] at h
      intro d hd
      rcases List.mem_cons.mp hd with rfl | hd'
      · exact ⟨cur, by simp [he]⟩
      · exact ih n (multiply p x) h d hd'

/-! ## what the executable predicate means -/

theorem priceOK_sound (decls : List Decl) (v : Commodity) (N : NPrices) (h : priceOK decls v N = true) :
    find v N = some 1 ∧
    (∀ c p, c ≠ v → latest decls v c = some p → find c N = some (multiply p 1)) ∧
    (∀ c x, find c N = some x → ∃ path, chainFrom (latest decls) v 1 path = some (c, x)) ∧
    (∀ c, find c N = none ↔ ¬ Connected (latest decls) v c) := by
  simp only [priceOK, Bool.and_eq_true] at h
  obtain ⟨⟨⟨hself, hdirect⟩, hchain⟩, hclosed⟩ := h
  have h1 : find v N = some 1 := by simpa [selfOK] using hself
  have h3 : ∀ c x, find c N = some x → ∃ path, chainFrom (latest decls) v 1 path = some (c, x) := by
    intro c x hx
    simp only [chainOK, List.all_eq_true] at hchain
    have := hchain c (mem_keys_of_find hx)
    simp only [hx] at this
    exact reach_sound _ _ _ _ _ _ _ _ this
  refine ⟨h1, ?_, h3, ?_⟩
  · intro c p hcv hl
    simp only [directOK, List.all_eq_true, Bool.or_eq_true, decide_eq_true_eq] at hdirect
    have hmem : c ∈ v :: declNames decls := List.mem_cons_of_mem _ (latest_mem_names decls v c p hl).2
    rcases hdirect c hmem with h | h
    · exact absurd h hcv
    · simpa [hl] using h
  · intro c
    constructor
    · intro hnone hconn
      have : (find c N).isSome := by
        clear hnone
        induction hconn with
        | refl => simp [h1]
        | @step a b _ hab ih =>
          simp only [closedOK, List.all_eq_true, Bool.or_eq_true, Bool.not_eq_true'] at hclosed
          have ha : a ∈ keys N := (isSome_iff_mem_keys N a).mp ih
          cases hl : latest decls a b with
          | none => simp [hl] at hab
          | some q =>
            have hb : b ∈ v :: declNames decls := List.mem_cons_of_mem _ (latest_mem_names decls a b q hl).2
            rcases hclosed a ha b hb with h | h
            · simp [hl] at h
            · exact h
      simp [hnone] at this
    · intro hnc
      cases hf : find c N with
      | none => rfl
      | some x =>
        obtain ⟨path, hp⟩ := h3 c x hf
        exact absurd (chainFrom_connected _ v v 1 path c x hp Connected.refl) hnc

/-! ## map-iteration order does not matter -/

theorem find_perm {β : Type} {m m' : AMap β} (hp : m.Perm m') (hnd : (keys m).Nodup) (k : Commodity) :
    find k m = find k m' := by
  induction hp with
  | nil => rfl
  | cons x _ ih =>
    obtain ⟨a, b⟩ := x
    simp only [keys, List.map_cons, List.nodup_cons] at hnd
    simp only [find]
    split
    · rfl
    · exact ih hnd.2
  | swap x y l =>
    obtain ⟨a, b⟩ := x
    obtain ⟨a', b'⟩ := y
    simp only [keys, List.map_cons, List.nodup_cons, List.mem_cons] at hnd
    simp only [find]
    by_cases h1 : a = k <;> by_cases h2 : a' = k
    · exfalso; exact hnd.1 (Or.inl (h2.trans h1.symm))
    · simp [h1, h2]
    · simp [h1, h2]
    · simp [h1, h2]
  | trans h12 _ ih1 ih2 =>
    have hnd2 := (List.Perm.nodup_iff (h12.map (fun e : Commodity × β => e.1))).mp hnd
    rw [ih1 hnd, ih2 hnd2]

theorem sortNames_perm_eq {ks ks' : List Commodity} (hp : ks.Perm ks') : sortNames ks = sortNames ks' := by
  have htrans : ∀ a b c : Commodity, decide (a ≤ b) = true → decide (b ≤ c) = true → decide (a ≤ c) = true := by
    intro a b c h1 h2
    simp only [decide_eq_true_eq] at h1 h2 ⊢
    exact String.le_trans h1 h2
  have htotal : ∀ a b : Commodity, (decide (a ≤ b) || decide (b ≤ a)) = true := by
    intro a b
    simp only [Bool.or_eq_true, decide_eq_true_eq]
    exact String.le_total a b
  apply List.Perm.eq_of_pairwise (le := fun a b => decide (a ≤ b) = true)
  · intro a b _ _ h1 h2
    simp only [decide_eq_true_eq] at h1 h2
    exact String.le_antisymm h1 h2
  · exact List.pairwise_mergeSort htrans htotal ks
  · exact List.pairwise_mergeSort htrans htotal ks'
  · exact ((sortNames_perm ks).trans hp).trans (sortNames_perm ks').symm

/-- two association lists for the same Go map: the same entries in a different order -/
def SameMap {β : Type} (m m' : AMap β) : Prop := m.Perm m' ∧ (keys m).Nodup

/-- two representations of the same `price.Prices` value: outer lookups agree up to the order of the
inner maps' entries (this covers any enumeration order of the outer map as well) -/
def SamePrices (ps ps' : Prices) : Prop :=
  ∀ c, match find c ps, find c ps' with
    | some m, some m' => SameMap m m'
    | none, none => True
    | _, _ => False

theorem neighbors_same (ps ps' : Prices) (h : SamePrices ps ps') (c : Commodity) :
    neighbors ps c = neighbors ps' c := by
  unfold neighbors
  have := h c
  cases h1 : find c ps with
  | none =>
    cases h2 : find c ps' with
    | none => rfl
    | some m' => simp [h1, h2] at this
  | some m =>
    cases h2 : find c ps' with
    | none => simp [h1, h2] at this
    | some m' =>
      simp only [h1, h2] at this
      simp only [Option.getD_some]
      exact sortNames_perm_eq (this.1.map (fun e : Commodity × Rat => e.1))

theorem price_same (ps ps' : Prices) (h : SamePrices ps ps') (c n : Commodity) :
    price ps c n = price ps' c n := by
  unfold price edge
  have := h c
  cases h1 : find c ps with
  | none =>
    cases h2 : find c ps' with
    | none => rfl
    | some m' => simp [h1, h2] at this
  | some m =>
    cases h2 : find c ps' with
    | none => simp [h1, h2] at this
    | some m' =>
      simp only [h1, h2] at this
      simp only [Option.bind_some]
      rw [find_perm this.1 this.2 n]

theorem normalize_same (ps ps' : Prices) (h : SamePrices ps ps') (v : Commodity) :
    normalize ps v = normalize ps' v :=
  normLoop_congr ps ps' (neighbors_same ps ps' h) (price_same ps ps' h) [v] [(v, 1)]

/-! ## the maps built by `Insert` have distinct keys (so `SamePrices` applies to them) -/

theorem not_mem_keys_del {β : Type} (m : AMap β) (k : Commodity) : k ∉ keys (del k m) := by
  intro h
  have := find_isSome_of_mem_keys h
  simp [find_del_self] at this

theorem keys_del_sub {β : Type} (m : AMap β) (k d : Commodity) (h : d ∈ keys (del k m)) : d ∈ keys m := by
  induction m with
  | nil => simp [del, keys] at h
  | cons e rest ih =>
    obtain ⟨a, b⟩ := e
    by_cases hak : a = k
    · simp only [del, hak, if_true] at h
      simp only [keys, List.map_cons, List.mem_cons]
      exact Or.inr (ih h)
    · simp only [del, hak, if_false, keys, List.map_cons, List.mem_cons] at h ⊢
      rcases h with h | h
      · exact Or.inl h
      · exact Or.inr (ih h)

theorem nodup_keys_del {β : Type} (m : AMap β) (k : Commodity) (h : (keys m).Nodup) : (keys (del k m)).Nodup := by
  induction m with
  | nil => simp [del, keys]
  | cons e rest ih =>
    obtain ⟨a, b⟩ := e
    simp only [keys, List.map_cons, List.nodup_cons] at h
    by_cases hak : a = k
    · simp only [del, hak, if_true]; exact ih h.2
    · simp only [del, hak, if_false, keys, List.map_cons, List.nodup_cons]
      exact ⟨fun hm => h.1 (keys_del_sub rest k a hm), ih h.2⟩

theorem nodup_keys_set {β : Type} (m : AMap β) (k : Commodity) (v : β) (h : (keys m).Nodup) :
    (keys (set m k v)).Nodup := by
  simp only [set, keys, List.map_cons, List.nodup_cons]
  exact ⟨not_mem_keys_del m k, nodup_keys_del m k h⟩

/-- all maps of a `Prices` value have distinct keys -/
def WF (ps : Prices) : Prop := (keys ps).Nodup ∧ ∀ c m, find c ps = some m → (keys m).Nodup

theorem wf_addPrice (ps : Prices) (t c : Commodity) (p : Rat) (h : WF ps) : WF (addPrice ps t c p) := by
  unfold addPrice
  refine ⟨nodup_keys_set _ _ _ h.1, ?_⟩
  intro a m hm
  rw [find_set] at hm
  by_cases hat : a = t
  · simp only [hat, if_true, Option.some.injEq] at hm
    subst hm
    apply nodup_keys_set
    cases hf : find t ps with
    | none => simp [keys]
    | some m0 => exact h.2 t m0 hf
  · simp only [hat, if_false] at hm
    exact h.2 a m hm

theorem wf_insertAll (ds : List Decl) (ps ps' : Prices) (h : WF ps) (hi : insertAll ps ds = some ps') : WF ps' := by
  induction ds generalizing ps with
  | nil => simp only [insertAll, Option.some.injEq] at hi; subst hi; exact h
  | cons d rest ih =>
    simp only [insertAll] at hi
    cases h1 : insert ps d with
    | none => simp [h1] at hi
    | some ps1 =>
      simp only [h1] at hi
      apply ih ps1 _ hi
      unfold insert at h1
      split at h1
      · cases h1
      · injection h1 with h1
        subst h1
        exact wf_addPrice _ _ _ _ (wf_addPrice _ _ _ _ h)

theorem wf_nil : WF ([] : Prices) := ⟨by simp [keys], by intro c m h; simp [find] at h⟩

/-- `ps'` lists the same outer keys in the same order, each inner list reordered -/
inductive InnerPerm : Prices → Prices → Prop
  | nil : InnerPerm [] []
  | cons {a : Commodity} {m m' : NPrices} {l l' : Prices} :
      m.Perm m' → InnerPerm l l' → InnerPerm ((a, m) :: l) ((a, m') :: l')

theorem wf_tail (a : Commodity) (m : NPrices) (l : Prices) (hwf : WF ((a, m) :: l)) : WF l := by
  have hk := hwf.1
  simp only [keys, List.map_cons, List.nodup_cons] at hk
  refine ⟨hk.2, ?_⟩
  intro c0 m0 h0
  apply hwf.2 c0 m0
  have : a ≠ c0 := by
    intro e; subst e
    exact hk.1 (mem_keys_of_find h0)
  simp [find, this, h0]

/-- reordering every inner list of a well-formed price map represents the same prices -/
theorem samePrices_of_innerPerm (ps ps' : Prices) (hwf : WF ps) (hp : InnerPerm ps ps') : SamePrices ps ps' := by
  intro c
  induction hp with
  | nil => simp [find]
  | @cons a m m' l l' hperm _ ih =>
    simp only [find]
    by_cases hac : a = c
    · simp only [hac, if_true]
      exact ⟨hperm, hwf.2 a m (by simp [find])⟩
    · simp only [hac, if_false]
      exact ih (wf_tail a m l hwf)

/-- reordering the outer list of a well-formed price map represents the same prices -/
theorem samePrices_of_perm (ps ps' : Prices) (hwf : WF ps) (hp : ps.Perm ps') : SamePrices ps ps' := by
  intro c
  rw [← find_perm hp hwf.1 c]
  cases hf : find c ps with
  | none => trivial
  | some m => exact ⟨List.Perm.refl m, hwf.2 c m hf⟩

end Knut.Prices
