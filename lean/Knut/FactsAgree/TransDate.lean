import Knut.Generated.TransDate
import Knut.Model.Partition
import Knut.Proofs.Partition
import Knut.Proofs.GoSem
/-!
# The translated `lib/common/date` agrees with the hand-written model

`Knut/Generated/TransDate.lean` is regenerated from /repo's `date.go` by the translator
(`harness/trans*.go`) on every run; this module proves every generated definition equal, for all
arguments, to the model function that the theorems of C11/C10 (and everything built on the
partition model) are about.  If `date.go` changes, these proofs are re-checked against the new text.
-/
namespace Knut.FactsAgree.TransDate
open Knut Knut.Date Knut.GoSem
open Knut.Generated.Go

/-- `date.Interval` is an `int` in Go; the model's inductive type is its range `Once … Yearly`. -/
def ivGo : Knut.Interval → Int
  | .once => 0 | .daily => 1 | .weekly => 2 | .monthly => 3 | .quarterly => 4 | .yearly => 5

def periodGo (p : Knut.Period) : date.Period := { Start := p.start, End := p.stop }
def periodOfGo (p : date.Period) : Knut.Period := { start := p.Start, stop := p.End }

@[simp] theorem periodGo_Start (p : Knut.Period) : (periodGo p).Start = p.start := rfl
@[simp] theorem periodGo_End (p : Knut.Period) : (periodGo p).End = p.stop := rfl
@[simp] theorem periodOfGo_periodGo (p : Knut.Period) : periodOfGo (periodGo p) = p := rfl
@[simp] theorem periodGo_periodOfGo (p : date.Period) : periodGo (periodOfGo p) = p := rfl

def partitionGo (p : Knut.Partition) : date.Partition :=
  { span := periodGo p.span, interval := ivGo p.interval, periods := p.periods.map periodGo }

def outcomeGo {α β : Type} (f : α → β) : Knut.Outcome α → GoSem.Outcome β
  | .ok a => .ok (f a)
  | .panic m => .panic m

theorem Date_agrees (y m d : Int) : date.Date y m d = ofCivil y m d := rfl

/-- the first of a month: year, month and day of `ofCivil y m 1` -/
theorem civil_first (y m : Int) (h1 : 1 ≤ m) (h12 : m ≤ 12) :
    year (ofCivil y m 1) = y ∧ month (ofCivil y m 1) = m ∧ day (ofCivil y m 1) = 1 := by
  have hn := ofCivil_norm y m 1 h1 h12
  have hmono := cumDays_mono (isLeap y) ⟨m.toNat, by omega⟩ ⟨(m + 1).toNat, by omega⟩ (by
    show m.toNat ≤ (m + 1).toNat; omega)
  have c1 : ((m.toNat : Nat) : Int) = m := by omega
  have c2 : (((m + 1).toNat : Nat) : Int) = m + 1 := by omega
  simp only [c1, c2] at hmono
  have hstrict : cumDays (isLeap y) m < cumDays (isLeap y) (m + 1) := by
    unfold cumDays; cases isLeap y <;> simp <;> omega
  have ⟨hy, hm⟩ := year_month_of_range y m (ofCivil y m 1) h1 h12 (by omega) (by omega)
  refine ⟨hy, hm, ?_⟩
  unfold day dayOfYear
  rw [hy, hm]; omega

theorem StartOf_agrees (d : Int) (iv : Knut.Interval) : date.StartOf d (ivGo iv) = startOf d iv := by
  have ⟨m1, m12⟩ := month_bounds d
  have ⟨w0, w7⟩ := weekday_bounds d
  cases iv <;> simp [date.StartOf, ivGo, startOf, date.Once, date.Daily, date.Weekly, date.Monthly, date.Quarterly,
    date.Yearly, date.Date, Time.AddDate_days, tdiv_eq, tmod_eq]
  · split <;> omega
  · split <;> first | rfl | omega

/-- outside `Once … Yearly` (no such value is ever built by knut) `StartOf` is the identity -/
theorem StartOf_other (d p : Int) (h : p < 0 ∨ 5 < p) : date.StartOf d p = d := by
  have h0 : p ≠ 0 := by omega
  have h1 : p ≠ 1 := by omega
  have h2 : p ≠ 2 := by omega
  have h3 : p ≠ 3 := by omega
  have h4 : p ≠ 4 := by omega
  have h5 : p ≠ 5 := by omega
  simp [date.StartOf, date.Once, date.Daily, date.Weekly, date.Monthly, date.Quarterly, date.Yearly, h0, h1, h2, h3, h4, h5]

theorem EndOf_agrees (d : Int) (iv : Knut.Interval) : date.EndOf d (ivGo iv) = endOf d iv := by
  have ⟨m1, m12⟩ := month_bounds d
  have ⟨w0, w7⟩ := weekday_bounds d
  have hm := StartOf_agrees d .monthly
  have hq := StartOf_agrees d .quarterly
  simp only [ivGo] at hm hq
  cases iv <;> simp [date.EndOf, ivGo, endOf, date.Once, date.Daily, date.Weekly, date.Monthly, date.Quarterly,
    date.Yearly, date.Date, Time.AddDate_days, tmod_eq, hm, hq, startOf]
  · omega
  · obtain ⟨a, b, c⟩ := civil_first (year d) (month d) m1 m12
    simp [Time.AddDate, a, b, c]
  · have q1 : 1 ≤ (month d - 1) / 3 * 3 + 1 := by omega
    have q12 : (month d - 1) / 3 * 3 + 1 ≤ 12 := by omega
    obtain ⟨a, b, c⟩ := civil_first (year d) _ q1 q12
    simp [Time.AddDate, a, b, c]
    omega

theorem Clip_agrees (p p2 : Knut.Period) : date.Period.Clip (periodGo p) (periodGo p2) = periodGo (p.clip p2) := by
  by_cases h1 : p2.start > p.start <;> by_cases h2 : p2.stop < p.stop <;>
    simp [date.Period.Clip, Knut.Period.clip, periodGo, h1, h2]

theorem Period_Contains_agrees (p : Knut.Period) (t : Int) : date.Period.Contains (periodGo p) t = p.contains t := by
  by_cases h1 : t < p.start <;> by_cases h2 : t > p.stop <;>
    simp [date.Period.Contains, Knut.Period.contains, periodGo, h1, h2]

theorem Partition_Contains_agrees (p : Knut.Partition) (t : Int) :
    date.Partition.Contains (partitionGo p) t = p.contains t := by
  simp [date.Partition.Contains, Knut.Partition.contains, partitionGo, Period_Contains_agrees]

/-- the condition of the `for` loop of `NewPartition` is the negation of the exit test of `partLoop` -/
theorem loop1_cond (a last e c : Int) :
    ((!(Time.Before e a)) && (!((decide (c ≥ last)) && (decide (last > (0 : Int)))))) = true
      ↔ ¬ (e < a ∨ (c ≥ last ∧ last > 0)) := by
  by_cases h1 : e < a <;> by_cases h2 : c ≥ last <;> by_cases h3 : last > 0 <;> simp [h1, h2, h3]

/-- the first loop of `NewPartition` appends exactly `partLoop` (newest period first) when the fuel
`fuelGe end period.Start` is given — in particular it never runs out of fuel -/
theorem loop1_agrees (span : Knut.Period) (iv : Knut.Interval) (last e c : Int) :
    ∀ (fuel : Nat) (periods : List date.Period) (start : Int), (e - span.start + 1).toNat ≤ fuel →
      ∃ s' c' e', date.NewPartition.loop1 (periodGo span) (ivGo iv) last fuel periods start c e
        = .ok (periods ++ (partLoop span.start iv last e c).map periodGo, s', c', e') := by
  fun_induction partLoop span.start iv last e c with
  | case1 e c h =>
    intro fuel periods start hf
    have hc : ¬ _ := (not_congr (loop1_cond span.start last e c)).mpr (fun hn => hn h)
    unfold date.NewPartition.loop1
    simp only [periodGo_Start, hc, if_false]
    exact ⟨start, c, e, by simp⟩
  | case2 e c h s ih =>
    intro fuel periods start hf
    have hc := (loop1_cond span.start last e c).mpr h
    cases fuel with
    | zero => exfalso; omega
    | succ n =>
      unfold date.NewPartition.loop1
      simp only [periodGo_Start, hc, if_true]
      simp only [StartOf_agrees, Time.AddDate_days, Time.Before, decide_eq_true_eq]
      have hs : (if startOf e iv < span.start then span.start else startOf e iv) = s := rfl
      rw [hs]
      have hle : s ≤ e := by
        have := startOf_le e iv
        show clampStart (startOf e iv) span.start ≤ e
        unfold clampStart; split <;> omega
      obtain ⟨s', c', e', hih⟩ := ih n (periods ++ [{ Start := s, End := e }]) s (by omega)
      refine ⟨s', c', e', ?_⟩
      have : s + -1 = s - 1 := by omega
      rw [this, hih]
      simp [periodGo]

/-- the second loop of `NewPartition` is the in-place reversal idiom -/
theorem loop2_eq_swapLoop (fuel : Nat) (periods : List date.Period) (i j : Int) :
    date.NewPartition.loop2 fuel periods i j = swapLoop fuel periods i j := by
  induction fuel generalizing periods i j with
  | zero => unfold date.NewPartition.loop2 swapLoop; try rfl
  | succ n ih => unfold date.NewPartition.loop2 swapLoop; simp only [ih]; try rfl

theorem NewPartition_agrees (span : Knut.Period) (iv : Knut.Interval) (last : Int) :
    date.NewPartition (periodGo span) (ivGo iv) last = outcomeGo partitionGo (newPartition span iv last) := by
  unfold date.NewPartition newPartition
  by_cases hz : span.start = 0
  · simp [hz, outcomeGo]
  · simp only [periodGo_Start, Time.IsZero, hz, decide_false, Bool.false_eq_true, if_false, outcomeGo]
    by_cases ho : iv = .once
    · subst ho
      obtain ⟨i', j', h⟩ := swapLoop_reverse [periodGo span]
      simp at h
      simp [ivGo, date.Once, periodsOf, GoSem.Outcome.bind, loop2_eq_swapLoop, h, partitionGo]
    · have hne : ivGo iv ≠ date.Once := by cases iv <;> simp_all [ivGo, date.Once]
      obtain ⟨s', c', e', h⟩ := loop1_agrees span iv last span.stop 0 (fuelGe span.stop span.start) [] 0 (by simp [fuelGe])
      obtain ⟨i', j', h2⟩ := swapLoop_reverse ((partLoop span.start iv last span.stop 0).map periodGo)
      simp at h2
      simp [hne, h, periodsOf, ho, GoSem.Outcome.bind, loop2_eq_swapLoop, h2, partitionGo]

theorem Size_agrees (p : Knut.Partition) : date.Partition.Size (partitionGo p) = (p.size : Int) := by
  simp [date.Partition.Size, Knut.Partition.size, partitionGo]

theorem StartDates_agrees (p : Knut.Partition) : date.Partition.StartDates (partitionGo p) = p.startDates := by
  simp [date.Partition.StartDates, Knut.Partition.startDates, partitionGo, foldl_append_singleton (fun el : date.Period => el.Start),
    Function.comp_def]

theorem EndDates_agrees (p : Knut.Partition) : date.Partition.EndDates (partitionGo p) = p.endDates := by
  simp [date.Partition.EndDates, Knut.Partition.endDates, partitionGo, foldl_append_singleton (fun el : date.Period => el.End),
    Function.comp_def]

/-- `Partition.Align` (Go: binary search `sort.Search` over the period ends) is the model's linear search whenever
the period ends are sorted; `none` of the model is Go's zero `time.Time` (day 0) -/
theorem Align_agrees_of_sorted (span : Knut.Period) (iv : Knut.Interval) (ps : List Knut.Period) (d : Int)
    (hs : List.Pairwise (fun p q : Knut.Period => p.stop ≤ q.stop) ps) :
    date.Partition.Align (partitionGo ⟨span, iv, ps⟩) d = GoSem.Outcome.ok ((alignIn ps d).getD 0) := by
  have hget := List.pairwise_iff_getElem.mp hs
  have hf : ∀ k : Nat, k < ps.length →
      GoSem.Outcome.bind (index (ps.map periodGo) (k : Int)) (fun t1 => GoSem.Outcome.ok (!(Time.Before t1.End d)))
        = GoSem.Outcome.ok (match ps[k]? with
            | some x => !(decide (x.stop < d))
            | none => true) := by
    intro k hk
    have : index (ps.map periodGo) (k : Int) = GoSem.Outcome.ok (periodGo ps[k]) := by
      rw [index_ok _ _ (by omega) (by simpa using hk)]; simp
    simp only [this, GoSem.Outcome.bind, List.getElem?_eq_getElem hk, periodGo_End, Time.Before]
    congr
  have hmono : ∀ a b : Nat, a ≤ b → b < ps.length →
      (match ps[a]? with
            | some x => !(decide (x.stop < d))
            | none => true) = true →
      (match ps[b]? with
            | some x => !(decide (x.stop < d))
            | none => true) = true := by
    intro a b hab hb ha
    have hal : a < ps.length := by omega
    simp only [List.getElem?_eq_getElem hal, List.getElem?_eq_getElem hb] at ha ⊢
    by_cases hab' : a = b
    · subst hab'; exact ha
    · have := hget a b hal hb (by omega)
      simp at ha ⊢; omega
  obtain ⟨r, hr, hrn, hlo, hhi⟩ := sortSearch_spec
    (f := fun i : Int => GoSem.Outcome.bind (index (ps.map periodGo) i) (fun t1 => GoSem.Outcome.ok (!(Time.Before t1.End d))))
    (p := fun k : Nat => match ps[k]? with
            | some x => !(decide (x.stop < d))
            | none => true) ps.length hf hmono
  have hfind : ps.find? (fun p => !(decide (p.stop < d))) = ps[r]? := by
    apply find?_eq_getElem? _ ps r hrn
    · intro k h hk
      have := hlo k hk
      simpa [List.getElem?_eq_getElem h] using this
    · intro h
      have := hhi h
      simpa [List.getElem?_eq_getElem h] using this
  unfold date.Partition.Align
  simp only [partitionGo, len, List.length_map]
  rw [hr]
  simp only [GoSem.Outcome.bind, alignIn]
  rw [hfind]
  by_cases hlt : r < ps.length
  · have h1 : (r : Int) < (ps.length : Int) := by omega
    simp only [h1, decide_true, if_true]
    rw [index_ok _ _ (by omega) (by simpa using hlt)]
    simp [List.getElem?_eq_getElem hlt]
  · have h1 : ¬ (r : Int) < (ps.length : Int) := by omega
    have h2 : ps[r]? = none := List.getElem?_eq_none (by omega)
    simp [h1, h2]

theorem partLoop_stop_le (a : Int) (iv : Knut.Interval) (last e c : Int) :
    ∀ p ∈ partLoop a iv last e c, p.stop ≤ e := by
  fun_induction partLoop a iv last e c with
  | case1 e c h => intro p hp; simp at hp
  | case2 e c h s ih =>
    intro p hp
    have hle : s ≤ e := by
      have := startOf_le e iv
      show clampStart (startOf e iv) a ≤ e
      unfold clampStart; split <;> omega
    rcases List.mem_cons.mp hp with rfl | hp
    · exact Int.le_refl _
    · have := ih p hp; omega

theorem partLoop_sorted (a : Int) (iv : Knut.Interval) (last e c : Int) :
    List.Pairwise (fun p q : Knut.Period => q.stop ≤ p.stop) (partLoop a iv last e c) := by
  fun_induction partLoop a iv last e c with
  | case1 e c h => exact List.Pairwise.nil
  | case2 e c h s ih =>
    have hle : s ≤ e := by
      have := startOf_le e iv
      show clampStart (startOf e iv) a ≤ e
      unfold clampStart; split <;> omega
    refine List.Pairwise.cons ?_ ih
    intro q hq
    have := partLoop_stop_le a iv last (s - 1) (c + 1) q hq
    show q.stop ≤ e
    omega

/-- `Partition.Align` on every partition that `NewPartition` builds -/
theorem Align_agrees {span : Knut.Period} {iv : Knut.Interval} {last : Int} {P : Knut.Partition}
    (h : newPartition span iv last = .ok P) (d : Int) :
    date.Partition.Align (partitionGo P) d = GoSem.Outcome.ok ((P.align d).getD 0) := by
  unfold newPartition at h
  split at h
  · cases h
  · cases h
    apply Align_agrees_of_sorted
    unfold periodsOf
    split
    · exact List.pairwise_singleton _ _
    · exact List.pairwise_reverse.mpr (partLoop_sorted _ _ _ _ _)

/-- non-vacuity: the translated code computes; 2024-02-29 is day 738944 (a Thursday) -/
example : date.StartOf 738944 date.Monthly = 738916 ∧ date.EndOf 738944 date.Quarterly = 738975 := by decide
example : date.NewPartition ⟨738916, 738944⟩ date.Weekly 2 =
    GoSem.Outcome.ok ⟨⟨738916, 738944⟩, 2, [⟨738934, 738940⟩, ⟨738941, 738944⟩]⟩ := by decide +kernel
example : date.NewPartition ⟨0, 5⟩ date.Daily 0 = GoSem.Outcome.panic "can't create partition with zero time" := by
  decide

end Knut.FactsAgree.TransDate
