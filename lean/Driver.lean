import Knut
def main : IO Unit := IO.println s!"{Knut.hello}"
