import Knut.Driver.C07
import Knut.Spec.SyntaxFormat
/-! Driver ops for C08 (syntax printer / `format` model and the formatting monitor). Glue only. -/
namespace Knut.Driver.C08
open Knut Knut.Wire Knut.Syntax Knut.Driver.C07

def bytesHex (b : List UInt8) : String := hexBytes (ByteArray.mk b.toArray)

def handleStr (fields : List String) : String :=
  match fields with
  | ["c08format", path, hex] =>
    match unhexStr path, unhexBytes hex with
    | some path, some b =>
      match formatFile path b.toList with
      | .written out => "ok " ++ bytesHex out
      | .rejected _ => "rejected"
      | .panic => "panic"
    | _, _ => "bad-op"
  | ["c08mon", hex, dump, hexOut, dumpOut] =>
    match unhexBytes hex, (parseNats dump).bind decodeNode, unhexBytes hexOut, (parseNats dumpOut).bind decodeNode with
    | some b, some (root, []), some o, some (root', []) =>
      let text := b.toList
      let out := o.toList
      if Spec.Syntax.formatOK text root out root' then "ok"
      else
        let sem := match Spec.Syntax.semFlat text root, Spec.Syntax.semFlat out root' with
          | some a, some b => a == b
          | _, _ => false
        let gaps := Spec.Syntax.gapsOf text 0 (root.children.map Node.range) == Spec.Syntax.gapsOf out 0 (root'.children.map Node.range)
        s!"fail fields={sem} gaps={gaps}"
    | _, _, _, _ => "bad-op"
  | _ => "no-such-op"

def handle (fields : List String) : Option String :=
  let r := handleStr fields
  if r = "no-such-op" then none else some r

end Knut.Driver.C08
