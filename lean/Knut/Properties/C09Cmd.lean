import Knut.Proofs.ElabCommands
import Knut.Properties.C09Journal
/-!
# C09 for `Cmd.run` — the command model that C14 compares with the real binary

Two elaboration models of "text → directives" exist: `FromSyntax.loadText` (C04's `loadtext` correspondence; the C09/C13
text theorems, `printFile`) and `Commands.elabFile` inside `Cmd.run` (compared with the binary's exit status and output on
every C14 case, and byte for byte on every C09 case). They are the same function:

* `C09_elab_agrees` – on every parsed file `elabFile` returns the directives `loadText` returns; one reports an error iff
  the other does; one panics (in `transaction.Create`) iff the other does;
* `C09_cmd_print_is_printFile` – on a file without `include` directives `Cmd.run .print` is `printFile` of its bytes.

Hence the C09 theorems speak about `Cmd.run`, and they do so for EVERY file system, whatever the include tree of the input:

* `C09_cmd_loaded_printable` – every journal `Cmd.run` loads consists of printable directives;
* `C09_cmd_print_idempotent` – if `knut print` succeeds, then `knut print` on a file holding its output writes the same
  bytes;
* `C09_cmd_reports_equal`, `C09_cmd_verdict_equal` – `knut balance` under every flag vector and `knut check` give the same
  outcome (output bytes, or failure) on that file as on the input.
-/
namespace Knut.C09
open Knut Knut.Syntax Knut.FromSyntax Knut.JournalPrinter Knut.Utf8 Knut.Commands Knut.Loader Knut.Layout Knut.ElabAgree

/-- **one elaboration model**: on every file the parser accepts, `Commands.elabFile` (the elaboration inside `Cmd.run`)
and `FromSyntax.loadText` return the same directives, fail together, panic together -/
theorem C09_elab_agrees (path : String) (text : List UInt8) (f : Syntax.File) (hp : parseText path text = .ok f) :
    match loadText path text with
    | .ok ds => elabFile (text, f) = .ok ds
    | .error => ∃ m, elabFile (text, f) = .error (.error m)
    | .panic s => elabFile (text, f) = .error (.panic ("accrual: " ++ s)) :=
  elabFile_agree hp

/-- **`Cmd.run .print` on a file without includes is `printFile` of its bytes**: the same output; an error when the other
reports an error (the diagnostics differ); the same panic, tagged `accrual: ` by `Cmd.run`. `NoIncludes`: the tree of the
file, if it parses, has no `include` directive — no condition on the rest of the file system. -/
theorem C09_cmd_print_is_printFile (fs : FileSys) (f : Flags) (text : List UInt8) (hr : fs.read f.path = some text)
    (hn : NoIncludes f.path text) :
    match printFile f.path text with
    | .ok out => Cmd.run .print fs f = .ok out
    | .error _ => ∃ m, Cmd.run .print fs f = .error m
    | .panic s => Cmd.run .print fs f = .panic ("accrual: " ++ s) :=
  runPrint_single fs f text hr hn

/-- the printed text of printable directives has no `include` directive -/
theorem C09_printed_no_includes (path : String) (ds : List Directive) (h : ∀ x ∈ ds, PrintableDir x) :
    NoIncludes path (strBytes (print (Builder.ofList ds).build)) :=
  noIncludes_print path _ (printable_built ds h).dirs

/-- **every journal `Cmd.run` loads, from any file system and any include tree, consists of printable directives** -/
theorem C09_cmd_loaded_printable (fs : FileSys) (root : Loader.Path) (ds : List Directive) (h : fromPath fs root = .ok ds) :
    ∀ x ∈ ds, PrintableDir x :=
  journalOf_printable fs root ds h

/-- **`knut print` is idempotent on its own output, for every input**: whenever `Cmd.run .print` succeeds — on any file
system, with any include tree — `Cmd.run .print` on a file holding the output writes the same bytes -/
theorem C09_cmd_print_idempotent (fs fs' : FileSys) (f f' : Flags) (out : String) (h : Cmd.run .print fs f = .ok out)
    (hr : fs'.read f'.path = some (strBytes out)) : Cmd.run .print fs' f' = .ok out := by
  obtain ⟨ds, hj, hacc, rfl⟩ := runPrint_ok h
  have hp := journalOf_printable fs f.path ds hj
  have hfix := C09_print_fixpoint f'.path _ (printable_built ds hp) hacc
  have := runPrint_single fs' f' _ hr (noIncludes_print f'.path _ (printable_built ds hp).dirs)
  rw [hfix] at this
  exact this

/-- **every balance report of the printed journal equals the one of the input**: for every flag vector (periods, `--val`,
`--close`, mappings, filters, …) `knut balance` on a file holding the output of `knut print` has the outcome — the same
bytes, or the same failure — it has on the input, whatever the include tree of the input -/
theorem C09_cmd_reports_equal (fs fs' : FileSys) (f f' g g' : Flags) (out : String) (h : Cmd.run .print fs f = .ok out)
    (hr : fs'.read f'.path = some (strBytes out)) (hg : g.path = f.path) (hg' : g'.path = f'.path)
    (hb : g'.balance = g.balance) : Cmd.run .balance fs' g' = Cmd.run .balance fs g := by
  obtain ⟨ds, hj, hacc, rfl⟩ := runPrint_ok h
  have hp := journalOf_printable fs f.path ds hj
  have hj' := journalOf_printed fs' f'.path ds hp hr
  rw [run_balance_eq, run_balance_eq, hg, hg', hj, hj', hb]
  unfold balanceOn
  cases commodityFlag g.balance.valuation with
  | error o => rfl
  | ok v => exact balance_printed _ ds hp

/-- … and so does `knut check`: the same outcome class with or without `--write`, the same outcome without it -/
theorem C09_cmd_verdict_equal (fs fs' : FileSys) (f f' g g' : Flags) (out : String) (h : Cmd.run .print fs f = .ok out)
    (hr : fs'.read f'.path = some (strBytes out)) (hg : g.path = f.path) (hg' : g'.path = f'.path) :
    (Cmd.run .check fs' g').cls = (Cmd.run .check fs g).cls ∧
      (g.write = false → g'.write = false → Cmd.run .check fs' g' = Cmd.run .check fs g) := by
  obtain ⟨ds, hj, hacc, rfl⟩ := runPrint_ok h
  have hp := journalOf_printable fs f.path ds hj
  have hj' := journalOf_printed fs' f'.path ds hp hr
  have := Knut.C05.C05_layout_verdict fs' fs g' g (printedDirs ds) ds (by rw [hg']; exact hj') (by rw [hg]; exact hj)
    (journalDirs_built_perm ds)
  exact ⟨this.1, fun h1 h2 => this.2 h2 h1⟩

/-! ## Non-vacuity: the three-day journal of `C09Text.lean` in a one-file file system -/

def exFS : FileSys := FileSys.ofList [("j", strBytes (print exJournal))]

theorem exFS_print : Cmd.run .print exFS { path := "j" } = .ok (print exJournal) := by
  have h1 := C09_print_fixpoint "j" exJournal exJournal_printable exJournal_accepted
  have h2 := C09_cmd_print_is_printFile exFS { path := "j" } (strBytes (print exJournal)) rfl
    (noIncludes_print "j" exJournal exJournal_printable.dirs)
  rw [h1] at h2
  exact h2

/-- the hypothesis of the idempotence theorem is satisfiable, and its conclusion on this file system -/
example : Cmd.run .print exFS { path := "j" } = .ok (print exJournal) :=
  C09_cmd_print_idempotent exFS exFS { path := "j" } { path := "j" } _ exFS_print rfl

example : Cmd.run .balance exFS { path := "j", balance := exFlags } = Cmd.run .balance exFS { path := "j", balance := exFlags } :=
  C09_cmd_reports_equal exFS exFS { path := "j" } { path := "j" } _ _ _ exFS_print rfl rfl rfl rfl

/-- the two models differed before the repair of `loadText` (this round): when `transaction.Create` panics in one directive
(an `@accrue` window starting on 0001-01-01 over an income/expense posting) and the elaboration rejects a LATER directive,
`knut print` panics — `model.FromStream` handles the directives in order — and so does `loadText` now (`loadFailed`) -/
def exPanicTx : Accrual.TxInput :=
  { date := 737425, description := "x", bookings := [⟨⟨["Assets", "B"]⟩, ⟨["Expenses", "C"]⟩, 10, "CHF"⟩],
    accrual := some ⟨.monthly, 0, 59, ⟨["Assets", "A"]⟩⟩ }

example : (match loadFailed [.tx exPanicTx] with | .panic _ => true | _ => false) = true := by decide +kernel

end Knut.C09
