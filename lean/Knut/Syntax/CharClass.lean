import Knut.Generated.Unicode
/-!
# Character classes used by the parser

`unicode.IsLetter` / `unicode.IsDigit` come from `Knut/Generated/Unicode.lean`, which is regenerated from the
Go toolchain's `unicode` package on every run. Runes are `Nat` (Go's `int32` read as `uint32`), so the
scanner's `EOF = rune(-1)` is `0xFFFFFFFF`. The few facts the proofs need are re-proved on the regenerated
tables by kernel evaluation at the end of this file.
-/
namespace Knut.Syntax

/-- `scanner.EOF = rune(-1)` -/
def EOF : Nat := 0xFFFFFFFF

/-- membership in an ascending list of disjoint runs -/
def inRanges : List (Nat × Nat) → Nat → Bool
  | [], _ => false
  | (lo, hi) :: rest, r => if r < lo then false else if r ≤ hi then true else inRanges rest r

def isLetter (r : Nat) : Bool := inRanges Generated.Unicode.letterRanges r
def isDigit (r : Nat) : Bool := inRanges Generated.Unicode.digitRanges r

/-- `parser.isAlphanumeric` -/
def isAlphanumeric (r : Nat) : Bool := isLetter r || isDigit r
/-- `parser.isWhitespace` -/
def isWhitespace (r : Nat) : Bool := r == 32 || r == 9 || r == 13
/-- `parser.isNewline` -/
def isNewline (r : Nat) : Bool := r == 10
/-- `parser.isWhitespaceOrNewline` -/
def isWhitespaceOrNewline (r : Nat) : Bool := isNewline r || isWhitespace r
/-- `parser.isNewlineOrEOF` -/
def isNewlineOrEOF (r : Nat) : Bool := r == 10 || r == EOF

/-! Facts about the regenerated tables (each a finite computation). -/

/-- all ASCII code points that are letters or digits according to the table -/
def asciiAlnum : List Nat := (List.range 128).filter isAlphanumeric

theorem asciiAlnum_eq : asciiAlnum =
    [48, 49, 50, 51, 52, 53, 54, 55, 56, 57,
     65, 66, 67, 68, 69, 70, 71, 72, 73, 74, 75, 76, 77, 78, 79, 80, 81, 82, 83, 84, 85, 86, 87, 88, 89, 90,
     97, 98, 99, 100, 101, 102, 103, 104, 105, 106, 107, 108, 109, 110, 111, 112, 113, 114, 115, 116, 117,
     118, 119, 120, 121, 122] := by decide +kernel

theorem asciiDigits_eq : (List.range 128).filter isDigit = [48, 49, 50, 51, 52, 53, 54, 55, 56, 57] := by
  decide +kernel

theorem eof_not_alnum : isAlphanumeric EOF = false := by decide +kernel
theorem eof_not_letter : isLetter EOF = false := by decide +kernel
theorem eof_not_digit : isDigit EOF = false := by decide +kernel
theorem runeError_not_alnum : isAlphanumeric 0xFFFD = false := by decide +kernel

end Knut.Syntax
