import Knut.Properties.C12
import Knut.FactsAgree.TransPrice
/-!
# C12 on the generated definitions

The theorems of `Properties/C12.lean` are about the hand-written model (`insertAll`, `normalize`, `find`); the agreement
theorems of `FactsAgree/TransPrice.lean` prove the definitions generated from `/repo`'s `lib/model/price/prices.go`
equal to it up to lookup equivalence.  This module composes the two: the clauses of C12 are stated about

* `insertAllGo`: `Go.price.Prices.Insert` called once per declaration from the empty map, stopping at the first error
  (what the `Price` callback of `journal.ComputePrices` does),
* `Go.price.Prices.Normalize g v fuel` on the map `g` these calls built — the translated breadth-first search, whose
  `for len(queue) > 0` loop takes its fuel as an explicit parameter: every `fuel ≥ 2·|decls| + 1` is adequate
  (`Normalize_ok`; in the model's terms every `fuel ≥ unvisited + 1`),
* `Go.price.NormalizedPrices.Price` / `Valuate` on the table that comes back.

Go values: a commodity is the interned pointer `cGo cur name` (`cur` = the `IsCurrency` flag every name carries: all
statements hold for every `cur`).  The Go maps are association lists in SOME order of their entries; `normalize` ranges over
`dict.SortedKeys`, so no iteration order is a parameter of the generated definition — `C12_order_irrelevant_go` says that the
order of the entries of the Go maps (outer and inner) cannot show.
-/
namespace Knut.C12Go
open Knut Knut.Dec Knut.Prices Knut.Spec
open Knut.Generated.Go
open Knut.FactsAgree.TransPrice

/-- `Prices.Insert` for every declaration in order, stopping at the first error -/
def insertAllGo (cur : String → Bool) (g : price.Prices) : List Decl → GoSem.Outcome (price.Prices × Option GoSem.Error)
  | [] => .ok (g, none)
  | d :: ds =>
    GoSem.Outcome.bind (price.Prices.Insert g (cGo cur d.commodity) d.price (cGo cur d.target)) (fun r =>
      match r.2 with
      | none => insertAllGo cur r.1 ds
      | some e => .ok (r.1, some e))

/-- the Go calls accept exactly the lists the model accepts, and build an equivalent map (keys included) -/
theorem insertAllGo_agrees (cur : String → Bool) : ∀ (ds : List Decl) (g : price.Prices) (m : Prices), PEquivS cur g m →
    match insertAllGo cur g ds, insertAll m ds with
    | GoSem.Outcome.ok (g', none), some m' => PEquivS cur g' m'
    | GoSem.Outcome.ok (_, some e), none => e = ⟨"invalid price %s for commodity %s in %s"⟩
    | _, _ => False := by
  intro ds
  induction ds with
  | nil => intro g m h; simpa [insertAllGo, insertAll] using h
  | cons d ds ih =>
    intro g m h
    have h1 := Insert_agreesS cur h d
    have h2 := Insert_agrees cur h.toPEquiv d
    cases hI : price.Prices.Insert g (cGo cur d.commodity) d.price (cGo cur d.target) with
    | ok r =>
      obtain ⟨g', e⟩ := r
      cases hm : Prices.insert m d with
      | none =>
        rw [hI, hm] at h1 h2
        cases e with
        | none => simp at h1
        | some e => simp at h2; simp [insertAllGo, insertAll, hI, hm, GoSem.Outcome.bind, h2.2]
      | some m' =>
        rw [hI, hm] at h1
        cases e with
        | none =>
          simp at h1
          have := ih g' m' h1
          simpa [insertAllGo, insertAll, hI, hm, GoSem.Outcome.bind] using this
        | some e => simp at h1
    | panic msg => rw [hI] at h1; cases hm : Prices.insert m d <;> simp at h1
    | outOfFuel => rw [hI] at h1; cases hm : Prices.insert m d <;> simp at h1

/-- a successful run of the Go calls is a successful run of the model -/
theorem insertAllGo_ok {cur : String → Bool} {decls : List Decl} {g : price.Prices}
    (h : insertAllGo cur [] decls = GoSem.Outcome.ok (g, none)) :
    ∃ ps, insertAll [] decls = some ps ∧ PEquivS cur g ps := by
  have := insertAllGo_agrees cur decls [] [] (PEquivS_nil cur)
  rw [h] at this
  cases hm : insertAll [] decls with
  | none => rw [hm] at this; simp at this
  | some ps => rw [hm] at this; exact ⟨ps, rfl, by simpa using this⟩

/-! ### the fuel: `2·|decls| + 1` covers the model's termination measure -/

theorem keys_del_length {β : Type} (m : Prices.AMap β) (k : Commodity) : (keys (del k m)).length ≤ (keys m).length := by
  induction m with
  | nil => simp [del, keys]
  | cons e rest ih =>
    obtain ⟨a, b⟩ := e
    by_cases hak : a = k <;> simp [del, keys, hak] at ih ⊢ <;> omega

theorem allNames_del_length (ps : Prices) (t : Commodity) :
    (allNames (del t ps)).length + (keys ((find t ps).getD [])).length ≤ (allNames ps).length := by
  induction ps with
  | nil => simp [del, allNames, find, keys]
  | cons e rest ih =>
    obtain ⟨a, b⟩ := e
    by_cases hak : a = t
    · subst hak
      have hd : (allNames (del a rest)).length ≤ (allNames rest).length := by omega
      simp [del, allNames, find] at hd ⊢
      omega
    · simp [del, allNames, find, hak] at ih ⊢
      omega

theorem allNames_addPrice_length (ps : Prices) (t c : Commodity) (p : Rat) :
    (allNames (addPrice ps t c p)).length ≤ (allNames ps).length + 1 := by
  have h1 := allNames_del_length ps t
  have h2 := keys_del_length ((find t ps).getD []) c
  simp [addPrice, Prices.set, allNames, keys] at h1 h2 ⊢
  omega

theorem allNames_insertAll_length : ∀ (ds : List Decl) (m m' : Prices), insertAll m ds = some m' →
    (allNames m').length ≤ (allNames m).length + 2 * ds.length := by
  intro ds
  induction ds with
  | nil => intro m m' h; simp [insertAll] at h; subst h; simp
  | cons d ds ih =>
    intro m m' h
    simp only [insertAll] at h
    cases hm : Prices.insert m d with
    | none => rw [hm] at h; cases h
    | some m1 =>
      rw [hm] at h
      have := ih m1 m' h
      unfold Prices.insert at hm
      split at hm
      · cases hm
      · injection hm with hm
        have a1 := allNames_addPrice_length m d.target d.commodity d.price
        have a2 := allNames_addPrice_length (addPrice m d.target d.commodity d.price) d.commodity d.target (recip d.price)
        rw [hm] at a2
        simp only [List.length_cons]
        omega

theorem unvisited_le (ps : Prices) (res : NPrices) : unvisited ps res ≤ (allNames ps).length := by
  unfold unvisited; exact List.length_filter_le _ _

/-- **the bridge**: on the map built by the Go `Insert` calls, the translated `Normalize` with any fuel from `2·|decls| + 1`
on ends normally (never `outOfFuel`, never an index panic) in a table whose every lookup is the model's. -/
theorem Normalize_ok {cur : String → Bool} {decls : List Decl} {g : price.Prices}
    (h : insertAllGo cur [] decls = GoSem.Outcome.ok (g, none)) (v : Commodity) (fuel : Nat)
    (hf : 2 * decls.length + 1 ≤ fuel) :
    ∃ ps N, insertAll [] decls = some ps ∧ price.Prices.Normalize g (cGo cur v) fuel = GoSem.Outcome.ok N ∧
      NPEquiv cur N (normalize ps v) := by
  obtain ⟨ps, hps, he⟩ := insertAllGo_ok h
  have hb := allNames_insertAll_length decls [] ps hps
  have hu := unvisited_le ps [(v, 1)]
  have h0 : (allNames ([] : Prices)).length = 0 := rfl
  rw [h0] at hb
  obtain ⟨N, hN, hn⟩ := Normalize_agrees cur he v fuel (by omega)
  exact ⟨ps, N, hps, hN, hn⟩

/-- the same for every map equivalent to a model map and every fuel above the model's measure (the general form) -/
theorem Normalize_ok_of_equiv {cur : String → Bool} {g : price.Prices} {ps : Prices} (he : PEquivS cur g ps)
    (v : Commodity) (fuel : Nat) (hf : unvisited ps [(v, 1)] + 1 ≤ fuel) :
    ∃ N, price.Prices.Normalize g (cGo cur v) fuel = GoSem.Outcome.ok N ∧ NPEquiv cur N (normalize ps v) :=
  Normalize_agrees cur he v fuel hf

/-- reading a table through the generated `Price`: a price and no error, or the zero decimal and the error -/
theorem Price_some {cur : String → Bool} {N : price.NormalizedPrices} {M : NPrices} (h : NPEquiv cur N M) (c : Commodity)
    (x : Rat) : price.NormalizedPrices.Price N (cGo cur c) = (x, none) ↔ find c M = some x := by
  rw [Price_agrees cur N M h c]
  unfold npPrice
  cases find c M <;> simp

theorem Price_error {cur : String → Bool} {N : price.NormalizedPrices} {M : NPrices} (h : NPEquiv cur N M) (c : Commodity) :
    price.NormalizedPrices.Price N (cGo cur c) = (0, some ⟨"no price found for %v in %v"⟩) ↔ find c M = none := by
  rw [Price_agrees cur N M h c]
  unfold npPrice
  cases find c M <;> simp

/-- **self**: the valuation commodity has price 1 -/
theorem C12_self_go {cur : String → Bool} {decls : List Decl} {g : price.Prices} {N : price.NormalizedPrices}
    {v : Commodity} {fuel : Nat} (h : insertAllGo cur [] decls = GoSem.Outcome.ok (g, none))
    (hf : 2 * decls.length + 1 ≤ fuel) (hN : price.Prices.Normalize g (cGo cur v) fuel = GoSem.Outcome.ok N) :
    price.NormalizedPrices.Price N (cGo cur v) = (1, none) := by
  obtain ⟨ps, N', hps, hN', hn⟩ := Normalize_ok h v fuel hf
  rw [hN] at hN'; injection hN' with e; subst e
  exact (Price_some hn v 1).mpr (C12.C12_self decls ps v hps)

/-- **direct**: a commodity whose pair with `v` is declared gets the latest declared price of the pair, as the generated
`Multiply(latest, 1)` -/
theorem C12_direct_go {cur : String → Bool} {decls : List Decl} {g : price.Prices} {N : price.NormalizedPrices}
    {v : Commodity} {fuel : Nat} (h : insertAllGo cur [] decls = GoSem.Outcome.ok (g, none))
    (hf : 2 * decls.length + 1 ≤ fuel) (hN : price.Prices.Normalize g (cGo cur v) fuel = GoSem.Outcome.ok N)
    (c : Commodity) (p : Rat) (hcv : c ≠ v) (hl : latest decls v c = some p) :
    price.NormalizedPrices.Price N (cGo cur c) = (price.Multiply p 1, none) := by
  obtain ⟨ps, N', hps, hN', hn⟩ := Normalize_ok h v fuel hf
  rw [hN] at hN'; injection hN' with e; subst e
  rw [Multiply_agrees]
  exact (Price_some hn c _).mpr (C12.C12_direct decls ps v c p hps hcv hl)

/-- … the declared price exactly whenever cutting it to 8 decimals does not change it (the full clause is false for the
code as it stands: known finding `direct-price-cut-to-8-decimals`) -/
theorem C12_direct_exact_go_partial {cur : String → Bool} {decls : List Decl} {g : price.Prices}
    {N : price.NormalizedPrices} {v : Commodity} {fuel : Nat}
    (h : insertAllGo cur [] decls = GoSem.Outcome.ok (g, none))
    (hf : 2 * decls.length + 1 ≤ fuel) (hN : price.Prices.Normalize g (cGo cur v) fuel = GoSem.Outcome.ok N)
    (c : Commodity) (p : Rat) (hcv : c ≠ v) (hl : latest decls v c = some p) (h8 : trunc 8 p = p) :
    price.NormalizedPrices.Price N (cGo cur c) = (p, none) := by
  obtain ⟨ps, N', hps, hN', hn⟩ := Normalize_ok h v fuel hf
  rw [hN] at hN'; injection hN' with e; subst e
  exact (Price_some hn c _).mpr (C12.C12_direct_exact_partial decls ps v c p hps hcv hl h8)

/-- declared the other way round (`price v p c`, not redeclared), `c` gets the stored reciprocal `Truncate(8)(Div(1, p))` -/
theorem C12_direct_reciprocal_go {cur : String → Bool} (pre post : List Decl) (d : Decl) {g : price.Prices}
    {N : price.NormalizedPrices} {fuel : Nat}
    (h : insertAllGo cur [] (pre ++ d :: post) = GoSem.Outcome.ok (g, none))
    (hf : 2 * (pre ++ d :: post).length + 1 ≤ fuel)
    (hN : price.Prices.Normalize g (cGo cur d.commodity) fuel = GoSem.Outcome.ok N)
    (hne : d.commodity ≠ d.target) (hpost : ∀ d' ∈ post, ¬ mentions d' d.commodity d.target) :
    price.NormalizedPrices.Price N (cGo cur d.target) = (recip d.price, none) := by
  obtain ⟨ps, N', hps, hN', hn⟩ := Normalize_ok h d.commodity fuel hf
  rw [hN] at hN'; injection hN' with e; subst e
  exact (Price_some hn _ _).mpr (C12.C12_direct_reciprocal pre post d ps hps hne hpost)

/-- **chain**: any price the generated `Price` returns is the fold of `Multiply` along a simple chain of latest declared
prices starting at `v` (`chainFrom` folds the model's `multiply`, which is the generated `Multiply`: `Multiply_agrees`) -/
theorem C12_chain_go {cur : String → Bool} {decls : List Decl} {g : price.Prices} {N : price.NormalizedPrices}
    {v : Commodity} {fuel : Nat} (h : insertAllGo cur [] decls = GoSem.Outcome.ok (g, none))
    (hf : 2 * decls.length + 1 ≤ fuel) (hN : price.Prices.Normalize g (cGo cur v) fuel = GoSem.Outcome.ok N)
    (c : Commodity) (x : Rat) (hx : price.NormalizedPrices.Price N (cGo cur c) = (x, none)) :
    ∃ path, chainFrom (latest decls) v 1 path = some (c, x) ∧ (v :: path).Nodup := by
  obtain ⟨ps, N', hps, hN', hn⟩ := Normalize_ok h v fuel hf
  rw [hN] at hN'; injection hN' with e; subst e
  exact C12.C12_chain decls ps v c x hps ((Price_some hn c x).mp hx)

/-- **unreachable**: `Price` answers "no price found" exactly for the commodities that no chain of declarations connects
to `v` … -/
theorem C12_unreachable_go {cur : String → Bool} {decls : List Decl} {g : price.Prices} {N : price.NormalizedPrices}
    {v : Commodity} {fuel : Nat} (h : insertAllGo cur [] decls = GoSem.Outcome.ok (g, none))
    (hf : 2 * decls.length + 1 ≤ fuel) (hN : price.Prices.Normalize g (cGo cur v) fuel = GoSem.Outcome.ok N)
    (c : Commodity) :
    price.NormalizedPrices.Price N (cGo cur c) = (0, some ⟨"no price found for %v in %v"⟩)
      ↔ ¬ Connected (latest decls) v c := by
  obtain ⟨ps, N', hps, hN', hn⟩ := Normalize_ok h v fuel hf
  rw [hN] at hN'; injection hN' with e; subst e
  rw [Price_error hn c]
  exact C12.C12_unreachable decls ps v c hps

/-- … and `Valuate` fails exactly then; otherwise it is `Multiply(amount, price)` -/
theorem C12_valuate_go {cur : String → Bool} {decls : List Decl} {g : price.Prices} {N : price.NormalizedPrices}
    {v : Commodity} {fuel : Nat} (h : insertAllGo cur [] decls = GoSem.Outcome.ok (g, none))
    (hf : 2 * decls.length + 1 ≤ fuel) (hN : price.Prices.Normalize g (cGo cur v) fuel = GoSem.Outcome.ok N)
    (c : Commodity) (a : Rat) :
    (¬ Connected (latest decls) v c →
      price.NormalizedPrices.Valuate N (cGo cur c) a = (0, some ⟨"no price found for %v in %v"⟩)) ∧
    (∀ p, price.NormalizedPrices.Price N (cGo cur c) = (p, none) →
      price.NormalizedPrices.Valuate N (cGo cur c) a = (price.Multiply a p, none)) := by
  obtain ⟨ps, N', hps, hN', hn⟩ := Normalize_ok h v fuel hf
  rw [hN] at hN'; injection hN' with e; subst e
  have hv := Valuate_agrees cur N _ hn c a
  constructor
  · intro hc
    have := (C12.C12_unreachable decls ps v c hps).mpr hc
    rw [hv]; unfold npValuate; rw [this]
  · intro p hp
    have := (Price_some hn c p).mp hp
    rw [hv, Multiply_agrees]; unfold npValuate; rw [this]

/-- **zero rejected**: the Go `Insert` calls fail — with the "invalid price" error, never a panic — exactly when some
declaration has a zero price; otherwise they all succeed -/
theorem C12_zero_rejected_go (cur : String → Bool) (decls : List Decl) :
    ((∃ d ∈ decls, d.price = 0) ∧
      ∃ g, insertAllGo cur [] decls = GoSem.Outcome.ok (g, some ⟨"invalid price %s for commodity %s in %s"⟩)) ∨
    ((∀ d ∈ decls, d.price ≠ 0) ∧ ∃ g, insertAllGo cur [] decls = GoSem.Outcome.ok (g, none)) := by
  have ha := insertAllGo_agrees cur decls [] [] (PEquivS_nil cur)
  have hz := C12.C12_zero_rejected_all decls
  cases hI : insertAllGo cur [] decls with
  | ok r =>
    obtain ⟨g, e⟩ := r
    rw [hI] at ha
    cases hm : insertAll [] decls with
    | none =>
      rw [hm] at ha
      cases e with
      | none => simp at ha
      | some e => simp at ha; subst ha; exact Or.inl ⟨hz.mp hm, g, rfl⟩
    | some ps =>
      rw [hm] at ha
      cases e with
      | none =>
        right
        refine ⟨?_, g, rfl⟩
        intro d hd h0
        have := hz.mpr ⟨d, hd, h0⟩
        rw [hm] at this; cases this
      | some e => simp at ha
  | panic m => rw [hI] at ha; cases hm : insertAll [] decls <;> simp at ha
  | outOfFuel => rw [hI] at ha; cases hm : insertAll [] decls <;> simp at ha

/-! ### map order

The entries of a Go map have no order; an association list has one.  `GoSame g g'`: `g'` holds the entries of `g` in another
order, outer and inner (`GoWF`: no key twice — what `m[k] = v` maintains).  Every such `g'` is equivalent to the same model map,
so the translated `Normalize` gives the same prices on it. -/

/-- no key twice, outer and inner -/
def GoWF (g : price.Prices) : Prop := (g.map Prod.fst).Nodup ∧ ∀ e ∈ g, (e.2.map Prod.fst).Nodup

/-- the same entries in another order: the outer list permuted, then every inner list permuted -/
inductive InnerSame : price.Prices → price.Prices → Prop
  | nil : InnerSame [] []
  | cons {k : commodity.Commodity} {i i' : price.NormalizedPrices} {l l' : price.Prices} :
      i.Perm i' → InnerSame l l' → InnerSame ((k, i) :: l) ((k, i') :: l')

def GoSame (g g' : price.Prices) : Prop := ∃ g1 : price.Prices, g.Perm g1 ∧ InnerSame g1 g'

theorem find?_eq_some_of_mem {κ ν : Type} [DecidableEq κ] : ∀ (m : Knut.AMap κ ν), (m.map Prod.fst).Nodup →
    ∀ k v, (k, v) ∈ m → Knut.AMap.find? m k = some v := by
  intro m
  induction m with
  | nil => intro _ k v h; simp at h
  | cons e rest ih =>
    obtain ⟨a, b⟩ := e
    intro hn k v h
    simp only [List.map_cons, List.nodup_cons] at hn
    rcases List.mem_cons.mp h with h | h
    · injection h with h1 h2; subst h1; subst h2; simp [Knut.AMap.find?]
    · have : a ≠ k := by
        intro e; subst e
        exact hn.1 (List.mem_map.mpr ⟨(a, v), h, rfl⟩)
      simp only [Knut.AMap.find?, this, if_false]
      exact ih hn.2 k v h

theorem mem_of_find?_eq_some {κ ν : Type} [DecidableEq κ] : ∀ (m : Knut.AMap κ ν) k v,
    Knut.AMap.find? m k = some v → (k, v) ∈ m := by
  intro m
  induction m with
  | nil => intro k v h; simp at h
  | cons e rest ih =>
    obtain ⟨a, b⟩ := e
    intro k v h
    by_cases hak : a = k
    · simp only [Knut.AMap.find?, hak, if_true, Option.some.injEq] at h
      subst hak; subst h; simp
    · simp only [Knut.AMap.find?, hak, if_false] at h
      exact List.mem_cons_of_mem _ (ih k v h)

theorem find?_perm {κ ν : Type} [DecidableEq κ] {m m' : Knut.AMap κ ν} (hp : m.Perm m') (hn : (m.map Prod.fst).Nodup)
    (k : κ) : Knut.AMap.find? m' k = Knut.AMap.find? m k := by
  have hn' : (m'.map Prod.fst).Nodup := (hp.map Prod.fst).nodup_iff.mp hn
  cases h : Knut.AMap.find? m k with
  | some v => exact find?_eq_some_of_mem m' hn' k v (hp.mem_iff.mp (mem_of_find?_eq_some m k v h))
  | none =>
    cases h' : Knut.AMap.find? m' k with
    | none => rfl
    | some v =>
      have := find?_eq_some_of_mem m hn k v (hp.mem_iff.mpr (mem_of_find?_eq_some m' k v h'))
      rw [h] at this; cases this

theorem find?_innerSame : ∀ (g1 g' : price.Prices), InnerSame g1 g' → ∀ k,
    match Knut.AMap.find? g1 k, Knut.AMap.find? g' k with
    | some i, some i' => i.Perm i' ∧ (k, i) ∈ g1
    | none, none => True
    | _, _ => False := by
  intro g1 g' h
  induction h with
  | nil => intro k; simp
  | @cons a b b' l l' h2 _ ih =>
    intro k
    by_cases hak : a = k
    · subst hak; simp [Knut.AMap.find?, h2]
    · simp only [Knut.AMap.find?, hak, if_false]
      have := ih k
      cases hl : Knut.AMap.find? l k <;> cases hl' : Knut.AMap.find? l' k <;> simp [hl, hl'] at this ⊢
      exact ⟨this.1, Or.inr this.2⟩

/-- a reordering of a Go map stands for the same model map -/
theorem PEquivS_of_same {cur : String → Bool} {g g' : price.Prices} {m : Prices} (h : PEquivS cur g m) (hw : GoWF g)
    (hs : GoSame g g') : PEquivS cur g' m := by
  obtain ⟨g1, hp, hf⟩ := hs
  intro a
  have h1 := find?_perm hp hw.1 (cGo cur a)
  have h2 := find?_innerSame g1 g' hf (cGo cur a)
  have h3 := h a
  rw [h1] at h2
  cases hg : Knut.AMap.find? g (cGo cur a) with
  | none =>
    rw [hg] at h2 h3
    cases hg' : Knut.AMap.find? g' (cGo cur a) with
    | none => cases hm : find a m <;> simp [hm] at h3 ⊢
    | some i' => rw [hg'] at h2; simp at h2
  | some i =>
    rw [hg] at h2 h3
    cases hg' : Knut.AMap.find? g' (cGo cur a) with
    | none => rw [hg'] at h2; simp at h2
    | some i' =>
      rw [hg'] at h2
      simp only at h2
      cases hm : find a m with
      | none => rw [hm] at h3; simp at h3
      | some mi =>
        rw [hm] at h3
        simp only at h3 ⊢
        have hin : (i.map Prod.fst).Nodup := hw.2 _ (hp.mem_iff.mpr h2.2)
        refine ⟨?_, ?_, h3.nodup⟩
        · intro c; rw [find?_perm h2.1 hin]; exact h3.lookup c
        · exact ((h2.1.map Prod.fst).symm).trans h3.keys

theorem find?_none_of_not_mem {κ ν : Type} [DecidableEq κ] (m : Knut.AMap κ ν) (k : κ) :
    Knut.AMap.find? m k = none ↔ k ∉ m.map Prod.fst := by
  induction m with
  | nil => simp
  | cons e rest ih =>
    obtain ⟨a, b⟩ := e
    by_cases hak : a = k
    · simp [Knut.AMap.find?, hak]
    · simp only [Knut.AMap.find?, hak, if_false, ih, List.map_cons, List.mem_cons, not_or]
      exact ⟨fun h => ⟨fun e => hak e.symm, h⟩, fun h => h.2⟩

theorem nodup_keys_set {κ ν : Type} [DecidableEq κ] (m : Knut.AMap κ ν) (k : κ) (v : ν) (h : (m.map Prod.fst).Nodup) :
    ((Knut.AMap.set m k v).map Prod.fst).Nodup := by
  rw [keys_amap_set]
  split
  · exact h
  · rename_i hs
    have : k ∉ m.map Prod.fst := by
      apply (find?_none_of_not_mem m k).mp
      cases hf : Knut.AMap.find? m k with
      | none => rfl
      | some x => simp [hf] at hs
    exact List.nodup_append.mpr ⟨h, by simp, by intro a ha b hb; simp at hb; subst hb; intro e; subst e; exact this ha⟩

theorem mem_set {κ ν : Type} [DecidableEq κ] : ∀ (m : Knut.AMap κ ν) (k : κ) (v : ν) (e : κ × ν),
    e ∈ Knut.AMap.set m k v → e = (k, v) ∨ e ∈ m := by
  intro m
  induction m with
  | nil => intro k v e h; simp [Knut.AMap.set] at h; exact Or.inl h
  | cons x rest ih =>
    obtain ⟨a, b⟩ := x
    intro k v e h
    by_cases hak : a = k
    · simp only [Knut.AMap.set, hak, if_true, List.mem_cons] at h
      rcases h with h | h
      · exact Or.inl h
      · exact Or.inr (List.mem_cons_of_mem _ h)
    · simp only [Knut.AMap.set, hak, if_false, List.mem_cons] at h
      rcases h with h | h
      · exact Or.inr (by rw [h]; exact List.mem_cons_self)
      · rcases ih k v e h with h | h
        · exact Or.inl h
        · exact Or.inr (List.mem_cons_of_mem _ h)

theorem GoWF_addPrice (g : price.Prices) (t c : commodity.Commodity) (p : Rat) (h : GoWF g) :
    GoWF (price.Prices.addPrice g t c p) := by
  unfold price.Prices.addPrice
  refine ⟨nodup_keys_set _ _ _ h.1, ?_⟩
  intro e he
  rcases mem_set _ _ _ e he with he | he
  · subst he
    apply nodup_keys_set
    unfold GoSem.getDefault
    cases hf : Knut.AMap.find? g t with
    | none => simp [price.newNormalizedPrices]
    | some i => exact h.2 _ (mem_of_find?_eq_some g t i hf)
  · exact h.2 e he

theorem GoWF_Insert {g g' : price.Prices} {c t : commodity.Commodity} {p : Rat} {e : Option GoSem.Error} (h : GoWF g)
    (hi : price.Prices.Insert g c p t = GoSem.Outcome.ok (g', e)) : GoWF g' := by
  unfold price.Prices.Insert at hi
  split at hi
  · injection hi with hi; injection hi with h1 _; subst h1; exact h
  · cases hd : GoSem.Decimal.Div price.one p with
    | ok q =>
      simp only [hd, GoSem.Outcome.bind] at hi
      injection hi with hi; injection hi with h1 _; subst h1
      exact GoWF_addPrice _ _ _ _ (GoWF_addPrice _ _ _ _ h)
    | panic m => simp [hd, GoSem.Outcome.bind] at hi
    | outOfFuel => simp [hd, GoSem.Outcome.bind] at hi

/-- the maps built by `Insert` calls have no key twice -/
theorem GoWF_insertAllGo (cur : String → Bool) : ∀ (ds : List Decl) (g g' : price.Prices) (e : Option GoSem.Error),
    GoWF g → insertAllGo cur g ds = GoSem.Outcome.ok (g', e) → GoWF g' := by
  intro ds
  induction ds with
  | nil => intro g g' e h hi; simp [insertAllGo] at hi; rw [← hi.1]; exact h
  | cons d ds ih =>
    intro g g' e h hi
    simp only [insertAllGo] at hi
    cases hI : price.Prices.Insert g (cGo cur d.commodity) d.price (cGo cur d.target) with
    | ok r =>
      obtain ⟨g1, e1⟩ := r
      rw [hI] at hi
      simp only [GoSem.Outcome.bind] at hi
      have hw := GoWF_Insert h hI
      cases e1 with
      | none => exact ih g1 g' e hw hi
      | some e1 => simp at hi; rw [← hi.1]; exact hw
    | panic m => rw [hI] at hi; simp [GoSem.Outcome.bind] at hi
    | outOfFuel => rw [hI] at hi; simp [GoSem.Outcome.bind] at hi

/-- **map order**: whatever order the entries of the Go maps are enumerated in (any reordering `g'` of the map `g` the
`Insert` calls built, outer and inner), the translated `Normalize` ends normally and `Price` answers the same for every
commodity. -/
theorem C12_order_irrelevant_go {cur : String → Bool} {decls : List Decl} {g g' : price.Prices}
    {N : price.NormalizedPrices} {v : Commodity} {fuel : Nat}
    (h : insertAllGo cur [] decls = GoSem.Outcome.ok (g, none)) (hs : GoSame g g')
    (hf : 2 * decls.length + 1 ≤ fuel) (hN : price.Prices.Normalize g (cGo cur v) fuel = GoSem.Outcome.ok N) :
    ∃ N', price.Prices.Normalize g' (cGo cur v) fuel = GoSem.Outcome.ok N' ∧
      ∀ c, price.NormalizedPrices.Price N' (cGo cur c) = price.NormalizedPrices.Price N (cGo cur c) := by
  obtain ⟨ps, hps, he⟩ := insertAllGo_ok h
  have hw : GoWF g := GoWF_insertAllGo cur decls [] g none ⟨by simp, by simp⟩ h
  have he' := PEquivS_of_same he hw hs
  have hb := allNames_insertAll_length decls [] ps hps
  have hu := unvisited_le ps [(v, 1)]
  have h0 : (allNames ([] : Prices)).length = 0 := rfl
  rw [h0] at hb
  obtain ⟨N1, hN1, hn1⟩ := Normalize_agrees cur he v fuel (by omega)
  obtain ⟨N2, hN2, hn2⟩ := Normalize_agrees cur he' v fuel (by omega)
  rw [hN] at hN1; injection hN1 with e; subst e
  refine ⟨N2, hN2, ?_⟩
  intro c
  rw [Price_agrees cur _ _ hn1 c, Price_agrees cur _ _ hn2 c]

/-- the fuel does not show either: two adequate fuels give the same prices -/
theorem C12_fuel_irrelevant_go {cur : String → Bool} {decls : List Decl} {g : price.Prices} {v : Commodity}
    {f1 f2 : Nat} (h : insertAllGo cur [] decls = GoSem.Outcome.ok (g, none))
    (h1 : 2 * decls.length + 1 ≤ f1) (h2 : 2 * decls.length + 1 ≤ f2) :
    ∃ N1 N2, price.Prices.Normalize g (cGo cur v) f1 = GoSem.Outcome.ok N1 ∧
      price.Prices.Normalize g (cGo cur v) f2 = GoSem.Outcome.ok N2 ∧
      ∀ c, price.NormalizedPrices.Price N1 (cGo cur c) = price.NormalizedPrices.Price N2 (cGo cur c) := by
  obtain ⟨ps, N1, hps, hN1, hn1⟩ := Normalize_ok h v f1 h1
  obtain ⟨ps', N2, hps', hN2, hn2⟩ := Normalize_ok h v f2 h2
  rw [hps] at hps'; injection hps' with e; subst e
  refine ⟨N1, N2, hN1, hN2, ?_⟩
  intro c
  rw [Price_agrees cur _ _ hn1 c, Price_agrees cur _ _ hn2 c]

/-! ### Non-vacuity: the witness of the pre-repair defect (`AAA 2 CHF`, `BBB 3 CHF`, `AAA 5 BBB`) run through the
generated definitions: the three `Insert` calls succeed, `Normalize` with fuel 7 = 2·3 + 1 ends, and `Price` answers
`Multiply(2, 1)` = 2 for AAA (not 15). -/
def cur0 : String → Bool := fun _ => false

example : ∃ g N, insertAllGo cur0 [] C12.witness = GoSem.Outcome.ok (g, none) ∧
    price.Prices.Normalize g (cGo cur0 "CHF") 7 = GoSem.Outcome.ok N ∧
    price.NormalizedPrices.Price N (cGo cur0 "AAA") = (price.Multiply 2 1, none) ∧
    price.NormalizedPrices.Price N (cGo cur0 "CHF") = (1, none) := by
  rcases C12_zero_rejected_go cur0 C12.witness with ⟨⟨d, hd, h0⟩, _⟩ | ⟨_, g, hg⟩
  · exfalso; revert d; decide
  · obtain ⟨ps, N, hps, hN, hn⟩ := Normalize_ok hg "CHF" 7 (by decide)
    exact ⟨g, N, hg, hN, C12_direct_go hg (by decide) hN "AAA" 2 (by decide) (by decide),
      C12_self_go hg (by decide) hN⟩
example : price.Multiply 2 1 = 2 := by decide +kernel
example : insertAllGo cur0 [] [⟨"AAA", 0, "CHF"⟩] =
    GoSem.Outcome.ok ([], some ⟨"invalid price %s for commodity %s in %s"⟩) := by decide +kernel

end Knut.C12Go
