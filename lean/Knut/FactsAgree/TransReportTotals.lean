import Knut.FactsAgree.TransReport
/-!
# `Report.Totals` (translated) = per mapped key the sum over all inserts of the section

`Totals(m)` runs `PostOrder` over both trees with a closure that calls `n.Value.Amounts.SumIntoBy(total, nil, m)` for every
node: two nested iteration orders per node (the node's amounts, the intermediate total for the deletion loop) and the order
of the children of every node are parameters of the translated function.  `Totals_agrees`: for EVERY such orders (each
node's amounts and children once; the deletion loops reaching every key that can occur) the trees are unchanged, and each
total holds, for every key `x`, the sum of the inserted amounts whose key `m` maps to `x` — the key being absent exactly
when that sum is zero (`Clean`).  The model's `Total` rows (`BalanceReport.cellAt`, `valsCommodities` over all entries of a
section) are these sums.
-/
namespace Knut.FactsAgree.TransReport
open Knut Knut.GoSem
open Knut.Generated.Go
open Knut.FactsAgree.TransAmountsSum
open Knut.FactsAgree.TransQuery (entryOf)

/-! ## subtrees -/

/-- every node of the subtree `n` hanging at the path `p` is the node of its path -/
def RepAt (L : Log) (p : List String) (n : Node) : Prop := ∀ q m, MNode.nodeAt? n q = some m → Local L (p ++ q) m

theorem RepAt_root {L : Log} {T : Node} : Rep L T ↔ RepAt L [] T := by
  unfold Rep RepAt; simp

theorem RepAt_child {L : Log} {p : List String} {n : Node} (h : RepAt L p n) {s : String} {c : Node}
    (hc : AMap.find? n.Children s = some c) : RepAt L (p ++ [s]) c := by
  intro q m hm
  have : MNode.nodeAt? n (s :: q) = some m := by rw [MNode.nodeAt?_cons, hc]; exact hm
  simpa [List.append_assoc] using h (s :: q) m this

/-- the inserts under the path `p` or below it -/
def under (L : Log) (p : List String) : Log := L.filter (fun e => p.isPrefixOf e.1.Account.segments)

theorem logSum_cons (e : amounts.Key × Rat) (L : Log) (P : amounts.Key → Bool) :
    logSum (e :: L) P = (if P e.1 then e.2 else 0) + logSum L P := by
  unfold logSum
  by_cases h : P e.1 <;> simp [h, Rat.zero_add]

theorem sum_map_add {α : Type} (l : List α) (a b : α → Rat) :
    (l.map (fun s => a s + b s)).sum = (l.map a).sum + (l.map b).sum := by
  induction l with
  | nil => simp [Rat.add_zero]
  | cons x rest ih => simp only [List.map_cons, List.sum_cons, ih]; grind

theorem sum_map_indicator (ks : List String) (hn : ks.Nodup) (s0 : String) (v : Rat) :
    (ks.map (fun s => if s = s0 then v else 0)).sum = if s0 ∈ ks then v else 0 := by
  induction ks with
  | nil => rfl
  | cons a rest ih =>
    have hn' := List.nodup_cons.1 hn
    simp only [List.map_cons, List.sum_cons, ih hn'.2, List.mem_cons]
    by_cases ha : a = s0
    · subst ha; simp [hn'.1, Rat.add_zero]
    · have : ¬ s0 = a := fun e => ha e.symm
      simp [ha, this, Rat.zero_add]

theorem sum_map_zero {α : Type} (l : List α) : (l.map (fun _ => (0 : Rat))).sum = 0 := by
  induction l with
  | nil => rfl
  | cons x rest ih => simp [ih, Rat.add_zero]

theorem not_prefix_snoc_self (p : List String) (s : String) : (p ++ [s]).isPrefixOf p = false := by
  apply Bool.eq_false_iff.mpr
  intro h
  rw [List.isPrefixOf_iff_prefix] at h
  have := h.length_le
  simp at this
  omega

/-- **the inserts below a path are its own and those below its children**, as sums: `ks` any duplicate-free list that
contains the next segment of every inserted path below `p` -/
theorem logSum_under_split (L : Log) (p : List String) (ks : List String) (hn : ks.Nodup)
    (hks : ∀ e ∈ L, ∀ s, (p ++ [s]).isPrefixOf e.1.Account.segments = true → s ∈ ks) (P : amounts.Key → Bool) :
    logSum (under L p) P = logSum (ownL L p) P + (ks.map (fun s => logSum (under L (p ++ [s])) P)).sum := by
  induction L with
  | nil => simp [under, ownL, logSum, sum_map_zero, Rat.add_zero]
  | cons e rest ih =>
    have ih' := ih (fun x hx => hks x (List.mem_cons_of_mem _ hx))
    have hu : ∀ q, under (e :: rest) q = if q.isPrefixOf e.1.Account.segments then e :: under rest q else under rest q := by
      intro q; unfold under; rw [List.filter_cons]
    have ho : ownL (e :: rest) p = if e.1.Account.segments = p then e :: ownL rest p else ownL rest p := by
      unfold ownL; rw [List.filter_cons]; simp
    by_cases hp : p.isPrefixOf e.1.Account.segments = true
    · by_cases heq : e.1.Account.segments = p
      · -- an own insert of `p`
        have hch : ∀ s, (p ++ [s]).isPrefixOf e.1.Account.segments = false := by
          intro s; rw [heq]; exact not_prefix_snoc_self p s
        have h1 : under (e :: rest) p = e :: under rest p := by rw [hu p, if_pos hp]
        have h2 : ownL (e :: rest) p = e :: ownL rest p := by rw [ho, if_pos heq]
        have hmap : (ks.map (fun s => logSum (under (e :: rest) (p ++ [s])) P)) = ks.map (fun s => logSum (under rest (p ++ [s])) P) := by
          apply List.map_congr_left
          intro s _
          rw [hu, hch s]; rfl
        rw [h1, h2, hmap, logSum_cons, logSum_cons, ih']
        grind
      · -- an insert below the child `s0`
        obtain ⟨t, ht⟩ := List.isPrefixOf_iff_prefix.1 hp
        cases t with
        | nil => exact absurd (by simpa using ht.symm) heq
        | cons s0 t' =>
          have hs0 : (p ++ [s0]).isPrefixOf e.1.Account.segments = true := by
            rw [List.isPrefixOf_iff_prefix]; exact ⟨t', by simpa [List.append_assoc] using ht⟩
          have hmem : s0 ∈ ks := hks e List.mem_cons_self s0 hs0
          have hch : ∀ s, (p ++ [s]).isPrefixOf e.1.Account.segments = decide (s = s0) := by
            intro s
            by_cases hs : s = s0
            · subst hs; simp [hs0]
            · simp only [hs, decide_false]
              apply Bool.eq_false_iff.mpr
              intro h
              obtain ⟨w, hw⟩ := List.isPrefixOf_iff_prefix.1 h
              have : p ++ (s :: w) = p ++ (s0 :: t') := by simpa [List.append_assoc] using hw.trans ht.symm
              have := List.append_cancel_left this
              injection this with h1 _
              exact hs h1
          have hmap : (ks.map (fun s => logSum (under (e :: rest) (p ++ [s])) P)) =
              ks.map (fun s => (if s = s0 then (if P e.1 then e.2 else 0) else 0) + logSum (under rest (p ++ [s])) P) := by
            apply List.map_congr_left
            intro s _
            rw [hu, hch s]
            by_cases hs : s = s0
            · simp [hs, logSum_cons]
            · simp [hs, Rat.zero_add]
          have h1 : under (e :: rest) p = e :: under rest p := by rw [hu p, if_pos hp]
          have h2 : ownL (e :: rest) p = ownL rest p := by rw [ho, if_neg heq]
          rw [h1, h2, hmap, logSum_cons, sum_map_add, sum_map_indicator ks hn, if_pos hmem, ih']
          grind
    · -- an insert elsewhere
      have hp' : p.isPrefixOf e.1.Account.segments = false := Bool.eq_false_iff.mpr hp
      have heq : ¬ e.1.Account.segments = p := by
        intro h; rw [h, isPrefixOf_self] at hp'; exact Bool.noConfusion hp'
      have hch : ∀ s, (p ++ [s]).isPrefixOf e.1.Account.segments = false := by
        intro s
        apply Bool.eq_false_iff.mpr
        intro h
        rw [isPrefixOf_snoc_of p s _ h] at hp'
        exact Bool.noConfusion hp'
      have h1 : under (e :: rest) p = under rest p := by rw [hu p, hp']; rfl
      have h2 : ownL (e :: rest) p = ownL rest p := by rw [ho, if_neg heq]
      have hmap : (ks.map (fun s => logSum (under (e :: rest) (p ++ [s])) P)) = ks.map (fun s => logSum (under rest (p ++ [s])) P) := by
        apply List.map_congr_left
        intro s _
        rw [hu, hch s]; rfl
      rw [h1, h2, hmap, ih']


/-! ## the traversal -/

/-- the closure `Totals` passes to `PostOrder`: the node's amounts are summed into the total; the node is left alone -/
def totalsStep (o1 o2 : List String → List amounts.Key) (m : mapper.Mapper amounts.Key) :
    List String → amounts.Amounts → Node → GoSem.Outcome (amounts.Amounts × Node) :=
  fun path st n => (amounts.Amounts.SumIntoBy n.Value.Amounts st none m (o1 path) (o2 path)).bind fun t => GoSem.Outcome.ok (t, n)

theorem post1_eq (o1 o2 : List String → List amounts.Key) (m : mapper.Mapper amounts.Key) :
    balance.Report.Totals.post1 o1 o2 m = totalsStep o1 o2 m := rfl
theorem post2_eq (o1 o2 : List String → List amounts.Key) (m : mapper.Mapper amounts.Key) :
    balance.Report.Totals.post2 o1 o2 m = totalsStep o1 o2 m := rfl

/-- the keys a total can hold: those it started with and the images of the inserted keys -/
def possible (al0 : amounts.Amounts) (L : Log) (mf : amounts.Key → amounts.Key) (x : amounts.Key) : Prop :=
  x ∈ AMap.keys al0 ∨ ∃ e ∈ L, mf e.1 = x

/-- the iteration orders of one traversal: every node's amounts and children exactly once, the deletion loops reaching every
possible key -/
structure Orders (L : Log) (al0 : amounts.Amounts) (mf : amounts.Key → amounts.Key) (p : List String) (n : Node)
    (o1 o2 : List String → List amounts.Key) (ord : List String → List String) : Prop where
  amounts : ∀ q m, MNode.nodeAt? n q = some m → (o1 (p ++ q)).Perm (AMap.keys m.Value.Amounts)
  children : ∀ q m, MNode.nodeAt? n q = some m → (ord (p ++ q)).Perm (AMap.keys m.Children)
  deletion : ∀ q x, possible al0 L mf x → x ∈ o2 q

theorem Orders_child {L : Log} {al0 : amounts.Amounts} {mf : amounts.Key → amounts.Key} {p : List String} {n : Node}
    {o1 o2 : List String → List amounts.Key} {ord : List String → List String} (h : Orders L al0 mf p n o1 o2 ord)
    {s : String} {c : Node} (hc : AMap.find? n.Children s = some c) : Orders L al0 mf (p ++ [s]) c o1 o2 ord := by
  refine ⟨fun q m hm => ?_, fun q m hm => ?_, h.deletion⟩
  · have : MNode.nodeAt? n (s :: q) = some m := by rw [MNode.nodeAt?_cons, hc]; exact hm
    simpa [List.append_assoc] using h.amounts (s :: q) m this
  · have : MNode.nodeAt? n (s :: q) = some m := by rw [MNode.nodeAt?_cons, hc]; exact hm
    simpa [List.append_assoc] using h.children (s :: q) m this

theorem logSum_true_and (L : Log) (P : amounts.Key → Bool) : logSum L (fun k => true && P k) = logSum L P := by
  unfold logSum; simp

/-- **the traversal of a subtree**: the tree is unchanged and the total grows, key by key, by the inserts at or below the path -/
theorem totals_postOrderF (L : Log) (al0 : amounts.Amounts) (mf : amounts.Key → amounts.Key)
    (o1 o2 : List String → List amounts.Key) (ord : List String → List String) (fuel : Nat) :
    ∀ (p : List String) (n : Node) (al : amounts.Amounts), MNode.height n ≤ fuel → RepAt L p n → WF al →
      (∀ x ∈ AMap.keys al, possible al0 L mf x) → Orders L al0 mf p n o1 o2 ord →
      ∃ al', MNode.postOrderF (totalsStep o1 o2 (pureFn mf)) ord fuel p al n = GoSem.Outcome.ok (al', n) ∧ WF al' ∧ Clean al' ∧
        (∀ x ∈ AMap.keys al', possible al0 L mf x) ∧
        ∀ x, AMap.get al' x 0 = AMap.get al x 0 + logSum (under L p) (fun k => decide (mf k = x)) := by
  induction fuel with
  | zero =>
    intro p n al hh
    obtain ⟨seg, v, cs, so⟩ := n
    rw [MNode.height_mk] at hh; omega
  | succ fuel ih =>
    intro p n al hh hrep hwf hposs hord
    rw [MNode.postOrderF_succ]
    have hloc : Local L p n := by simpa using hrep [] n rfl
    -- the children, in any order
    have hfold : ∀ (ks : List String) (al : amounts.Amounts), WF al → (∀ x ∈ AMap.keys al, possible al0 L mf x) →
        ∃ al', GoSem.foldlE (MNode.childStep (totalsStep o1 o2 (pureFn mf)) ord fuel p) (al, n.Children) ks = GoSem.Outcome.ok (al', n.Children) ∧
          WF al' ∧ (∀ x ∈ AMap.keys al', possible al0 L mf x) ∧
          ∀ x, AMap.get al' x 0 = AMap.get al x 0 +
            (ks.map (fun s => if s ∈ AMap.keys n.Children then logSum (under L (p ++ [s])) (fun k => decide (mf k = x)) else 0)).sum := by
      intro ks
      induction ks with
      | nil => intro al hw hp; exact ⟨al, rfl, hw, hp, fun x => by simp [Rat.add_zero]⟩
      | cons s rest ihk =>
        intro al hw hp
        simp only [GoSem.foldlE]
        cases hc : AMap.find? n.Children s with
        | none =>
          have hs : s ∉ AMap.keys n.Children := (find?_eq_none _ _).1 hc
          obtain ⟨al', h1, h2, h3, h4⟩ := ihk al hw hp
          refine ⟨al', by rw [MNode.childStep_none _ _ _ _ _ _ hc]; exact h1, h2, h3, fun x => ?_⟩
          rw [h4 x]; simp [hs, Rat.zero_add]
        | some c =>
          have hs : s ∈ AMap.keys n.Children := mem_keys_of_find? hc
          have hhc : MNode.height c ≤ fuel := Nat.le_of_lt_succ (Nat.lt_of_lt_of_le (MNode.height_child_lt hc) hh)
          obtain ⟨al1, g1, g2, _, g4, g5⟩ := ih (p ++ [s]) c al hhc (RepAt_child hrep hc) hw hp (Orders_child hord hc)
          obtain ⟨al', h1, h2, h3, h4⟩ := ihk al1 g2 g4
          refine ⟨al', ?_, h2, h3, fun x => ?_⟩
          · rw [MNode.childStep_some _ _ _ _ _ _ c hc]
            simp only [g1, GoSem.Outcome.bind, MNode.set_self _ _ _ hc]; exact h1
          · rw [h4 x, g5 x]; simp only [List.map_cons, List.sum_cons, hs, if_true]; grind
    obtain ⟨al1, h1, h2, h3, h4⟩ := hfold (ord p) al hwf hposs
    rw [h1]
    simp only [GoSem.Outcome.bind]
    simp only [MNode.eta]
    -- the node itself
    have ho1 : (o1 p).Perm (AMap.keys n.Value.Amounts) := by simpa using hord.amounts [] n rfl
    have hown : ∀ e ∈ ownL L p, e ∈ L := fun e he => (List.mem_filter.1 he).1
    have hcov : ∀ x, touched n.Value.Amounts al1 ((none : Option (amounts.Key → Bool)).getD fun _ => true) ((some mf).getD id) x → x ∈ o2 p := by
      intro x hx
      apply hord.deletion p x
      rcases hx with hx | ⟨k, hk, _, hkx⟩
      · exact h3 x hx
      · rw [hloc.amounts, amountsOf_keys] at hk
        obtain ⟨e, he, hek⟩ := hk
        exact Or.inr ⟨e, hown e he, by rw [hek]; exact hkx⟩
    have hwa : WF n.Value.Amounts := by rw [hloc.amounts]; exact amountsOf_wf _
    obtain ⟨r, hr, hw, hcl, hv⟩ := SumIntoBy_val hwa h2 none (some mf) ho1 hcov
    refine ⟨r, ?_, hw, hcl, ?_, fun x => ?_⟩
    · unfold totalsStep
      have : amounts.Amounts.SumIntoBy n.Value.Amounts al1 none (pureFn mf) (o1 p) (o2 p) = GoSem.Outcome.ok r := hr
      rw [this]; simp [GoSem.Outcome.bind]
    · intro x hx
      have := (hcl x).1 hx
      rw [hv x] at this
      by_cases hx1 : x ∈ AMap.keys al1
      · exact h3 x hx1
      · rw [get_of_not_mem hx1, Rat.zero_add] at this
        have : ∃ k ∈ AMap.keys n.Value.Amounts, ((none : Option (amounts.Key → Bool)).getD fun _ => true) k = true ∧ ((some mf).getD id) k = x := by
          apply Classical.byContradiction
          intro hne
          exact this (mappedSum_untouched hne)
        obtain ⟨k, hk, _, hkx⟩ := this
        rw [hloc.amounts, amountsOf_keys] at hk
        obtain ⟨e, he, hek⟩ := hk
        exact Or.inr ⟨e, hown e he, by rw [hek]; exact hkx⟩
    · rw [hv x, h4 x]
      have hms : mappedSum n.Value.Amounts ((none : Option (amounts.Key → Bool)).getD fun _ => true) ((some mf).getD id) x =
          logSum (ownL L p) (fun k => decide (mf k = x)) := by
        unfold mappedSum
        rw [hloc.amounts, total_amountsOf]
        exact logSum_true_and _ _
      have hchildren : ((ord p).map (fun s => if s ∈ AMap.keys n.Children then logSum (under L (p ++ [s])) (fun k => decide (mf k = x)) else 0)).sum =
          ((AMap.keys n.Children).map (fun s => logSum (under L (p ++ [s])) (fun k => decide (mf k = x)))).sum := by
        have hperm : (ord p).Perm (AMap.keys n.Children) := by simpa using hord.children [] n rfl
        rw [ReportPerm.sum_perm (hperm.map _)]
        congr 1
        apply List.map_congr_left
        intro s hs; simp [hs]
      rw [hms, hchildren, logSum_under_split L p (AMap.keys n.Children) hloc.nodup (fun e he s hs => (hloc.children s).2 ⟨e, he, hs⟩)]
      grind


theorem under_nil (L : Log) : under L [] = L := by
  unfold under; simp [List.isPrefixOf]

/-- **`Report.Totals`** on a report whose trees represent the inserts `La` (A+L) and `Le` (E+I+E), for a mapper that is a total
pure function and EVERY iteration order: the report is unchanged; each total is well-formed and `Clean` (no zero entries) and
holds for every key `x` the sum of the inserted amounts of its section whose key the mapper sends to `x` -/
theorem Totals_agrees_of_rep (r : balance.Report) (La Le : Log) (ha : Rep La r.AL) (he : Rep Le r.EIE) (mf : amounts.Key → amounts.Key)
    (o1 o2 o4 o5 : List String → List amounts.Key) (ord3 ord6 : List String → List String)
    (h1 : Orders La [] mf [] r.AL o1 o2 ord3) (h2 : Orders Le [] mf [] r.EIE o4 o5 ord6) :
    ∃ al eie, balance.Report.Totals r (pureFn mf) o1 o2 ord3 o4 o5 ord6 = GoSem.Outcome.ok (r, al, eie) ∧
      WF al ∧ Clean al ∧ (∀ x, AMap.get al x 0 = logSum La (fun k => decide (mf k = x))) ∧
      WF eie ∧ Clean eie ∧ (∀ x, AMap.get eie x 0 = logSum Le (fun k => decide (mf k = x))) := by
  obtain ⟨al, ga, wa, ca, _, va⟩ := totals_postOrderF La [] mf o1 o2 ord3 (MNode.height r.AL) [] r.AL [] (Nat.le_refl _)
    (RepAt_root.1 ha) wf_nil (by simp [AMap.keys]) h1
  obtain ⟨eie, ge, we, ce, _, ve⟩ := totals_postOrderF Le [] mf o4 o5 ord6 (MNode.height r.EIE) [] r.EIE [] (Nat.le_refl _)
    (RepAt_root.1 he) wf_nil (by simp [AMap.keys]) h2
  refine ⟨al, eie, ?_, wa, ca, fun x => ?_, we, ce, fun x => ?_⟩
  · unfold balance.Report.Totals MNode.postOrder
    simp only [post1_eq, post2_eq, ga, ge, GoSem.Outcome.bind]
  · have := va x; rw [under_nil] at this; rw [this]
    simp [AMap.get, AMap.find?, Rat.zero_add]
  · have := ve x; rw [under_nil] at this; rw [this]
    simp [AMap.get, AMap.find?, Rat.zero_add]

/-- **`Report.Totals` after any log of inserts** (`Insert_fold_agrees`) -/
theorem Totals_agrees (part : date.Partition) (log : Log) (mf : amounts.Key → amounts.Key)
    (o1 o2 o4 o5 : List String → List amounts.Key) (ord3 ord6 : List String → List String)
    (h1 : Orders (sec true log) [] mf [] (log.foldl (fun r e => balance.Report.Insert r e.1 e.2) (balance.NewReport part)).AL o1 o2 ord3)
    (h2 : Orders (sec false log) [] mf [] (log.foldl (fun r e => balance.Report.Insert r e.1 e.2) (balance.NewReport part)).EIE o4 o5 ord6) :
    ∃ al eie, balance.Report.Totals (log.foldl (fun r e => balance.Report.Insert r e.1 e.2) (balance.NewReport part)) (pureFn mf) o1 o2 ord3 o4 o5 ord6 =
        GoSem.Outcome.ok (log.foldl (fun r e => balance.Report.Insert r e.1 e.2) (balance.NewReport part), al, eie) ∧
      WF al ∧ Clean al ∧ (∀ x, AMap.get al x 0 = logSum (sec true log) (fun k => decide (mf k = x))) ∧
      WF eie ∧ Clean eie ∧ (∀ x, AMap.get eie x 0 = logSum (sec false log) (fun k => decide (mf k = x))) :=
  Totals_agrees_of_rep _ _ _ (Insert_fold_agrees part log).1 (Insert_fold_agrees part log).2.1 mf o1 o2 o4 o5 ord3 ord6 h1 h2

/-! ## against the model: the cells of the `Total` rows -/

/-- the mapper of the renderer, `KeyMapper{Date: Identity, Commodity: IdentityIf(byCommodity)}.Build()`: the column date and —
when commodities are shown — the commodity; everything else is zero -/
def mfR (byCommodity : Bool) (k : amounts.Key) : amounts.Key :=
  { Date := k.Date, Account := GoZero.zero, Other := GoZero.zero, Commodity := if byCommodity then k.Commodity else GoZero.zero,
    Valuation := GoZero.zero, Description := GoZero.zero }

theorem mfR_Build (byCommodity : Bool) (k : amounts.Key) :
    amounts.KeyMapper.Build ⟨pureFn id, none, none, pureFn (fun c => if byCommodity then c else GoZero.zero), none, none⟩ k =
      GoSem.Outcome.ok (mfR byCommodity k) := by
  rw [KeyMapper_Build_agrees]; rfl

/-- the Go commodity of a cell of the model (`none`: the report is valued and shows no commodities) -/
def comGo (cur : String → Bool) : Option Knut.Commodity → commodity.Commodity
  | none => GoZero.zero
  | some s => TransPosting.commodityGo cur s

/-- **a cell of the model is the mapped sum**: `BalanceReport.cellAt` of the entries of the kept inserts, at a commodity and a
column date, is the sum of the inserted amounts whose key the renderer's mapper sends to `DateCommodityKey(date, commodity)` —
commodities being interned (`commodityGo cur name`) with non-empty names, the column not the zero date -/
theorem logSum_cellAt (cur : String → Bool) (L : Log) (hL : ∀ e ∈ L, e.1.Account ≠ GoZero.zero)
    (hcom : ∀ e ∈ L, e.1.Commodity = TransPosting.commodityGo cur e.1.Commodity.name ∧ e.1.Commodity.name ≠ "")
    (byCommodity : Bool) (c : Option Knut.Commodity) (hc : ∀ s, c = some s → s ≠ "") (d : Int) (hd : d ≠ 0) :
    logSum L (fun k => decide (mfR byCommodity k = amounts.DateCommodityKey d (comGo cur c))) =
      BalanceReport.cellAt (esOf L) byCommodity c d := by
  unfold BalanceReport.cellAt BalanceReport.sumAmounts esOf
  induction L with
  | nil => rfl
  | cons e rest ih =>
    have hz := hL e List.mem_cons_self
    obtain ⟨hg, hne⟩ := hcom e List.mem_cons_self
    have ih' := ih (fun x hx => hL x (List.mem_cons_of_mem _ hx)) (fun x hx => hcom x (List.mem_cons_of_mem _ hx))
    rw [logSum_cons, ih']
    simp only [List.filterMap_cons, entryOf, hz, if_false, List.filter_cons]
    have hiff : (mfR byCommodity e.1 = amounts.DateCommodityKey d (comGo cur c)) ↔
        ((if e.1.Date = 0 then none else some e.1.Date) = some d ∧ (if byCommodity then some e.1.Commodity.name else none) = c) := by
      have hkey : (mfR byCommodity e.1 = amounts.DateCommodityKey d (comGo cur c)) ↔
          (e.1.Date = d ∧ (if byCommodity then e.1.Commodity else GoZero.zero) = comGo cur c) := by
        unfold mfR amounts.DateCommodityKey
        constructor
        · intro h; exact ⟨congrArg amounts.Key.Date h, congrArg amounts.Key.Commodity h⟩
        · rintro ⟨h1, h2⟩; simp only [h1, h2]
      rw [hkey]
      have hdate : e.1.Date = d ↔ (if e.1.Date = 0 then none else some e.1.Date) = some d := by
        by_cases h0 : e.1.Date = 0
        · simp only [h0, if_true]; constructor
          · intro h; exact absurd h.symm hd
          · intro h; cases h
        · simp [h0]
      have hcomm : (if byCommodity then e.1.Commodity else GoZero.zero) = comGo cur c ↔
          (if byCommodity then some e.1.Commodity.name else none) = c := by
        cases byCommodity with
        | true =>
          simp only [if_true]
          cases c with
          | none =>
            simp only [comGo]
            constructor
            · intro h; exact absurd (congrArg commodity.Commodity.name h) hne
            · intro h; cases h
          | some s =>
            simp only [comGo, Option.some.injEq]
            constructor
            · intro h; simpa [TransPosting.commodityGo] using congrArg commodity.Commodity.name h
            · intro h; rw [hg, h]
        | false =>
          simp only [Bool.false_eq_true, if_false]
          cases c with
          | none => simp [comGo]
          | some s =>
            simp only [comGo]
            constructor
            · intro h
              have := congrArg commodity.Commodity.name h
              exact absurd (show s = "" from this.symm) (hc s rfl)
            · intro h; cases h
      rw [hdate, hcomm]
    have hb : (decide ((if e.1.Date = 0 then none else some e.1.Date) = some d) &&
        decide ((if byCommodity then some e.1.Commodity.name else none) = c)) =
        decide (mfR byCommodity e.1 = amounts.DateCommodityKey d (comGo cur c)) := by
      rw [← Bool.decide_and]; exact decide_eq_decide.2 hiff.symm
    rw [hb]
    by_cases hm : mfR byCommodity e.1 = amounts.DateCommodityKey d (comGo cur c)
    · simp [hm]
    · simp [hm, Rat.zero_add]

/-! ## non-vacuity -/

private def exK (a : Knut.Account) (c : String) (d : Int) : amounts.Key :=
  { Date := d, Account := TransAccount.accountGo a, Other := GoZero.zero, Commodity := ⟨c, false⟩, Valuation := GoZero.zero, Description := "x" }

private def exLog : Log :=
  [(exK ⟨["Assets", "Bank", "Giro"]⟩ "CHF" 5, 3), (exK ⟨["Income", "Job"]⟩ "CHF" 5, -3), (exK ⟨["Assets", "Bank"]⟩ "CHF" 5, 4),
   (exK ⟨["Assets", "Cash"]⟩ "USD" 6, 1), (exK ⟨["Assets", "Cash"]⟩ "USD" 6, -1)]

private def exKeys : List amounts.Key := exLog.map (fun e => e.1) ++ exLog.map (fun e => mfR true e.1)

/-- the totals of a report with nested accounts: per (date, commodity) the sum over the section; the USD amounts cancel and
their key is gone -/
example :
    (match balance.Report.Totals (exLog.foldl (fun r e => balance.Report.Insert r e.1 e.2) (balance.NewReport GoZero.zero))
        (pureFn (mfR true)) (fun _ => exKeys) (fun _ => exKeys) (fun _ => ["Cash", "Bank", "Giro", "Assets", "Income", "Job"])
        (fun _ => exKeys) (fun _ => exKeys) (fun _ => ["Job", "Income"]) with
      | .ok (_, al, eie) => (al.map (fun e => (e.1.Date, e.1.Commodity.name, e.2)), eie.map (fun e => (e.1.Date, e.1.Commodity.name, e.2)))
      | _ => ([], [])) = ([(5, "CHF", 7)], [(5, "CHF", -3)]) := by decide +kernel

end Knut.FactsAgree.TransReport
