import Knut.Proofs.SyntaxRoundTrip
/-!
# Replaying the main loop of the parser on rendered items that do not come from an earlier parse

`fileLoop_replay` (C08) takes its items from a parse of some text. The journal printer's output is rendered from
model directives; `ItemsShape` is the text-free part of `ItemsOK` and suffices for the replay.
-/
namespace Knut.Syntax
open Knut.Utf8 Knut.Spec.Syntax
set_option linter.unusedVariables false

/-- the text-free part of `ItemsOK`: shapes of the gaps, well-formed canonical fields of the directives -/
def ItemsShape : List Item → Prop
  | [] => True
  | .gap c w nl :: rest =>
    (c = [] ∨ CommentToks c) ∧ (c ≠ [] → w = []) ∧ All isWhitespace w ∧ NlOK nl ∧ Valid (c ++ (w ++ nl)) ∧
      Canon (c ++ (w ++ nl)) ∧ c ++ (w ++ nl) ≠ [] ∧ (nl = [] → rest = []) ∧ ItemsShape rest
  | .dir _ _ v w nl :: rest =>
    v.ok ∧ v.canon ∧ All isWhitespace w ∧ NlOK nl ∧ Valid (w ++ nl) ∧ Canon (w ++ nl) ∧ (nl = [] → rest = []) ∧
      ItemsShape rest

theorem outToks_headValid_shape {items : List Item} (padding : Nat) (h : ItemsShape items) :
    HeadValid (outToks padding items) := by
  cases items with
  | nil => exact HeadValid.nil
  | cons i rest =>
    cases i with
    | gap c w nl =>
      unfold ItemsShape at h
      obtain ⟨_, _, _, _, hv, _, hne, _, _⟩ := h
      simp only [outToks, Item.out]
      cases hc : c ++ (w ++ nl) with
      | nil => exact absurd hc hne
      | cons t ts =>
        rw [hc] at hv
        exact HeadValid.cons hv.head
    | dir D d v w nl =>
      unfold ItemsShape at h
      obtain ⟨vok, _⟩ := h
      obtain ⟨t, r, e, ht⟩ := renderT_first padding v vok
      simp only [outToks, Item.out, e, List.cons_append]
      exact HeadValid.cons ht.1

theorem fileLoop_replay_shape (padding : Nat) (path : String) (items : List Item)
    (hok : ItemsShape items) (start2 : Nat) (acc2 : List Directive) (o2 : Nat) :
    ∃ items2 f2 s2', Rendered padding items items2 ∧
      fileLoop path start2 acc2 ⟨o2, outToks padding items⟩ = .ok f2 s2' ∧
      f2.directives = acc2.reverse ++ dirsOf items2 ∧
      ∀ text2, Good text2 ⟨o2, outToks padding items⟩ → ItemsOK text2 o2 items2 := by
  induction items generalizing acc2 o2 with
  | nil =>
    refine ⟨[], ⟨rng start2 ⟨o2, []⟩, acc2.reverse⟩, ⟨o2, []⟩, Rendered.nil, ?_, by simp [dirsOf], fun _ _ => by unfold ItemsOK; trivial⟩
    rw [fileLoop_eq]
    simp [outToks, atEOF]
  | cons i rest ih =>
    cases i with
    | gap c w nl =>
      unfold ItemsShape at hok
      obtain ⟨hc, hcw, pw, onl, vall, call, hne, hlast, hrest⟩ := hok
      have hXv : HeadValid (outToks padding rest) := outToks_headValid_shape padding hrest
      have hlastX : nl = [] → outToks padding rest = [] := fun e => by rw [hlast e]; rfl
      obtain ⟨items2, f2, s2', hr, hrun, hdirs, hview⟩ := ih hrest acc2 (o2 + wsum c + wsum (w ++ nl))
      refine ⟨.gap c w nl :: items2, f2, s2', Rendered.gap c w nl hr, ?_, by simpa [dirsOf] using hdirs, ?_⟩
      · have e : outToks padding (.gap c w nl :: rest) = c ++ (w ++ (nl ++ outToks padding rest)) := by
          simp [outToks, Item.out]
        rw [e, fileLoop_eq]
        have hE : atEOF ⟨o2, c ++ (w ++ (nl ++ outToks padding rest))⟩ = false := by
          cases hcc : c ++ (w ++ nl) with
          | nil => exact absurd hcc hne
          | cons t ts =>
            have : c ++ (w ++ (nl ++ outToks padding rest)) = t :: (ts ++ outToks padding rest) := by
              have := congrArg (· ++ outToks padding rest) hcc
              simpa using this
            rw [this]; rfl
        rw [hE]
        simp only [Bool.false_eq_true, if_false]
        rcases hc with hc | hc
        · -- blank round
          subst hc
          have hfirst : ∃ t x, w ++ (nl ++ outToks padding rest) = t :: x ∧ isWhitespaceOrNewline t.r = true := by
            cases w with
            | cons a as =>
              exact ⟨a, _, rfl, by have := pw a List.mem_cons_self; simp [isWhitespaceOrNewline, this]⟩
            | nil =>
              rcases onl with rfl | ⟨t, rfl, ht⟩
              · exact absurd rfl hne
              · exact ⟨t, _, rfl, by rw [ht]; decide⟩
          obtain ⟨t, x, ex, ht⟩ := hfirst
          simp only [List.nil_append]
          rw [ex, fileItem_blank o2 t x ht, ← ex]
          simp only [Res.bind_ok, pushOpt]
          rw [rest_replay path start2 acc2 o2 w nl _ pw onl (by simpa using vall) hXv hlastX]
          simpa using hrun
        · -- comment round
          have hw := hcw (hc.first 0 []).2
          subst hw
          simp only [List.nil_append] at vall ⊢
          have hn : HeadNot (fun r => !isNewlineOrEOF r) (nl ++ outToks padding rest) := by
            rcases onl with rfl | ⟨t, rfl, ht⟩
            · rw [hlastX rfl]; exact HeadNot.nil
            · exact HeadNot.cons (by rw [ht]; decide)
          have hvx : HeadValid (nl ++ outToks padding rest) := HeadValid.append vall.right hXv
          rw [fileItem_comment hc vall.left o2 _ hvx hn]
          simp only [Res.bind_ok, pushOpt]
          have := rest_replay path start2 acc2 (o2 + wsum c) [] nl _ All.nil onl (by simpa using vall.right) hXv hlastX
          simp only [List.nil_append] at this
          rw [this]
          simpa using hrun
      · intro text2 hG
        have e : outToks padding (.gap c w nl :: rest) = (c ++ (w ++ nl)) ++ outToks padding rest := by
          simp [outToks, Item.out]
        rw [e] at hG
        have G2 := hG.step.2
        unfold ItemsOK
        refine ⟨hc, hcw, pw, onl, vall, call, hne, ?_, ?_⟩
        · intro e2
          have := hlast e2
          subst this
          cases hr
          rfl
        · have := hview text2 (by simpa [wsum_append, Nat.add_assoc] using G2)
          simpa [wsum_append, Nat.add_assoc] using this
    | dir D d v w nl =>
      unfold ItemsShape at hok
      obtain ⟨vok, vcan, pw, onl, vr, cr, hlast, hrest⟩ := hok
      have hXv : HeadValid (outToks padding rest) := outToks_headValid_shape padding hrest
      have hlastX : nl = [] → outToks padding rest = [] := fun e => by rw [hlast e]; rfl
      have hgap := gapStart_of_rest w nl (outToks padding rest) pw onl vr hlastX
      obtain ⟨d2, off', hparse, hview2⟩ := parseDirective_complete padding v vok vcan o2 (w ++ (nl ++ outToks padding rest)) hgap
      -- the offset after the rendered directive
      have hoff : off' = o2 + wsum (renderT padding v) := by
        obtain ⟨cc, hc1, hc2⟩ := ext_of_ok (parseDirective_prog _).ext hparse
        simp only at hc1 hc2
        have := List.append_cancel_right hc1
        rw [hc2, ← this]
      subst hoff
      obtain ⟨items2, f2, s2', hr, hrun, hdirs, hview⟩ := ih hrest (d2 :: acc2) (o2 + wsum (renderT padding v) + wsum (w ++ nl))
      obtain ⟨t, rt, ert, hds⟩ := renderT_first padding v vok
      refine ⟨.dir (renderT padding v) d2 v w nl :: items2, f2, s2', Rendered.dir D d v w nl d2 hr, ?_,
        by rw [hdirs]; simp [dirsOf], ?_⟩
      · have e : outToks padding (.dir D d v w nl :: rest) = renderT padding v ++ (w ++ (nl ++ outToks padding rest)) := by
          simp [outToks, Item.out]
        rw [e, fileLoop_eq]
        have hE : atEOF ⟨o2, renderT padding v ++ (w ++ (nl ++ outToks padding rest))⟩ = false := by rw [ert]; rfl
        rw [hE]
        simp only [Bool.false_eq_true, if_false]
        have hfi : fileItem ⟨o2, renderT padding v ++ (w ++ (nl ++ outToks padding rest))⟩ =
            .ok (some d2) ⟨o2 + wsum (renderT padding v), w ++ (nl ++ outToks padding rest)⟩ := by
          have := fileItem_dir o2 t (rt ++ (w ++ (nl ++ outToks padding rest))) hds
          rw [ert] at hparse ⊢
          simp only [List.cons_append] at hparse ⊢
          rw [this, hparse]
          rfl
        rw [hfi]
        simp only [Res.bind_ok, pushOpt]
        rw [rest_replay path start2 (d2 :: acc2) _ w nl _ pw onl vr hXv hlastX]
        exact hrun
      · intro text2 hG
        have e : outToks padding (.dir D d v w nl :: rest) = renderT padding v ++ ((w ++ nl) ++ outToks padding rest) := by
          simp [outToks, Item.out]
        have hG' := hG
        rw [e] at hG'
        have G1 := hG'.step.2
        have G2 := G1.step.2
        unfold ItemsOK
        have e2 : outToks padding (.dir D d v w nl :: rest) = renderT padding v ++ (w ++ (nl ++ outToks padding rest)) := by
          simp [outToks, Item.out]
        refine ⟨?_, by rw [ert]; simp, vok, vcan, hview2 text2 (by rw [← e2]; exact hG), pw, onl, vr, cr, ?_, hview text2 G2⟩
        · have := (parseDirective_ok hparse).1
          simpa using this
        · intro e3
          have := hlast e3
          subst this
          cases hr
          rfl


end Knut.Syntax
