import Knut.Properties.C20Go3
/-!
# C20Go3, non-vacuity on a NON-EMPTY journal: `RetParOK` and `DayRelP` are satisfiable

`C20Go3.C20_returns_every_period_process_go` / `C20_returns_process_go_partial` quantify over parameters `P : RetPar` with
`RetParOK cur f.cfg P` and over Go days with `AllRel (DayRelP cur) gdays days`.  The non-vacuity example of `Properties/C20Go3.lean` is
the journal without directives.  Here, for `cur = fun _ => false` (no commodity tagged as a currency: `TagCurrency` has no caller):

* **`genPar_ok`**: for EVERY configuration `cfg` with `valuation = none` (account and commodity filters ARBITRARY, in particular the
  default: all `true`) and every Go partition `pg`, the concrete parameters `genPar cfg pg` satisfy `RetParOK cur cfg`.  The universally
  quantified fields are proved for every Go state / day that stands for a model state / day:
  `ord`, `oV`: the key list of the captured map as it stands; `fuel`: vacuous (no valuation);
  `oE g dg`: the key list of the map of values reached by folding the TRANSLATED `ComputeValues.Posting` over the postings of the day
  (`valsGo`; `valsGo_rel`: it stands for the model's `valuesDay`, by `ComputeValues_Posting_agrees`), so zero entries are deleted
  exactly as the code deletes them;
  `oS`: per transaction the commodities of its postings, each once (`dedup`; `txFlow_keys`: a commodity with a flow is the commodity
  of a posting), the second order empty (it ranges over the internal flows, which nothing reads).
* **`exDays_rel`**: a journal of two days (day 1: three `open` directives and a deposit `Equity:Equity -> Assets:Bank` of 100 CHF;
  day 2: a purchase of 2 AAPL from `Assets:Bank` to `Assets:Portfolio`), the Go days DEFINED as the image of the model days (`dayGo`:
  `openGo`, `txGo`, all `Src` nil, `Performance = nil`), and `AllRel (DayRelP cur) exGDays exDays`.  (`dayGo_rel`: for every model
  day without prices, assertions and closings.)
* **`C20Go3_hyps_nonvacuous`** packages the two for the default configuration `{}` (all filters `true`), with `exGDays ≠ []` and a
  day that has a transaction.

* **`ex_pipeline`**: `C20_returns_every_period_process_go` APPLIED to that journal with every hypothesis discharged: `exDs` (the
  directives), `exF` (`--from 1 --to 2`, no `-v`, default filters); `ex_returns : returns exF exDs = .ok [(2, some 0)]`,
  `ex_setup` (the built days ARE `exDays`), `P := genPar exF.cfg (partitionGo exPart)` (`hpart` by `rfl`), `ds0` := the end dates as
  a Go set (`has_map_unit`: `hds`), `hdays := exDays_rel`, `hdef` by `decide +kernel` on the two valued days, any `j`.  Conclusion:
  the sequential run of the six translated stages on `exGDays` succeeds and `Perf` has printed exactly `[lineGo (2, some 0)]`.

WHAT IS NOT SHOWN / RESTRICTED.  `cur` is the constant `false` (with a commodity tagged as a currency the `targets` clause of
`OrdersOK` restricts the journals; not needed for the command line).  Only `valuation = none` (`-v` absent: the case of
`C20_returns_every_period_process_go`); with `-v`, `FuelOK` and a `val` are needed: not constructed.  Without `-v` every posting has
value 0, so the printed return of the example is 0 (the map of values holds zero sums only: entries are deleted as they arise).  `ds0`
in `ex_pipeline` is chosen to satisfy `hds`; that the code's `set.FromSlice(j.Days(part.EndDates()))` is this set stays hypothesis
`hds` of the theorem (`j.Days` is not translated).
-/
namespace Knut.C20Go3Ex
open Knut Knut.GoSem Knut.Performance Knut.MapSum Knut.PortfolioSpec
open Knut.Generated.Go
open Knut.FactsAgree.TransProcess (AllRel TRel PRel TRel_txGo)
open Knut.FactsAgree.TransProcessAll (DayRel OrdOK OpenRel)
open Knut.FactsAgree.TransProcessAllReturns
open Knut.FactsAgree.TransAccount (accountGo)
open Knut.FactsAgree.TransPosting (postingGo commodityGo)
open Knut.FactsAgree.TransTransaction (txGo)
open Knut.FactsAgree.TransCheck (openGo)
open Knut.FactsAgree.TransPerformance (calcGo CVRel OrdersOK ckeyGo SplitOrders ComputeValues_Posting_agrees perfDaysV valuedDays lineGo)
open Knut.C20Go (dateOf)

/-- no commodity is tagged as a currency (`TagCurrency` has no caller) -/
def cur : String → Bool := fun _ => false

/-! ### admissible parameters for ANY `cfg` without `-v` (all filters arbitrary) -/

/-- the translated `ComputeValues.Posting` as a step on the state (it never fails on a posting that stands for a model posting) -/
def stepP (cfg : Performance.Cfg) (t : transaction.Transaction) (g : performance.Calculator.ComputeValues.State) (p : posting.Posting) :
    performance.Calculator.ComputeValues.State :=
  match performance.Calculator.ComputeValues.Posting (calcGo cur cfg) g t p with
  | .ok (g', _) => g'
  | _ => g

/-- the state of `ComputeValues` after the postings of a day's transactions -/
def valsGo (cfg : Performance.Cfg) (g : performance.Calculator.ComputeValues.State) (tgs : List transaction.Transaction) :
    performance.Calculator.ComputeValues.State :=
  tgs.foldl (fun g t => t.Postings.foldl (stepP cfg t) g) g

theorem stepP_rel (cfg : Performance.Cfg) (t : transaction.Transaction) (prev : AMap Knut.Commodity Rat) :
    ∀ (gps : List posting.Posting) (ps : List Knut.Posting), AllRel (PRel cur) gps ps →
    ∀ (g : performance.Calculator.ComputeValues.State) (vals : AMap Knut.Commodity Rat), CVRel cur g vals prev →
      CVRel cur (gps.foldl (stepP cfg t) g) (ps.foldl (valuesStep cfg) vals) prev := by
  intro gps ps h
  induction h with
  | nil => intro g vals hr; exact hr
  | @cons gp p gps ps hp _ ih =>
    intro g vals hr
    obtain ⟨g', he, hr'⟩ := ComputeValues_Posting_agrees cur cfg hr t gp.Src p
    have hp' : postingGo cur gp.Src p = gp := hp.symm
    rw [hp'] at he
    have hs : stepP cfg t g gp = g' := by simp only [stepP, he]
    simp only [List.foldl_cons, hs]
    exact ih g' _ hr'

theorem valsGo_rel (cfg : Performance.Cfg) (prev : AMap Knut.Commodity Rat) :
    ∀ (tgs : List transaction.Transaction) (txs : List Knut.Transaction), AllRel (TRel cur) tgs txs →
    ∀ (g : performance.Calculator.ComputeValues.State) (vals : AMap Knut.Commodity Rat), CVRel cur g vals prev →
      CVRel cur (valsGo cfg g tgs) (valuesDay cfg vals txs) prev := by
  intro tgs txs h
  induction h with
  | nil => intro g vals hr; exact hr
  | @cons tg t tgs txs ht _ ih =>
    intro g vals hr
    simp only [valsGo, valuesDay, List.foldl_cons]
    exact ih _ _ (stepP_rel cfg tg prev _ _ ht.2.2.1 g vals hr)

/-- a list without repetitions of the same members -/
def dedup {α : Type} [DecidableEq α] : List α → List α
  | [] => []
  | x :: l => if x ∈ dedup l then dedup l else x :: dedup l

theorem mem_dedup {α : Type} [DecidableEq α] (x : α) : ∀ l : List α, x ∈ dedup l ↔ x ∈ l := by
  intro l
  induction l with
  | nil => simp [dedup]
  | cons y l ih =>
    unfold dedup
    by_cases hy : y ∈ dedup l
    · simp only [hy, if_true, List.mem_cons, ih]
      constructor
      · exact Or.inr
      · rintro (rfl | h)
        · exact ih.1 hy
        · exact h
    · simp only [hy, if_false, List.mem_cons, ih]

theorem nodup_dedup {α : Type} [DecidableEq α] : ∀ l : List α, (dedup l).Nodup := by
  intro l
  induction l with
  | nil => simp [dedup]
  | cons y l ih =>
    unfold dedup
    by_cases hy : y ∈ dedup l
    · simp only [hy, if_true]; exact ih
    · simp only [hy, if_false]; exact List.nodup_cons.2 ⟨hy, ih⟩

/-- a commodity with a flow is the commodity of a posting -/
theorem txFlow_keys (cfg : Performance.Cfg) (tg : Option (List Knut.Commodity)) (c : Knut.Commodity) :
    ∀ (ps : List Knut.Posting) (acc : AMap Knut.Commodity Rat × Rat),
      (AMap.find? (ps.foldl (txFlowStep cfg tg) acc).1 c).isSome → (AMap.find? acc.1 c).isSome ∨ c ∈ ps.map (·.commodity) := by
  intro ps
  induction ps with
  | nil => intro acc h; exact Or.inl h
  | cons p ps ih =>
    intro acc h
    rcases ih _ h with h1 | h1
    · by_cases hc : p.commodity = c
      · exact Or.inr (by simp [hc])
      · left
        revert h1
        unfold txFlowStep
        split
        · exact id
        · split
          · exact id
          · split
            · exact id
            · split
              · simp only [AMap.find?_set, hc, if_false]; exact id
              · exact id
              · exact id
    · exact Or.inr (List.mem_cons_of_mem _ h1)

theorem postings_commodities : ∀ (gps : List posting.Posting) (ps : List Knut.Posting), AllRel (PRel cur) gps ps →
    gps.map (·.Commodity) = ps.map (fun p => commodityGo cur p.commodity) := by
  intro gps ps h
  induction h with
  | nil => rfl
  | @cons gp p _ _ hp _ ih =>
    simp only [List.map_cons, ih]
    have : gp.Commodity = commodityGo cur p.commodity := by rw [hp]; rfl
    rw [this]

theorem orders_gen (cfg : Performance.Cfg) : ∀ (tgs : List transaction.Transaction) (txs : List Knut.Transaction),
    AllRel (TRel cur) tgs txs →
    AllRel (OrdersOK cur cfg) (tgs.map (fun t => ((dedup (t.Postings.map (·.Commodity)), []) : SplitOrders))) txs := by
  intro tgs txs h
  induction h with
  | nil => exact .nil
  | @cons tg t _ _ ht _ ih =>
    refine .cons ⟨nodup_dedup _, ?_, ?_⟩ ih
    · intro c hc
      rcases txFlow_keys cfg _ c t.postings ([], 0) hc with h0 | h0
      · simp at h0
      · show commodityGo cur c ∈ dedup (tg.Postings.map (·.Commodity))
        rw [mem_dedup, postings_commodities _ _ ht.2.2.1]
        obtain ⟨p, hp, rfl⟩ := List.mem_map.1 h0
        exact List.mem_map.2 ⟨p, hp, rfl⟩
    · intro l _ c _; rfl

/-- parameters for an arbitrary configuration: `oE` lists the keys of the values after the day's postings (computed by the translated
`ComputeValues.Posting` itself), `oS` the commodities of the transaction's postings, each once -/
def genPar (cfg : Performance.Cfg) (pg : date.Partition) : RetPar :=
  { val := none,
    ext1 := fun a => accountGo (valuationAccountFor ⟨a.segments⟩),
    cg := calcGo cur cfg,
    part := pg,
    ord := fun g _ => g.quantities.map Prod.fst,
    fuel := fun _ _ => 0,
    oV := fun g _ => g.quantities.map Prod.fst,
    oE := fun g dg => (valsGo cfg g dg.Transactions).values.map Prod.fst,
    oS := fun _ dg => dg.Transactions.map (fun t => (dedup (t.Postings.map (·.Commodity)), [])) }

/-- **admissible parameters exist for EVERY configuration without `-v`** (arbitrary account and commodity filters) -/
theorem genPar_ok (cfg : Performance.Cfg) (hv : cfg.valuation = none) (pg : date.Partition) : RetParOK cur cfg (genPar cfg pg) where
  val := by rw [hv]; rfl
  ext1 := fun _ => rfl
  cg := rfl
  ord := fun _ _ _ hk => mem_keys_of_find? hk
  fuel := fun v h => by rw [hv] at h; cases h
  oV := fun _ _ _ hk => mem_keys_of_find? hk
  oE := by
    intro g dg vals prev txs hcv htx
    have hm := (valsGo_rel cfg prev _ _ htx g vals hcv).values
    refine ⟨hm.gnodup, ?_, ?_⟩
    · intro k hk
      have hs := find?_isSome_of_mem_keys hk
      obtain ⟨c, rfl⟩ := hm.keys k hs
      exact ⟨c, rfl, by rw [← hm.lookup c]; exact hs⟩
    · intro c hc
      rw [← hm.lookup c] at hc
      exact mem_keys_of_find? hc
  oS := fun _ dg txs h => orders_gen cfg dg.Transactions txs h

/-! ### the journal -/

theorem AllRel_map {α β : Type} (R : α → β → Prop) (f : β → α) (h : ∀ b, R (f b) b) : ∀ bs : List β, AllRel R (bs.map f) bs := by
  intro bs
  induction bs with
  | nil => exact .nil
  | cons b bs ih => exact .cons (h b) ih

/-- the Go day that stands for a model day with openings and transactions only (all `Src` pointers nil, `Performance == nil`) -/
def dayGo (d : Knut.Day) : journal.Day :=
  { Date := d.date, Prices := [], Assertions := [], Openings := d.openings.map (openGo ⟨0⟩),
    Transactions := d.transactions.map (txGo cur ⟨0⟩ ⟨0⟩), Closings := [], Normalized := GoZero.zero, Performance := none }

theorem dayGo_rel (d : Knut.Day) (hp : d.prices = []) (ha : d.assertions = []) (hc : d.closings = []) : DayRelP cur (dayGo d) d := by
  refine ⟨⟨rfl, ?_, ?_, ?_, ?_, ?_⟩, rfl⟩
  · rw [hp]; exact .nil
  · exact AllRel_map OpenRel (openGo ⟨0⟩) (fun _ => rfl) _
  · exact AllRel_map (TRel cur) (txGo cur ⟨0⟩ ⟨0⟩) (fun t => TRel_txGo cur ⟨0⟩ ⟨0⟩ t) _
  · rw [ha]; exact .nil
  · rw [hc]; exact .nil

def bank : Knut.Account := ⟨["Assets", "Bank"]⟩
def portfolio : Knut.Account := ⟨["Assets", "Portfolio"]⟩

/-- day 1: the accounts are opened, 100 CHF are deposited; day 2: 2 AAPL are bought -/
def exDays : List Knut.Day :=
  [ { date := 1, openings := [⟨1, bank⟩, ⟨1, portfolio⟩, ⟨1, equityAccount⟩],
      transactions := [{ date := 1, description := "deposit", postings := postingBuild equityAccount bank "CHF" 100 }] },
    { date := 2,
      transactions := [{ date := 2, description := "buy", postings := postingBuild bank portfolio "AAPL" 2 }] } ]

def exGDays : List journal.Day := exDays.map dayGo

/-- **the Go days stand for the model's days and carry no `Performance`** -/
theorem exDays_rel : AllRel (DayRelP cur) exGDays exDays :=
  .cons (dayGo_rel _ rfl rfl rfl) (.cons (dayGo_rel _ rfl rfl rfl) .nil)

theorem exGDays_ne : exGDays ≠ [] := by simp [exGDays, exDays]

example : (exGDays.map (fun d => d.Transactions.length)) = [1, 1] := by decide

/-- **the hypotheses `RetParOK` and `DayRelP` of `C20Go3.C20_returns_every_period_process_go` /
`C20_returns_process_go_partial` are satisfiable together on a non-empty journal**, for the default configuration (all filters `true`,
no `-v`) -/
theorem C20Go3_hyps_nonvacuous : ∃ (cfg : Performance.Cfg) (P : RetPar) (gdays : List journal.Day) (days : List Knut.Day),
    cfg = {} ∧ cfg.valuation = none ∧ RetParOK cur cfg P ∧ AllRel (DayRelP cur) gdays days ∧ gdays ≠ [] ∧
    (∃ d ∈ days, d.transactions ≠ []) :=
  ⟨{}, genPar {} GoZero.zero, exGDays, exDays, rfl, rfl, genPar_ok {} rfl _, exDays_rel, exGDays_ne,
    ⟨_, List.mem_cons_self, by simp⟩⟩

/-! ### the theorem itself on the journal: every inner hypothesis instantiated -/

/-- the directives that build `exDays` -/
def exDs : List Directive :=
  [ .opening ⟨1, bank⟩, .opening ⟨1, portfolio⟩, .opening ⟨1, equityAccount⟩,
    .tx { date := 1, description := "deposit", postings := postingBuild equityAccount bank "CHF" 100 },
    .tx { date := 2, description := "buy", postings := postingBuild bank portfolio "AAPL" 2 } ]

/-- `knut portfolio returns --from 1 --to 2` (no `-v`, one period, all filters `true`) -/
def exF : Flags := { to := 2, from? := some 1 }

def exPart : Knut.Partition := { span := ⟨1, 2⟩, interval := .once, periods := [⟨1, 2⟩] }

theorem ex_setup : setup exF exDs = .ok (exPart, exDays) := by rfl
theorem ex_valued : valuedDays exF.cfg ({} : PState).bal exDays = some (exDays.map (fun d => (d.date, d.transactions))) := by rfl
theorem ex_returns : returns exF exDs = .ok [(2, some 0)] := by
  have hpf := Knut.FactsAgree.TransPerformance.perfFrom_perfDaysV exF.cfg exDays ({} : PState) _ ex_valued
  unfold returns
  rw [ex_setup]
  simp only
  rw [hpf]
  simp only
  congr 1
  decide +kernel

theorem has_map_unit (l : List Int) (x : Int) : set.Set.Has (l.map (fun e => (e, ()))) x = l.contains x := by
  induction l with
  | nil => rfl
  | cons e l ih =>
    simp only [set.Set.Has, List.map_cons, AMap.find?, List.contains_cons] at ih ⊢
    by_cases h : e = x
    · subst h; simp
    · have h' : ¬ x = e := fun e' => h e'.symm
      simp [h, h', ih]

/-- **`C20_returns_every_period_process_go` applies on the journal of two days with ALL its hypotheses discharged**: the sequential run
of the six translated stages on `exGDays` succeeds and `Perf` has printed the one line of the model, for the period end 2 -/
theorem ex_pipeline (j : journal.Builder) :
    ∃ out r' printed, processAllReturns (genPar exF.cfg (Knut.FactsAgree.TransDate.partitionGo exPart))
        (returnsInit cur exF.cfg j exPart (exPart.endDates.map (fun e => (e, ())))) exGDays = some out ∧
      perfFinal (genPar exF.cfg (Knut.FactsAgree.TransDate.partitionGo exPart))
        (returnsInit cur exF.cfg j exPart (exPart.endDates.map (fun e => (e, ())))) exGDays =
          some ⟨exPart.endDates.map (fun e => (e, ())), exPart.startDates, r', printed⟩ ∧
      printed = [lineGo (2, some 0)] ∧ printed.map dateOf = [2] := by
  obtain ⟨part, days, ms, hs, hms, H⟩ := C20Go3.C20_returns_every_period_process_go cur exF rfl exDs _ ex_returns
  rw [ex_setup] at hs
  injection hs with hs
  injection hs with hp hd
  subst hp hd
  rw [ex_valued] at hms
  injection hms with hms
  subst hms
  obtain ⟨out, r', printed, h1, h2, h3, _, h5⟩ := H (genPar exF.cfg (Knut.FactsAgree.TransDate.partitionGo exPart))
    (genPar_ok _ rfl _) rfl (exPart.endDates.map (fun e => (e, ()))) (has_map_unit _) j exGDays exDays_rel (by decide +kernel)
  exact ⟨out, r', printed, h1, h2, h3, h5 (by decide)⟩

end Knut.C20Go3Ex
