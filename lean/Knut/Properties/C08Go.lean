import Knut.Properties.C08
import Knut.Properties.C07Go
import Knut.FactsAgree.TransPrinter3
/-!
# C08 on the generated definitions

The theorems of `Properties/C08.lean` are about the model (`parseText`, `format`, `formatFile`); `FactsAgree/TransParser4.lean` and
`FactsAgree/TransPrinter2/3.lean` prove the translated parser and the translated format printer (`lib/syntax/printer`) equal to it.
This module composes them.  The object of every statement is

  `goFormatRun fuel text path` = `syntax.ParseFile` (no callback), then `syntax.FormatFile` into an empty `bytes.Buffer`

(the body of `formatRunner.formatFile` up to the replacement of the file), built from the GENERATED `Go.parser.*` and
`Go.printer.Printer.Format`; its result is the buffer and the error value.  `text` ranges over all byte strings, `fuel` over every
number above the bytes of the text (`FuelOK`).  "The same directives with identical fields" is equality of `viewDirective` on the model
trees `f`, `f2` whose images `goFile … f`, `goFile … f2` the translated parser returns for the input and for the output.
-/
namespace Knut.C08Go
open Knut Knut.Syntax Knut.Spec.Syntax Knut.Utf8 Knut.GoSem
open Knut.Generated.Go
open Knut.FactsAgree.TransScanner Knut.FactsAgree.TransParser Knut.FactsAgree.TransPrinter
open Knut.C07Go

/-- **the bridge**: a nil error of parse + format in the translation means the model parsed the text and `format` produced exactly
the buffer -/
theorem run_ok {text : Syntax.Bytes} {path : String} {fuel : Nat} {out : Syntax.Bytes} (hf : FuelOK text fuel)
    (h : goFormatRun fuel text path = .ok (out, .nil)) :
    ∃ f, parseText path text = .ok f ∧ format text f = some out ∧
      goSyntaxParse fuel text path ⟨false⟩ = .ok (goFile text path f, .nil) := by
  rcases goFormatRun_total text path fuel hf.tokens with ⟨f, out', hp, hfm, hr⟩ | ⟨e, hp, hne, hr⟩
  · rw [h] at hr
    injection hr with hr
    injection hr with h1 _
    subst h1
    have := goSyntaxParse_agrees text path ⟨false⟩ fuel hf.tokens
    rw [hp] at this
    exact ⟨f, hp, hfm, this⟩
  · rw [h] at hr
    injection hr with hr
    injection hr with _ h2
    exact absurd h2.symm (goErr_ne_nil text path hne)

/-- **parse + format is total** in the translation: for every byte string and adequate fuel the outcome is `ok` — never a panic (no
`Extract()`, no gap slice out of range, no negative `strings.Repeat`), never `outOfFuel` -/
theorem C08_format_total_go (text : Syntax.Bytes) (path : String) (fuel : Nat) (hf : FuelOK text fuel) :
    ∃ out err, goFormatRun fuel text path = .ok (out, err) := by
  rcases goFormatRun_total text path fuel hf.tokens with ⟨f, out', hp, hfm, hr⟩ | ⟨e, hp, hne, hr⟩
  · exact ⟨_, _, hr⟩
  · exact ⟨_, _, hr⟩

/-- **a file that does not parse is left exactly as it was**: when the translated parser returns an error, parse + format returns
that error and has written NOTHING to the buffer (the command's only write to the file happens after a nil error: C18) -/
theorem C08_unparseable_untouched_go {text : Syntax.Bytes} {path : String} {fuel : Nat} {G : directives.File} {err : directives.GoError}
    (h : goSyntaxParse fuel text path ⟨false⟩ = .ok (G, err)) (hne : err ≠ .nil) :
    goFormatRun fuel text path = .ok ([], err) := by
  unfold goFormatRun
  rw [h]
  simp [GoSem.Outcome.bind, hne]

/-- … and conversely a parsed file is always formatted: a nil error of the translated parser gives a nil error of the printer -/
theorem C08_parsed_is_formatted_go {text : Syntax.Bytes} {path : String} {fuel : Nat} {G : directives.File}
    (hf : FuelOK text fuel) (h : goSyntaxParse fuel text path ⟨false⟩ = .ok (G, .nil)) :
    ∃ out, goFormatRun fuel text path = .ok (out, .nil) := by
  obtain ⟨f, hp, rfl⟩ := parse_ok hf h
  rcases goFormatRun_total text path fuel hf.tokens with ⟨f', out', hp', hfm, hr⟩ | ⟨e, hp', hne, hr⟩
  · exact ⟨out', hr⟩
  · rw [hp] at hp'; cases hp'

/-- **all text between directives is kept byte for byte**: the buffer is `gap₀ ++ r₁ ++ gap₁ ++ … ++ gapₙ` with the input's own gap
slices (between the ranges of the Go tree's top-level directives) and `rᵢ` the rendering of directive `i` from the slices of its fields -/
theorem C08_gaps_verbatim_go {text : Syntax.Bytes} {path : String} {fuel : Nat} {out : Syntax.Bytes} (hf : FuelOK text fuel)
    (h : goFormatRun fuel text path = .ok (out, .nil)) :
    ∃ f padding rs, goSyntaxParse fuel text path ⟨false⟩ = .ok (goFile text path f, .nil) ∧
      f.directives.mapM (printDirective text padding) = some rs ∧
      out = interleave (gapsOf text 0 (topRanges (goFile text path f))) rs := by
  obtain ⟨f, hp, hfm, hg⟩ := run_ok hf h
  obtain ⟨padding, rs, h1, h2⟩ := C08.C08_gaps_verbatim hfm
  exact ⟨f, padding, rs, hg, h1, by rw [topRanges_goFile]; exact h2⟩

/-- **the formatted text parses (in the translation) to the same sequence of directives with identical fields**, and the text outside
its directives is, gap by gap, the text outside the directives of the input -/
theorem C08_reparse_same_fields_go {text : Syntax.Bytes} {path : String} {fuel fuel2 : Nat} {out : Syntax.Bytes} (cb : Syn.Proc)
    (hf : FuelOK text fuel) (h : goFormatRun fuel text path = .ok (out, .nil)) (hf2 : FuelOK out fuel2) :
    ∃ f f2, goSyntaxParse fuel text path ⟨false⟩ = .ok (goFile text path f, .nil) ∧
      goSyntaxParse fuel2 out path cb = .ok (goFile out path f2, .nil) ∧
      f2.directives.mapM (viewDirective out) = f.directives.mapM (viewDirective text) ∧
      (f.directives.mapM (viewDirective text)).isSome = true ∧
      gapsOf out 0 (topRanges (goFile out path f2)) = gapsOf text 0 (topRanges (goFile text path f)) := by
  obtain ⟨f, hp, hfm, hg⟩ := run_ok hf h
  obtain ⟨f2, hp2, hv, hs, hgap⟩ := C08.C08_reparse_same_fields hp hfm
  have h2 := goSyntaxParse_agrees out path cb fuel2 hf2.tokens
  rw [hp2] at h2
  exact ⟨f, f2, hg, h2, hv, hs, by rw [topRanges_goFile, topRanges_goFile]; exact hgap⟩

/-- **formatting the result again changes nothing**: parse + format in the translation, run on its own output, writes that output -/
theorem C08_idempotent_go {text : Syntax.Bytes} {path : String} {fuel fuel2 : Nat} {out : Syntax.Bytes}
    (hf : FuelOK text fuel) (h : goFormatRun fuel text path = .ok (out, .nil)) (hf2 : FuelOK out fuel2) :
    goFormatRun fuel2 out path = .ok (out, .nil) := by
  obtain ⟨f, hp, hfm, _⟩ := run_ok hf h
  obtain ⟨f2, hp2, hi, hw⟩ := C08.C08_idempotent hp hfm
  have := formatFile_agrees out path fuel2 hf2.tokens
  rw [hw] at this
  exact this

/-- the whole property for the command, on the generated definitions: either the translated parser accepts the text, parse + format
writes a text that the translated parser accepts again, with the same directive fields and the same gaps, and which is a fixed point;
or the parser returns an error and nothing is written -/
theorem C08_command_go (text : Syntax.Bytes) (path : String) (fuel : Nat) (hf : FuelOK text fuel) :
    (∃ f out f2, goSyntaxParse fuel text path ⟨false⟩ = .ok (goFile text path f, .nil) ∧
        goFormatRun fuel text path = .ok (out, .nil) ∧
        (∀ fuel2, FuelOK out fuel2 → goSyntaxParse fuel2 out path ⟨false⟩ = .ok (goFile out path f2, .nil) ∧
          goFormatRun fuel2 out path = .ok (out, .nil)) ∧
        f2.directives.mapM (viewDirective out) = f.directives.mapM (viewDirective text) ∧
        gapsOf out 0 (topRanges (goFile out path f2)) = gapsOf text 0 (topRanges (goFile text path f))) ∨
    (∃ G err, err ≠ .nil ∧ goSyntaxParse fuel text path ⟨false⟩ = .ok (G, err) ∧ goFormatRun fuel text path = .ok ([], err)) := by
  obtain ⟨G, err, hG⟩ := C07_total_go text path ⟨false⟩ fuel hf
  by_cases hne : err = .nil
  · subst hne
    left
    obtain ⟨out, ho⟩ := C08_parsed_is_formatted_go hf hG
    obtain ⟨f, hp, hfm, hg⟩ := run_ok hf ho
    obtain ⟨f2, hp2, hv, _, hgap⟩ := C08.C08_reparse_same_fields hp hfm
    refine ⟨f, out, f2, hg, ho, ?_, hv, by rw [topRanges_goFile, topRanges_goFile]; exact hgap⟩
    intro fuel2 hf2
    have h2 := goSyntaxParse_agrees out path ⟨false⟩ fuel2 hf2.tokens
    rw [hp2] at h2
    exact ⟨h2, C08_idempotent_go hf ho hf2⟩
  · exact Or.inr ⟨G, err, hne, hG, C08_unparseable_untouched_go hG hne⟩

/-! ## Non-vacuity: the worked example (a comment line and an `open` directive) is a fixed point of the translated parse + format;
an unparseable text leaves the buffer empty -/

example : goFormatRun 24 (bytesOf exText) "j.knut" = .ok (bytesOf exText, .nil) := by
  have hf : FuelOK (bytesOf exText) 24 := by unfold FuelOK; decide
  have := formatFile_agrees (bytesOf exText) "j.knut" 24 hf.tokens
  have hw : formatFile "j.knut" (bytesOf exText) = .written (bytesOf exText) := by
    obtain ⟨out, h1, h2⟩ := C08.C08_format_total ex_parse
    have : format (bytesOf exText) ⟨⟨0, 23⟩, [⟨⟨3, 22⟩, .open ⟨⟨3, 22⟩, ⟨⟨3, 13⟩⟩, ⟨⟨19, 22⟩, false⟩⟩⟩]⟩ = some (bytesOf exText) := by
      decide
    rw [this] at h1
    injection h1 with h1
    rw [← h1] at h2
    exact h2
  rw [hw] at this
  exact this

example : ∃ err, err ≠ .nil ∧ goFormatRun 3 [0x32, 0xff] "j.knut" = .ok ([], err) := by
  have hf : FuelOK [0x32, 0xff] 3 := by unfold FuelOK; decide
  have := formatFile_agrees [0x32, 0xff] "j.knut" 3 hf.tokens
  rw [(C08.C08_unparseable_untouched ex_invalid).1] at this
  exact ⟨_, goErr_ne_nil _ _ this.1, this.2⟩

end Knut.C08Go
