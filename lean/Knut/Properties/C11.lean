import Knut.Proofs.Partition
/-!
# C11 — Reporting periods partition the requested window

Statements about `newPartition` (the model of `date.NewPartition`) and `alignIn`
(`Partition.Align`), for all windows `span`, all six intervals and all `last : Int`.
Only property theorems and their non-vacuity examples live here.
-/
namespace Knut.C11
open Knut Knut.Date

/-- membership of a day in a period -/
def inP (p : Period) (d : Int) : Prop := p.start ≤ d ∧ d ≤ p.stop

theorem periods_eq {span : Period} {iv : Interval} {last : Int} {P : Partition}
    (h : newPartition span iv last = .ok P) :
    span.start ≠ 0 ∧ P.periods = periodsOf span iv last := by
  unfold newPartition at h
  split at h
  · cases h
  · injection h with h; subst h; exact ⟨by assumption, rfl⟩

/-- the full tiling (no `--last`) as a newest-first list -/
theorem tiles_of_ok {span : Period} {iv : Interval} {last : Int} {P : Partition}
    (h : newPartition span iv last = .ok P) (hiv : iv ≠ .once) (hl : last ≤ 0) :
    Tiles span.start iv span.stop P.periods.reverse := by
  have ⟨_, hp⟩ := periods_eq h
  rw [hp]
  simp only [periodsOf, hiv, if_false, List.reverse_reverse]
  exact partLoop_tiles _ _ _ _ _ hl

/-- **consecutive**: each period starts the day after the previous one ends. -/
theorem take_consecutiveRev : ∀ (L : List Period) (n : Nat), ConsecutiveRev L → ConsecutiveRev (L.take n)
  | [], n, _ => by simp; trivial
  | [p], n, _ => by cases n <;> simp <;> trivial
  | p :: q :: rest, 0, _ => trivial
  | p :: q :: rest, 1, _ => by simp; trivial
  | p :: q :: rest, n + 2, hc => by
    simp only [List.take_succ_cons]
    exact ⟨hc.1, by simpa using take_consecutiveRev (q :: rest) (n + 1) hc.2⟩

theorem C11_consecutive {span : Period} {iv : Interval} {last : Int} {P : Partition}
    (h : newPartition span iv last = .ok P) : Consecutive P.periods := by
  have ⟨_, hp⟩ := periods_eq h
  rw [hp]
  unfold periodsOf
  split
  · trivial
  · apply consecutive_reverse
    by_cases hl : last ≤ 0
    · exact (partLoop_tiles _ _ _ _ _ hl).consecutiveRev
    · rw [partLoop_last _ _ _ _ _ (by omega) (Int.le_refl _) (by omega)]
      exact take_consecutiveRev _ _ (partLoop_tiles span.start iv 0 span.stop 0 (Int.le_refl _)).consecutiveRev

/-- **cover**: without `--last`, a day is in the window iff it is in some period. -/
theorem C11_cover {span : Period} {iv : Interval} {last : Int} {P : Partition}
    (h : newPartition span iv last = .ok P) (hl : last ≤ 0) (d : Int) :
    inP span d ↔ ∃ p ∈ P.periods, inP p d := by
  by_cases hiv : iv = .once
  · subst hiv
    have ⟨_, hp⟩ := periods_eq h
    rw [hp]; simp [periodsOf]
  · have ht := tiles_of_ok h hiv hl
    have := ht.cover d
    unfold inP
    rw [this]
    constructor
    · intro ⟨p, hp, x⟩; exact ⟨p, List.mem_reverse.mp hp, x⟩
    · intro ⟨p, hp, x⟩; exact ⟨p, List.mem_reverse.mpr hp, x⟩

/-- **non-overlapping**: a day lies in at most one period. -/
theorem C11_disjoint {span : Period} {iv : Interval} {last : Int} {P : Partition}
    (h : newPartition span iv last = .ok P) (hl : last ≤ 0) (d : Int)
    (p q : Period) (hp : p ∈ P.periods) (hq : q ∈ P.periods) (h1 : inP p d) (h2 : inP q d) : p = q := by
  by_cases hiv : iv = .once
  · subst hiv
    have ⟨_, hpp⟩ := periods_eq h
    rw [hpp] at hp hq; simp [periodsOf] at hp hq; rw [hp, hq]
  · have ht := tiles_of_ok h hiv hl
    exact ht.disjoint d p (List.mem_reverse.mpr hp) q (List.mem_reverse.mpr hq) h1.1 h1.2 h2.1 h2.2

/-- **never straddles a boundary**: all days of a period lie in the calendar unit
(day / Mon–Sun week / month / quarter / year) of the period's last day. -/
theorem C11_within_unit {span : Period} {iv : Interval} {last : Int} {P : Partition}
    (h : newPartition span iv last = .ok P) (hl : last ≤ 0) (hiv : iv ≠ .once)
    (p : Period) (hp : p ∈ P.periods) (d : Int) (hd : inP p d) :
    startOf d iv = startOf p.stop iv := by
  have ht := tiles_of_ok h hiv hl
  have ⟨_, _, _, hs⟩ := ht.mem_bounds p (List.mem_reverse.mpr hp)
  apply startOf_same
  · have : startOf p.stop iv ≤ p.start := by rw [hs]; unfold clampStart; split <;> omega
    exact Int.le_trans this hd.1
  · exact hd.2

/-- **maximal**: a period starts at the window start or at the start of a calendar unit. -/
theorem C11_maximal_start {span : Period} {iv : Interval} {last : Int} {P : Partition}
    (h : newPartition span iv last = .ok P) (hl : last ≤ 0) (hiv : iv ≠ .once)
    (p : Period) (hp : p ∈ P.periods) :
    p.start = span.start ∨ (p.start = startOf p.stop iv ∧ startOf p.start iv = p.start) := by
  have ht := tiles_of_ok h hiv hl
  have ⟨_, _, _, hs⟩ := ht.mem_bounds p (List.mem_reverse.mpr hp)
  unfold clampStart at hs
  split at hs
  · exact Or.inl hs
  · exact Or.inr ⟨hs, by rw [hs]; exact startOf_idem _ _⟩

/-- the newest period ends at the window end, the oldest starts at the window start. -/
theorem C11_ends {span : Period} {iv : Interval} {last : Int} {P : Partition}
    (h : newPartition span iv last = .ok P) (hl : last ≤ 0) (hiv : iv ≠ .once) :
    (∀ p, P.periods.head? = some p → p.start = span.start) ∧
    (∀ p, P.periods.getLast? = some p → p.stop = span.stop) := by
  have ht := tiles_of_ok h hiv hl
  constructor
  · intro p hp
    apply ht.getLast_start p
    simpa using hp
  · intro p hp
    apply ht.head_stop p
    simpa using hp

/-- **`--last n`** keeps exactly the `n` most recent periods of the full partition. -/
theorem C11_last {span : Period} {iv : Interval} {last : Int} {P P0 : Partition}
    (h : newPartition span iv last = .ok P) (h0 : newPartition span iv 0 = .ok P0)
    (hl : 0 < last) (hiv : iv ≠ .once) :
    P.periods = P0.periods.drop (P0.periods.length - last.toNat) := by
  have ⟨_, hp⟩ := periods_eq h
  have ⟨_, hp0⟩ := periods_eq h0
  rw [hp, hp0]
  simp only [periodsOf, hiv, if_false]
  rw [partLoop_last _ _ _ _ _ hl (Int.le_refl _) (by omega), List.reverse_take]
  simp

/-- **Align**: a day inside a shown period is attributed to that period's end date. -/
theorem C11_align_inside {span : Period} {iv : Interval} {last : Int} {P : Partition}
    (h : newPartition span iv last = .ok P) (hl : last ≤ 0) (hiv : iv ≠ .once)
    (p : Period) (hp : p ∈ P.periods) (d : Int) (hd : inP p d) :
    P.align d = some p.stop := by
  have ht := tiles_of_ok h hiv hl
  unfold Partition.align alignIn
  cases hf : P.periods.find? (fun p => !(p.stop < d)) with
  | none =>
    have := List.find?_eq_none.mp hf p hp
    simp at this; unfold inP at hd; omega
  | some q =>
    simp
    have hqm := List.mem_of_find?_eq_some hf
    have hqd := List.find?_some hf
    simp at hqd
    -- q is the first period with stop ≥ d; p also has stop ≥ d, and p contains d.
    -- If q ≠ p then q comes before p, so q.stop < p.start ≤ d: contradiction.
    by_cases hqp : q = p
    · rw [hqp]
    · exfalso
      -- all periods before the found one have stop < d
      have hbefore := List.find?_eq_some_iff_append.mp hf
      obtain ⟨_, as, bs, hsplit, hall⟩ := hbefore
      have hpin : p ∈ as ∨ p ∈ bs := by
        have : p ∈ as ++ q :: bs := hsplit ▸ hp
        rcases List.mem_append.mp this with x | x
        · exact Or.inl x
        · rcases List.mem_cons.mp x with x | x
          · exact absurd x.symm hqp
          · exact Or.inr x
      rcases hpin with hpa | hpb
      · have := hall p hpa; simp at this; unfold inP at hd; omega
      · -- p after q in oldest-first order: then q.stop < p.start (consecutive tiling), but q.stop ≥ d ≥ p.start
        have hc := C11_consecutive h
        rw [hsplit] at hc
        have hb := ht.mem_bounds
        have key : ∀ (as : List Period) (q : Period) (bs : List Period), Consecutive (as ++ q :: bs) →
            (∀ r ∈ as ++ q :: bs, r.start ≤ r.stop) → ∀ r ∈ bs, q.stop < r.start := by
          intro as
          induction as with
          | nil =>
            intro q bs
            induction bs generalizing q with
            | nil => intro _ _ r hr; simp at hr
            | cons b bs ih =>
              intro hc hle r hr
              simp only [List.nil_append, Consecutive] at hc
              rcases List.mem_cons.mp hr with rfl | hr'
              · omega
              · have := ih b (by simpa using hc.2) (by intro r hr; exact hle r (by simp at hr ⊢; right; exact hr)) r hr'
                have := hle b (by simp)
                omega
          | cons a as ih =>
            intro q bs hc hle r hr
            cases as with
            | nil =>
              simp only [List.cons_append, List.nil_append, Consecutive] at hc
              exact ih q bs (by simpa using hc.2) (by intro r hr; exact hle r (by simp at hr ⊢; right; exact hr)) r hr
            | cons a' as' =>
              simp only [List.cons_append, Consecutive] at hc
              exact ih q bs (by simpa using hc.2) (by intro r hr; exact hle r (by simp at hr ⊢; right; exact hr)) r hr
        have hle : ∀ r ∈ as ++ q :: bs, r.start ≤ r.stop := by
          intro r hr
          have hr' : r ∈ P.periods := hsplit ▸ hr
          have := hb r (List.mem_reverse.mpr hr')
          omega
        have := key as q bs hc hle p hpb
        unfold inP at hd; omega

/-- **Align**: a day after the window end belongs to no column. -/
theorem C11_align_after {span : Period} {iv : Interval} {last : Int} {P : Partition}
    (h : newPartition span iv last = .ok P) (hl : last ≤ 0) (hiv : iv ≠ .once)
    (d : Int) (hd : span.stop < d) : P.align d = none := by
  have ht := tiles_of_ok h hiv hl
  unfold Partition.align alignIn
  have : P.periods.find? (fun p => !(p.stop < d)) = none := by
    apply List.find?_eq_none.mpr
    intro p hp
    have := ht.mem_bounds p (List.mem_reverse.mpr hp)
    simp; omega
  rw [this]; rfl

/-- **Align**: a day before the first shown period is attributed to the first period. -/
theorem C11_align_before {span : Period} {iv : Interval} {last : Int} {P : Partition}
    (_h : newPartition span iv last = .ok P)
    (p : Period) (rest : List Period) (hp : P.periods = p :: rest) (d : Int) (hd : d ≤ p.stop) :
    P.align d = some p.stop := by
  unfold Partition.align alignIn
  rw [hp]
  simp [List.find?_cons]
  have : ¬ p.stop < d := by omega
  simp [this]

/-- **inverted window** (`start > end`): no period at all … -/
theorem C11_inverted {span : Period} {iv : Interval} {last : Int} {P : Partition}
    (h : newPartition span iv last = .ok P) (hiv : iv ≠ .once) (hinv : span.stop < span.start) :
    P.periods = [] := by
  have ⟨_, hp⟩ := periods_eq h
  rw [hp]
  simp only [periodsOf, hiv, if_false]
  rw [partLoop]; simp [hinv]

/-- … or, for `once`, the single empty period that contains no date. -/
theorem C11_inverted_once {span : Period} {last : Int} {P : Partition}
    (h : newPartition span .once last = .ok P) (hinv : span.stop < span.start) :
    P.periods = [span] ∧ ∀ d, ¬ inP span d := by
  have ⟨_, hp⟩ := periods_eq h
  refine ⟨by rw [hp]; simp [periodsOf], ?_⟩
  intro d hd; unfold inP at hd; omega

/-- **which days enter a report**: `Partition.Contains` is membership in the requested window, whatever
`--last` and the interval are (so days before the first shown period are kept and, by `C11_align_before`,
attributed to the first period). -/
theorem C11_contains_iff_window {span : Period} {iv : Interval} {last : Int} {P : Partition}
    (h : newPartition span iv last = .ok P) (d : Int) :
    P.contains d = true ↔ inP span d := by
  unfold newPartition at h
  split at h
  · cases h
  · injection h with h; subst h
    unfold Partition.contains Period.contains inP
    simp only [Bool.and_eq_true, Bool.not_eq_true', decide_eq_false_iff_not]
    constructor <;> intro ⟨x, y⟩ <;> constructor <;> omega

/-- the guard of the code, stated as it is: a window starting at Go's zero time panics. -/
theorem C11_zero_start_panics (span : Period) (iv : Interval) (last : Int) (h : span.start = 0) :
    newPartition span iv last = .panic "can't create partition with zero time" := by
  unfold newPartition; simp [h]

/-- the loop terminates for every input: `partLoop` is defined by well-founded recursion on
`end - start + 1`, using `startOf_le`; recorded here as the fact that justifies it. -/
theorem C11_loop_measure (e : Int) (iv : Interval) : startOf e iv - 1 < e := by
  have := startOf_le e iv; omega

/-! Non-vacuity: the hypotheses are satisfiable for a concrete window
(2020-01-15 … 2020-03-10 as day numbers 737438 … 737493). -/
example : ∃ P, newPartition ⟨737438, 737493⟩ .monthly 0 = .ok P := by
  unfold newPartition; simp
example : ∃ P, newPartition ⟨737438, 737493⟩ .monthly 2 = .ok P := by
  unfold newPartition; simp

end Knut.C11
