package main

// C18 — in-place rewrites are all-or-nothing.
//
// Streams
//   limit   `knut format` / `knut infer -i` on one generated file under RLIMIT_FSIZE = k bytes (this binary
//           re-executed as a launcher sets the limit, then execs knut): final directory vs the model, byte for byte
//   inject  strace fault injection (error or SIGKILL at the n-th openat/read/write/fsync/close/newfstatat/
//           fchmodat/renameat/unlinkat): final directory must be what the model predicts for the matching
//           scenario, a killed run must stop in one of the model's intermediate states
//   perm    the command run as an unprivileged user in read-only / writable directories on read-only /
//           unreadable / normal files
//   multi   several files in one command (one unparseable, one already formatted, size limit): every file
//           as if rewritten alone
//   flags   every boolean flag `knut format --help` / `knut infer --help` offers (known or not; read with C08's help reader),
//           alone, with the known in-place flag and in pairs, under size limits, failing system calls and kills: the
//           target is the complete old or the complete new file, bystanders as before, no stray or partial file
//   facts   the three call sites write only through atomic.WriteFile on a complete buffer; the operation
//           sequence of the pinned atomic.WriteFile is the model's
// Every case also evaluates the Lean predicate `allOrNothing` (and `sameNames`) on what the real run left behind.
// Every run of every stream has bystanders in its directory (entries named after the targets: <target><digits>,
// <target>.tmp, <target>~, prefixes, hidden names, …) which must be as before afterwards (section "bystanders").

import (
	"encoding/hex"
	"fmt"
	"go/ast"
	"go/parser"
	"go/token"
	"os"
	"os/exec"
	"path/filepath"
	"regexp"
	"sort"
	"strconv"
	"strings"
	"syscall"
	"time"
)

func init() {
	runners["C18"] = runC18
	if bin := os.Getenv("C18_LAUNCH"); bin != "" {
		// launcher: set the file-size limit exactly (bytes), then become knut
		if s := os.Getenv("C18_FSIZE"); s != "" {
			if n, err := strconv.ParseUint(s, 10, 64); err == nil {
				syscall.Setrlimit(syscall.RLIMIT_FSIZE, &syscall.Rlimit{Cur: n, Max: n})
			}
		}
		var env []string
		for _, e := range os.Environ() {
			if !strings.HasPrefix(e, "C18_") {
				env = append(env, e)
			}
		}
		syscall.Exec(bin, append([]string{bin}, os.Args[1:]...), env)
		os.Exit(127)
	}
}

// ---------------------------------------------------------------- files

type c18File struct {
	Name string
	Old  []byte
	Mode os.FileMode
	New  []byte // what a fault-free run writes; nil if the file does not parse
	Kind string
}

func c18GenText(r *RNG, kind string) string {
	var b strings.Builder
	sp := func() string { return strings.Repeat(" ", r.Range(1, 6)) }
	accounts := []string{"Assets:Bank", "Assets:Cash", "Expenses:Food", "Expenses:Rent", "Income:Salary", "Equity:Equity", "Liabilities:Card"}
	n := r.Range(1, 12)
	switch kind {
	case "big":
		n = r.Range(60, 220)
	case "huge":
		n = r.Range(900, 1500)
	case "empty":
		return ""
	case "binary":
		// not a journal at all: a file whose very first byte is not valid UTF-8 (a scanned receipt, a UTF-16 export):
		// the parser fails before it has read a single rune (seeded change C18-d leaked a parser slot on that path, so
		// that the journals named after GOMAXPROCS such files were never formatted)
		return Pick(r, []string{"\xff\xd8\xff\xe0\x00\x10JFIF\x00", "\xff\xfe2\x000\x002\x000\x00", "\x89PNG\r\n\x1a\n", "\xe4bc\n"}) + strings.Repeat("x", r.Intn(40))
	}
	for _, a := range accounts {
		if r.Chance(3, 4) {
			fmt.Fprintf(&b, "2020-01-01%sopen%s%s\n", sp(), sp(), a)
		}
	}
	b.WriteString("\n")
	for i := 0; i < n; i++ {
		if r.Chance(1, 5) {
			fmt.Fprintf(&b, "# comment %d\n\n", i)
		}
		fmt.Fprintf(&b, "2020-%02d-%02d%s\"tx %d %s\"\n", r.Range(1, 12), r.Range(1, 28), sp(), i, strings.Repeat("x", r.Intn(12)))
		for k := r.Range(1, 3); k > 0; k-- {
			fmt.Fprintf(&b, "%s%s%s%s%d.%02d%sCHF\n", Pick(r, accounts), sp(), Pick(r, accounts), sp(), r.Range(1, 99999), r.Intn(100), sp())
		}
		b.WriteString("\n")
		if r.Chance(1, 6) {
			fmt.Fprintf(&b, "2020-%02d-%02d%sprice%sAAA%s%d CHF\n\n", r.Range(1, 12), r.Range(1, 28), sp(), sp(), sp(), r.Range(1, 500))
		}
	}
	s := b.String()
	switch kind {
	case "parse-error":
		// damage one line somewhere
		lines := strings.Split(s, "\n")
		lines[r.Intn(len(lines))] = "2020-01-01 opeen Assets:Oops  ???"
		s = strings.Join(lines, "\n")
	case "no-final-newline":
		s = strings.TrimRight(s, "\n")
	}
	return s
}

var c18Kinds = []string{"plain", "plain", "plain", "big", "parse-error", "formatted", "empty", "no-final-newline"}

// render runs the real command without any fault on a private copy: the oracle for "the complete new contents".
func (c *Ctx) c18Render(scratch string, cmdline func(target string) []string, name string, old []byte, extra map[string][]byte) []byte {
	os.RemoveAll(scratch)
	os.MkdirAll(scratch, 0o755)
	defer os.RemoveAll(scratch)
	p := filepath.Join(scratch, name)
	os.WriteFile(p, old, 0o644)
	for n, b := range extra {
		os.WriteFile(filepath.Join(scratch, n), b, 0o644)
	}
	pr := runProc(20*time.Second, scratch, nil, c.KnutBin, cmdline(name)...)
	if pr.Exit != 0 {
		return nil
	}
	nb, err := os.ReadFile(p)
	if err != nil {
		return nil
	}
	return nb
}

// c18Dresses: what real journal files carry around their text — marks, encodings, line ends and padding that an editor,
// an export or a copy through another system leaves, and that a rewriting command may be tempted to "clean" in a pass of
// its own before (or after) the one committed write.  Nothing is assumed about what the parser makes of them: the
// complete new contents are whatever the fault-free command leaves (the old file when it rejects the journal).
var c18Dresses = []string{"bom8", "bom8-twice", "bom16le-mark", "bom16le", "bom16be", "zero-width", "crlf", "crlf-first", "cr-only", "nul-lead", "nul-inside",
	"trailing-ws", "no-newline-ws", "lead-blank", "lead-comment", "lead-ws-lines", "trail-blank"}

func c18Dress(r *RNG, s, dress string) string {
	utf16 := func(s string, le bool) string {
		var b strings.Builder
		for _, ru := range s {
			if ru > 0xffff {
				ru = '?'
			}
			if le {
				b.WriteByte(byte(ru))
				b.WriteByte(byte(ru >> 8))
			} else {
				b.WriteByte(byte(ru >> 8))
				b.WriteByte(byte(ru))
			}
		}
		return b.String()
	}
	switch dress {
	case "bom8":
		return "\xef\xbb\xbf" + s
	case "bom8-twice":
		return "\xef\xbb\xbf\xef\xbb\xbf" + s
	case "bom16le-mark":
		return "\xff\xfe" + s
	case "bom16le":
		return "\xff\xfe" + utf16(s, true)
	case "bom16be":
		return "\xfe\xff" + utf16(s, false)
	case "zero-width":
		return Pick(r, []string{"\u200b", "\u2060", "\u00a0", "\u200e"}) + s
	case "crlf":
		return strings.ReplaceAll(s, "\n", "\r\n")
	case "crlf-first":
		return strings.Replace(s, "\n", "\r\n", 1)
	case "cr-only":
		return strings.ReplaceAll(s, "\n", "\r")
	case "nul-lead":
		return strings.Repeat("\x00", r.Range(1, 4)) + s
	case "nul-inside":
		k := r.Intn(len(s) + 1)
		return s[:k] + "\x00" + s[k:]
	case "trailing-ws":
		lines := strings.Split(s, "\n")
		for i := range lines {
			if r.Chance(1, 2) {
				lines[i] += Pick(r, []string{" ", "   ", "\t", " \t "})
			}
		}
		return strings.Join(lines, "\n")
	case "no-newline-ws":
		return strings.TrimRight(s, "\n") + Pick(r, []string{" ", "  \t", "\t"})
	case "lead-blank":
		return strings.Repeat("\n", r.Range(1, 5)) + s
	case "lead-comment":
		var b strings.Builder
		for k := r.Range(1, 6); k > 0; k-- {
			b.WriteString(Pick(r, []string{"# -*- mode: knut -*-\n", "* heading\n", "# exported 2024-01-01\n", "\n", "#\n", "// note\n"}))
		}
		return b.String() + "\n" + s
	case "lead-ws-lines":
		return Pick(r, []string{"  \n", "\t\n", " \n \n", "   "}) + s
	case "trail-blank":
		return s + strings.Repeat("\n", r.Range(1, 6)) + Pick(r, []string{"", "  ", "# end"})
	}
	return s
}

func (c *Ctx) c18GenFile(r *RNG, scratch, name, kind string) c18File {
	text := c18GenText(r, kind)
	// a fifth of the journals of every stream is dressed (see c18Dresses); stream "dress" goes through all of them
	if dr := c.Rng("dressed", int(r.Intn(1<<30))); kind != "formatted" && kind != "empty" && kind != "huge" && dr.Chance(1, 5) {
		d := Pick(dr, c18Dresses)
		text, kind = c18Dress(dr, text, d), kind+"+"+d
	}
	f := c18File{Name: name, Old: []byte(text), Mode: Pick(r, []os.FileMode{0o644, 0o644, 0o600, 0o664, 0o640}), Kind: kind}
	formatCmd := func(t string) []string { return []string{"format", t} }
	if kind == "formatted" {
		if nb := c.c18Render(scratch, formatCmd, name, f.Old, nil); nb != nil {
			f.Old = nb
		}
	}
	f.New = c.c18Render(scratch, formatCmd, name, f.Old, nil)
	return f
}

// ---------------------------------------------------------------- observing a directory

type c18Obs struct {
	Target string            // "absent" | "<mode>:<hex>"
	Tmp    string            // "absent" | "<mode>:<hex>" | "many"
	Names  []string          // all names in the directory
	Others map[string]string // other original files: name -> "<mode>:<hex>"
}

func fileField(p string) string {
	st, err := os.Lstat(p)
	if err != nil {
		return "absent"
	}
	b, err := os.ReadFile(p)
	if err != nil {
		return fmt.Sprintf("%d:unreadable", int(st.Mode().Perm()))
	}
	return fmt.Sprintf("%d:%s", int(st.Mode().Perm()), hexOrDash(b))
}

func hexOrDash(b []byte) string {
	if len(b) == 0 {
		return "-"
	}
	return hex.EncodeToString(b)
}

func fieldOf(b []byte, mode os.FileMode) string {
	return fmt.Sprintf("%d:%s", int(mode.Perm()), hexOrDash(b))
}

func newField(b []byte) string {
	if b == nil {
		return "parse"
	}
	return hexOrDash(b)
}

func c18Observe(dir, target string, originals []string) c18Obs {
	o := c18Obs{Target: fileField(filepath.Join(dir, target)), Tmp: "absent", Others: map[string]string{}}
	ents, _ := os.ReadDir(dir)
	orig := map[string]bool{}
	for _, n := range originals {
		orig[n] = true
	}
	stray := 0
	for _, e := range ents {
		o.Names = append(o.Names, e.Name())
		if e.Name() == target {
			continue
		}
		if orig[e.Name()] {
			o.Others[e.Name()] = fileField(filepath.Join(dir, e.Name()))
			continue
		}
		stray++
		o.Tmp = fileField(filepath.Join(dir, e.Name()))
	}
	if stray > 1 {
		o.Tmp = "many"
	}
	sort.Strings(o.Names)
	return o
}

// ---------------------------------------------------------------- one run

type c18Run struct {
	Dir      string
	Files    map[string][]byte
	Modes    map[string]os.FileMode
	DirMode  os.FileMode
	Argv     []string
	Limit    int // -1: none
	Strace   []string
	AsNobody bool
	Env      []string // additional environment of the command
}

func (c *Ctx) c18Exec(rn c18Run) procResult {
	os.RemoveAll(rn.Dir)
	os.MkdirAll(rn.Dir, 0o777)
	for n, b := range rn.Files {
		p := filepath.Join(rn.Dir, n)
		os.WriteFile(p, b, 0o644)
		os.Chmod(p, rn.Modes[n])
		if rn.AsNobody {
			os.Chown(p, 65534, 65534)
		}
	}
	dm := rn.DirMode
	if dm == 0 {
		dm = 0o755
	}
	if rn.AsNobody {
		os.Chown(rn.Dir, 65534, 65534)
	}
	// bystanders: files, links and directories named after the targets; checked and taken away again after the run (in
	// the deferred call, once the directory is accessible again), so that the observers below see the directory as before
	by := c.c18ByPlant(rn)
	os.Chmod(rn.Dir, dm)
	defer func() {
		os.Chmod(rn.Dir, 0o777)
		c18ByLast = by.verifyAndRemove()
	}()
	self, _ := os.Executable()
	var bin string
	var args []string
	env := append([]string{}, rn.Env...)
	switch {
	case len(rn.Strace) > 0:
		bin = "strace"
		args = append(append([]string{"-f", "-o", "/dev/null"}, rn.Strace...), c.KnutBin)
		args = append(args, rn.Argv...)
	case rn.Limit >= 0:
		bin = self
		args = rn.Argv
		env = append(env, "C18_LAUNCH="+c.KnutBin, fmt.Sprintf("C18_FSIZE=%d", rn.Limit))
	default:
		bin = c.KnutBin
		args = rn.Argv
	}
	if !rn.AsNobody {
		return runProc(20*time.Second, rn.Dir, env, bin, args...)
	}
	// unprivileged: root ignores directory and file permissions
	cmd := exec.Command(bin, args...)
	cmd.Dir = rn.Dir
	cmd.Env = append(os.Environ(), env...)
	cmd.SysProcAttr = &syscall.SysProcAttr{Credential: &syscall.Credential{Uid: 65534, Gid: 65534}}
	var so, se strings.Builder
	cmd.Stdout, cmd.Stderr = &so, &se
	done := make(chan error, 1)
	if err := cmd.Start(); err != nil {
		return procResult{Exit: -2, Stderr: err.Error()}
	}
	go func() { done <- cmd.Wait() }()
	select {
	case err := <-done:
		res := procResult{Stdout: so.String(), Stderr: se.String()}
		if err != nil {
			if ee, ok := err.(*exec.ExitError); ok {
				res.Exit = ee.ExitCode()
			} else {
				res.Exit = -2
			}
		}
		return res
	case <-time.After(20 * time.Second):
		cmd.Process.Kill()
		return procResult{Exit: -1, Timeout: true}
	}
}

func outcomeWord(exit int) string {
	if exit == 0 {
		return "ok"
	}
	return "error"
}

// modelAnswer strips the operation name from "error <op> target=…" for the comparison (messages are not modelled),
// returning also the op.
func splitModel(ans string) (cmp string, op string) {
	f := strings.Fields(ans)
	if len(f) >= 2 && f[0] == "error" {
		op = f[1]
		f = append([]string{"error"}, f[2:]...)
	}
	// drop the states=… field
	var keep []string
	for _, x := range f {
		if !strings.HasPrefix(x, "states=") {
			keep = append(keep, x)
		}
	}
	return strings.Join(keep, " "), op
}

func implAnswer(pr procResult, o c18Obs) string {
	return fmt.Sprintf("%s target=%s tmp=%s", outcomeWord(pr.Exit), o.Target, o.Tmp)
}

// c18Check compares one single-target run with the model under the given scenario(s) and evaluates the predicate.
// cands: candidate scenarios (fault, unlink) the run may correspond to; the first is the default.
func (c *Ctx) c18Check(bt *Batch, stream string, idx int, in map[string]any, f c18File, mode os.FileMode, pr procResult, obs c18Obs,
	limit int, cands [][2]string, others map[string]string, originals []string) {
	c.Evals++
	if !c.Monitor(stream, idx, "terminates", in, !pr.Timeout, "timeout") {
		return
	}
	c.Monitor(stream, idx, "no panic", in, !strings.Contains(pr.Stderr, "panic:") && !strings.Contains(pr.Stderr, "goroutine "), clip(pr.Stderr))
	old := fieldOf(f.Old, mode)
	nw := newField(f.New)
	impl := implAnswer(pr, obs)
	lim := "-"
	if limit >= 0 {
		lim = itoa(limit)
	}
	// model vs implementation
	answers := make([]string, len(cands))
	pending := len(cands)
	for k, cd := range cands {
		k := k
		bt.Add(func(ans string) {
			answers[k] = ans
			pending--
			if pending > 0 {
				return
			}
			want, op := splitModel(answers[0])
			for _, a := range answers {
				if cmp, o := splitModel(a); cmp == impl {
					want, op = cmp, o
					break
				}
			}
			c.Compare(stream, idx, "c18run", in, impl, want)
			c.Tag("model-op/" + op)
		}, "c18run", cd[0], lim, cd[1], old, nw)
	}
	// the property predicate on what the run left behind
	status := "0"
	if pr.Exit == 0 {
		status = "1"
	}
	bt.Add(func(mon string) {
		c.Monitor(stream, idx, "C18 allOrNothing (target is the complete old or the complete new file; error ⇒ old; ok ⇒ new)", in, mon == "ok",
			fmt.Sprintf("%s: exit=%d old=%s new=%s observed=%s stderr=%s", mon, pr.Exit, clip(old), clip(nw), clip(obs.Target), clip(pr.Stderr)))
	}, "c18mon", old, nw, obs.Target, status)
	// other files untouched, no stray names (a temp file may only stay behind when its removal was made to fail)
	for n, want := range others {
		c.Monitor(stream, idx, "C18_others_untouched", in, obs.Others[n] == want, fmt.Sprintf("%s: %s vs %s", n, clip(obs.Others[n]), clip(want)))
	}
	_ = originals
}

// ---------------------------------------------------------------- limit stream

func c18Limits(r *RNG, newLen, oldLen int, n int, all bool) []int {
	if all {
		var res []int
		for k := 0; k <= newLen+1; k++ {
			res = append(res, k)
		}
		return res
	}
	set := map[int]bool{0: true, 1: true, 2: true, newLen - 1: true, newLen: true, newLen + 1: true, oldLen: true, oldLen - 1: true, 512: true, 4096: true, 4095: true}
	for tries := 0; len(set) < n+6 && tries < 20*n; tries++ {
		switch r.Intn(3) {
		case 0:
			set[r.Intn(newLen+2)] = true
		case 1:
			set[(r.Intn(newLen/512+1))*512] = true
		default:
			set[r.Intn(64)] = true
		}
	}
	var res []int
	for k := range set {
		if k >= 0 {
			res = append(res, k)
		}
	}
	sort.Ints(res)
	return res
}

const c18Training = "2020-01-01 open Assets:Bank\n2020-01-01 open Expenses:Food\n2020-01-01 open Expenses:Rent\n\n" +
	"2020-01-02 \"migros groceries\"\nAssets:Bank Expenses:Food 10 CHF\n\n2020-01-03 \"landlord rent\"\nAssets:Bank Expenses:Rent 1000 CHF\n\n" +
	"2020-01-04 \"coop groceries\"\nAssets:Bank Expenses:Food 12 CHF\n"

func c18InferTarget(r *RNG, kind string) string {
	var b strings.Builder
	n := r.Range(1, 15)
	if kind == "big" {
		n = r.Range(60, 200)
	}
	if kind == "empty" {
		return ""
	}
	for i := 0; i < n; i++ {
		fmt.Fprintf(&b, "2020-02-%02d   \"%s %d\"\nAssets:Bank    Expenses:TBD   %d CHF\n\n", r.Range(1, 28), Pick(r, []string{"migros groceries", "landlord rent", "unknown shop"}), i, r.Range(1, 900))
	}
	s := b.String()
	if kind == "parse-error" {
		s += "2020-02-30 ???\n"
	}
	return s
}

func (c *Ctx) c18Limit() {
	nfiles := c.N(32, 120)
	bt := c.NewBatch()
	if !c.Replay || c.OnlyStr == "limit" {
		for fi := 0; fi < nfiles; fi++ {
			if c.Replay && c.OnlyIndex/100000 != fi {
				continue
			}
			c.c18LimitFile(bt, "limit", fi, nil)
		}
		bt.Flush()
	}
	// directed search: every limit around the ones on which code and model (or the predicate) disagree
	type sus struct{ fi, k int }
	var suspects []sus
	seen := map[int]bool{}
	if c.Replay && c.OnlyStr == "limit-directed" {
		suspects = append(suspects, sus{c.OnlyIndex / 100000, c.OnlyIndex % 100000})
	} else if !c.Replay {
		for _, f := range c.Findings {
			if f.Stream == "limit" && !seen[f.Index] && len(suspects) < 6 {
				seen[f.Index] = true
				suspects = append(suspects, sus{f.Index / 100000, f.Index % 100000})
			}
		}
	}
	for _, su := range suspects {
		var ks []int
		if c.Replay {
			ks = []int{su.k}
		} else {
			for k := su.k - 24; k <= su.k+24; k++ {
				if k >= 0 {
					ks = append(ks, k)
				}
			}
		}
		c.c18LimitFile(bt, "limit-directed", su.fi, ks)
	}
	if len(suspects) > 0 && !c.Replay {
		c.Notes = append(c.Notes, fmt.Sprintf("directed search: every size limit within 24 bytes of %d limits on which code and model differ", len(suspects)))
	}
	bt.Flush()
}

// c18LimitFile runs file number fi of the limit stream under the given limits (nil: the stream's own selection).
// The case index is fi*100000 + k.
func (c *Ctx) c18LimitFile(bt *Batch, stream string, fi int, limits []int) {
	perFile := c.N(50, 120)
	scratch := filepath.Join(c.WorkDir, "render")
	r := c.Rng("limit", fi)
	kind := c18Kinds[fi%len(c18Kinds)]
	infer := fi%3 == 2
	var f c18File
	var argv []string
	files := map[string][]byte{}
	modes := map[string]os.FileMode{}
	others := map[string]string{}
	if infer {
		f = c18File{Name: "target.knut", Old: []byte(c18InferTarget(r, kind)), Mode: Pick(r, []os.FileMode{0o644, 0o600}), Kind: "infer-" + kind}
		argv = []string{"infer", "-i", "-t", "training.knut", "target.knut"}
		f.New = c.c18Render(scratch, func(t string) []string { return []string{"infer", "-i", "-t", "training.knut", t} }, f.Name, f.Old,
			map[string][]byte{"training.knut": []byte(c18Training)})
		files["training.knut"] = []byte(c18Training)
		modes["training.knut"] = 0o644
		others["training.knut"] = fieldOf([]byte(c18Training), 0o644)
	} else {
		f = c.c18GenFile(r, scratch, "journal.knut", kind)
		argv = []string{"format", f.Name}
	}
	files[f.Name] = f.Old
	modes[f.Name] = f.Mode
	// every byte offset for small files in the thorough tier
	all := c.Thorough() && len(f.New) <= 700
	own := c18Limits(r, len(f.New), len(f.Old), perFile, all)
	if limits == nil {
		limits = own
	}
	originals := []string{f.Name, "training.knut"}
	for _, k := range limits {
		i := fi*100000 + k
		if k >= 100000 || !c.Want(stream, i) {
			continue
		}
		dir := filepath.Join(c.WorkDir, "limit")
		pr := c.c18Exec(c18Run{Dir: dir, Files: files, Modes: modes, Argv: argv, Limit: k})
		obs := c18Observe(dir, f.Name, originals)
		in := map[string]any{"argv": argv, "file_kind": f.Kind, "mode": fmt.Sprintf("%o", f.Mode), "RLIMIT_FSIZE": k, "old": string(f.Old), "new_len": len(f.New), "parses": f.New != nil}
		c.c18ByMonitor(stream, i, in)
		cut := "fits"
		if f.New != nil && k < len(f.New) {
			cut = "cut"
		}
		c.Class(fmt.Sprintf("%s/%s/%s/%s/k%s", stream, argv[0], f.Kind, cut, nbucket(k/64)))
		if fi == 0 && k < 2 {
			c.Sample(map[string]any{"stream": stream, "input": map[string]any{"argv": argv, "RLIMIT_FSIZE": k, "file_kind": f.Kind, "new_len": len(f.New)}, "exit": pr.Exit, "stderr": clip(pr.Stderr)})
		}
		c.c18Check(bt, stream, i, in, f, f.Mode, pr, obs, k, [][2]string{{"-", "0"}}, others, originals)
		// no stray temp file after a run that was not killed
		names := strings.Join(obs.Names, ",")
		var before []string
		for n := range files {
			before = append(before, n)
		}
		sort.Strings(before)
		bt.Add(func(mon string) {
			c.Monitor(stream, i, "no stray file (sameNames)", in, mon == "ok", "directory after the run: "+names)
		}, "c18names", strings.Join(before, ","), names)
	}
}

// ---------------------------------------------------------------- inject stream

type c18Inject struct {
	Sys   string
	Max   int         // enumerate when=1..Max
	Cands [][2]string // candidate model scenarios (fault, unlinkFails)
}

var c18Injects = []c18Inject{
	{"fsync", 1, [][2]string{{"fsync", "0"}}},
	{"fchmodat", 1, [][2]string{{"chmod", "0"}, {"-", "0"}}}, // no chmod when the modes agree (0600)
	{"renameat", 1, [][2]string{{"rename", "0"}}},
	{"write", 1, [][2]string{{"write", "0"}, {"-", "0"}}}, // no write call for an empty result
	{"openat", 14, [][2]string{{"-", "0"}, {"read", "0"}, {"createTemp", "0"}}},
	{"read", 8, [][2]string{{"-", "0"}, {"read", "0"}}},
	{"close", 8, [][2]string{{"-", "0"}, {"close", "0"}}},
	{"newfstatat", 8, [][2]string{{"-", "0"}, {"statTarget", "0"}, {"statTemp", "0"}}},
}

func (c *Ctx) c18InjectStream() {
	nfiles := c.N(12, 40)
	scratch := filepath.Join(c.WorkDir, "render")
	errnos := []string{"EIO", "ENOSPC", "EACCES"}
	bt := c.NewBatch()
	defer bt.Flush()
	idx := 0
	for fi := 0; fi < nfiles; fi++ {
		r := c.Rng("inject", fi)
		kind := Pick(r, []string{"plain", "plain", "big", "formatted", "parse-error"})
		f := c.c18GenFile(r, scratch, "journal.knut", kind)
		files := map[string][]byte{f.Name: f.Old}
		modes := map[string]os.FileMode{f.Name: f.Mode}
		argv := []string{"format", f.Name}
		originals := []string{f.Name}
		dir := filepath.Join(c.WorkDir, "inject")
		run := func(stream string, strace []string, cands [][2]string, what string, killed bool) {
			i := idx
			idx++
			if !c.Want(stream, i) {
				return
			}
			pr := c.c18Exec(c18Run{Dir: dir, Files: files, Modes: modes, Argv: argv, Limit: -1, Strace: strace})
			obs := c18Observe(dir, f.Name, originals)
			in := map[string]any{"argv": argv, "file_kind": f.Kind, "mode": fmt.Sprintf("%o", f.Mode), "strace": strace, "old": string(f.Old), "parses": f.New != nil}
			c.c18ByMonitor("inject", i, in)
			c.Class(fmt.Sprintf("inject/%s/%s/exit%v", what, f.Kind, pr.Exit == 0))
			if i < 2 {
				c.Sample(map[string]any{"stream": "inject", "strace": strace, "file_kind": f.Kind, "exit": pr.Exit, "stderr": clip(pr.Stderr)})
			}
			if !killed {
				c.c18Check(bt, "inject", i, in, f, f.Mode, pr, obs, -1, cands, nil, originals)
				return
			}
			// killed in the middle: the directory must be in one of the model's intermediate states
			c.Evals++
			old, nw := fieldOf(f.Old, f.Mode), newField(f.New)
			bt.Add(func(mon string) {
				c.Monitor("inject", i, "C18_invariant after a crash (allOrNothing, status unknown)", in, mon == "ok",
					fmt.Sprintf("%s: old=%s new=%s observed=%s", mon, clip(old), clip(nw), clip(obs.Target)))
			}, "c18mon", old, nw, obs.Target, "-")
			if len(f.New) <= 1500 { // the model's state list is quadratic in the file size
				bt.Add(func(ans string) {
					c.Compare("inject", i, "c18crash", in, "state-of-the-model", ans)
				}, "c18crash", old, nw, obs.Target, obs.Tmp)
			}
		}
		for _, inj := range c18Injects {
			for n := 1; n <= inj.Max; n++ {
				en := Pick(r, errnos)
				if c.Thorough() {
					for _, e := range errnos {
						run("inject", []string{"-e", "trace=" + inj.Sys, "-e", fmt.Sprintf("inject=%s:error=%s:when=%d", inj.Sys, e, n)}, inj.Cands, inj.Sys, false)
					}
				} else {
					run("inject", []string{"-e", "trace=" + inj.Sys, "-e", fmt.Sprintf("inject=%s:error=%s:when=%d", inj.Sys, en, n)}, inj.Cands, inj.Sys, false)
				}
			}
		}
		// the clean-up fails as well: the temp file stays, the target is still the old file
		run("inject", []string{"-e", "trace=fsync,unlinkat", "-e", "inject=fsync:error=EIO", "-e", "inject=unlinkat:error=EACCES"}, [][2]string{{"fsync", "1"}}, "fsync+unlinkat", false)
		run("inject", []string{"-e", "trace=renameat,unlinkat", "-e", "inject=renameat:error=EXDEV", "-e", "inject=unlinkat:error=EACCES"}, [][2]string{{"rename", "1"}}, "renameat+unlinkat", false)
		// crash (SIGKILL) at an operation
		for _, sys := range []string{"write", "fsync", "fchmodat", "renameat", "newfstatat", "close"} {
			for n := 1; n <= 2; n++ {
				if n == 2 && (sys == "fsync" || sys == "fchmodat" || sys == "renameat") {
					continue
				}
				run("inject", []string{"-e", "trace=" + sys, "-e", fmt.Sprintf("inject=%s:signal=KILL:when=%d", sys, n)}, nil, "kill-"+sys, true)
			}
		}
	}
}

// ---------------------------------------------------------------- dress stream
//
// Every dress of c18Dresses on a journal that is otherwise valid and on one with a syntax error later in the file, for
// `format` (and `infer -i` on a part of them): without a fault, under size limits around the old length, the old length
// minus a few bytes (what a pre-pass that strips a mark would write) and the new length, with the 1st / 2nd / 3rd write,
// fsync, renameat failing, and SIGKILL at the 1st / 2nd renameat and fsync.  "New" is what the fault-free run of the same
// command leaves; when it fails the file must stay as it was — after ANY outcome.  Case index = file*1000 + run.
func (c *Ctx) c18DressStream() {
	scratch := filepath.Join(c.WorkDir, "render")
	dir := filepath.Join(c.WorkDir, "dress")
	bt := c.NewBatch()
	defer bt.Flush()
	bodies := []string{"plain", "parse-error"}
	if c.Thorough() {
		bodies = []string{"plain", "parse-error", "big", "no-final-newline", "plain", "parse-error"}
	}
	fi := -1
	for _, body := range bodies {
		for di, dress := range c18Dresses {
			for _, cmd := range []string{"format", "infer"} {
				if cmd == "infer" && !c.Thorough() && di%4 != 0 {
					continue
				}
				fi++
				if c.Replay && c.OnlyIndex/1000 != fi {
					continue
				}
				r := c.Rng("dress", fi)
				var f c18File
				var argv []string
				files := map[string][]byte{}
				modes := map[string]os.FileMode{}
				others := map[string]string{}
				extra := map[string][]byte{}
				name := Pick(r, []string{"journal.knut", "ledger.knut", "2024.knut"})
				if cmd == "infer" {
					f = c18File{Name: name, Old: []byte(c18Dress(r, c18InferTarget(r, body), dress)), Mode: Pick(r, []os.FileMode{0o644, 0o600}), Kind: "infer-" + body + "+" + dress}
					argv = []string{"infer", "-i", "-t", "training.knut", name}
					extra["training.knut"] = []byte(c18Training)
					files["training.knut"], modes["training.knut"] = []byte(c18Training), 0o644
					others["training.knut"] = fieldOf([]byte(c18Training), 0o644)
				} else {
					f = c18File{Name: name, Old: []byte(c18Dress(r, c18GenText(r, body), dress)), Mode: Pick(r, []os.FileMode{0o644, 0o600, 0o664}), Kind: body + "+" + dress}
					argv = []string{"format", name}
				}
				av := argv
				f.New = c.c18Render(scratch, func(t string) []string { return av }, f.Name, f.Old, extra)
				files[f.Name], modes[f.Name] = f.Old, f.Mode
				originals := []string{f.Name, "training.knut"}
				// limits: none that cuts, and the neighbourhoods of the old length (down to a few bytes below) and of the new one
				limSet := map[int]bool{1 << 30: true, 0: true, len(f.Old): true, len(f.Old) - 1: true, len(f.Old) - 2: true, len(f.Old) - 3: true, len(f.Old) - 4: true,
					len(f.Old) - r.Range(1, 8): true, len(f.Old) + r.Range(1, 40): true, r.Intn(len(f.Old) + 1): true}
				if f.New != nil {
					limSet[len(f.New)-1], limSet[len(f.New)] = true, true
					limSet[len(f.New)-r.Range(1, 8)] = true
					limSet[(len(f.Old)+len(f.New))/2] = true
				}
				if c.Thorough() {
					for k := len(f.Old) - 12; k <= len(f.Old)+2; k++ {
						limSet[k] = true
					}
					for k := len(f.New) - 12; f.New != nil && k <= len(f.New)+1; k++ {
						limSet[k] = true
					}
				}
				var limits []int
				for k := range limSet {
					if k >= 0 {
						limits = append(limits, k)
					}
				}
				sort.Ints(limits)
				run := 0
				for _, k := range limits {
					i := fi*1000 + run
					run++
					if !c.Want("dress", i) {
						continue
					}
					lim := k
					if k == 1<<30 {
						lim = -1
					}
					pr := c.c18Exec(c18Run{Dir: dir, Files: files, Modes: modes, Argv: argv, Limit: lim})
					obs := c18Observe(dir, f.Name, originals)
					in := map[string]any{"argv": argv, "file_kind": f.Kind, "mode": fmt.Sprintf("%o", f.Mode), "RLIMIT_FSIZE": lim, "old": string(f.Old), "old_hex_head": hex.EncodeToString(f.Old[:min(8, len(f.Old))]),
						"old_len": len(f.Old), "new_len": len(f.New), "fault_free_run_succeeds": f.New != nil}
					c.c18ByMonitor("dress", i, in)
					c.Class(fmt.Sprintf("dress/%s/%s/limit/exit%v", cmd, f.Kind, pr.Exit == 0))
					c.c18Check(bt, "dress", i, in, f, f.Mode, pr, obs, lim, [][2]string{{"-", "0"}}, others, originals)
				}
				type inj struct {
					sys   string
					n     int
					kill  bool
					cands [][2]string
				}
				injs := []inj{{"write", 1, false, [][2]string{{"write", "0"}, {"-", "0"}}}, {"write", 2, false, [][2]string{{"write", "0"}, {"-", "0"}}},
					{"fsync", 1, false, [][2]string{{"fsync", "0"}, {"-", "0"}}}, {"fsync", 2, false, [][2]string{{"fsync", "0"}, {"-", "0"}}},
					{"renameat", 1, false, [][2]string{{"rename", "0"}, {"-", "0"}}}, {"renameat", 2, false, [][2]string{{"rename", "0"}, {"-", "0"}}},
					{"renameat", 2, true, nil}, {"fsync", 2, true, nil}, {"renameat", 1, true, nil}}
				if c.Thorough() {
					injs = append(injs, inj{"write", 3, false, [][2]string{{"write", "0"}, {"-", "0"}}}, inj{"fchmodat", 1, false, [][2]string{{"chmod", "0"}, {"-", "0"}}},
						inj{"fchmodat", 2, false, [][2]string{{"chmod", "0"}, {"-", "0"}}}, inj{"write", 2, true, nil}, inj{"fchmodat", 2, true, nil})
				} else {
					// quick tier: three of them per file
					for a := len(injs) - 1; a > 0; a-- {
						b := r.Intn(a + 1)
						injs[a], injs[b] = injs[b], injs[a]
					}
					injs = injs[:3]
				}
				for _, ij := range injs {
					i := fi*1000 + run
					run++
					if !c.Want("dress", i) {
						continue
					}
					what := fmt.Sprintf("inject=%s:error=%s:when=%d", ij.sys, Pick(r, []string{"EIO", "ENOSPC", "EDQUOT"}), ij.n)
					if ij.kill {
						what = fmt.Sprintf("inject=%s:signal=KILL:when=%d", ij.sys, ij.n)
					}
					strace := []string{"-e", "trace=" + ij.sys, "-e", what}
					pr := c.c18Exec(c18Run{Dir: dir, Files: files, Modes: modes, Argv: argv, Limit: -1, Strace: strace})
					obs := c18Observe(dir, f.Name, originals)
					in := map[string]any{"argv": argv, "file_kind": f.Kind, "mode": fmt.Sprintf("%o", f.Mode), "strace": strace, "old": string(f.Old), "old_hex_head": hex.EncodeToString(f.Old[:min(8, len(f.Old))]),
						"old_len": len(f.Old), "new_len": len(f.New), "fault_free_run_succeeds": f.New != nil}
					c.c18ByMonitor("dress", i, in)
					c.Class(fmt.Sprintf("dress/%s/%s/%s%v/exit%v", cmd, f.Kind, ij.sys, ij.kill, pr.Exit == 0))
					if !ij.kill {
						c.c18Check(bt, "dress", i, in, f, f.Mode, pr, obs, -1, ij.cands, others, originals)
						continue
					}
					c.Evals++
					old, nw := fieldOf(f.Old, f.Mode), newField(f.New)
					tgt := obs.Target
					bt.Add(func(mon string) {
						c.Monitor("dress", i, "C18_invariant after a crash (allOrNothing, status unknown)", in, mon == "ok",
							fmt.Sprintf("%s: old=%s new=%s observed=%s", mon, clip(old), clip(nw), clip(tgt)))
					}, "c18mon", old, nw, tgt, "-")
				}
			}
		}
	}
}

// ---------------------------------------------------------------- perm stream (unprivileged user)

func (c *Ctx) c18Perm() {
	n := c.N(160, 2000)
	scratch := filepath.Join(c.WorkDir, "render")
	bt := c.NewBatch()
	defer bt.Flush()
	// does dropping privileges work here at all?
	probe := c.c18Exec(c18Run{Dir: filepath.Join(c.WorkDir, "perm-probe"), Files: map[string][]byte{"x.knut": []byte("")}, Modes: map[string]os.FileMode{"x.knut": 0o644},
		Argv: []string{"format", "x.knut"}, Limit: -1, AsNobody: true, DirMode: 0o777})
	if probe.Exit != 0 {
		c.Notes = append(c.Notes, "perm stream skipped: cannot run knut as an unprivileged user here: "+clip(probe.Stderr))
		c.Extra["perm_stream"] = "skipped"
		return
	}
	for i := 0; i < n; i++ {
		i := i
		if !c.Want("perm", i) {
			continue
		}
		r := c.Rng("perm", i)
		kind := Pick(r, []string{"plain", "plain", "big", "formatted", "parse-error"})
		f := c.c18GenFile(r, scratch, "journal.knut", kind)
		dirMode := Pick(r, []os.FileMode{0o555, 0o555, 0o755, 0o777, 0o500})
		fileMode := Pick(r, []os.FileMode{0o644, 0o444, 0o400, 0o000, 0o600, 0o200})
		f.Mode = fileMode
		dir := filepath.Join(c.WorkDir, "perm")
		pr := c.c18Exec(c18Run{Dir: dir, Files: map[string][]byte{f.Name: f.Old}, Modes: map[string]os.FileMode{f.Name: fileMode}, Argv: []string{"format", f.Name},
			Limit: -1, AsNobody: true, DirMode: dirMode})
		os.Chmod(filepath.Join(dir, f.Name), 0o644|fileMode) // so that the harness can read it back
		obs := c18Observe(dir, f.Name, []string{f.Name})
		// the mode the observation shows was widened for reading: put the real one back into the field
		if obs.Target != "absent" {
			st := strings.SplitN(obs.Target, ":", 2)
			m, _ := strconv.Atoi(st[0])
			if os.FileMode(m) == (0o644 | fileMode) {
				obs.Target = fmt.Sprintf("%d:%s", int(fileMode), st[1])
			}
		}
		in := map[string]any{"argv": []string{"format", f.Name}, "uid": 65534, "dir_mode": fmt.Sprintf("%o", dirMode), "file_mode": fmt.Sprintf("%o", fileMode), "file_kind": kind, "old": string(f.Old)}
		c.c18ByMonitor("perm", i, in)
		// the scenario the permissions amount to
		fault := "-"
		switch {
		case fileMode&0o400 == 0:
			fault = "read"
		case dirMode&0o200 == 0:
			fault = "createTemp"
		}
		c.Class(fmt.Sprintf("perm/dir%o/file%o/%s/%s", dirMode, fileMode, kind, fault))
		if i < 2 {
			c.Sample(map[string]any{"stream": "perm", "input": map[string]any{"dir_mode": fmt.Sprintf("%o", dirMode), "file_mode": fmt.Sprintf("%o", fileMode)}, "exit": pr.Exit, "stderr": clip(pr.Stderr)})
		}
		c.c18Check(bt, "perm", i, in, f, fileMode, pr, obs, -1, [][2]string{{fault, "0"}}, nil, []string{f.Name})
		names := strings.Join(obs.Names, ",")
		bt.Add(func(mon string) {
			c.Monitor("perm", i, "no stray file (sameNames)", in, mon == "ok", "directory after the run: "+names)
		}, "c18names", f.Name, names)
	}
}

// ---------------------------------------------------------------- permlimit stream (two faults at once)

// c18PermLimit: the temp file cannot be created (directory not writable for the user, the journal itself is) AND the
// file size limit cuts every write short. Whatever a command does when it cannot create its temp file, the journal
// must still be the complete old or the complete new file. Both `format` and `infer -i`.
func (c *Ctx) c18PermLimit() {
	nfiles := c.N(24, 120)
	perFile := c.N(6, 24)
	scratch := filepath.Join(c.WorkDir, "render")
	probe := c.c18Exec(c18Run{Dir: filepath.Join(c.WorkDir, "permlimit-probe"), Files: map[string][]byte{"x.knut": []byte("")}, Modes: map[string]os.FileMode{"x.knut": 0o644},
		Argv: []string{"format", "x.knut"}, Limit: 1 << 20, AsNobody: true, DirMode: 0o777})
	if probe.Exit != 0 {
		c.Notes = append(c.Notes, "permlimit stream skipped: cannot run knut as an unprivileged user under a size limit here: "+clip(probe.Stderr))
		c.Extra["permlimit_stream"] = "skipped"
		return
	}
	bt := c.NewBatch()
	defer bt.Flush()
	for fi := 0; fi < nfiles; fi++ {
		if c.Replay && c.OnlyIndex/100000 != fi {
			continue
		}
		r := c.Rng("permlimit", fi)
		kind := Pick(r, []string{"plain", "plain", "big", "formatted"})
		infer := fi%2 == 0
		var f c18File
		var argv []string
		files := map[string][]byte{}
		modes := map[string]os.FileMode{}
		others := map[string]string{}
		if infer {
			f = c18File{Name: "target.knut", Old: []byte(c18InferTarget(r, kind)), Mode: Pick(r, []os.FileMode{0o644, 0o600}), Kind: "infer-" + kind}
			argv = []string{"infer", "-i", "-t", "training.knut", "target.knut"}
			f.New = c.c18Render(scratch, func(t string) []string { return []string{"infer", "-i", "-t", "training.knut", t} }, f.Name, f.Old,
				map[string][]byte{"training.knut": []byte(c18Training)})
			files["training.knut"] = []byte(c18Training)
			modes["training.knut"] = 0o644
			others["training.knut"] = fieldOf([]byte(c18Training), 0o644)
		} else {
			f = c.c18GenFile(r, scratch, "journal.knut", kind)
			f.Mode = Pick(r, []os.FileMode{0o644, 0o600})
			argv = []string{"format", f.Name}
		}
		files[f.Name] = f.Old
		modes[f.Name] = f.Mode
		dirMode := Pick(r, []os.FileMode{0o555, 0o555, 0o555, 0o500, 0o755})
		fault := "-"
		if dirMode&0o200 == 0 {
			fault = "createTemp"
		}
		for _, k := range c18Limits(r, len(f.New), len(f.Old), perFile, false) {
			i := fi*100000 + k
			if k >= 100000 || !c.Want("permlimit", i) {
				continue
			}
			dir := filepath.Join(c.WorkDir, "permlimit")
			pr := c.c18Exec(c18Run{Dir: dir, Files: files, Modes: modes, Argv: argv, Limit: k, AsNobody: true, DirMode: dirMode})
			os.Chmod(filepath.Join(dir, f.Name), 0o644)
			obs := c18Observe(dir, f.Name, []string{f.Name, "training.knut"})
			if obs.Target != "absent" {
				st := strings.SplitN(obs.Target, ":", 2)
				obs.Target = fmt.Sprintf("%d:%s", int(f.Mode), st[1])
			}
			in := map[string]any{"argv": argv, "uid": 65534, "dir_mode": fmt.Sprintf("%o", dirMode), "file_mode": fmt.Sprintf("%o", f.Mode), "file_kind": f.Kind, "RLIMIT_FSIZE": k,
				"old": string(f.Old), "new_len": len(f.New)}
			c.c18ByMonitor("permlimit", i, in)
			cut := "fits"
			if f.New != nil && k < len(f.New) {
				cut = "cut"
			}
			c.Class(fmt.Sprintf("permlimit/%s/dir%o/%s/%s/%s", argv[0], dirMode, f.Kind, cut, fault))
			c.c18Check(bt, "permlimit", i, in, f, f.Mode, pr, obs, k, [][2]string{{fault, "0"}}, others, nil)
		}
	}
}

// ---------------------------------------------------------------- multi stream

func (c *Ctx) c18Multi() {
	n := c.N(200, 3000)
	scratch := filepath.Join(c.WorkDir, "render")
	bt := c.NewBatch()
	defer bt.Flush()
	// one case: the files of case number gen of the multi stream, under its own limit (limitSel == -2) or a given one
	runCase := func(stream string, i, gen, limitSel int) {
		if !c.Want(stream, i) {
			return
		}
		r := c.Rng("multi", gen)
		nf := r.Range(2, 6)
		var fs []c18File
		files := map[string][]byte{}
		modes := map[string]os.FileMode{}
		var argv = []string{"format"}
		var names []string
		hasBad := false
		for k := 0; k < nf; k++ {
			kind := Pick(r, []string{"plain", "plain", "big", "formatted", "parse-error", "empty", "binary", "binary"})
			if k == nf-1 && !hasBad && r.Chance(3, 4) {
				kind = "parse-error"
			}
			if kind == "parse-error" || kind == "binary" {
				hasBad = true
			}
			f := c.c18GenFile(r, scratch, fmt.Sprintf("j%d.knut", k), kind)
			// distinct contents, so that the model's per-content renderer is a function
			f.Old = append(f.Old, []byte(fmt.Sprintf("\n# file %d\n", k))...)
			f.New = c.c18Render(scratch, func(t string) []string { return []string{"format", t} }, f.Name, f.Old, nil)
			fs = append(fs, f)
			files[f.Name] = f.Old
			modes[f.Name] = f.Mode
			names = append(names, f.Name)
		}
		order := r.Intn(2)
		for k := range fs {
			if order == 0 {
				argv = append(argv, fs[k].Name)
			} else {
				argv = append(argv, fs[len(fs)-1-k].Name)
			}
		}
		limit := -1
		if r.Chance(1, 2) {
			// a limit between the sizes: some files fit, some do not
			limit = len(fs[r.Intn(nf)].New) + r.Range(-3, 3)
			if limit < 0 {
				limit = 0
			}
		}
		// half of the cases on one processor: the files are then formatted one after the other, so whatever a failed
		// write leaves behind in the process meets the next file; limits between the mean of two sizes and the larger one
		// let the larger file fail and a smaller one pass
		var env []string
		if r.Chance(1, 2) {
			env = []string{"GOMAXPROCS=1"}
			if limit >= 0 && r.Chance(1, 2) {
				a, b := len(fs[r.Intn(nf)].New), len(fs[r.Intn(nf)].New)
				if a < b {
					a, b = b, a
				}
				if a > b {
					limit = (a+b)/2 + r.Intn(a-(a+b)/2)
				}
			}
		}
		if limitSel != -2 {
			limit = limitSel
		}
		dir := filepath.Join(c.WorkDir, "multi")
		pr := c.c18Exec(c18Run{Dir: dir, Files: files, Modes: modes, Argv: argv, Limit: limit, Env: env})
		c.Evals++
		in := map[string]any{"argv": argv, "RLIMIT_FSIZE": limit, "env": env, "kinds": func() []string {
			var ks []string
			for _, f := range fs {
				ks = append(ks, f.Kind)
			}
			return ks
		}(), "files": func() map[string]string {
			m := map[string]string{}
			for _, f := range fs {
				m[f.Name] = string(f.Old)
			}
			return m
		}()}
		c.c18ByMonitor(stream, i, in)
		if !c.Monitor(stream, i, "terminates", in, !pr.Timeout, "timeout") {
			return
		}
		c.Class(fmt.Sprintf(stream+"/n%d/bad%v/limit%v/exit%v", nf, hasBad, limit >= 0, pr.Exit == 0))
		if i < 2 {
			c.Sample(map[string]any{"stream": "multi", "argv": argv, "RLIMIT_FSIZE": limit, "exit": pr.Exit, "stderr": clip(pr.Stderr)})
		}
		// model: all files in one c18multi request
		lim := "-"
		if limit >= 0 {
			lim = itoa(limit)
		}
		var jobs, implParts []string
		var strays []string
		ents, _ := os.ReadDir(dir)
		for _, e := range ents {
			if _, ok := files[e.Name()]; !ok {
				strays = append(strays, e.Name())
			}
		}
		for _, f := range fs {
			jobs = append(jobs, fmt.Sprintf("-/%s/0/%s/%s", lim, fieldOf(f.Old, f.Mode), newField(f.New)))
			implParts = append(implParts, fileField(filepath.Join(dir, f.Name)))
		}
		allOK := pr.Exit == 0
		bt.Add(func(ans string) {
			parts := strings.Split(ans, ";")
			var modelParts []string
			modelOK := true
			for _, p := range parts {
				fl := strings.Fields(p)
				if len(fl) < 2 {
					modelParts = append(modelParts, p)
					continue
				}
				if fl[0] != "ok" {
					modelOK = false
				}
				modelParts = append(modelParts, fl[len(fl)-2])
			}
			c.Compare(stream, i, "c18multi", in, fmt.Sprintf("exit-ok=%v %s", allOK, strings.Join(implParts, " ")), fmt.Sprintf("exit-ok=%v %s", modelOK, strings.Join(modelParts, " ")))
		}, "c18multi", strings.Join(jobs, ","))
		for k, f := range fs {
			status := "-"
			if allOK {
				status = "1"
			}
			old, nw, obs := fieldOf(f.Old, f.Mode), newField(f.New), implParts[k]
			name := f.Name
			bt.Add(func(mon string) {
				c.Monitor(stream, i, "C18 allOrNothing per file / C18_files_independent", in, mon == "ok",
					fmt.Sprintf("%s: file %s exit=%d old=%s new=%s observed=%s", mon, name, pr.Exit, clip(old), clip(nw), clip(obs)))
			}, "c18mon", old, nw, obs, status)
			// the last clause of the property on this file alone: whatever the command as a whole reports, a file that parses
			// and whose own write fits under the limit has been rewritten completely
			if f.New != nil && (limit < 0 || len(f.New) <= limit) {
				bt.Add(func(mon string) {
					c.Monitor(stream, i, c18IndependentPred, in, mon == "ok",
						fmt.Sprintf("%s: file %s (of %s) exit=%d stderr=%s old=%s new=%s observed=%s", mon, name, strings.Join(argv, " "), pr.Exit, clip(pr.Stderr), clip(old), clip(nw), clip(obs)))
				}, "c18mon", old, nw, obs, "1")
			}
		}
		c.Monitor(stream, i, "no stray file", in, len(strays) == 0, strings.Join(strays, ","))
	}
	if !c.Replay || c.OnlyStr == "multi" {
		for i := 0; i < n; i++ {
			runCase("multi", i, i, -2)
		}
		bt.Flush()
	}
	// directed search: the file sets on which code and model (or the predicate) disagree, under every interesting limit:
	// around each file's new size, around sums of two sizes (a write that carries more than its own file), and none
	var suspects []int
	seen := map[int]bool{}
	if c.Replay && c.OnlyStr == "multi-directed" {
		suspects = []int{c.OnlyIndex / 1000}
	} else if !c.Replay {
		for _, f := range c.Findings {
			if f.Stream == "multi" && !seen[f.Index] && len(suspects) < 6 {
				seen[f.Index] = true
				suspects = append(suspects, f.Index)
			}
		}
	}
	for _, gen := range suspects {
		sizes := c18MultiSizes(c, gen, scratch)
		set := map[int]bool{-1: true}
		for _, a := range sizes {
			for d := -2; d <= 2; d++ {
				set[a+d] = true
			}
			for _, b := range sizes {
				set[a+b] = true
				set[a+b+1] = true
				set[a+b/2] = true
				set[(a+b)/2] = true
				set[(a+b)/2+1] = true
				set[(3*a+b)/4] = true
			}
			set[2*a+64] = true
		}
		var ls []int
		for l := range set {
			if l >= -1 {
				ls = append(ls, l)
			}
		}
		sort.Ints(ls)
		for k, l := range ls {
			if k >= 1000 {
				break
			}
			runCase("multi-directed", gen*1000+k, gen, l)
		}
	}
	if len(suspects) > 0 && !c.Replay {
		c.Notes = append(c.Notes, fmt.Sprintf("directed search: %d file sets of the multi stream on which code and model differ, each under every size limit around the files' sizes and their pairwise sums", len(suspects)))
	}
}

// c18MultiSizes: the sizes of the formatted files of case gen of the multi stream
func c18MultiSizes(c *Ctx, gen int, scratch string) []int {
	r := c.Rng("multi", gen)
	nf := r.Range(2, 6)
	var res []int
	hasBad := false
	for k := 0; k < nf; k++ {
		kind := Pick(r, []string{"plain", "plain", "big", "formatted", "parse-error", "empty", "binary", "binary"})
		if k == nf-1 && !hasBad && r.Chance(3, 4) {
			kind = "parse-error"
		}
		if kind == "parse-error" || kind == "binary" {
			hasBad = true
		}
		f := c.c18GenFile(r, scratch, fmt.Sprintf("j%d.knut", k), kind)
		f.Old = append(f.Old, []byte(fmt.Sprintf("\n# file %d\n", k))...)
		f.New = c.c18Render(scratch, func(t string) []string { return []string{"format", t} }, f.Name, f.Old, nil)
		if f.New != nil {
			res = append(res, len(f.New))
		}
	}
	return res
}

// ---------------------------------------------------------------- siblings stream

// The last clause of the property, stated on the real directory (Lean predicate allOrNothing with the status of the
// file's SOLO run, which is what C18_files_independent proves of the model): a file of the invocation that exists, can
// be read, parses and whose own write meets no fault ends with its complete new contents — the bytes `knut format` alone
// on a private copy produces, with the old mode — whatever happens to the other files named in the same command and
// wherever it stands in the argument list.
const c18IndependentPred = "C18_files_independent: a file that parses and whose own write meets no fault ends with its complete new contents, whatever happens to the other files of the same command"

type c18Sib struct {
	c18File
	Fault string // "-" | "parse" | "read" (mode 000, unprivileged user) | "missing" (named but absent) | "limit" (larger than RLIMIT_FSIZE)
}

type c18SibCase struct {
	Files    []c18Sib // in argument order
	Limit    int
	Env      []string
	Procs    int // 0: not set
	AsNobody bool
	Place    string
	NBad     int
}

// c18SibGen: 2-12 files, 0-3 of them failing at the first / middle / last / random argument positions; kinds of failure:
// a damaged line, a file that is no text at all, an unreadable file, a missing file, a file larger than the size limit.
func (c *Ctx) c18SibGen(i int, scratch string, canDrop bool) c18SibCase {
	r := c.Rng("siblings", i)
	nf := 2 + i%11
	nbad := Pick(r, []int{0, 1, 1, 1, 1, 2, 2, 3})
	if nbad > nf-1 {
		nbad = nf - 1
	}
	cs := c18SibCase{Limit: -1, NBad: nbad, Place: Pick(r, []string{"first", "middle", "last", "random"})}
	bad := map[int]string{}
	faults := []string{"parse-error", "binary", "unreadable", "missing", "limit"}
	pos := 0
	switch cs.Place {
	case "middle":
		pos = (nf - nbad) / 2
	case "last":
		pos = nf - nbad
	}
	for k := 0; k < nbad; k++ {
		p := pos + k
		if cs.Place == "random" {
			for p = r.Intn(nf); bad[p] != ""; p = r.Intn(nf) {
			}
		}
		bad[p] = Pick(r, faults)
		if bad[p] == "unreadable" && !canDrop {
			bad[p] = "missing"
		}
	}
	withLimit := false
	for _, b := range bad {
		withLimit = withLimit || b == "limit"
	}
	goodKinds := []string{"plain", "plain", "big", "formatted", "empty", "no-final-newline"}
	if withLimit {
		// the files that are to pass are smaller than the ones that are to be cut
		goodKinds = []string{"plain", "plain", "formatted", "empty", "no-final-newline"}
	}
	formatCmd := func(t string) []string { return []string{"format", t} }
	maxGood, minBad := 0, -1
	for k := 0; k < nf; k++ {
		f := c18Sib{Fault: "-"}
		f.Name = fmt.Sprintf("%s%d.knut", Pick(r, []string{"a", "j", "m", "z"}), k)
		f.Mode = Pick(r, []os.FileMode{0o644, 0o644, 0o600, 0o664, 0o640})
		f.Kind = Pick(r, goodKinds)
		switch bad[k] {
		case "parse-error", "binary":
			f.Kind, f.Fault = bad[k], "parse"
		case "unreadable":
			f.Mode, f.Fault, cs.AsNobody = 0, "read", true
		case "missing":
			f.Fault = "missing"
		case "limit":
			f.Kind, f.Fault = "big", "limit"
		}
		text := c18GenText(r, f.Kind)
		// distinct contents, so that the model's per-content renderer is a function
		if f.Kind == "no-final-newline" {
			text += fmt.Sprintf("\n# file %d", k)
		} else {
			text += fmt.Sprintf("\n# file %d\n", k)
		}
		f.Old = []byte(text)
		if f.Kind == "formatted" {
			if nb := c.c18Render(scratch, formatCmd, f.Name, f.Old, nil); nb != nil {
				f.Old = nb
			}
		}
		if f.Fault == "missing" {
			f.Old = nil
		} else {
			f.New = c.c18Render(scratch, formatCmd, f.Name, f.Old, nil)
		}
		if f.New != nil {
			if f.Fault == "limit" {
				if minBad < 0 || len(f.New) < minBad {
					minBad = len(f.New)
				}
			} else if len(f.New) > maxGood {
				maxGood = len(f.New)
			}
		}
		cs.Files = append(cs.Files, f)
	}
	switch {
	case withLimit && minBad > maxGood:
		// anywhere between the largest file that is to pass (fits exactly) and one byte less than the smallest that is to fail
		cs.Limit = Pick(r, []int{maxGood, minBad - 1, maxGood + r.Intn(minBad-maxGood), (maxGood + minBad) / 2})
	case withLimit:
		cs.Limit = minBad - 1
	case r.Chance(1, 4):
		// a limit that cuts nobody: the largest file fits exactly or with a few bytes to spare
		cs.Limit = maxGood + Pick(r, []int{0, 0, 1, 2, 4096})
	}
	// a third of the cases: the arguments' names are derived from ONE name (ledger.knut, ledger.knut2, ledger.knut.bak,
	// ledger.knut~, .ledger.knut.tmp, …), the plain name at a random argument position — whatever a command does with
	// names "like" the file it is working on then meets another file of the same invocation. (Own generator, so that the
	// files of a case are the ones they were before this was added.)
	if rn := c.Rng("siblings-names", i); rn.Chance(1, 3) {
		base := Pick(rn, []string{"ledger.knut", "j.knut", "2023.knut", "journal"})
		at := rn.Intn(nf)
		used := map[string]bool{base: true}
		for k := range cs.Files {
			if k == at {
				cs.Files[k].Name = base
				continue
			}
			name := ""
			for name == "" || used[name] {
				d := itoa(rn.Intn(Pick(rn, []int{10, 10, 1000, 1000000000})))
				name = Pick(rn, []string{base + d, base + d, base + "0" + d, base + "." + d, base + ".bak", base + "~", base + ".tmp", "." + base + ".tmp", base + ".orig", base + "-" + d, base[:len(base)-1], "x" + base})
			}
			used[name] = true
			cs.Files[k].Name = name
		}
		cs.Place += "/names-of-one"
	}
	cs.Procs = Pick(r, []int{1, 1, 1, 2, 2, 16, 16, 0})
	if cs.Procs > 0 {
		cs.Env = append(cs.Env, fmt.Sprintf("GOMAXPROCS=%d", cs.Procs))
	}
	if r.Chance(1, 2) {
		cs.Env = append(cs.Env, fmt.Sprintf("KNUT_VERIF_SEED=%d", r.Range(1, 100000)))
	}
	return cs
}

// faulted: the file's own rewrite cannot succeed (its solo run fails)
func (cs c18SibCase) faulted(f c18Sib) bool {
	return f.Fault == "parse" || f.Fault == "read" || f.Fault == "missing" || f.New == nil || (cs.Limit >= 0 && len(f.New) > cs.Limit)
}

func (c *Ctx) c18Siblings() {
	n := c.N(150, 3000)
	scratch := filepath.Join(c.WorkDir, "render")
	canDrop := true
	probe := c.c18Exec(c18Run{Dir: filepath.Join(c.WorkDir, "siblings-probe"), Files: map[string][]byte{"x.knut": []byte("")}, Modes: map[string]os.FileMode{"x.knut": 0o644},
		Argv: []string{"format", "x.knut"}, Limit: 1 << 20, AsNobody: true, DirMode: 0o755})
	if probe.Exit != 0 {
		canDrop = false
		c.Notes = append(c.Notes, "siblings stream: cannot run knut as an unprivileged user here, unreadable files are replaced by missing ones: "+clip(probe.Stderr))
		c.Extra["siblings_unreadable"] = "skipped"
	}
	bt := c.NewBatch()
	defer bt.Flush()
	for i := 0; i < n; i++ {
		i := i
		if !c.Want("siblings", i) {
			continue
		}
		cs := c.c18SibGen(i, scratch, canDrop)
		files := map[string][]byte{}
		modes := map[string]os.FileMode{}
		argv := []string{"format"}
		desc := []map[string]any{}
		var failing []int
		kindSet := map[string]bool{}
		for k, f := range cs.Files {
			argv = append(argv, f.Name)
			if f.Fault != "missing" {
				files[f.Name] = f.Old
				modes[f.Name] = f.Mode
			}
			fl := f.Fault
			if fl == "-" && f.New == nil {
				fl = "parse"
			} else if fl == "-" && cs.faulted(f) {
				fl = "limit"
			}
			if cs.faulted(f) {
				failing = append(failing, k)
				kindSet[fl+"/"+f.Kind] = true
			}
			desc = append(desc, map[string]any{"name": f.Name, "kind": f.Kind, "fails_alone": cs.faulted(f), "why": fl, "mode": fmt.Sprintf("%o", f.Mode), "old": string(f.Old), "new_len": len(f.New)})
		}
		var kinds []string
		for k := range kindSet {
			kinds = append(kinds, k)
		}
		sort.Strings(kinds)
		dir := filepath.Join(c.WorkDir, "siblings")
		rn := c18Run{Dir: dir, Files: files, Modes: modes, Argv: argv, Limit: cs.Limit, Env: cs.Env, AsNobody: cs.AsNobody}
		observe := func() []string {
			var parts []string
			for _, f := range cs.Files {
				parts = append(parts, fileField(filepath.Join(dir, f.Name)))
			}
			return parts
		}
		pr := c.c18Exec(rn)
		implParts := observe()
		if c.Replay && cs.Procs != 1 {
			// the outcome may depend on the schedule: a replay repeats the command until a file that should be new is not
			for rep := 0; rep < 12; rep++ {
				hit := len(c18ByLast.Bad) > 0
				for k, f := range cs.Files {
					if !cs.faulted(f) && implParts[k] != fieldOf(f.New, f.Mode) {
						hit = true
					}
				}
				if hit {
					break
				}
				pr = c.c18Exec(rn)
				implParts = observe()
			}
		}
		c.Evals++
		in := map[string]any{"argv": argv, "RLIMIT_FSIZE": cs.Limit, "env": cs.Env, "files_in_argument_order": desc, "failing_positions": failing}
		if cs.AsNobody {
			in["uid"] = 65534
		}
		c.c18ByMonitor("siblings", i, in)
		if !c.Monitor("siblings", i, "terminates", in, !pr.Timeout, "timeout") {
			continue
		}
		c.Monitor("siblings", i, "no panic", in, !strings.Contains(pr.Stderr, "panic:") && !strings.Contains(pr.Stderr, "goroutine "), clip(pr.Stderr))
		nfb := "2"
		switch nf := len(cs.Files); {
		case nf > 8:
			nfb = "9-12"
		case nf > 4:
			nfb = "5-8"
		case nf > 2:
			nfb = "3-4"
		}
		place := cs.Place
		if len(failing) == 0 {
			place = "-"
		}
		c.Class(fmt.Sprintf("siblings/n%s/failing%d/%s/%s/procs%d/limit%v", nfb, len(failing), place, strings.Join(kinds, "+"), cs.Procs, cs.Limit >= 0))
		if i < 2 {
			c.Sample(map[string]any{"stream": "siblings", "argv": argv, "env": cs.Env, "RLIMIT_FSIZE": cs.Limit, "failing_positions": failing, "exit": pr.Exit, "stderr": clip(pr.Stderr)})
		}
		var strays []string
		ents, _ := os.ReadDir(dir)
		for _, e := range ents {
			if _, ok := files[e.Name()]; !ok {
				strays = append(strays, e.Name())
			}
		}
		lim := "-"
		if cs.Limit >= 0 {
			lim = itoa(cs.Limit)
		}
		var jobs []string
		for _, f := range cs.Files {
			fault, old := "-", "absent"
			if f.Fault == "read" {
				fault = "read"
			}
			if f.Fault != "missing" {
				old = fieldOf(f.Old, f.Mode)
			}
			jobs = append(jobs, fmt.Sprintf("%s/%s/0/%s/%s", fault, lim, old, newField(f.New)))
		}
		allOK := pr.Exit == 0
		bt.Add(func(ans string) {
			var modelParts []string
			modelOK := true
			for _, p := range strings.Split(ans, ";") {
				fl := strings.Fields(p)
				if len(fl) < 2 {
					modelParts = append(modelParts, p)
					continue
				}
				if fl[0] != "ok" {
					modelOK = false
				}
				modelParts = append(modelParts, fl[len(fl)-2])
			}
			c.Compare("siblings", i, "c18multi", in, fmt.Sprintf("exit-ok=%v %s", allOK, strings.Join(implParts, " ")), fmt.Sprintf("exit-ok=%v %s", modelOK, strings.Join(modelParts, " ")))
		}, "c18multi", strings.Join(jobs, ","))
		for k, f := range cs.Files {
			old, nw, obs := "absent", newField(f.New), implParts[k]
			if f.Fault != "missing" {
				old = fieldOf(f.Old, f.Mode)
			}
			name, k := f.Name, k
			if cs.faulted(f) {
				bt.Add(func(mon string) {
					c.Monitor("siblings", i, "C18 allOrNothing: a file whose own rewrite fails is left as it was", in, mon == "ok",
						fmt.Sprintf("%s: argument %d (%s) exit=%d stderr=%s old=%s observed=%s", mon, k+1, name, pr.Exit, clip(pr.Stderr), clip(old), clip(obs)))
				}, "c18mon", old, nw, obs, "0")
				continue
			}
			bt.Add(func(mon string) {
				c.Monitor("siblings", i, c18IndependentPred, in, mon == "ok",
					fmt.Sprintf("%s: argument %d (%s) of %s %v; failing arguments (0-based) %v; exit=%d stderr=%s old=%s new=%s observed=%s", mon, k+1, name, strings.Join(argv, " "), cs.Env, failing,
						pr.Exit, clip(pr.Stderr), clip(old), clip(nw), clip(obs)))
			}, "c18mon", old, nw, obs, "1")
		}
		c.Monitor("siblings", i, "no stray file", in, len(strays) == 0, strings.Join(strays, ","))
	}
}

// ---------------------------------------------------------------- bystanders
//
// Every run of every stream (c18Exec) gets BYSTANDERS into its working directory: files, symbolic links and
// sub-directories that the command was not asked to touch, with names derived from the names on the command line —
// <target><digits> (the shape of atomic's temp names), <target>.tmp, .<target>.tmp, <target>~, <target>.bak,
// <target>.123, prefixes and suffixes of the target's name, hidden files, directories named like a temp file — with
// known contents (a copy of the journal, another journal, bytes that are no journal, nothing) and modes, owned by the
// user of the command or by somebody else.  After the run, whatever fault was injected and however it ended (ok, error,
// killed), each of them must be exactly as before: existence, kind, contents, mode (C18_others_untouched: no path other
// than the target and the fresh temp name changes in any state).  They are then taken away again so that the stream's
// own observation of the directory (target, stray temp file, the other original files) is what it was without them.
// (Seeded change C18-j "tidied up" after a failed write by removing every entry named <target><digits>.)

type c18ByEntry struct {
	Name string
	Kind string // "file" | "dir" | "link"
	Mode os.FileMode
	Data []byte   // file contents, link destination
	Sub  []string // names inside a directory
}

type c18BySet struct {
	Dir     string
	Entries []c18ByEntry
}

type c18ByResult struct {
	Names []string // what was put into the directory
	Bad   []string // one line per bystander that is not as before
}

// c18ByLast: the bystanders of the most recent c18Exec (the harness runs its cases one after the other)
var c18ByLast c18ByResult

const c18ByPred = "C18_others_untouched: every bystander of the directory (files, links and directories named after the target: <target><digits>, <target>.tmp, .<target>.tmp, <target>~, " +
	"<target>.bak, prefixes, suffixes, hidden names) still exists with its contents and mode, whatever happened to the rewrite"

// c18ByTargets: the file names on the command line (for infer also the training file)
func c18ByTargets(rn c18Run) []string {
	var res []string
	seen := map[string]bool{}
	for k, a := range rn.Argv {
		if k == 0 || a == "" || strings.HasPrefix(a, "-") || strings.ContainsRune(a, '/') || seen[a] {
			continue
		}
		seen[a] = true
		res = append(res, a)
	}
	return res
}

func c18ByHash(rn c18Run) int {
	h := uint32(2166136261)
	add := func(s string) {
		for i := 0; i < len(s); i++ {
			h = (h ^ uint32(s[i])) * 16777619
		}
		h = (h ^ 0xff) * 16777619
	}
	for _, a := range rn.Argv {
		add(a)
	}
	for _, a := range rn.Strace {
		add(a)
	}
	for _, a := range rn.Env {
		add(a)
	}
	add(fmt.Sprintf("%d/%o/%v/%d", rn.Limit, rn.DirMode, rn.AsNobody, len(rn.Files)))
	return int(h & 0x3fffffff)
}

// c18ByPlant creates the bystanders of one run. Every choice comes from c.Rng("bystanders", hash of the run's command
// line, faults and limit), so a replayed case meets the same directory.
func (c *Ctx) c18ByPlant(rn c18Run) *c18BySet {
	set := &c18BySet{Dir: rn.Dir}
	if os.Getenv("C18_NO_BYSTANDERS") != "" {
		return set
	}
	targets := c18ByTargets(rn)
	r := c.Rng("bystanders", c18ByHash(rn))
	taken := map[string]bool{}
	for n := range rn.Files {
		taken[n] = true
	}
	for _, t := range targets {
		taken[t] = true
	}
	otherJournal := []byte("2021-03-04 open Assets:Other\n2021-03-04 open Income:Other\n\n2021-03-05   \"bystander\"\nIncome:Other   Assets:Other   7.25   EUR\n")
	// every target gets a few names of every family of shapes (creating and checking some forty entries per target in each
	// of several thousand runs would take a minute): two per family, one when there are many files on the command line,
	// four in the thorough tier
	per := 2
	if len(targets) > 2 {
		per = 1
	}
	if c.Thorough() {
		per *= 2
	}
	for _, t := range targets {
		stem, ext := t, ""
		if k := strings.LastIndex(t, "."); k > 0 {
			stem, ext = t[:k], t[k:]
		}
		digits := func(n int) string {
			var b strings.Builder
			for i := 0; i < n; i++ {
				b.WriteByte(byte('0' + r.Intn(10)))
			}
			return b.String()
		}
		families := [][]string{{
			// the target's name followed by digits: one digit, the length of a temp name, leading zero, very long
			t + digits(1), t + "2", t + "0", t + digits(r.Range(2, 8)), t + digits(r.Range(9, 10)), t + "0" + digits(3), t + digits(19),
		}, {
			// digits in other places, and almost-digits
			t + "." + digits(3), t + "-" + digits(2), t + "_" + digits(1), t + digits(2) + "a", t + "a" + digits(2), t + " " + digits(1), t + "." + digits(6) + ".tmp",
			stem + digits(1) + ext, stem + digits(4) + ext, digits(3) + t,
		}, {
			// editor / backup / temp spellings
			t + ".tmp", "." + t + ".tmp", t + "~", "#" + t + "#", t + ".bak", t + ".orig", t + ".swp", "." + t + ".swp", t + ".new", t + ".old", t + ".lock", "tmp" + t, t + ".part",
		}, {
			// prefixes and suffixes of the name, other cases
			t[:len(t)-1], stem, stem + ".", t[1:], "x" + t, t + "x", t + ext, strings.ToUpper(t), stem + ".KNUT", stem + ".knut.knut",
		}, {
			// hidden
			"." + t, "." + stem, ".hidden", "." + t + digits(5),
		}}
		var names []string
		for _, fam := range families {
			for k := 0; k < per && len(fam) > 0; k++ {
				j := r.Intn(len(fam))
				names = append(names, fam[j])
				fam = append(fam[:j], fam[j+1:]...)
			}
		}
		for _, n := range names {
			if n == "" || n == "." || n == ".." || taken[n] || strings.ContainsRune(n, '/') {
				continue
			}
			taken[n] = true
			e := c18ByEntry{Name: n, Kind: "file", Mode: Pick(r, []os.FileMode{0o644, 0o644, 0o600, 0o664, 0o444, 0o400, 0o000, 0o755, 0o666})}
			switch r.Intn(8) {
			case 0:
				e.Kind, e.Mode = "dir", Pick(r, []os.FileMode{0o755, 0o700, 0o777, 0o555})
			case 1:
				e.Kind, e.Mode, e.Sub = "dir", Pick(r, []os.FileMode{0o755, 0o700, 0o777}), []string{t, "inner" + digits(2)}
			case 2:
				// a symbolic link: to the target itself, to another bystander that may not exist, to nothing
				e.Kind, e.Data = "link", []byte(Pick(r, []string{t, t + "2", "nowhere", "."}))
			case 3:
				if b, ok := rn.Files[t]; ok {
					e.Data = append([]byte{}, b...) // a copy of the journal (ledger.knut2 next to ledger.knut)
				}
			case 4:
				e.Data = otherJournal
			case 5:
				e.Data = nil
			case 6:
				e.Data = []byte(strings.Repeat(Pick(r, []string{"\x00\xff", "not a journal\n", "2020-13-45 ???\n"}), r.Range(1, 3000)))
			default:
				e.Data = []byte(fmt.Sprintf("bystander %s of %s\n", n, t))
			}
			p := filepath.Join(rn.Dir, n)
			var err error
			switch e.Kind {
			case "dir":
				err = os.Mkdir(p, 0o755)
				for _, s := range e.Sub {
					os.WriteFile(filepath.Join(p, s), []byte("inside "+n+"\n"), 0o644)
				}
			case "link":
				err = os.Symlink(string(e.Data), p)
			default:
				err = os.WriteFile(p, e.Data, 0o644)
			}
			if err != nil {
				continue
			}
			// owned by the user of the command (who may then do with it what he likes) or by root
			if rn.AsNobody && r.Chance(1, 2) {
				os.Lchown(p, 65534, 65534)
				for _, s := range e.Sub {
					os.Lchown(filepath.Join(p, s), 65534, 65534)
				}
			}
			if e.Kind != "link" {
				os.Chmod(p, e.Mode)
			}
			set.Entries = append(set.Entries, e)
		}
	}
	return set
}

// verifyAndRemove compares every bystander with what was planted and takes it out of the directory again.
func (s *c18BySet) verifyAndRemove() c18ByResult {
	var res c18ByResult
	for _, e := range s.Entries {
		res.Names = append(res.Names, e.Name)
		p := filepath.Join(s.Dir, e.Name)
		bad := func(format string, a ...any) {
			res.Bad = append(res.Bad, fmt.Sprintf("%s (%s, mode %o, %d bytes): ", e.Name, e.Kind, e.Mode, len(e.Data))+fmt.Sprintf(format, a...))
		}
		st, err := os.Lstat(p)
		switch {
		case err != nil:
			bad("no longer there")
		case e.Kind == "link":
			if st.Mode()&os.ModeSymlink == 0 {
				bad("no longer a symbolic link (%v)", st.Mode())
			} else if d, _ := os.Readlink(p); d != string(e.Data) {
				bad("points to %q, before: %q", d, string(e.Data))
			}
		case e.Kind == "dir":
			if !st.IsDir() {
				bad("no longer a directory (%v)", st.Mode())
				break
			}
			if st.Mode().Perm() != e.Mode {
				bad("mode %o", st.Mode().Perm())
			}
			os.Chmod(p, 0o755)
			ents, _ := os.ReadDir(p)
			var in []string
			for _, x := range ents {
				in = append(in, x.Name())
			}
			want := append([]string{}, e.Sub...)
			sort.Strings(want)
			if strings.Join(in, ",") != strings.Join(want, ",") {
				bad("contains [%s], before: [%s]", strings.Join(in, ","), strings.Join(want, ","))
			}
		default:
			if !st.Mode().IsRegular() {
				bad("no longer a regular file (%v)", st.Mode())
				break
			}
			if st.Mode().Perm() != e.Mode {
				bad("mode %o", st.Mode().Perm())
			}
			if b, err := os.ReadFile(p); err != nil {
				bad("unreadable: %v", err)
			} else if string(b) != string(e.Data) {
				bad("contents changed: %d bytes %s", len(b), clip(string(b)))
			}
		}
		if e.Kind == "dir" {
			os.Chmod(p, 0o755)
		}
		os.RemoveAll(p)
	}
	sort.Strings(res.Names)
	return res
}

// c18ByMonitor states the property on the bystanders of the run that just ended.
func (c *Ctx) c18ByMonitor(stream string, idx int, in map[string]any) {
	by := c18ByLast
	in["bystanders"] = strings.Join(by.Names, " | ")
	c.Monitor(stream, idx, c18ByPred, in, len(by.Bad) == 0, fmt.Sprintf("%d of %d bystanders: %s", len(by.Bad), len(by.Names), strings.Join(by.Bad, "; ")))
	if len(by.Names) > 0 {
		c.Tag("bystanders")
	}
}

// ---------------------------------------------------------------- flags stream (command surface under faults)

// c18Flags: the fault streams above run `knut format FILE` and `knut infer -i -t T FILE` and nothing else; a flag a rewriting
// command gains later (a backup, a "keep going", a "force", a "no-sync" switch) is outside their vectors. This stream does not
// know the flags in advance: it reads the boolean flags `knut format --help` / `knut infer --help` offer (the reader of C08's
// `flags` streams: c08Exec, c08ParseHelp) and runs every rewriting command with the known vector, without the known in-place
// flag, with every additional boolean flag alone and together with the known in-place flag, and with pairs of additional
// flags - each under the faults of `limit` (RLIMIT_FSIZE = k bytes) and `inject` (the n-th write/fsync/renameat/openat/...
// fails, or the process is killed there). Nothing is assumed about what a flag means; the directory is judged by the
// property's own predicates:
//   - allOrNothing: the target is its complete old contents or the complete new contents - the bytes the SAME command line
//     leaves without a fault on a private copy; "must be old" when that command line is rejected. Status known (error => old,
//     ok => new) only for the reviewed in-place vector, unknown otherwise (a flag may suppress the writing);
//   - C18_others_untouched: the training file and every bystander (c18Exec) as before;
//   - no stray or partial file: a name that was not there before may only be a file named after the target holding the
//     complete old or the complete new contents (what a flag is documented to create: <target>~, <target>.bak); a cut temp
//     file, a half-written backup or anything else is reported. Not evaluated for a killed run (its temp file may stay).
type c18FlagVec struct {
	Cmd    string
	Names  []string // long names of the boolean flags given
	Args   []string // their spelling on the command line
	Review bool     // the reviewed in-place vector: status of the run is meaningful
}

func (v c18FlagVec) argv(target string) []string {
	a := append([]string{v.Cmd}, v.Args...)
	if v.Cmd == "infer" {
		a = append(a, "-t", "training.knut")
	}
	return append(a, target)
}

// c18FlagVectors reads the boolean flags of the command and returns the flag vectors to explore.
func (c *Ctx) c18FlagVectors(cmd, inplace string) []c18FlagVec {
	var status int
	var out, errOut string
	for try := 0; try < 3 && (try == 0 || status != 0); try++ {
		status, out, errOut = c08Exec(c.KnutBin, "", []string{cmd, "--help"})
	}
	if !c.Monitor("flags", -1, "`knut "+cmd+" --help` prints the flags", map[string]any{"command": cmd}, status == 0, clip(errOut)) {
		return nil
	}
	var extra []c08HelpFlag
	var inpl *c08HelpFlag
	for _, f := range c08ParseHelp(out) {
		f := f
		switch {
		case f.Name == "help" || !f.isBool():
		case f.Name == inplace:
			inpl = &f
		default:
			extra = append(extra, f)
			c.Tag("flags/additional-boolean-flag:" + cmd + " --" + f.Name)
		}
	}
	r := c.Rng("flags-spelling", len(cmd))
	spell := func(f c08HelpFlag) string {
		if f.Short != "" && r.Chance(1, 2) {
			return "-" + f.Short
		}
		return "--" + f.Name
	}
	mk := func(review bool, fs ...c08HelpFlag) c18FlagVec {
		v := c18FlagVec{Cmd: cmd, Review: review}
		for _, f := range fs {
			v.Names = append(v.Names, f.Name)
			v.Args = append(v.Args, spell(f))
		}
		// the order on the command line must not matter
		if len(v.Args) > 1 && r.Chance(1, 2) {
			v.Args[0], v.Args[len(v.Args)-1] = v.Args[len(v.Args)-1], v.Args[0]
		}
		return v
	}
	var vs []c18FlagVec
	if inpl != nil {
		vs = append(vs, mk(true, *inpl), mk(false))
	} else {
		vs = append(vs, mk(inplace == ""))
	}
	const maxExtra = 6
	if len(extra) > maxExtra {
		c.Notes = append(c.Notes, fmt.Sprintf("flags: `knut %s` offers %d additional boolean flags, the first %d are explored", cmd, len(extra), maxExtra))
		extra = extra[:maxExtra]
	}
	for _, f := range extra {
		if inpl != nil {
			vs = append(vs, mk(false, *inpl, f))
		}
		vs = append(vs, mk(false, f))
	}
	for a := 0; a < len(extra); a++ {
		for b := a + 1; b < len(extra); b++ {
			if inpl != nil {
				vs = append(vs, mk(false, *inpl, extra[a], extra[b]))
			} else {
				vs = append(vs, mk(false, extra[a], extra[b]))
			}
		}
	}
	return vs
}

type c18FlagFault struct {
	What   string
	Limit  int
	Strace []string
	Killed bool
}

func (c *Ctx) c18Flags() {
	nfiles := c.N(2, 8)
	nlimits := c.N(8, 40)
	scratch := filepath.Join(c.WorkDir, "render")
	dir := filepath.Join(c.WorkDir, "flags")
	bt := c.NewBatch()
	defer bt.Flush()
	idx := 0
	for _, cs := range [][2]string{{"format", ""}, {"infer", "inplace"}} {
		cmd := cs[0]
		vecs := c.c18FlagVectors(cmd, cs[1])
		var surface []string
		for _, v := range vecs {
			surface = append(surface, "["+strings.Join(v.Args, " ")+"]")
		}
		c.Extra["flags_vectors_"+cmd] = strings.Join(surface, " ")
		for vi, v := range vecs {
			for fi := 0; fi < nfiles; fi++ {
				r := c.Rng("flags", (len(cmd)*1000+vi)*100+fi)
				kind := []string{"plain", "big", "formatted", "plain", "no-final-newline", "big", "plain", "empty"}[fi%8]
				name := Pick(r, []string{"journal.knut", "ledger.knut", "target.knut", "j.knut", "2024.knut"})
				extraFiles := map[string][]byte{}
				var f c18File
				if cmd == "infer" {
					if kind == "formatted" || kind == "no-final-newline" {
						kind = "plain"
					}
					f = c18File{Name: name, Old: []byte(c18InferTarget(r, kind)), Mode: Pick(r, []os.FileMode{0o644, 0o600, 0o640}), Kind: "infer-" + kind}
					extraFiles["training.knut"] = []byte(c18Training)
				} else {
					f = c.c18GenFile(r, scratch, name, kind)
				}
				// the complete new contents: what this very command line leaves without a fault (nil: it is rejected)
				f.New = c.c18Render(scratch, v.argv, f.Name, f.Old, extraFiles)
				files := map[string][]byte{f.Name: f.Old}
				modes := map[string]os.FileMode{f.Name: f.Mode}
				others := map[string]string{}
				for n, b := range extraFiles {
					files[n], modes[n] = b, 0o644
					others[n] = fieldOf(b, 0o644)
				}
				argv := v.argv(f.Name)
				// faults: size limits around the interesting lengths, failing system calls, a kill in the middle
				var faults []c18FlagFault
				size := len(f.New)
				if f.New == nil {
					size = len(f.Old)
				}
				ks := map[int]bool{0: true, 1: true, size - 1: true, size: true, len(f.Old) - 1: true, size / 2: true}
				for len(ks) < nlimits+1 && size > nlimits {
					ks[r.Intn(size+2)] = true
				}
				var kl []int
				for k := range ks {
					if k >= 0 {
						kl = append(kl, k)
					}
				}
				sort.Ints(kl)
				for _, k := range kl {
					faults = append(faults, c18FlagFault{What: "limit", Limit: k})
				}
				errnos := []string{"EIO", "ENOSPC", "EACCES", "EDQUOT"}
				for _, sys := range []string{"write", "fsync", "renameat", "fchmodat"} {
					for n := 1; n <= 2; n++ {
						faults = append(faults, c18FlagFault{What: sys, Limit: -1, Strace: []string{"-e", "trace=" + sys, "-e", fmt.Sprintf("inject=%s:error=%s:when=%d", sys, Pick(r, errnos), n)}})
					}
				}
				for _, n := range []int{r.Range(1, 4), r.Range(5, 9), r.Range(10, 16)} {
					faults = append(faults, c18FlagFault{What: "openat", Limit: -1, Strace: []string{"-e", "trace=openat", "-e", fmt.Sprintf("inject=openat:error=%s:when=%d", Pick(r, errnos), n)}})
				}
				faults = append(faults, c18FlagFault{What: "close", Limit: -1, Strace: []string{"-e", "trace=close", "-e", fmt.Sprintf("inject=close:error=EIO:when=%d", r.Range(1, 8))}})
				for _, sys := range []string{"write", "fsync", "renameat", "fchmodat"} {
					faults = append(faults, c18FlagFault{What: "kill-" + sys, Limit: -1, Killed: true, Strace: []string{"-e", "trace=" + sys, "-e", fmt.Sprintf("inject=%s:signal=KILL:when=%d", sys, 1)}})
				}
				for _, ft := range faults {
					i := idx
					idx++
					if !c.Want("flags", i) {
						continue
					}
					rn := c18Run{Dir: dir, Files: files, Modes: modes, Argv: argv, Limit: ft.Limit, Strace: ft.Strace}
					pr := c.c18Exec(rn)
					c.Evals++
					in := map[string]any{"argv": argv, "flags": v.Names, "fault": ft.What, "file_kind": f.Kind, "mode": fmt.Sprintf("%o", f.Mode), "old": string(f.Old),
						"new_len": len(f.New), "accepted_without_fault": f.New != nil}
					if ft.Limit >= 0 {
						in["RLIMIT_FSIZE"] = ft.Limit
					}
					if len(ft.Strace) > 0 {
						in["strace"] = ft.Strace
					}
					c.c18ByMonitor("flags", i, in)
					c.Class(fmt.Sprintf("flags/%s/[%s]/%s/%s/exit%v", cmd, strings.Join(v.Names, ","), ft.What, f.Kind, pr.Exit == 0))
					if i < 2 {
						c.Sample(map[string]any{"stream": "flags", "argv": argv, "fault": ft.What, "RLIMIT_FSIZE": ft.Limit, "exit": pr.Exit, "stderr": clip(pr.Stderr)})
					}
					if !c.Monitor("flags", i, "terminates", in, !pr.Timeout, "timeout") {
						continue
					}
					if !ft.Killed {
						c.Monitor("flags", i, "no panic", in, !strings.Contains(pr.Stderr, "panic:") && !strings.Contains(pr.Stderr, "goroutine "), clip(pr.Stderr))
					}
					old, nw := fieldOf(f.Old, f.Mode), newField(f.New)
					observed := fileField(filepath.Join(dir, f.Name))
					status := "-"
					if v.Review && !ft.Killed {
						status = map[bool]string{true: "1", false: "0"}[pr.Exit == 0]
					}
					exit, stderr := pr.Exit, pr.Stderr
					bt.Add(func(mon string) {
						c.Monitor("flags", i, "C18 allOrNothing (whatever the flags: the target is the complete old file or the complete new file, never missing, never partial)", in, mon == "ok",
							fmt.Sprintf("%s: exit=%d old=%s new=%s observed=%s stderr=%s", mon, exit, clip(old), clip(nw), clip(observed), clip(stderr)))
					}, "c18mon", old, nw, observed, status)
					for n, want := range others {
						got := fileField(filepath.Join(dir, n))
						c.Monitor("flags", i, "C18_others_untouched", in, got == want, fmt.Sprintf("%s: %s vs %s", n, clip(got), clip(want)))
					}
					if ft.Killed {
						continue
					}
					// names that were not there before
					var bad []string
					ents, _ := os.ReadDir(dir)
					for _, e := range ents {
						if _, ok := files[e.Name()]; ok {
							continue
						}
						b, err := os.ReadFile(filepath.Join(dir, e.Name()))
						switch {
						case err != nil || !e.Type().IsRegular():
							bad = append(bad, e.Name()+" (not a readable regular file)")
						case !strings.Contains(e.Name(), f.Name):
							bad = append(bad, fmt.Sprintf("%s (%d bytes, not named after the target)", e.Name(), len(b)))
						case string(b) != string(f.Old) && (f.New == nil || string(b) != string(f.New)):
							bad = append(bad, fmt.Sprintf("%s (%d bytes: neither the complete old nor the complete new contents)", e.Name(), len(b)))
						default:
							c.Tag("flags/file-created-next-to-target")
						}
					}
					c.Monitor("flags", i, "no stray or partial file (a new name may only be a complete copy named after the target)", in, len(bad) == 0, strings.Join(bad, "; "))
				}
			}
		}
	}
}

// ---------------------------------------------------------------- facts stream

var reAtomicVersion = regexp.MustCompile(`github.com/natefinch/atomic (v[0-9.]+)`)

func (c *Ctx) c18Facts() {
	repo := os.Getenv("KNUT_REPO")
	if repo == "" {
		repo = "/repo"
	}
	c.Evals++
	fset := token.NewFileSet()
	// (a) the call sites write only through atomic.WriteFile, on a buffer that was filled before
	for _, name := range []string{"format.go", "infer.go", "fetch.go"} {
		path := filepath.Join(repo, "cmd", "commands", name)
		file, err := parser.ParseFile(fset, path, nil, 0)
		if err != nil {
			c.Compare("facts", 0, "parse "+name, map[string]any{"file": path}, err.Error(), "parses")
			continue
		}
		var writers []string
		ast.Inspect(file, func(n ast.Node) bool {
			call, ok := n.(*ast.CallExpr)
			if !ok {
				return true
			}
			sel, ok := call.Fun.(*ast.SelectorExpr)
			if !ok {
				return true
			}
			pkg, _ := sel.X.(*ast.Ident)
			if pkg == nil {
				return true
			}
			full := pkg.Name + "." + sel.Sel.Name
			switch full {
			case "atomic.WriteFile":
				arg := "?"
				if len(call.Args) == 2 {
					if u, ok := call.Args[1].(*ast.UnaryExpr); ok && u.Op == token.AND {
						if id, ok := u.X.(*ast.Ident); ok {
							arg = "&" + id.Name
						}
					}
				}
				writers = append(writers, "atomic.WriteFile("+arg+")")
			case "os.WriteFile", "os.Create", "os.OpenFile", "ioutil.WriteFile", "os.Rename", "os.Truncate", "os.Remove":
				writers = append(writers, full)
			}
			return true
		})
		want := map[string]string{"format.go": "atomic.WriteFile(&dest)", "infer.go": "atomic.WriteFile(&buf)", "fetch.go": "atomic.WriteFile(&buf)"}[name]
		c.Compare("facts", 0, "file-writing calls of cmd/commands/"+name, map[string]any{"file": path}, strings.Join(writers, ","), want)
	}
	// (b) the operation sequence of the pinned atomic.WriteFile
	gomod, _ := os.ReadFile(filepath.Join(repo, "go.mod"))
	m := reAtomicVersion.FindSubmatch(gomod)
	out, err := exec.Command("go", "env", "GOMODCACHE").Output()
	if m == nil || err != nil {
		c.Compare("facts", 1, "locate natefinch/atomic", map[string]any{}, "not found", "found")
		return
	}
	path := filepath.Join(strings.TrimSpace(string(out)), "github.com", "natefinch", "atomic@"+string(m[1]), "atomic.go")
	file, err := parser.ParseFile(fset, path, nil, 0)
	if err != nil {
		c.Compare("facts", 1, "parse atomic.go", map[string]any{"file": path}, err.Error(), "parses")
		return
	}
	var ops []string
	for _, d := range file.Decls {
		fd, ok := d.(*ast.FuncDecl)
		if !ok || fd.Name.Name != "WriteFile" {
			continue
		}
		for _, stmt := range fd.Body.List {
			if _, isDefer := stmt.(*ast.DeferStmt); isDefer {
				continue
			}
			ast.Inspect(stmt, func(n ast.Node) bool {
				call, ok := n.(*ast.CallExpr)
				if !ok {
					return true
				}
				switch f := call.Fun.(type) {
				case *ast.SelectorExpr:
					switch f.Sel.Name {
					case "TempFile", "Copy", "Sync", "Close", "Stat", "Chmod":
						ops = append(ops, f.Sel.Name)
					}
				case *ast.Ident:
					if f.Name == "ReplaceFile" {
						ops = append(ops, f.Name)
					}
				}
				return true
			})
		}
	}
	model := c.Drv.Ask("c18ops")
	c.Compare("facts", 1, "operation sequence of atomic.WriteFile "+string(m[1]), map[string]any{"file": path}, strings.Join(ops, ","), model)
	c.Class("facts")
}

// ---------------------------------------------------------------- runner

func runC18(c *Ctx) {
	if _, err := exec.LookPath("strace"); err != nil {
		fatalf("strace not found")
	}
	streams := []struct {
		name string
		f    func()
	}{{"facts", c.c18Facts}, {"limit", c.c18Limit}, {"inject", c.c18InjectStream}, {"perm", c.c18Perm}, {"permlimit", c.c18PermLimit}, {"multi", c.c18Multi}, {"siblings", c.c18Siblings}, {"sizes", c.c18Sizes}, {"flags", c.c18Flags}, {"dress", c.c18DressStream}}
	for _, s := range streams {
		if c.Replay && c.OnlyStr != s.name && !(s.name == "limit" && c.OnlyStr == "limit-directed") && !(s.name == "multi" && c.OnlyStr == "multi-directed") {
			continue
		}
		if only := os.Getenv("C18_ONLY"); only != "" && !c.Replay && !strings.Contains(","+only+",", ","+s.name+",") {
			continue // development aid: C18_ONLY=multi,siblings runs these streams alone
		}
		t0 := time.Now()
		s.f()
		c.Extra[s.name+"_s"] = time.Since(t0).Seconds()
	}
}
