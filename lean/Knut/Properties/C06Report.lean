import Knut.Proofs.ReportPerm
import Knut.Properties.C06
/-!
# C06/C05 — the rendered balance report does not depend on the order of the report inserts

`table_perm`: for report inserts whose accounts start with an account type (`ReportPerm.WF`; the registry's
invariant `Account.wf`, kept by remap and shorten: `Properties/C05Inserts.lean`), permuting the inserts does not
change the table: same columns, same rows in the same order, same cells.  Together with the byte-exact tie of
`BalanceReport.table` + `Table.render` to the Go renderer this says: the output of `balance` is a function of the
multiset of `Report.Insert` calls.

The hypothesis cannot be dropped (`table_perm_needs_wf`): the level-1 comparator of the Go code
(`compareAccountTypes` … `Types` order only) does not distinguish two top-level names that are not account types,
`compare.Sort` is stable, and the children are enumerated in insertion order.  `#eval` of the model on
`[Foo 1 CHF, Bar 1 CHF]` and its reverse prints the rows `Foo, Bar` resp. `Bar, Foo`.  No journal reaches that
state: `account.Registry.Get` rejects names whose first segment is not a type.
-/
namespace Knut.C06
open Knut Knut.BalanceReport Knut.ReportPerm

/-- **the balance report is a function of the multiset of report inserts** -/
theorem table_perm (rc : RenderCfg) (es es' : List Entry) (hp : es.Perm es') (hwf : WF es) :
    BalanceReport.table rc es = BalanceReport.table rc es' := table_perm_wf rc es es' hp hwf

/-- the sorted sibling lists (the row order at every node), the weights, the commodity lists of a row and the
cells, each on its own -/
theorem rows_order_perm (rc : RenderCfg) (es es' : List Entry) (hp : es.Perm es') (fuel : Nat) (path : List String)
    (h : path ≠ []) :
    sortedChildren rc es fuel path = sortedChildren rc es' fuel path ∧
    weight rc.valuation.isSome es fuel path = weight rc.valuation.isSome es' fuel path ∧
    (∀ byCom, valsCommodities (own es path) byCom = valsCommodities (own es' path) byCom) ∧
    (∀ byCom, cellAt (own es path) byCom = cellAt (own es' path) byCom) :=
  ⟨sortedChildren_perm rc hp fuel path h, weight_perm hp _ fuel path,
    fun b => valsCommodities_perm (own_perm hp path) b, fun b => cellAt_perm (own_perm hp path) b⟩

/-! ### the hypothesis is needed -/

def ceCfg : RenderCfg := { endDates := [0] }
def ceFoo : Entry := ⟨some 0, ⟨["Foo"]⟩, "CHF", 1⟩
def ceBar : Entry := ⟨some 0, ⟨["Bar"]⟩, "CHF", 1⟩

/-- without `WF` the level-1 row order follows the insertion order -/
theorem table_perm_needs_wf :
    [ceFoo, ceBar].Perm [ceBar, ceFoo] ∧
    sortedChildren ceCfg [ceFoo, ceBar] 1 [] = ["Foo", "Bar"] ∧
    sortedChildren ceCfg [ceBar, ceFoo] 1 [] = ["Bar", "Foo"] := by
  refine ⟨List.Perm.swap _ _ _, ?_, ?_⟩
  · unfold sortedChildren
    have : childSegs [ceFoo, ceBar] [] = ["Foo", "Bar"] := by decide +kernel
    rw [this]
    apply List.mergeSort_of_pairwise
    decide +kernel
  · unfold sortedChildren
    have : childSegs [ceBar, ceFoo] [] = ["Bar", "Foo"] := by decide +kernel
    rw [this]
    apply List.mergeSort_of_pairwise
    decide +kernel

/-! ### non-vacuity: real entries satisfy `WF`, and the theorem applies to a reordering -/

def exEntries : List Entry :=
  [⟨some 0, ⟨["Assets", "Bank"]⟩, "CHF", 5⟩, ⟨some 0, ⟨["Income", "Salary"]⟩, "CHF", -5⟩,
   ⟨some 0, ⟨["Expenses", "Food"]⟩, "CHF", 2⟩, ⟨some 0, ⟨["Assets", "Bank"]⟩, "CHF", -2⟩]

theorem exEntries_wf : WF exEntries := by unfold WF; decide +kernel

example : BalanceReport.table ceCfg exEntries = BalanceReport.table ceCfg exEntries.reverse :=
  table_perm ceCfg _ _ (List.reverse_perm _).symm exEntries_wf

end Knut.C06
