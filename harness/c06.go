package main

import (
	"fmt"
	"os"
	"path/filepath"
	"strings"
	"time"
)

func init() { runners["C06"] = runC06 }

type c06Job struct {
	Idx   int
	Kind  string
	Args  []string          // argv after the binary; "@F" entries are replaced by file paths
	Files map[string]string // relative path -> content
	Input map[string]any
	Runs  []c06Run
	Quiet bool // run two of three repetitions without the schedule-perturbation hook (it slows the loader's converters down)
}

type c06Run struct {
	Env    []string
	Code   int
	Stdout string
	Stderr string
}

// c06TieJournal builds a journal rich in ties: sibling accounts with equal values, diamond-shaped
// price graphs (two equally long chains), same-day directives.
func c06TieJournal(r *RNG) (*Journal, string) {
	j := &Journal{}
	day := 737000 + r.Intn(1000)
	val := "CHF"
	// diamond: X priced in A and B, A and B priced in CHF (inconsistent cross rates)
	j.Dirs = append(j.Dirs,
		JDir{Kind: 'p', Date: day, Com: "AAA", Price: fmt.Sprintf("%d.%d", r.Range(1, 3), r.Intn(10)), Target: val},
		JDir{Kind: 'p', Date: day, Com: "BBB", Price: fmt.Sprintf("%d.%d", r.Range(1, 3), r.Intn(10)), Target: val},
		JDir{Kind: 'p', Date: day, Com: "XXX", Price: fmt.Sprintf("%d", r.Range(2, 9)), Target: "AAA"},
		JDir{Kind: 'p', Date: day, Com: "XXX", Price: fmt.Sprintf("%d", r.Range(2, 9)), Target: "BBB"},
		// commodities that differ from others only in letter case are distinct commodities
		JDir{Kind: 'p', Date: day, Com: "chf", Price: "1", Target: val},
		JDir{Kind: 'p', Date: day, Com: "Aaa", Price: "3", Target: val},
	)
	names := []string{"Assets:Bank:A", "Assets:Bank:B", "Assets:Bank:C", "Assets:Broker:D", "Assets:Broker:E", "Liabilities:Card:F", "Expenses:Food:G", "Expenses:Food:H", "Income:Job:I", "Equity:Equity"}
	for _, a := range names {
		j.Dirs = append(j.Dirs, JDir{Kind: 'o', Date: day, Account: a})
	}
	amt := fmt.Sprintf("%d", r.Range(1, 500))
	for d := 0; d < r.Range(1, 3); d++ {
		for _, a := range names[:9] {
			if r.Chance(3, 4) {
				c := Pick(r, []string{"CHF", "CHF", "AAA", "XXX", "BBB", "chf", "Aaa"})
				j.Dirs = append(j.Dirs, JDir{Kind: 't', Date: day + d*17, Desc: "same", Bookings: []JBook{{"Equity:Equity", a, amt, c}}})
			}
		}
		if d > 0 {
			j.Dirs = append(j.Dirs, JDir{Kind: 'p', Date: day + d*17, Com: "AAA", Price: fmt.Sprintf("%d.%d", r.Range(1, 3), r.Intn(10)), Target: val})
		}
	}
	return j, val
}

func runC06(c *Ctx) {
	n := c.N(320, 4000)
	reps := c.N(8, 30)
	dir := filepath.Join(c.WorkDir, "c06")
	var jobs []*c06Job
	add := func(j *c06Job) { jobs = append(jobs, j) }
	for i := 0; i < n; i++ {
		if !c.Want("repeat", i) {
			continue
		}
		r := c.Rng("repeat", i)
		var j *Journal
		val := ""
		if r.Chance(1, 2) {
			j, val = c06TieJournal(r)
		} else {
			o := JGenOpts{MaxAccounts: r.Range(3, 8), MaxDays: r.Range(1, 6), Unicode: true, BaseDay: 737000 + r.Intn(1500), SpanDays: Pick(r, []int{0, 30, 300}), Prices: true, Valuation: "CHF", ChainPrices: true, CaseVariants: true, Accruals: r.Chance(1, 2), ManyPricesPerDay: r.Chance(1, 3), DupPrices: r.Chance(1, 3)}
			j, _ = GenJournal(r, o)
			val = "CHF"
		}
		text, _ := j.Text()
		f := GenBalFlags(r, j, val, BalGenOpts{Valued: true})
		if r.Chance(1, 2) {
			f.SortAlpha = false
		}
		files := map[string]string{"j.knut": text}
		in := map[string]any{"journal": text}
		switch i % 8 {
		case 0, 1, 2:
			add(&c06Job{Idx: i, Kind: "balance", Args: append(append([]string{"balance"}, f.Args()...), "@j.knut"), Files: files, Input: in})
		case 3:
			add(&c06Job{Idx: i, Kind: "print", Args: []string{"print", "@j.knut"}, Files: files, Input: in})
		case 4:
			add(&c06Job{Idx: i, Kind: "check-write", Args: []string{"check", "--write", "@j.knut"}, Files: files, Input: in})
		case 5:
			add(&c06Job{Idx: i, Kind: "transcode", Args: []string{"transcode", "-v", val, "@j.knut"}, Files: files, Input: in})
		case 6:
			wf := BalFlags{Val: val, Interval: Pick(r, []int{0, 3, 5}), To: f.To}
			args := append([]string{"portfolio", "weights"}, wf.Args()[1:]...)
			add(&c06Job{Idx: i, Kind: "weights", Args: append(append(args, "--csv"), "@j.knut"), Files: files, Input: in})
			{
				// a universe file: classes are a YAML map (map iteration order); a commodity listed under two classes must be
				// rejected the same way on every run (seeded change C06-e kept the first classification met)
				_, coms := journalNames(j)
				var ub strings.Builder
				classes := []string{"Equity:US", "Equity:CH", "Cash", "Bonds:Gov:Long", "Other"}
				dup := r.Chance(1, 2) && len(coms) > 0
				for k, c := range coms {
					fmt.Fprintf(&ub, "\"%s\": [%s]\n", classes[k%len(classes)], c)
				}
				if dup {
					fmt.Fprintf(&ub, "\"Alternatives\": [%s]\n\"Zeta:Zz\": [%s]\n", coms[0], coms[len(coms)-1])
				}
				ufiles := map[string]string{"j.knut": text, "uni.yaml": ub.String()}
				uin := map[string]any{"journal": text, "universe": ub.String()}
				add(&c06Job{Idx: i, Kind: "weights-universe", Args: append(append(append([]string{}, args...), "--universe", "@uni.yaml"), "@j.knut"), Files: ufiles, Input: uin})
			}
			// portfolio returns: float64 sums over per-commodity maps (found on the unchanged tree by C19's stream after accrued
			// expenses in a priced commodity were added to its journals: `0.0%` in some runs, `-0.0%` in others; repaired by 6606650)
			rf := BalFlags{Val: val, Interval: Pick(r, []int{2, 3, 3, 4}), To: f.To}
			add(&c06Job{Idx: i, Kind: "returns", Args: append(append([]string{"portfolio", "returns"}, rf.Args()[1:]...), "@j.knut"), Files: files, Input: in})
		case 7:
			// infer with ties: several candidates seen equally often with the same tokens; training split over included files
			var tr, tr2 strings.Builder
			cands := []string{"Expenses:Zurich", "Expenses:Geneva", "Expenses:Bern", "Expenses:Aarau"}
			for k, cnd := range cands {
				line := fmt.Sprintf("2020-01-0%d \"monthly rent\"\nAssets:Bank %s %d CHF\n\n", k+1, cnd, 1500)
				if k%2 == 0 {
					tr.WriteString(line)
				} else {
					tr2.WriteString(line)
				}
			}
			training := "include \"t2.knut\"\n\n" + tr.String()
			target := "2021-03-05 \"monthly rent\"\nAssets:Bank Expenses:TBD 1500 CHF\n\n2021-03-06 \"other\"\nExpenses:TBD Assets:Bank 3 CHF\n"
			fs := map[string]string{"train.knut": training, "t2.knut": tr2.String(), "target.knut": target}
			add(&c06Job{Idx: i, Kind: "infer", Args: []string{"infer", "-t", "@train.knut", "@target.knut"}, Files: fs, Input: map[string]any{"training": training, "t2": tr2.String(), "target": target}})
			// revolut2 with several currencies per day
			var csv strings.Builder
			csv.WriteString("Type,Product,Started Date,Completed Date,Description,Amount,Fee,Currency,State,Balance\n")
			for k := 0; k < r.Range(3, 12); k++ {
				d := 1 + r.Intn(3)
				cur := Pick(r, []string{"CHF", "EUR", "USD", "GBP", "JPY"})
				fmt.Fprintf(&csv, "CARD_PAYMENT,Current,2020-07-%02d 10:00:00,2020-07-%02d 11:00:00,shop %d,-%d.50,0.00,%s,COMPLETED,%d.00\n", d, d, k, r.Range(1, 90), cur, r.Range(1, 900))
			}
			add(&c06Job{Idx: i, Kind: "import-revolut2", Args: []string{"import", "revolut2", "-a", "Assets:Revolut", "-f", "Expenses:Fees", "@stmt.csv"},
				Files: map[string]string{"stmt.csv": csv.String()}, Input: map[string]any{"statement": csv.String()}})
		}
	}
	// journals spread over included files whose converter goroutines all meet the same not-yet-registered commodities and
	// accounts at the same moment (goroutine scheduling decides who registers them): seeded change C06-c lost the re-check
	// under the registry's write lock, so that the report showed a commodity twice in some runs
	for i := 0; i < c.N(9, 60); i++ {
		if !c.Want("shared", i) {
			continue
		}
		r := c.Rng("shared", i)
		nf, nc := r.Range(3, 12), r.Range(80, 400)
		files := map[string]string{}
		var root strings.Builder
		root.WriteString("2020-01-01 open Equity:A1\n2020-01-01 open Assets:A0\n\n")
		for f := 0; f < nf; f++ {
			var b strings.Builder
			for k := 0; k < nc; k++ {
				fmt.Fprintf(&b, "2020-01-%02d \"t\"\nEquity:A1 Assets:A0 %d K%d\n\n", 2+f, f+1, k)
			}
			files[fmt.Sprintf("f%d.knut", f)] = b.String()
			fmt.Fprintf(&root, "include \"f%d.knut\"\n", f)
		}
		files["root.knut"] = root.String()
		if i%3 == 2 {
			// ONE large file whose same-day directives (opens, prices — among them one pair declared many times on one day —
			// and assertions) are spread over its whole length: a loader that converts a file in concurrent batches delivers them
			// in completion order (seeded change C06-d: batches of >= 1024 directives)
			var b strings.Builder
			n := r.Range(3000, 9000)
			b.WriteString("2020-01-01 open Equity:A1\n\n")
			for k := 0; k < n; k++ {
				switch k % 5 {
				case 0:
					fmt.Fprintf(&b, "2020-01-01 open Assets:B%d\n\n", k)
				case 1:
					fmt.Fprintf(&b, "2020-01-02 price P%d %d.%02d CHF\n\n", k%7, 1+k%97, k%100)
				case 2:
					fmt.Fprintf(&b, "2020-01-03 \"t%d\"\nEquity:A1 Assets:B%d %d P%d\n\n", k, k-2, 1+k%9, k%7)
				case 3:
					fmt.Fprintf(&b, "2020-01-03 balance Assets:B%d %d P%d\n\n", k-3, 1+(k-1)%9, (k-1)%7)
				default:
					fmt.Fprintf(&b, "2020-01-04 \"u%d\"\nEquity:A1 Assets:B%d 1 CHF\n\n", k, k-4)
				}
			}
			files = map[string]string{"root.knut": b.String()}
			in := map[string]any{"layout": fmt.Sprintf("one file of %d directives: directive k is, by k mod 5: `2020-01-01 open Assets:B<k>`, `2020-01-02 price P<k mod 7> <1+k mod 97>.<k mod 100> CHF`, a transaction on 2020-01-03 of 1+k mod 9 P<k mod 7> to Assets:B<k-2>, the matching assertion, a 1 CHF transaction on 2020-01-04", n)}
			kind, args := "print-big-file", []string{"print", "@root.knut"}
			if i%2 == 0 {
				kind, args = "balance-big-file", []string{"balance", "--color=false", "-v", "CHF", "@root.knut"}
			}
			add(&c06Job{Idx: 100000 + i, Kind: kind, Args: args, Files: files, Input: in, Quiet: true})
			continue
		}
		in := map[string]any{"layout": fmt.Sprintf("root.knut opens Equity:A1 and Assets:A0 and includes f0..f%d; file f books `Equity:A1 Assets:A0 <f+1> K<k>` for k < %d on 2020-01-<2+f>", nf-1, nc)}
		kind, args := "balance-shared-includes", []string{"balance", "--color=false", "@root.knut"}
		if i%3 == 1 {
			kind, args = "print-shared-includes", []string{"print", "@root.knut"}
		}
		add(&c06Job{Idx: 100000 + i, Kind: kind, Args: args, Files: files, Input: in, Quiet: true})
	}
	gomax := []string{"1", "2", "16"}
	parallelFor(len(jobs), 8, func(q int) {
		jb := jobs[q]
		d := filepath.Join(dir, fmt.Sprintf("%s-%d", jb.Kind, jb.Idx))
		os.MkdirAll(d, 0o755)
		for name, content := range jb.Files {
			os.WriteFile(filepath.Join(d, name), []byte(content), 0o644)
		}
		args := make([]string, len(jb.Args))
		for k, a := range jb.Args {
			if strings.HasPrefix(a, "@") {
				a = filepath.Join(d, a[1:])
			}
			args[k] = a
		}
		for rep := 0; rep < reps; rep++ {
			env := []string{fmt.Sprintf("KNUT_VERIF_SEED=%d", rep*7919+jb.Idx+1), "GOMAXPROCS=" + gomax[rep%3]}
			if jb.Quiet {
				env = []string{"GOMAXPROCS=16"}
				if rep%3 == 2 {
					env = append(env, fmt.Sprintf("KNUT_VERIF_SEED=%d", rep*7919+jb.Idx+1))
				}
			}
			code, so, se := runKnut(c.KnutBin, 30*time.Second, env, args...)
			jb.Runs = append(jb.Runs, c06Run{Env: env, Code: code, Stdout: so, Stderr: se})
		}
		os.RemoveAll(d)
	})
	for _, jb := range jobs {
		c.Evals++
		c.Tag(jb.Kind)
		r0 := jb.Runs[0]
		same := true
		detail := ""
		for k, rr := range jb.Runs[1:] {
			if rr.Code != r0.Code || rr.Stdout != r0.Stdout {
				same = false
				detail = fmt.Sprintf("run 0 (%v): exit %d\n%s\nrun %d (%v): exit %d\n%s", r0.Env, r0.Code, clip(r0.Stdout), k+1, rr.Env, rr.Code, clip(rr.Stdout))
				break
			}
		}
		in := map[string]any{"kind": jb.Kind, "args": strings.Join(jb.Args, " "), "files": jb.Files, "runs": len(jb.Runs)}
		stream, idx := "repeat", jb.Idx
		if jb.Idx >= 100000 {
			stream, idx = "shared", jb.Idx-100000
			delete(in, "files") // regenerated from the layout description (hundreds of kilobytes)
			in["layout"] = jb.Input["layout"]
		}
		c.Monitor(stream, idx, "same_output_every_run", in, same, detail)
		c.Monitor(stream, idx, "no_panic", in, !strings.Contains(r0.Stderr, "panic:"), clip(r0.Stderr))
		c.Class(fmt.Sprintf("c06/%s/exit%d/len%s", jb.Kind, r0.Code, bucket(len(r0.Stdout)/200)))
		if jb.Idx < 3 {
			c.Sample(map[string]any{"kind": jb.Kind, "args": strings.Join(jb.Args, " "), "exit": r0.Code, "stdout": clip(r0.Stdout)[:min(len(r0.Stdout), 600)]})
		}
	}
}
