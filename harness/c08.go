package main

import (
	"bytes"
	"encoding/hex"
	"fmt"
	"os"
	"os/exec"
	"path/filepath"
	"strings"
	"time"
	"unicode"
	"unicode/utf8"

	"github.com/sboehler/knut/lib/syntax"
)

func init() { runners["C08"] = runC08 }

// implFormat runs syntax.FormatFile on a parsed file (what formatRunner.formatFile does after parsing).
func implFormat(res synResult) (out string, outcome string) {
	defer func() {
		if r := recover(); r != nil {
			outcome = "panic " + fmt.Sprint(r)
		}
	}()
	var buf bytes.Buffer
	if err := syntax.FormatFile(&buf, res.File); err != nil {
		return "", "error " + err.Error()
	}
	return buf.String(), "ok"
}

type c08run struct {
	c        *Ctx
	bt       *Batch
	suspects []string
}

// one: in-process parse + format of one text; model comparison and the property monitors on the real output.
func (x *c08run) one(stream string, index int, text string, kinds []string) {
	c := x.c
	c.Evals++
	path := c07Path
	res := implParse(text, path)
	in := textInput(text, kinds)
	var impl, out string
	switch res.Outcome {
	case "err":
		impl = "rejected"
	case "ok":
		var oc string
		out, oc = implFormat(res)
		if oc == "ok" {
			impl = "ok " + Hex(out)
		} else {
			impl = oc
		}
	default:
		impl = res.Outcome
	}
	// the model slices lists: its cost grows with (fields of the tree) x (bytes of the text); above the limit the case keeps
	// the monitors (formatOK through its Go mirror, which is compared with the Lean predicate on every case below the limit)
	lean := res.Outcome != "ok" || c08Work(res, text) <= c08LeanLimit(c)
	if lean {
		x.bt.Add(func(model string) {
			if !c.Compare(stream, index, "c08format", in, impl, model) && len(x.suspects) < 8 && len(text) < 5000 {
				x.suspects = append(x.suspects, text)
			}
		}, "c08format", Hex(path), Hex(text))
	} else {
		c.Tag(stream + "/above-model-limit")
	}
	if res.Outcome != "ok" {
		c.Class("rejected/" + synClass(res, nil))
		c.Tag(stream + "/rejected")
		return
	}
	changed := "same"
	if out != text {
		changed = "changed"
	}
	c.Class("formatted/" + changed + "/" + synClass(res, kinds))
	c.Tag(stream + "/" + changed)
	if index >= 0 && index < 2 {
		c.Sample(map[string]any{"stream": stream, "input": in, "formatted": clipTo(out, 400)})
	}
	if !strings.HasPrefix(impl, "ok") {
		c.Monitor(stream, index, "C08_format_total", in, false, impl)
		return
	}
	// monitor 1: the output parses
	res2 := implParse(out, path)
	if !c.Monitor(stream, index, "C08_reparse(output parses)", in, res2.Outcome == "ok", "formatted text "+clipTo(fmt.Sprintf("%q", out), 600)+" => "+clipTo(res2.String(), 300)) {
		return
	}
	// monitor 2: same directives and fields, gaps byte for byte (Lean predicate formatOK on the two real trees)
	mirror := c08FormatOK(text, res, out, res2)
	if lean {
		x.bt.Add(func(mon string) {
			c.Monitor(stream, index, "formatOK", in, mon == "ok", "formatted text "+clipTo(fmt.Sprintf("%q", out), 600)+" => "+mon)
			c.Compare(stream, index, "c08mon(Go mirror of formatOK)", in, mirror, mon)
		}, "c08mon", Hex(text), res.Dump, Hex(out), res2.Dump)
	} else {
		c.Monitor(stream, index, "formatOK(Go mirror)", in, mirror == "ok", "formatted text "+clipTo(fmt.Sprintf("%q", out), 600)+" => "+mirror)
	}
	// monitor 3: formatting the result again changes nothing
	out2, oc2 := implFormat(res2)
	c.Monitor(stream, index, "C08_idempotent", in, oc2 == "ok" && out2 == out, "first "+clipTo(fmt.Sprintf("%q", out), 400)+" second "+clipTo(fmt.Sprintf("%q", out2), 400)+" "+oc2)
}

// c08Work estimates what the model spends on a parsed text: every field is a `drop` from the start of the text.
func c08Work(res synResult, text string) int {
	return (strings.Count(res.Dump, ",")/4 + 1) * len(text)
}

func c08LeanLimit(c *Ctx) int {
	return c.N(30000000, 60000000)
}

// c08FormatOK is Spec.Syntax.formatOK (lean/Knut/Spec/SyntaxFormat.lean) on the two real trees, in Go: the kinds of all nodes
// in prefix order with the bytes of every field (date, account, macro account, commodity, decimal, content, interval) equal,
// and the text before, between and after the directives equal.  The answer has the form of the driver's `c08mon`.
func c08FormatOK(text string, res synResult, out string, res2 synResult) string {
	var w1, w2 synWalk
	r1, r2 := w1.file(res.File), w2.file(res2.File)
	var a, b strings.Builder
	sem := c08SemFlat(text, r1, &a) && c08SemFlat(out, r2, &b) && a.String() == b.String()
	g1, g2 := c08Gaps(text, r1), c08Gaps(out, r2)
	gaps := len(g1) == len(g2)
	for i := 0; gaps && i < len(g1); i++ {
		gaps = g1[i] == g2[i]
	}
	if sem && gaps {
		return "ok"
	}
	return fmt.Sprintf("fail fields=%v gaps=%v", sem, gaps)
}

func c08SemFlat(text string, n *synNode, b *strings.Builder) bool {
	switch n.Kind {
	case kDate, kAccount, kMacroAccount, kCommodity, kDecimal, kContent, kInterval:
		if !(n.Start <= n.End && n.End <= len(text)) || n.Start < 0 {
			return false
		}
		fmt.Fprintf(b, "f%d:%d:%s;", n.Kind, n.End-n.Start, text[n.Start:n.End])
		return true
	}
	fmt.Fprintf(b, "(%d;", n.Kind)
	for _, k := range n.Kids {
		if !c08SemFlat(text, k, b) {
			return false
		}
	}
	b.WriteString(");")
	return true
}

// c08Gaps is Spec.Syntax.gapsOf text 0 (ranges of the directives); a slice is clamped as the model's `slice` is
func c08Gaps(text string, root *synNode) []string {
	slice := func(a, b int) string {
		n := max(b-a, 0)
		a = min(max(a, 0), len(text))
		return text[a:min(a+n, len(text))]
	}
	var res []string
	pos := 0
	for _, d := range root.Kids {
		res = append(res, slice(pos, d.Start))
		pos = d.End
	}
	return append(res, slice(pos, len(text)))
}

// runFormatCLI runs `knut format files...` and returns exit status and stderr.
func runFormatCLI(knut string, files ...string) (int, string) {
	cmd := exec.Command(knut, append([]string{"format"}, files...)...)
	var stderr bytes.Buffer
	cmd.Stderr = &stderr
	cmd.Stdout = &stderr
	done := make(chan error, 1)
	if err := cmd.Start(); err != nil {
		return -1, err.Error()
	}
	go func() { done <- cmd.Wait() }()
	select {
	case err := <-done:
		if err == nil {
			return 0, stderr.String()
		}
		if ee, ok := err.(*exec.ExitError); ok {
			return ee.ExitCode(), stderr.String()
		}
		return -1, err.Error()
	case <-time.After(20 * time.Second):
		cmd.Process.Kill()
		return -2, "timeout"
	}
}

// cli: the command on real files (one or two files per invocation).
func (x *c08run) cli(index int, texts []string) { x.cliStream("cli", index, texts) }

func (x *c08run) cliStream(stream string, index int, texts []string) {
	c := x.c
	dir := filepath.Join(c.WorkDir, fmt.Sprintf("c08-%s-%d", stream, index))
	os.MkdirAll(dir, 0o755)
	defer os.RemoveAll(dir)
	var files []string
	for i, t := range texts {
		f := filepath.Join(dir, fmt.Sprintf("f%d.knut", i))
		if err := os.WriteFile(f, []byte(t), 0o644); err != nil {
			fatalf("%v", err)
		}
		files = append(files, f)
	}
	status, stderr := runFormatCLI(c.KnutBin, files...)
	anyRejected := false
	for i, t := range texts {
		c.Evals++
		after, err := os.ReadFile(files[i])
		in := textInput(t, nil)
		in["files_in_invocation"] = len(texts)
		if err != nil {
			c.Monitor(stream, index, "C08_file_survives", in, false, err.Error())
			continue
		}
		impl := "ok " + Hex(string(after))
		pr := implParse(t, files[i])
		parsed := pr.Outcome == "ok"
		if !parsed {
			anyRejected = true
			impl = "rejected"
			// monitor: a file that does not parse is left exactly as it was
			c.Monitor(stream, index, "C08_unparseable_untouched", in, string(after) == t, fmt.Sprintf("file after: %q (exit %d, %s)", clipTo(string(after), 300), status, clipTo(stderr, 200)))
			c.Tag(stream + "/rejected")
		} else {
			c.Tag(stream + "/formatted")
			// monitors on the file the command left: it parses, to the same directives and fields with the same gaps, and is a
			// fixed point of the formatter
			pa := implParse(string(after), files[i])
			if c.Monitor(stream, index, "C08_reparse(file after the command parses)", in, pa.Outcome == "ok", fmt.Sprintf("file after: %q => %s", clipTo(string(after), 600), clipTo(pa.String(), 300))) {
				mirror := c08FormatOK(t, pr, string(after), pa)
				c.Monitor(stream, index, "formatOK(Go mirror, file after the command)", in, mirror == "ok", fmt.Sprintf("file after: %q => %s", clipTo(string(after), 600), mirror))
				again, oc := implFormat(pa)
				c.Monitor(stream, index, "C08_idempotent(file after the command)", in, oc == "ok" && again == string(after), fmt.Sprintf("file after: %q formatted again: %q %s", clipTo(string(after), 400), clipTo(again, 400), oc))
			}
		}
		i := i
		if !parsed || c08Work(pr, t) <= c08LeanLimit(c) {
			x.bt.Add(func(model string) {
				c.Compare(stream, index, fmt.Sprintf("c08format(file %d of %d)", i, len(texts)), in, impl, model)
			}, "c08format", Hex(files[i]), Hex(t))
		} else {
			// above the model's limit: the command against syntax.FormatFile in process (whose output carries the monitors of stream big)
			out, oc := implFormat(pr)
			c.Compare(stream, index, fmt.Sprintf("command vs syntax.FormatFile in process (file %d of %d)", i, len(texts)), in, impl, oc+" "+Hex(out))
			c.Tag(stream + "/above-model-limit")
		}
		// other leftovers in the directory (temp files of the atomic write) would show a partial write
	}
	ents, _ := os.ReadDir(dir)
	c.Monitor(stream, index, "C08_no_leftover_files", map[string]any{"files": len(texts)}, len(ents) == len(texts), fmt.Sprintf("%d entries in the directory", len(ents)))
	wantStatus := 0
	if anyRejected {
		wantStatus = 1
	}
	c.Compare(stream, index, "exit status", map[string]any{"texts_hex": hexAll(texts)}, fmt.Sprint(status), fmt.Sprint(wantStatus))
	c.Class(fmt.Sprintf("%s/files%d/status%d", stream, len(texts), status))
}

func hexAll(ts []string) []string {
	r := make([]string, len(ts))
	for i, t := range ts {
		r[i] = hex.EncodeToString([]byte(t))
	}
	return r
}

// synFormatStress builds layouts the formatter has to normalise: wide amounts, Unicode accounts (padding counts
// runes), addons in both orders, one-balance multi-line assertions, no final newline, tabs and CRs inside directives.
func synFormatStress(r *RNG) (string, []string) {
	g := &synGen{r: r, nl: Pick(r, []string{"\n", "\n", "\r\n"}), ws: []string{" ", "\t", "  ", "\r"}, tags: map[string]bool{}, unicode: true}
	var b strings.Builder
	var kinds []string
	n := r.Range(1, 4)
	for i := 0; i < n; i++ {
		if r.Chance(1, 3) {
			b.WriteString(g.comment() + g.nl)
		}
		switch r.Intn(5) {
		case 0: // one-balance multi-line assertion
			b.WriteString(g.date() + g.sp() + "balance" + g.eol() + g.balance())
			if i < n-1 || r.Chance(1, 2) {
				b.WriteString(g.eol())
			}
			kinds = append(kinds, "balanceN1")
		case 1: // addons, then a non-transaction directive (the annotations are dropped by the parser)
			b.WriteString(g.performance() + g.eol() + g.date() + g.sp() + "open" + g.sp() + g.account() + g.eol())
			kinds = append(kinds, "addons+open")
		default:
			kind := "trx"
			switch r.Intn(4) {
			case 0:
				b.WriteString(g.performance() + g.eol() + g.accrual() + g.eol())
				kind += "+perf+accrue"
			case 1:
				b.WriteString(g.accrual() + g.eol() + g.performance() + g.eol())
				kind += "+accrue+perf"
			}
			b.WriteString(g.date() + g.sp() + "\"" + g.description() + "\"" + g.eol())
			m := r.Range(1, 3)
			for k := 0; k < m; k++ {
				amt := g.decimal()
				if r.Chance(1, 3) {
					amt = strings.Repeat("9", r.Range(9, 14)) + "." + strings.Repeat("1", r.Range(1, 3))
				}
				b.WriteString(g.account() + g.sp() + g.account() + g.sp() + amt + g.sp() + g.commodity())
				if k < m-1 || i < n-1 || r.Chance(1, 2) {
					b.WriteString(g.eol())
				} else {
					kind += "+eof"
				}
			}
			if i < n-1 {
				b.WriteString(g.eol())
			}
			kinds = append(kinds, kind)
		}
		if i < n-1 && r.Chance(1, 2) {
			b.WriteString(g.nl)
		}
	}
	for t := range g.tags {
		kinds = append(kinds, "~"+t)
	}
	return b.String(), kinds
}

// ---------------------------------------------------------------- forms: text whose bytes a Unicode transformation would change
//
// `format` must copy comments, descriptions and include paths byte for byte and must not touch a file that does not parse.  Text that
// is already in every normal form (ASCII, precomposed accents) cannot tell a byte copy from a copy through a text transformation
// (normalisation to NFC/NFD/NFKC, case or width folding, stripping of format characters, ToValidUTF8), so the streams `forms` and
// `formscli` put material of each class at every kind of place: inside and at the very start/end of a comment, in descriptions and
// include paths, as a new comment or junk line between directives, after a letter of an account/commodity (where it makes the file
// unparseable on the unchanged code), at the start and the end of the file; and respell precomposed letters of the generated text by
// canonically equivalent sequences.
var c08FormsMaterial = map[string][]string{
	// canonical decompositions of precomposed characters (what macOS input and file names produce)
	"decomposed": {"e\u0301", "u\u0308", "A\u030a", "n\u0303", "c\u0327", "o\u0308\u0304", "\u0435\u0308", "=\u0338", "<\u0338", "\u03b1\u0301", "\u30ab\u3099", "\u0627\u0653"},
	// singletons: one code point whose NFC form is a different code point
	"singleton": {"\u2126", "\u212b", "\u212a", "\u2000", "\u2001", "\u0340", "\u0341", "\u0343", "\u0374", "\u037e", "\u0387", "\u1f71", "\u1fbe", "\u2329", "\u232a", "\uf900", "\ufa10", "\U0002f800"},
	// composition exclusions: precomposed characters that NFC takes apart
	"excluded": {"\u0344", "\u0958", "\u2adc", "\ufb1d", "\u0f43", "\U0001d15e"},
	// conjoining Hangul jamo, and a syllable followed by a trailing consonant
	"jamo": {"\u1112\u1161\u11ab", "\u1100\u1161", "\uac00\u11a8", "\u1100\u1161\u11a8\u11a8"},
	// combining marks in non-canonical order
	"order": {"a\u0301\u0323", "o\u0302\u0323", "\u0301\u0323", "x\u0315\u0300", "e\u0301\u0328\u0323", "\u0308\u0301\u0323"},
	// a combining mark on its own: composes with whatever precedes it at the place of insertion
	"mark": {"\u0301", "\u0308", "\u0323", "\u0303", "\u030a", "\u0338", "\u20d7", "\u3099", "\u0653"},
	// stable under NFC, changed by NFD / NFKC / case folding / width folding / removal of format characters
	"compat": {"\u00e9", "\u00c5", "\u1ea5", "\ud55c", "\ufb01", "\u00b2", "\u2460", "\uff21", "\uff71", "\u338f", "\u2026", "\u00a0", "\u00ad", "\u200d", "\u200e", "\u2060", "\ufe0f", "\u034f", "\u0130", "\u1e9e", "\u017f", "\u03c2", "\u01c5", "\u05d9\u05b4", "\u0915\u093c"},
	// not text at all: invalid UTF-8, surrogates and noncharacters in UTF-8 clothing, overlong forms, NUL
	"invalid": {"\xff", "\xc3", "\xe2\x82", "\xed\xa0\x80", "\xef\xbf\xbe", "\xc0\xaf", "\xf4\x90\x80\x80", "\x00", "\xef\xbf\xbd"},
}

var c08FormsClasses = []string{"decomposed", "decomposed", "singleton", "singleton", "excluded", "jamo", "order", "mark", "mark", "compat", "invalid"}

// canonically equivalent respellings of characters the generators produce (synLetters, synComs, freeText)
var c08FormsRespell = [][2]string{{"\u00e9", "e\u0301"}, {"\u00fc", "u\u0308"}, {"\u00f1", "n\u0303"}, {"\u03a9", "\u2126"}, {"\u00c9", "E\u0301"}}

func (x *c08run) formsMaterial(r *RNG) (string, string) {
	cl := Pick(r, c08FormsClasses)
	var b strings.Builder
	if r.Chance(1, 4) {
		b.WriteString(Pick(r, []string{"e", "A", "o", "\u0399", "\u00e9", "\u1112", "1", "-"}))
	}
	for k := r.Range(1, 3); k > 0; k-- {
		b.WriteString(Pick(r, c08FormsMaterial[cl]))
	}
	if r.Chance(1, 6) {
		b.WriteString(Pick(r, []string{"x", "\u0301", " ", "\u11a8"}))
	}
	return b.String(), cl
}

// c08FormsSites classifies the rune boundaries of a generated journal by the kind of place (approximately: a comment line starts
// with * # or //, quotes toggle outside comments).
func c08FormsSites(text string) map[string][]int {
	sites := map[string][]int{"file-start": {0}, "file-end": {len(text)}}
	add := func(k string, p int) { sites[k] = append(sites[k], p) }
	inQuote := false
	for ls := 0; ls < len(text); {
		le := strings.IndexByte(text[ls:], '\n')
		if le < 0 {
			le = len(text)
		} else {
			le += ls
		}
		line := text[ls:le]
		body := strings.TrimRight(line, "\r")
		add("line-start", ls)
		if !inQuote && (strings.TrimSpace(body) == "" || strings.HasPrefix(line, "*") || strings.HasPrefix(line, "#") || strings.HasPrefix(line, "//")) {
			add("gap-line-start", ls)
		}
		switch {
		case !inQuote && (strings.HasPrefix(line, "*") || strings.HasPrefix(line, "#") || strings.HasPrefix(line, "//")):
			lead := len(body) - len(strings.TrimLeft(body, "*#/"))
			add("comment-start", ls+lead)
			add("comment-end", ls+len(body))
			for p := lead; p < len(body); p++ {
				if utf8.RuneStart(body[p]) {
					add("comment", ls+p)
				}
			}
		case !inQuote && strings.TrimSpace(body) == "":
			add("blank-line", ls+len(body))
		default:
			var prev rune
			for p, c := range body {
				if inQuote && c != '"' {
					add("quoted", ls+p)
				}
				if c == '"' {
					if inQuote {
						add("quoted-end", ls+p)
					} else {
						add("quoted-start", ls+p+1)
					}
					inQuote = !inQuote
				} else if !inQuote && unicode.IsLetter(prev) {
					add("after-letter", ls+p)
				}
				prev = c
			}
			if !inQuote {
				if unicode.IsLetter(prev) {
					add("after-letter", ls+len(body))
				}
				add("line-end", ls+len(body))
			}
		}
		ls = le + 1
	}
	return sites
}

// places that leave a parseable journal parseable (on the unchanged code), and all places
var c08FormsKeepKinds = []string{"comment", "comment-start", "comment-end", "quoted", "quoted", "quoted-start", "quoted-end", "new-comment", "new-comment", "respell"}
var c08FormsSiteKinds = []string{"comment", "comment-start", "comment-end", "quoted", "quoted-start", "quoted-end", "new-comment", "new-comment", "blank-line", "after-letter", "line-end", "file-start", "file-end", "respell"}

// c08Forms: a generated journal (layout, stress or already formatted) with one to three insertions.
func (x *c08run) forms(r *RNG) (string, []string) {
	var text string
	var kinds []string
	switch r.Intn(4) {
	case 0:
		text, kinds = synFormatStress(r)
	case 1:
		text, kinds = synJournal(r)
		if res := implParse(text, c07Path); res.Outcome == "ok" {
			if out, oc := implFormat(res); oc == "ok" {
				text, kinds = out, append(kinds, "~already-formatted")
			}
		}
	default:
		text, kinds = synJournal(r)
	}
	tags := map[string]bool{}
	keep := r.Chance(2, 3)
	for k := r.Range(1, 3); k > 0; k-- {
		sites := c08FormsSites(text)
		kind := Pick(r, c08FormsSiteKinds)
		mat, cl := x.formsMaterial(r)
		if keep {
			kind = Pick(r, c08FormsKeepKinds)
			for cl == "invalid" {
				mat, cl = x.formsMaterial(r)
			}
		}
		switch kind {
		case "respell":
			old := text
			one := r.Chance(1, 2)
			for _, p := range c08FormsRespell {
				if one {
					text = strings.Replace(text, p[0], p[1], 1)
				} else {
					text = strings.ReplaceAll(text, p[0], p[1])
				}
			}
			if text == old {
				k++ // nothing to respell in this text: draw another place
				if r.Chance(1, 8) {
					k--
				}
				continue
			}
			tags["respell"] = true
			continue
		case "new-comment":
			p := Pick(r, append(sites["line-start"], len(text)))
			if keep {
				p = Pick(r, append(sites["gap-line-start"], 0))
			}
			lead := Pick(r, []string{"*", "#", "//", "# ", "* ", "// ", "#\t"})
			if r.Chance(1, 2) {
				mat = Pick(r, []string{"caf", "note ", "x", "R = 10 k", ""}) + mat + Pick(r, []string{"", " end", "\t", " "})
			}
			text = text[:p] + lead + mat + Pick(r, []string{"\n", "\n", "\r\n"}) + text[p:]
		default:
			ps := sites[kind]
			if len(ps) == 0 && keep {
				k++ // no such place in this text: draw another one
				if r.Chance(1, 8) {
					k--
				}
				continue
			}
			if len(ps) == 0 {
				ps = sites[Pick(r, []string{"file-start", "file-end"})]
				kind = "edge"
			}
			p := Pick(r, ps)
			text = text[:p] + mat + text[p:]
		}
		tags[kind+"/"+cl] = true
	}
	for t := range tags {
		kinds = append(kinds, "~forms:"+t)
	}
	return text, kinds
}

func (x *c08run) formStreams() {
	c := x.c
	t0 := time.Now()
	defer func() { c.Extra["forms_wall_s"] = time.Since(t0).Seconds() }()
	nU := c.N(2500, 80000)
	for i := 0; i < nU; i++ {
		if !c.Want("forms", i) {
			continue
		}
		text, kinds := x.forms(c.Rng("forms", i))
		x.one("forms", i, text, kinds)
	}
	x.bt.Flush()
	nUC := c.N(60, 1500)
	for i := 0; i < nUC; i++ {
		if !c.Want("formscli", i) {
			continue
		}
		r := c.Rng("formscli", i)
		texts := []string{}
		for k := 1 + r.Intn(5)/4; k > 0; k-- {
			t, _ := x.forms(r)
			texts = append(texts, t)
		}
		x.cliStream("formscli", i, texts)
	}
	x.bt.Flush()
}

// big: files of hundreds to thousands of directives, transactions of 1-40 bookings, running counts (bookings, directives,
// transactions, lines, bytes, bytes of one line) steered across powers of two inside a directive (c08_big.go); bigcli: such
// files through the command
func (x *c08run) big() {
	c := x.c
	t0 := time.Now()
	nB := c.N(120, 900)
	for i := 0; i < nB; i++ {
		if !c.Want("big", i) {
			continue
		}
		scale := c08BigScale(c, i)
		text, kinds := c08Big(c.Rng("big", i), scale)
		x.one("big", i, text, kinds)
		if len(text) > 20000 {
			x.bt.Flush()
		}
	}
	x.bt.Flush()
	nBC := c.N(8, 60)
	for i := 0; i < nBC; i++ {
		if !c.Want("bigcli", i) {
			continue
		}
		r := c.Rng("bigcli", i)
		texts := []string{}
		for k := r.Range(1, 2); k > 0; k-- {
			t, _ := c08Big(r, c08BigScale(c, i))
			texts = append(texts, t)
		}
		x.cliStream("bigcli", i, texts)
		x.bt.Flush()
	}
	c.Extra["big_wall_s"] = time.Since(t0).Seconds()
}

// c08BigScale bounds the largest boundary value of a case of the stream `big` (index into the size tables of c08_big.go):
// the quick tier keeps nine files in ten below 1000 directives, every tenth and the thorough tier go up to 4096 / 131072 bytes.
func c08BigScale(c *Ctx, index int) int {
	if c.Thorough() {
		return 4
	}
	if index%10 == 9 {
		return 4
	}
	return index % 3
}

func runC08(c *Ctx) {
	x := &c08run{c: c, bt: c.NewBatch()}
	x.bt.Limit = 3000
	defer x.bt.Flush()

	if c.Replay && c.ReplayInput != nil {
		if h, ok := c.ReplayInput["text_hex"].(string); ok && !strings.HasSuffix(h, "...") {
			if b, err := hex.DecodeString(h); err == nil {
				c.Replay = false
				if c.OnlyStr == "cli" || c.OnlyStr == "bigcli" || c.OnlyStr == "formscli" {
					x.cliStream(c.OnlyStr, c.OnlyIndex, []string{string(b)})
				} else {
					x.one(c.OnlyStr, c.OnlyIndex, string(b), nil)
				}
				return
			}
		}
	}

	if os.Getenv("C08_STREAMS") == "big" { // development aid: only the size streams
		x.big()
		return
	}

	// ---- corpus
	corpus := synCorpus()
	names := make([]string, 0, len(corpus))
	for k := range corpus {
		names = append(names, k)
	}
	sortStrings(names)
	for i, name := range names {
		if c.Want("corpus", i) {
			x.one("corpus", i, corpus[name], []string{"corpus:" + name})
		}
	}

	// ---- journal: grammar-based layouts, mostly parseable
	nJ := c.N(9000, 350000)
	for i := 0; i < nJ; i++ {
		if !c.Want("journal", i) {
			continue
		}
		text, kinds := synJournal(c.Rng("journal", i))
		x.one("journal", i, text, kinds)
	}

	// ---- stress: layouts the formatter must normalise
	nS := c.N(4000, 120000)
	for i := 0; i < nS; i++ {
		if !c.Want("stress", i) {
			continue
		}
		text, kinds := synFormatStress(c.Rng("stress", i))
		x.one("stress", i, text, kinds)
	}

	// ---- mutated: mostly unparseable files, and parseable ones in odd layouts
	nM := c.N(3000, 100000)
	for i := 0; i < nM; i++ {
		if !c.Want("mutated", i) {
			continue
		}
		r := c.Rng("mutated", i)
		text, _ := synJournal(r)
		x.one("mutated", i, synMutate(r, text), []string{"mutated"})
	}

	// ---- fixpoints: formatting already formatted text (second generation inputs)
	nF := c.N(1500, 30000)
	for i := 0; i < nF; i++ {
		if !c.Want("formatted", i) {
			continue
		}
		text, kinds := synJournal(c.Rng("formatted", i))
		res := implParse(text, c07Path)
		if res.Outcome != "ok" {
			continue
		}
		if out, oc := implFormat(res); oc == "ok" {
			x.one("formatted", i, out, append(kinds, "~already-formatted"))
		}
	}
	x.bt.Flush()

	// ---- forms, formscli: text whose bytes a Unicode transformation would change, at every kind of place
	x.formStreams()

	// ---- long: accounts above fmt's width limit of 10^6 runes (c08_long.go)
	for i, w := range c08LongWidths(c) {
		if c.Want("long", i) {
			x.one("long", i, c08LongText(i, w), []string{"long"})
		}
	}
	x.bt.Flush()

	// ---- big, bigcli: size (c08_big.go)
	x.big()

	// ---- cli: the command on files (in place), one or two files per run
	nC := c.N(300, 4000)
	for i := 0; i < nC; i++ {
		if !c.Want("cli", i) {
			continue
		}
		r := c.Rng("cli", i)
		gen := func() string {
			switch r.Intn(5) {
			case 0:
				t, _ := synJournal(r)
				return synMutate(r, t)
			case 1:
				t, _ := synFormatStress(r)
				return t
			case 2:
				return synRaw(r)
			}
			t, _ := synJournal(r)
			return t
		}
		texts := []string{gen()}
		if r.Chance(1, 5) {
			texts = append(texts, gen())
		}
		x.cli(i, texts)
	}
	x.bt.Flush()

	// ---- flags, flags-infer: every subset of the flags `--help` offers, judged by what is on disk afterwards (c08_cli.go)
	x.flagStreams()

	// ---- directed search around disagreements
	if len(x.suspects) > 0 && !c.Replay {
		n := 0
		for si, s := range x.suspects {
			r := c.Rng("directed", si)
			for p := 0; p <= len(s) && n < 20000; p++ {
				n++
				x.one("directed", -n, s[:p], []string{"directed-prefix"})
				if p < len(s) {
					n++
					x.one("directed", -n, s[:p]+s[p+1:], []string{"directed-delete"})
					n++
					x.one("directed", -n, s[:p]+Pick(r, synInteresting)+s[p:], []string{"directed-insert"})
				}
			}
			for k := 0; k < 300 && n < 20000; k++ {
				n++
				x.one("directed", -n, synMutate(r, s), []string{"directed-mutation"})
			}
		}
		c.Notes = append(c.Notes, fmt.Sprintf("directed search: %d cases around %d inputs on which format and the model differ", n, len(x.suspects)))
	}
}
