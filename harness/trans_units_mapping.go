package main

// Constructs of the Go→Lean translator that the account MAPPING of the reports needs (builder trans10):
// lib/model/account (Rule.Match, Mapping.Level, Shorten, Remap), lib/common/regex (Regexes.MatchString).
//
//   *regexp.Regexp       a VALUE of the prelude type `Regexp.Ptr := Option (String → Bool)` (lean/Knut/GoSem/RegexpMatch.lean): nil, or
//                        the compiled expression read through the ONLY method the translated code may call on it, `MatchString` — the
//                        predicate "the expression matches somewhere in this text".  Which predicate a pattern text denotes is not
//                        part of the translation (the hand model's convention: `MapRule.test`, `BalCfg.remap` are `String → Bool`);
//                        `re == nil` ↦ `Option.isNone`, `re.MatchString(s)` ↦ `Regexp.MatchString re s` in the monad (a nil
//                        receiver is Go's nil-pointer panic).  Every other method of regexp stays rejected.
//   nil                  returned where an interned pointer (`*account.Account`) is expected: the zero value of the struct, as for
//                        fields and parameters of these types (trans_units_beancount.go); the registry never hands out a pointer to a
//                        zero-valued object.
//   reg *Registry        a parameter of type *account.Registry is DROPPED like every parameter of an untranslatable type (the registry's
//                        own state — mutex, index, tree, swap cache — is not part of the translated state): it may occur only as
//                        the receiver of calls of untranslated methods, whose results are `ext` parameters (functions of their
//                        arguments inside function literals).

import (
	"go/ast"
	"go/token"
	"go/types"
	"strings"
)

const trAccountPath = trKnutPath + "lib/model/account"

func init() {
	for _, u := range trUnits {
		if u.pkg == "lib/model/account" {
			if u.agree == nil {
				u.agree = map[string]string{}
			}
			for _, f := range []string{"Rule.Match", "Mapping.Level", "Shorten", "Remap"} {
				u.funcs = append(u.funcs, f)
				u.agree[f] = "Mapping"
			}
		}
	}
	trUnits = append(trUnits,
		&trUnit{pkg: "lib/common/regex", mod: "Regex", funcs: []string{"Regexes.MatchString"}, agree: map[string]string{"Regexes.MatchString": "Mapping"}},
	)
	trStubEnsure("regexp", "type Regexp struct", "type Regexp struct{ _ int }")
	trStubEnsure("regexp", "func (re *Regexp) MatchString(", "func (re *Regexp) MatchString(s string) bool")
	trOpaque["*regexp.Regexp"] = "Regexp.Ptr"
	trPrims["(*regexp.Regexp).MatchString"] = trPrim{lean: "Regexp.MatchString", effect: true}
	trDropped[trAccountPath+".Registry"] = true
}

// trDropped: struct types of translated packages whose values are never part of the translated state (a pointer to one is an
// untranslatable type: parameters of it are dropped)
var trDropped = map[string]bool{}

func trIsDropped(ty types.Type) bool {
	if p, ok := ty.Underlying().(*types.Pointer); ok {
		ty = p.Elem()
	}
	n, ok := ty.(*types.Named)
	return ok && n.Obj().Pkg() != nil && trDropped[n.Obj().Pkg().Path()+"."+n.Obj().Name()]
}

func trIsRegexpPtr(ty types.Type) bool {
	p, ok := ty.Underlying().(*types.Pointer)
	return ok && trIsNamed(p.Elem(), "regexp", "Regexp")
}

// trMappingImports: prelude modules a generated unit needs for the constructs of this file
func trMappingImports(body string) []string {
	if strings.Contains(body, "Regexp.Ptr") || strings.Contains(body, "Regexp.MatchString") {
		return []string{"import Knut.GoSem.RegexpMatch"}
	}
	return nil
}

// regexpNilCompare: `re == nil` / `re != nil` for a *regexp.Regexp
func (c *trCtx) regexpNilCompare(other ast.Expr, op token.Token) (string, bool) {
	if !trIsRegexpPtr(c.typeOf(other)) {
		return "", false
	}
	if op == token.EQL {
		return "(Option.isNone " + c.expr(other) + ")", true
	}
	return "(Option.isSome " + c.expr(other) + ")", true
}

// regexpMatchCall: re.MatchString(s)
func (c *trCtx) regexpMatchCall(x *ast.CallExpr) (string, bool) {
	sel, ok := trUnparen(x.Fun).(*ast.SelectorExpr)
	if !ok {
		return "", false
	}
	s, ok := c.info().Selections[sel]
	if !ok || s.Kind() != types.MethodVal {
		return "", false
	}
	fo, _ := s.Obj().(*types.Func)
	if fo == nil || fo.FullName() != "(*regexp.Regexp).MatchString" || len(x.Args) != 1 {
		return "", false
	}
	return c.hoist("Regexp.MatchString "+c.expr(sel.X)+" "+c.expr(x.Args[0]), x.Pos()), true
}

// internedNil: `nil` in a position of interned pointer type (a result, an argument): the zero value of the struct
func (c *trCtx) internedNil(e ast.Expr, ty types.Type) (string, bool) {
	if !c.isNil(e) || !trIsInterned(ty) {
		return "", false
	}
	return "(GoZero.zero : " + c.leanType(ty, e.Pos()) + ")", true
}

// trKeepOmitted: struct fields that stay OMITTED from the translated struct although their type became translatable (the agreement
// modules of these structs were written without the field; the translated functions of the struct do not read it)
var trKeepOmitted = map[string]bool{
	trKnutPath + "lib/reports/balance.Renderer.CommodityDetails": true,
}
