import Knut.Proofs.MTMFlowCells
import Knut.Proofs.MTMMapped
/-!
# C03: the flow clause for every income/expense/equity account, closing off

For ANY account `b` that is not asset/liability (in particular the accounts below `Income`, which also carry the
counter-postings of the value adjustments): on every day the values the valuation stage puts on `b` plus the values it
puts on the asset/liability accounts mirrored to `b` (`valuationAccountFor a = b`) equal the booking-day values of the
day's journal bookings on `b` and on those accounts — every adjustment books `g` on `a` and `−g` on
`valuationAccountFor a`.  Summed over the days of `(F, D]` (`gain_run`, `run_gain_delta_noclose`):

`Δ(b) + Σ_{a mirrored to b} Δ(a) = Spec.flowAt b + Σ_a Spec.flowAt a`, i.e. the row of `b` shows
`−(flow(b) − Σ_a (Δ(a) − flow(a)))`: its own bookings at booking-day prices minus the value adjustments of the mirrored accounts.
-/
namespace Knut.MTM
open Knut Knut.Dec Knut.Spec
open Knut.BalanceReport (sumAmounts)

/-- selection of postings by their account -/
def selP (s : Account → Bool) (p : Posting) : Bool := s p.account

/-- the asset/liability accounts whose value adjustments are booked against `b` -/
def mirror (b : Account) (a : Account) : Bool := a.isAL && decide (valuationAccountFor a = b)

theorem accSel_eq (b : Account) : accSel b = selP (fun a => decide (a = b)) := rfl

/-! ### valuation of the day's postings, any selection by account -/

theorem mapM_valuePosting_sel (v : Commodity) (cur : Option Prices.NPrices) (s : Account → Bool) :
    ∀ (ps ps' : List Posting), (∀ p ∈ ps, p.value = 0) → ps.mapM (Balance.valuePosting v cur) = .ok ps' →
      (ps.filter (selP s)).mapM (bookVal v cur) = some ((ps'.filter (selP s)).map (·.value))
  | [], ps', _, h => by
    simp only [List.mapM_nil, pure, Except.pure] at h
    injection h with h; subst h
    rfl
  | p :: rest, ps', hz, h => by
    simp only [List.mapM_cons, bind, Except.bind] at h
    cases hp : Balance.valuePosting v cur p with
    | error e => rw [hp] at h; cases h
    | ok p' =>
      rw [hp] at h; simp only at h
      cases hr : rest.mapM (Balance.valuePosting v cur) with
      | error e => rw [hr] at h; cases h
      | ok rest' =>
        rw [hr] at h; simp only [pure, Except.pure] at h
        injection h with h; subst h
        have ih := mapM_valuePosting_sel v cur s rest rest' (fun x hx => hz x (List.mem_cons_of_mem _ hx)) hr
        rw [List.filter_cons, List.filter_cons]
        obtain ⟨h1, h2⟩ := valuePosting_bookVal v cur p p' (hz p List.mem_cons_self) hp
        have hs : selP s p' = selP s p := by unfold selP; rw [h1]
        rw [hs]
        cases hb : selP s p with
        | true =>
          simp only [if_true, List.mapM_cons, List.map_cons]
          rw [h2, ih]
          rfl
        | false =>
          simp only [Bool.false_eq_true, if_false]
          exact ih

theorem mapM_valueTx_sel (v : Commodity) (cur : Option Prices.NPrices) (s : Account → Bool) :
    ∀ (ts ts' : List Transaction), (∀ t ∈ ts, ∀ p ∈ t.postings, p.value = 0) →
      ts.mapM (Balance.valueTx v cur) = .ok ts' →
      ((ts.flatMap (·.postings)).filter (selP s)).mapM (bookVal v cur) =
        some (((ts'.flatMap (·.postings)).filter (selP s)).map (·.value))
  | [], ts', _, h => by
    simp only [List.mapM_nil, pure, Except.pure] at h
    injection h with h; subst h
    rfl
  | t :: rest, ts', hz, h => by
    simp only [List.mapM_cons, bind, Except.bind] at h
    cases ht : Balance.valueTx v cur t with
    | error e => rw [ht] at h; cases h
    | ok t' =>
      rw [ht] at h; simp only at h
      cases hr : rest.mapM (Balance.valueTx v cur) with
      | error e => rw [hr] at h; cases h
      | ok rest' =>
        rw [hr] at h; simp only [pure, Except.pure] at h
        injection h with h; subst h
        have ih := mapM_valueTx_sel v cur s rest rest' (fun x hx => hz x (List.mem_cons_of_mem _ hx)) hr
        unfold Balance.valueTx at ht
        simp only [bind, Except.bind] at ht
        cases hm : t.postings.mapM (Balance.valuePosting v cur) with
        | error e => rw [hm] at ht; cases ht
        | ok ps =>
          rw [hm] at ht; simp only at ht
          injection ht with ht; subst ht
          have h1 := mapM_valuePosting_sel v cur s t.postings ps (hz t List.mem_cons_self) hm
          rw [List.flatMap_cons, List.flatMap_cons, List.filter_append, List.filter_append, List.map_append]
          exact mapM_append_some _ _ _ _ _ h1 ih

theorem mapM_except_append {α β ε : Type} (f : α → Except ε β) : ∀ (xs ys : List α) (r : List β),
    (xs ++ ys).mapM f = .ok r → ∃ r1 r2, xs.mapM f = .ok r1 ∧ ys.mapM f = .ok r2 ∧ r = r1 ++ r2
  | [], ys, r, h => ⟨[], r, rfl, h, rfl⟩
  | x :: xs, ys, r, h => by
    rw [List.cons_append] at h
    simp only [List.mapM_cons, bind, Except.bind] at h ⊢
    cases hx : f x with
    | error e => rw [hx] at h; cases h
    | ok y =>
      rw [hx] at h; simp only at h ⊢
      cases hr : (xs ++ ys).mapM f with
      | error e => rw [hr] at h; cases h
      | ok r' =>
        rw [hr] at h; simp only [pure, Except.pure] at h
        injection h with h; subst h
        obtain ⟨r1, r2, h1, h2, h3⟩ := mapM_except_append f xs ys r' hr
        rw [h1]
        exact ⟨y :: r1, r2, rfl, h2, by rw [h3]; rfl⟩

/-- a value adjustment is not revalued: its postings have quantity 0 -/
theorem mapM_valueTx_qtyZero (v : Commodity) (cur : Option Prices.NPrices) :
    ∀ (ts ts' : List Transaction), (∀ t ∈ ts, ∀ p ∈ t.postings, p.quantity = 0) → ts.mapM (Balance.valueTx v cur) = .ok ts' →
      ts'.flatMap (·.postings) = ts.flatMap (·.postings)
  | [], ts', _, h => by
    simp only [List.mapM_nil, pure, Except.pure] at h
    injection h with h; subst h
    rfl
  | t :: rest, ts', hq, h => by
    simp only [List.mapM_cons, bind, Except.bind] at h
    cases ht : Balance.valueTx v cur t with
    | error e => rw [ht] at h; cases h
    | ok t' =>
      rw [ht] at h; simp only at h
      cases hr : rest.mapM (Balance.valueTx v cur) with
      | error e => rw [hr] at h; cases h
      | ok rest' =>
        rw [hr] at h; simp only [pure, Except.pure] at h
        injection h with h; subst h
        have ih := mapM_valueTx_qtyZero v cur rest rest' (fun x hx => hq x (List.mem_cons_of_mem _ hx)) hr
        unfold Balance.valueTx at ht
        rw [mapM_valuePosting_zero v cur t.postings (hq t List.mem_cons_self)] at ht
        simp only [bind, Except.bind] at ht
        injection ht with ht; subst ht
        rw [List.flatMap_cons, List.flatMap_cons, ih]

/-! ### an adjustment books `g` on the account and `−g` on its income account -/

theorem adjustment_cancels (b : Account) (hb : b.isAL = false) (a : Account) (hal : a.isAL = true) (c : Commodity) (g : Rat) :
    (((postingBuild (valuationAccountFor a) a c 0 g).filter (accSel b)).map (·.value)).sum +
      (((postingBuild (valuationAccountFor a) a c 0 g).filter (selP (mirror b))).map (·.value)).sum = 0 := by
  rw [adjustment_postings]
  have hab : a ≠ b := by intro e; rw [e, hb] at hal; cases hal
  have hva : (valuationAccountFor a).isAL = false := valuationAccount_not_AL a
  unfold accSel selP mirror
  by_cases hm : valuationAccountFor a = b
  · split <;> simp [hab, hm, hal, hb] <;> grind
  · split <;> simp [hab, hm, hal, hva] <;> grind

theorem adjustments_cancel (b : Account) (hb : b.isAL = false) : ∀ (adj : List Transaction),
    (∀ t ∈ adj, ∃ a c g, a.isAL = true ∧ t.postings = postingBuild (valuationAccountFor a) a c 0 g) →
    sumVal (accSel b) adj + sumVal (selP (mirror b)) adj = 0
  | [], _ => by rw [sumVal_nil, sumVal_nil]; exact Rat.add_zero 0
  | t :: rest, h => by
    obtain ⟨a, c, g, hal, hps⟩ := h t List.mem_cons_self
    have ih := adjustments_cancel b hb rest (fun x hx => h x (List.mem_cons_of_mem _ hx))
    have h1 := adjustment_cancels b hb a hal c g
    rw [sumVal_cons, sumVal_cons, hps]
    grind

theorem rat_sub_self (x : Rat) : x - x = 0 := by grind

theorem sumVal_append (sel : Posting → Bool) (xs ys : List Transaction) :
    sumVal sel (xs ++ ys) = sumVal sel xs + sumVal sel ys := by
  unfold sumVal
  rw [List.flatMap_append, List.filter_append, List.map_append, sum_append_rat]

/-! ### one day -/

/-- **the valuation stage on one day, seen from a non-A/L account `b` and the accounts mirrored to it** -/
theorem valuationStage_gain (cfg : BalCfg) (v : Commodity) (st st' : BalState) (d : Day) (txs : List Transaction)
    (hv : cfg.valuation = some v) (hz : ∀ t ∈ d.transactions, ∀ p ∈ t.postings, p.value = 0)
    (b : Account) (hb : b.isAL = false)
    (h : Balance.valuationStage cfg st d = .ok (st', txs)) :
    ∃ ub um, ((d.transactions.flatMap (·.postings)).filter (accSel b)).mapM (bookVal v st'.norm) = some ub ∧
      ((d.transactions.flatMap (·.postings)).filter (selP (mirror b))).mapM (bookVal v st'.norm) = some um ∧
      sumVal (accSel b) txs + sumVal (selP (mirror b)) txs = ub.sum + um.sum := by
  unfold Balance.valuationStage at h
  rw [hv] at h
  simp only [bind, Except.bind] at h
  cases hp : Balance.pricesDay v st d with
  | error e => rw [hp] at h; cases h
  | ok stp =>
    rw [hp] at h; simp only at h
    unfold Balance.valuateDay at h
    simp only [bind, Except.bind] at h
    cases ha : Balance.adjustments v d.date stp.vPrev stp.norm stp.vQty with
    | error e => rw [ha] at h; cases h
    | ok adj =>
      rw [ha] at h; simp only at h
      cases hm : (d.transactions ++ adj).mapM (Balance.valueTx v stp.norm) with
      | error e => rw [hm] at h; cases h
      | ok txsv =>
        rw [hm] at h; simp only at h
        injection h with h; injection h with h1 h2; subst h1; subst h2
        simp only
        obtain ⟨uv, av, hu, hav, rfl⟩ := mapM_except_append _ _ _ _ hm
        have hshape := adjustments_shape v d.date _ _ _ adj ha
        have hq0 : ∀ t ∈ adj, ∀ p ∈ t.postings, p.quantity = 0 := by
          intro t ht p hp
          obtain ⟨a, c, g, _, hps⟩ := hshape t ht
          rw [hps] at hp
          exact build_qty_zero _ _ _ _ p hp
        have hav' := mapM_valueTx_qtyZero v stp.norm adj av hq0 hav
        have e1 := mapM_valueTx_sel v stp.norm (fun a => decide (a = b)) d.transactions uv hz hu
        have e2 := mapM_valueTx_sel v stp.norm (mirror b) d.transactions uv hz hu
        refine ⟨_, _, e1, e2, ?_⟩
        have hc := adjustments_cancel b hb adj hshape
        have sa : ∀ sel, sumVal sel av = sumVal sel adj := by
          intro sel; unfold sumVal; rw [hav']
        rw [sumVal_append, sumVal_append, sa, sa]
        have u1 : sumVal (accSel b) uv = (((uv.flatMap (·.postings)).filter (selP (fun a => decide (a = b)))).map (·.value)).sum := rfl
        have u2 : sumVal (selP (mirror b)) uv = (((uv.flatMap (·.postings)).filter (selP (mirror b))).map (·.value)).sum := rfl
        rw [u1, u2]
        grind

/-! ### over the days of the window -/

/-- **closing off: over days inside the window, the values on `b` and on the accounts mirrored to `b` total the
booking-day values of the journal's bookings on them**; `days = L ++ ds ++ R` is the whole date-sorted journal -/
theorem gain_run (cfg : BalCfg) (v : Commodity) (hv : cfg.valuation = some v) (hcl : cfg.close = false)
    (b : Account) (hb : b.isAL = false) (days R : List Day) (hsd : Sorted days) :
    ∀ (ds L : List Day) (st st' : BalState) (txs : List Transaction), days = L ++ ds ++ R → PriceInv v L st →
      (∀ d ∈ ds, cfg.span.contains d.date = true) → (∀ d ∈ ds, ∀ t ∈ d.transactions, t.date = d.date) →
      (∀ d ∈ ds, ∀ t ∈ d.transactions, ∀ p ∈ t.postings, p.value = 0) →
      pipelineRun cfg st ds = .ok (st', txs) →
      ∃ ub um,
        ((userPostings ds).filter (fun x => accSel b x.2)).mapM (fun x => Spec.bookingValue v days x.1 x.2) = some ub ∧
        ((userPostings ds).filter (fun x => selP (mirror b) x.2)).mapM (fun x => Spec.bookingValue v days x.1 x.2) = some um ∧
        sumVal (accSel b) txs + sumVal (selP (mirror b)) txs = ub.sum + um.sum
  | [], _, _, _, txs, _, _, _, _, _, h => by
    unfold pipelineRun at h
    injection h with h; injection h with h1 h2; subst h2
    exact ⟨[], [], rfl, rfl, rfl⟩
  | d :: ds, L, st, st', txs, hdays, hpi, hin, hcons, hz, h => by
    unfold pipelineRun at h
    cases hq : dayQ cfg st d with
    | error e => rw [hq] at h; cases h
    | ok r =>
      obtain ⟨sd, td⟩ := r
      rw [hq] at h; simp only at h
      cases hr : pipelineRun cfg sd ds with
      | error e => rw [hr] at h; cases h
      | ok r2 =>
        obtain ⟨s2, rest⟩ := r2
        rw [hr] at h; simp only at h
        injection h with h; injection h with h1 h2; subst h1; subst h2
        have hpi' := priceInv_day cfg v L st sd d td hv hpi hq
        obtain ⟨ub2, um2, i1, i2, i3⟩ := gain_run cfg v hv hcl b hb days R hsd ds (L ++ [d]) sd s2 rest
          (by rw [hdays]; simp only [List.append_assoc, List.cons_append, List.nil_append]) hpi'
          (fun x hx => hin x (List.mem_cons_of_mem _ hx)) (fun x hx => hcons x (List.mem_cons_of_mem _ hx))
          (fun x hx => hz x (List.mem_cons_of_mem _ hx)) hr
        obtain ⟨stc, st1, txs1, _, hvs, htd, hnorm⟩ := dayQ_noclose cfg hcl st sd d td hq
        simp only [hin d List.mem_cons_self, if_true] at htd
        subst htd
        obtain ⟨ub1, um1, d1, d2, d3⟩ := valuationStage_gain cfg v stc st1 d td hv (hz d List.mem_cons_self) b hb hvs
        have hprice : st1.norm = Spec.pricesAt v days d.date := by
          rw [← hnorm, hpi'.2.1, pricesAt_eq]
          congr 1
          have : days = L ++ d :: (ds ++ R) := by rw [hdays]; simp only [List.append_assoc, List.cons_append]
          rw [this, sorted_prefix_at L (ds ++ R) d (by rw [← this]; exact hsd)]
        rw [hprice] at d1 d2
        refine ⟨ub1 ++ ub2, um1 ++ um2, ?_, ?_, ?_⟩
        · rw [userPostings_cons, List.filter_append]
          apply mapM_append_some _ _ _ _ _ _ i1
          rw [dayPosts_eq d.date d.transactions (hcons d List.mem_cons_self), List.filter_map, mapM_map_opt]
          exact d1
        · rw [userPostings_cons, List.filter_append]
          apply mapM_append_some _ _ _ _ _ _ i2
          rw [dayPosts_eq d.date d.transactions (hcons d List.mem_cons_self), List.filter_map, mapM_map_opt]
          exact d2
        · rw [sumVal_append, sumVal_append, sum_append_rat, sum_append_rat]
          grind

/-! ### inserts selected by account, cumulated by column date -/

/-- the inserts on the accounts selected by `s` aligned to a column date `≤ X`, summed -/
def qCum (s : Account → Bool) (es : List Entry) (X : Int) : Rat :=
  sumAmounts (es.filter (fun e => s e.account && dateLe X e))

theorem accCum_eq_qCum (b : Account) (es : List Entry) (X : Int) : accCum b es X = qCum (fun a => decide (a = b)) es X := rfl

theorem qCum_append (s : Account → Bool) (xs ys : List Entry) (X : Int) :
    qCum s (xs ++ ys) X = qCum s xs X + qCum s ys X := by
  unfold qCum
  rw [List.filter_append, sumAmounts_append]

theorem qCum_zero_of (s : Account → Bool) (es : List Entry) (X : Int)
    (h : ∀ e ∈ es, ¬ ∃ D', e.date = some D' ∧ D' ≤ X) : qCum s es X = 0 := by
  unfold qCum
  have : es.filter (fun e => s e.account && dateLe X e) = [] := by
    rw [List.filter_eq_nil_iff]
    intro e he hc
    simp only [Bool.and_eq_true] at hc
    apply h e he
    unfold dateLe at hc
    cases hd : e.date with
    | none => rw [hd] at hc; simp at hc
    | some D' =>
      rw [hd] at hc
      simp only [decide_eq_true_eq] at hc
      exact ⟨D', rfl, hc.2⟩
  rw [this]
  rfl

theorem qCum_eq_total (s : Account → Bool) (es : List Entry) (X : Int)
    (h : ∀ e ∈ es, ∃ D', e.date = some D' ∧ D' ≤ X) : qCum s es X = sumAmounts (es.filter (fun e => s e.account)) := by
  unfold qCum
  congr 1
  apply List.filter_congr
  intro e he
  obtain ⟨D', h1, h2⟩ := h e he
  unfold dateLe
  rw [h1]
  simp [h2]

/-- the inserts of a plain valued report on the accounts selected by `s` total the values of the postings on them -/
theorem total_flatMap_sel (cfg : BalCfg) (hp : Plain cfg) (hv : cfg.valuation.isSome = true) (s : Account → Bool) :
    ∀ (txs : List Transaction), sumAmounts ((txs.flatMap (Balance.queryTx cfg)).filter (fun e => s e.account)) =
      sumVal (selP s) txs
  | [] => rfl
  | t :: rest => by
    have ih := total_flatMap_sel cfg hp hv s rest
    rw [sumVal_cons, List.flatMap_cons, List.filter_append, sumAmounts_append, ih]
    congr 1
    unfold Balance.queryTx sumAmounts
    generalize t.postings = ps
    induction ps with
    | nil => rfl
    | cons p ps ihp =>
      rw [List.filterMap_cons, queryPosting_plain cfg hp hv t p]
      simp only [List.filter_cons]
      cases hb : s p.account with
      | true =>
        simp only [selP, hb, if_true, List.map_cons, List.sum_cons]
        rw [ihp]
      | false =>
        simp only [selP, hb, Bool.false_eq_true, if_false]
        exact ihp

/-- **closing off, any non-A/L account `b`, over `(F, D]`** (`F` the eve of the window or an earlier period end): the
change of the row of `b` plus the change of the rows of the asset/liability accounts mirrored to `b` equals the
booking-day value of the journal's bookings on `b` and on those accounts in `(F, D]` -/
theorem run_gain_delta_noclose (cfg : BalCfg) (v : Commodity) (b : Account) (days : List Day) (stF : BalState) (F D : Int)
    (hv : cfg.valuation = some v) (hcl : cfg.close = false) (hpl : Plain cfg) (hb : b.isAL = false) (hs : Sorted days)
    (hcons : ∀ d ∈ days, ∀ t ∈ d.transactions, t.date = d.date)
    (hz : ∀ d ∈ days, ∀ t ∈ d.transactions, ∀ p ∈ t.postings, p.value = 0)
    (hinc : List.Pairwise (· < ·) (cfg.periods.map (·.stop))) (hD : D ∈ cfg.periods.map (·.stop))
    (hF : IsEve cfg F D) (hDin : cfg.span.contains D = true)
    (h : Balance.run cfg days = .ok stF) :
    ∃ fl flm, Spec.flowAt v days b F D = some fl ∧ Spec.flowSel v days (mirror b) F D = some flm ∧
      (accCum b stF.entries D - accCum b stF.entries F) +
        (qCum (mirror b) stF.entries D - qCum (mirror b) stF.entries F) = fl + flm := by
  have hvs : cfg.valuation.isSome = true := by rw [hv]; rfl
  have hbnd : ¬ (D < cfg.span.start) ∧ ¬ (D > cfg.span.stop) := by
    unfold Period.contains at hDin
    simpa using hDin
  have hFlo : cfg.span.start ≤ F + 1 ∧ F ≤ D := by
    rcases hF with rfl | ⟨_, h2, h3⟩
    · omega
    · unfold Period.contains at h3
      have : ¬ (F < cfg.span.start) ∧ ¬ (F > cfg.span.stop) := by simpa using h3
      omega
  have hlo : F + 1 ≤ D + 1 := by omega
  obtain ⟨hsplit, _⟩ := sorted_split3 (F + 1) D hlo days hs
  generalize hA' : days.filter (fun d => decide (d.date < F + 1)) = A at hsplit
  generalize hB1' : days.filter (fun d => !decide (d.date < F + 1) && decide (d.date ≤ D)) = B1 at hsplit
  generalize hB2' : days.filter (fun d => !decide (d.date < F + 1) && !decide (d.date ≤ D)) = B2 at hsplit
  have hAsub : ∀ d ∈ A, d ∈ days ∧ d.date < F + 1 := by
    intro d hd; rw [← hA'] at hd
    have := List.mem_filter.mp hd
    exact ⟨this.1, by simpa using this.2⟩
  have hB1sub : ∀ d ∈ B1, d ∈ days ∧ ¬ d.date < F + 1 ∧ d.date ≤ D := by
    intro d hd; rw [← hB1'] at hd
    have := List.mem_filter.mp hd
    exact ⟨this.1, by simpa using this.2⟩
  have hB2sub : ∀ d ∈ B2, d ∈ days ∧ D < d.date := by
    intro d hd; rw [← hB2'] at hd
    have := List.mem_filter.mp hd
    refine ⟨this.1, ?_⟩
    have h2 := this.2
    simp only [Bool.and_eq_true, Bool.not_eq_true', decide_eq_false_iff_not] at h2
    omega
  have hB1in : ∀ d ∈ B1, cfg.span.contains d.date = true := by
    intro d hd
    obtain ⟨_, h1, h2⟩ := hB1sub d hd
    unfold Period.contains
    have h3 : ¬ d.date > cfg.span.stop := by omega
    have h4 : ¬ d.date < cfg.span.start := by omega
    simp [h3, h4]
  obtain ⟨txs, hp, he⟩ := run_pipelineRun cfg days stF h
  rw [hsplit] at hp
  obtain ⟨stB, tAB, tB2, h12, h3, e1⟩ := pipelineRun_append cfg _ _ _ _ _ hp
  obtain ⟨stA, tA, tB1, hA, hB, e2⟩ := pipelineRun_append cfg _ _ _ _ _ h12
  have hpi := priceInv_run cfg v hv A [] {} stA tA (priceInv_init v) hA
  rw [List.nil_append] at hpi
  obtain ⟨ub, um, g1, g2, g3⟩ := gain_run cfg v hv hcl b hb days B2 hs B1 A stA stB tB1 hsplit hpi hB1in
    (fun d hd => hcons d (hB1sub d hd).1) (fun d hd => hz d (hB1sub d hd).1) hB
  -- the specification's flows are the flows of the days B1
  have hfilt : ∀ (s : Account → Bool), (Spec.userPostings days).filter (fun (x : Int × Posting) =>
      decide (F < x.1) && decide (x.1 ≤ D) && s x.2.account) = (Spec.userPostings B1).filter (fun x => selP s x.2) := by
    intro s
    rw [hsplit, userPostings_append, userPostings_append, List.filter_append, List.filter_append]
    have eA : (Spec.userPostings A).filter (fun (x : Int × Posting) =>
        decide (F < x.1) && decide (x.1 ≤ D) && s x.2.account) = [] := by
      rw [List.filter_eq_nil_iff]
      intro x hx
      obtain ⟨d, hd, hxd⟩ := userPostings_dates A (fun d hd => hcons d (hAsub d hd).1) x hx
      have := (hAsub d hd).2
      have : ¬ F < x.1 := by omega
      simp [this]
    have eB2 : (Spec.userPostings B2).filter (fun (x : Int × Posting) =>
        decide (F < x.1) && decide (x.1 ≤ D) && s x.2.account) = [] := by
      rw [List.filter_eq_nil_iff]
      intro x hx
      obtain ⟨d, hd, hxd⟩ := userPostings_dates B2 (fun d hd => hcons d (hB2sub d hd).1) x hx
      have := (hB2sub d hd).2
      have : ¬ x.1 ≤ D := by omega
      simp [this]
    rw [eA, eB2, List.nil_append, List.append_nil]
    apply List.filter_congr
    intro x hx
    obtain ⟨d, hd, hxd⟩ := userPostings_dates B1 (fun d hd => hcons d (hB1sub d hd).1) x hx
    obtain ⟨_, h1, h2⟩ := hB1sub d hd
    have c1 : F < x.1 := by omega
    have c2 : x.1 ≤ D := by omega
    simp [c1, c2, selP]
  refine ⟨ub.sum, um.sum, ?_, ?_, ?_⟩
  · unfold Spec.flowAt
    have := hfilt (fun a => decide (a = b))
    rw [this]
    have g1' : ((Spec.userPostings B1).filter (fun x => selP (fun a => decide (a = b)) x.2)).mapM
        (fun x => Spec.bookingValue v days x.1 x.2) = some ub := g1
    rw [g1']
    rfl
  · unfold Spec.flowSel
    rw [hfilt (mirror b), g2]
    rfl
  · -- the inserts
    have hes : stF.entries = tA.flatMap (Balance.queryTx cfg) ++ tB1.flatMap (Balance.queryTx cfg) ++
        tB2.flatMap (Balance.queryTx cfg) := by
      rw [he, e1, e2, List.flatMap_append, List.flatMap_append]
    have hdelta : ∀ (s : Account → Bool), qCum s stF.entries D - qCum s stF.entries F = sumVal (selP s) tB1 := by
      intro s
      have hcA : qCum s (tA.flatMap (Balance.queryTx cfg)) D - qCum s (tA.flatMap (Balance.queryTx cfg)) F = 0 := by
        rcases hF with rfl | ⟨hF1, hF2, hF3⟩
        · have hAout : ∀ d ∈ A, cfg.span.contains d.date = false := by
            intro d hd
            have := (hAsub d hd).2
            unfold Period.contains
            have h5 : d.date < cfg.span.start := by omega
            simp [h5]
          have htA : tA = [] := pipelineRun_noclose_out cfg hcl A {} stA tA hAout hA
          rw [htA]
          exact rat_sub_self _
        · have hAF : ∀ e ∈ tA.flatMap (Balance.queryTx cfg), ∃ D', e.date = some D' ∧ D' ≤ F := by
            intro e hem
            obtain ⟨t, ht, p, hpt, rfl⟩ := mem_entries_plain cfg hpl hvs tA e hem
            obtain ⟨d, hd, hdt⟩ := pipelineRun_dates cfg A {} stA tA (fun d hd => hcons d (hAsub d hd).1) hA t ht
            have := (hAsub d hd).2
            exact alignIn_le cfg.periods t.date F hinc hF1 (by rw [hdt]; omega)
          rw [qCum_eq_total s _ F hAF, qCum_eq_total s _ D (fun e he => by
            obtain ⟨D', h1, h2⟩ := hAF e he
            exact ⟨D', h1, by omega⟩)]
          exact rat_sub_self _
      have hcB2 : ∀ X, X ≤ D → qCum s (tB2.flatMap (Balance.queryTx cfg)) X = 0 := by
        intro X hX
        apply qCum_zero_of
        intro e hem hc
        obtain ⟨t, ht, p, hpt, rfl⟩ := mem_entries_plain cfg hpl hvs tB2 e hem
        obtain ⟨d, hd, hdt⟩ := pipelineRun_dates cfg B2 stB stF tB2 (fun d hd => hcons d (hB2sub d hd).1) h3 t ht
        obtain ⟨D', h1, h2⟩ := hc
        simp only at h1
        have := alignIn_gt cfg.periods t.date D D' (by rw [hdt]; exact (hB2sub d hd).2) h1
        omega
      have hcB1 : qCum s (tB1.flatMap (Balance.queryTx cfg)) D =
          sumAmounts ((tB1.flatMap (Balance.queryTx cfg)).filter (fun e => s e.account)) := by
        apply qCum_eq_total
        intro e hem
        obtain ⟨t, ht, p, hpt, rfl⟩ := mem_entries_plain cfg hpl hvs tB1 e hem
        obtain ⟨d, hd, hdt⟩ := pipelineRun_dates cfg B1 stA stB tB1 (fun d hd => hcons d (hB1sub d hd).1) hB t ht
        exact alignIn_le cfg.periods t.date D hinc hD (by rw [hdt]; exact (hB1sub d hd).2.2)
      have hcB1F : qCum s (tB1.flatMap (Balance.queryTx cfg)) F = 0 := by
        apply qCum_zero_of
        intro e hem hc
        obtain ⟨t, ht, p, hpt, rfl⟩ := mem_entries_plain cfg hpl hvs tB1 e hem
        obtain ⟨d, hd, hdt⟩ := pipelineRun_dates cfg B1 stA stB tB1 (fun d hd => hcons d (hB1sub d hd).1) hB t ht
        obtain ⟨D', h1, h2⟩ := hc
        simp only at h1
        have h5 := (hB1sub d hd).2.1
        have := alignIn_gt cfg.periods t.date F D' (by rw [hdt]; omega) h1
        omega
      rw [hes, qCum_append, qCum_append, qCum_append, qCum_append, hcB2 D (Int.le_refl _), hcB2 F hFlo.2, hcB1, hcB1F,
        total_flatMap_sel cfg hpl hvs s tB1]
      grind
    rw [accCum_eq_qCum, accCum_eq_qCum, hdelta, hdelta]
    exact g3

/-! ### by account -/

theorem mapM_some_map {α : Type} (f : α → Option Rat) : ∀ (L : List α) (vals : List Rat), L.mapM f = some vals →
    vals = L.map (fun x => (f x).getD 0) ∧ ∀ x ∈ L, ∃ m, f x = some m
  | [], vals, h => by
    simp only [List.mapM_nil, pure, Option.some.injEq] at h
    subst h
    exact ⟨rfl, fun x hx => by cases hx⟩
  | a :: L, vals, h => by
    rw [List.mapM_cons] at h
    cases ha : f a with
    | none => rw [ha] at h; cases h
    | some m =>
      rw [ha] at h
      simp only [Option.bind_eq_bind, Option.bind_some] at h
      cases hl : L.mapM f with
      | none => rw [hl] at h; cases h
      | some ms =>
        rw [hl] at h
        simp only [Option.bind_some, pure, Option.some.injEq] at h
        subst h
        obtain ⟨i1, i2⟩ := mapM_some_map f L ms hl
        refine ⟨by rw [List.map_cons, ha, ← i1]; rfl, ?_⟩
        intro x hx
        rcases List.mem_cons.mp hx with rfl | hx
        · exact ⟨m, ha⟩
        · exact i2 x hx

theorem sum_by_key {α : Type} (key : α → Account) (val : α → Rat) (S : List Account) (hS : S.Nodup) : ∀ (L : List α),
    (∀ x ∈ L, key x ∈ S) →
    (L.map val).sum = (S.map (fun a => ((L.filter (fun x => decide (key x = a))).map val).sum)).sum
  | [], _ => by
    simp only [List.filter_nil, List.map_nil, List.sum_nil]
    exact (sum_map_zero _ S (fun _ _ => rfl)).symm
  | x :: L, h => by
    have ih := sum_by_key key val S hS L (fun y hy => h y (List.mem_cons_of_mem _ hy))
    have hcons : ∀ a, (((x :: L).filter (fun y => decide (key y = a))).map val).sum =
        (if key x = a then val x else 0) + ((L.filter (fun y => decide (key y = a))).map val).sum := by
      intro a
      rw [List.filter_cons]
      by_cases h1 : key x = a <;> simp [h1, Rat.zero_add]
    rw [funext hcons, sum_map_add, ← ih, List.map_cons, List.sum_cons,
      sum_indicator_acc (key x) (val x) S hS (h x List.mem_cons_self)]

theorem mem_mirrored {days : List Day} {b a : Account} :
    a ∈ Spec.mirrored days b ↔ a ∈ (Spec.userPostings days).map (fun x => x.2.account) ∧ mirror b a = true := by
  unfold Spec.mirrored Spec.alAccounts mirror
  rw [List.mem_filter, List.mem_eraseDups, List.mem_filter]
  simp only [Bool.and_eq_true, decide_eq_true_eq]
  constructor
  · rintro ⟨⟨h1, h2⟩, h3⟩; exact ⟨h1, h2, h3⟩
  · rintro ⟨h1, h2, h3⟩; exact ⟨⟨h1, h2⟩, h3⟩

theorem nodup_mirrored (days : List Day) (b : Account) : (Spec.mirrored days b).Nodup := by
  unfold Spec.mirrored Spec.alAccounts
  exact List.Pairwise.sublist List.filter_sublist (ReportPerm.nodup_eraseDups _ _ (Nat.le_refl _))

/-- the booking-day value of the bookings on all accounts mirrored to `b` is the sum over those accounts -/
theorem flowSel_mirror (v : Commodity) (days : List Day) (b : Account) (F D : Int) (flm : Rat)
    (h : Spec.flowSel v days (mirror b) F D = some flm) :
    Spec.flowOver v days (Spec.mirrored days b) F D = some flm ∧
    ∀ a ∈ Spec.mirrored days b, ∃ m, Spec.flowAt v days a F D = some m := by
  unfold Spec.flowSel at h
  generalize hP : (Spec.userPostings days).filter (fun (x : Int × Posting) =>
    decide (F < x.1) && decide (x.1 ≤ D) && mirror b x.2.account) = P at h
  cases hm : P.mapM (fun x => Spec.bookingValue v days x.1 x.2) with
  | none => rw [hm] at h; cases h
  | some vals =>
    rw [hm] at h
    simp only [Option.map_some, Option.some.injEq] at h
    obtain ⟨hvals, hall⟩ := mapM_some_map _ P vals hm
    have hflow : ∀ a ∈ Spec.mirrored days b, Spec.flowAt v days a F D =
        some (((P.filter (fun x => decide (x.2.account = a))).map
          (fun x => (Spec.bookingValue v days x.1 x.2).getD 0)).sum) := by
      intro a ha
      have hma := (mem_mirrored.mp ha).2
      unfold Spec.flowAt
      have hfa : (Spec.userPostings days).filter (fun (x : Int × Posting) =>
          decide (F < x.1) && decide (x.1 ≤ D) && decide (x.2.account = a)) =
          P.filter (fun x => decide (x.2.account = a)) := by
        rw [← hP, List.filter_filter]
        apply List.filter_congr
        intro x _
        by_cases hx : x.2.account = a
        · rw [hx, hma]; simp
        · simp [hx]
      rw [hfa, mapM_some_getD _ _ (fun x hx => hall x (List.mem_filter.mp hx).1)]
      rfl
    constructor
    · unfold Spec.flowOver
      rw [mapM_some_getD _ _ (fun a ha => ⟨_, hflow a ha⟩)]
      simp only [Option.map_some, Option.some.injEq]
      rw [← h, hvals, sum_by_key (fun (x : Int × Posting) => x.2.account) _ (Spec.mirrored days b) (nodup_mirrored days b) P
        (fun x hx => by
          rw [← hP] at hx
          obtain ⟨h1, h2⟩ := List.mem_filter.mp hx
          simp only [Bool.and_eq_true] at h2
          exact mem_mirrored.mpr ⟨List.mem_map.mpr ⟨x, h1, rfl⟩, h2.2⟩)]
      congr 1
      apply List.map_congr_left
      intro a ha
      rw [hflow a ha]
      rfl
    · intro a ha
      exact ⟨_, hflow a ha⟩

/-- **closing off: the row of any non-A/L account `b` over `(F, D]`.**  With `S = Spec.mirrored days b` the journal's
asset/liability accounts whose value adjustments are booked on `b` (none unless `b` is below `Income`):
`Δ(b) = flow(b) − (Σ_{a ∈ S} Δ(a) − Σ_{a ∈ S} flow(a))` — the bookings on `b` at booking-day prices, minus the value
adjustments (change of value minus booked value) of the mirrored accounts.  Exact. -/
theorem run_gain_accounts_noclose (cfg : BalCfg) (v : Commodity) (b : Account) (days : List Day) (stF : BalState) (F D : Int)
    (hv : cfg.valuation = some v) (hcl : cfg.close = false) (hpl : Plain cfg) (hb : b.isAL = false) (hs : Sorted days)
    (hcons : ∀ d ∈ days, ∀ t ∈ d.transactions, t.date = d.date)
    (hz : ∀ d ∈ days, ∀ t ∈ d.transactions, ∀ p ∈ t.postings, p.value = 0)
    (hinc : List.Pairwise (· < ·) (cfg.periods.map (·.stop))) (hD : D ∈ cfg.periods.map (·.stop))
    (hF : IsEve cfg F D) (hDin : cfg.span.contains D = true)
    (h : Balance.run cfg days = .ok stF) :
    ∃ fl flS, Spec.flowAt v days b F D = some fl ∧ Spec.flowOver v days (Spec.mirrored days b) F D = some flS ∧
      accCum b stF.entries D - accCum b stF.entries F =
        fl - (((Spec.mirrored days b).map (fun a => accCum a stF.entries D - accCum a stF.entries F)).sum - flS) := by
  obtain ⟨fl, flm, f1, f2, f3⟩ := run_gain_delta_noclose cfg v b days stF F D hv hcl hpl hb hs hcons hz hinc hD hF hDin h
  obtain ⟨f4, _⟩ := flowSel_mirror v days b F D flm f2
  refine ⟨fl, flm, f1, f4, ?_⟩
  generalize hS : Spec.mirrored days b = S
  have hSn : S.Nodup := by rw [← hS]; exact nodup_mirrored days b
  let X := (((stF.entries.map (·.account)).eraseDups).filter (mirror b)).filter (fun a => !decide (a ∈ S))
  have hXn : X.Nodup :=
    List.Pairwise.sublist List.filter_sublist
      (List.Pairwise.sublist List.filter_sublist (ReportPerm.nodup_eraseDups _ _ (Nat.le_refl _)))
  have hXS : ∀ a ∈ X, a ∉ S := by
    intro a ha
    have := (List.mem_filter.mp ha).2
    simpa using this
  have hXsel : ∀ a ∈ X, mirror b a = true := by
    intro a ha
    exact (List.mem_filter.mp (List.mem_filter.mp ha).1).2
  have hSsel : ∀ a ∈ S, mirror b a = true := by
    intro a ha; rw [← hS] at ha; exact (mem_mirrored.mp ha).2
  have hSXn : (S ++ X).Nodup := by
    rw [List.nodup_append]
    refine ⟨hSn, hXn, ?_⟩
    intro x hx y hy e
    exact hXS y hy (e ▸ hx)
  have hsum : ∀ Y, qCum (mirror b) stF.entries Y = (S.map (fun a => accCum a stF.entries Y)).sum +
      (X.map (fun a => accCum a stF.entries Y)).sum := by
    intro Y
    unfold qCum
    rw [sum_by_account (S ++ X) hSXn (fun e => mirror b e.account && dateLe Y e) stF.entries (fun e he hq => by
      simp only [Bool.and_eq_true] at hq
      by_cases hc : e.account ∈ S
      · exact List.mem_append_left _ hc
      · apply List.mem_append_right
        rw [List.mem_filter]
        refine ⟨?_, by simp [hc]⟩
        rw [List.mem_filter]
        refine ⟨?_, hq.1⟩
        rw [List.mem_eraseDups]
        exact List.mem_map.mpr ⟨e, he, rfl⟩), ← sum_append_rat, ← List.map_append]
    congr 1
    apply List.map_congr_left
    intro a ha
    have hma : mirror b a = true := by
      rcases List.mem_append.mp ha with h1 | h1
      · exact hSsel a h1
      · exact hXsel a h1
    rw [accCum_def]
    congr 1
    apply List.filter_congr
    intro e _
    by_cases h1 : e.account = a
    · rw [h1, hma]; simp
    · simp [h1]
  have hXzero : (X.map (fun a => accCum a stF.entries D - accCum a stF.entries F)).sum = 0 := by
    apply sum_map_zero
    intro a ha
    have hal : a.isAL = true := by
      have := hXsel a ha
      unfold mirror at this
      simp only [Bool.and_eq_true] at this
      exact this.1
    have hnot : a ∉ ((Spec.userPostings days).map (fun x => x.2.account)) := by
      intro hm
      apply hXS a ha
      rw [← hS]
      exact mem_mirrored.mpr ⟨hm, hXsel a ha⟩
    obtain ⟨mD, mF, h1, h2, h3, h4⟩ := run_account_delta cfg v a days stF F D hv hal hpl hs hcons hz hinc hD hF hDin h
    have hc := commoditiesOf_nil_of_not_mem hnot
    unfold Spec.mtm at h1 h2
    rw [hc] at h1 h2
    unfold Spec.stepBound at h3 h4
    rw [hc] at h3 h4
    injection h1 with h1
    injection h2 with h2
    subst h1; subst h2
    simp only [List.map_nil, List.sum_nil] at h3 h4
    have e0 : (((0 : Nat) : Rat)) = 0 := rfl
    grind
  rw [sum_map_sub] at hXzero ⊢
  rw [hsum D, hsum F] at f3
  grind

end Knut.MTM
