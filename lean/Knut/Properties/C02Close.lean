import Knut.Proofs.LedgerClose
/-!
# C02, closing clause — with period closing the report inserts are a permutation of the ledger entries

`C02_close`: for unvalued reports with period closing, the pipeline model's report inserts are, as a multiset,
exactly `Spec.ledgerEntries` (window bookings plus, at every shown period start `s` and for every
income/expense/equity position other than Equity:Equity with total `T ≠ 0` booked in `[previous closing day, s)`,
the pair `(k, −T)`, `(Equity:Equity, +T)`).  The statement is a permutation, not a list equality: the model emits
closings day by day between the bookings, iterates the positions in accumulator order, and `postingBuild` swaps
the two postings of a closing transaction when `T < 0`.  The rendered report is a function of the multiset.

Hypotheses (all hold for every journal the balance command builds without `--val`):
* `Sorted days`, `DaysConsistent days` — `Builder.ofList`/`Builder.add` (`ofList_spec`, Proofs/Builder.lean);
* every period start is the date of a day — `Builder.ensureDays` (`Builder.Days(partition.StartDates())`);
* the period starts are strictly increasing — consecutive periods of `Partition`;
* user postings carry value 0 — values are only assigned by the Valuate stage.
-/
namespace Knut.C02
open Knut Knut.Spec Knut.LedgerClose

/-- **invariant of the closing accumulators** (step 1): processing one more day keeps `LedgerClose.Inv`:
duplicate-free keys that are ledger positions, every closable position's accumulated quantity equal to the
sum booked since the latest closing day, all accumulated values zero. -/
theorem C02_close_invariant (cfg : BalCfg) (hv : cfg.valuation = none) (hc : cfg.close = true) (days r : List Day)
    (st st' : BalState) (d : Day) (hd : d ∈ days) (hz : ∀ t ∈ d.transactions, ∀ p ∈ t.postings, p.value = 0)
    (hinv : Inv cfg days r st) (h : Balance.day cfg st d = .ok st') : Inv cfg days (d :: r) st' :=
  inv_step cfg hv hc days r st st' d hd hz hinv h

/-- **a single closing day** (step 2): if the accumulators hold the ledger's totals for `[previous closing day, s)`,
the closing transactions emitted at `s` insert exactly the ledger's closing entries for `s`, up to order. -/
theorem C02_closing_day (cfg : BalCfg) (hv : cfg.valuation = none) (days : List Day) (s : Int) (st : BalState)
    (hn : AMap.NodupKeys st.cQty) (hk : ∀ k ∈ st.cQty.map (·.1), k ∈ positions days)
    (hq : ∀ k : Position, closable k.1 = true → st.cQty.get k 0 = bookedBetween cfg days k (prevClosing cfg s) s)
    (hval : ∀ k, st.cVal.get k 0 = 0) :
    ((Balance.closings s st.cQty st.cVal).flatMap (Balance.queryTx cfg)).Perm
      ((positions days).flatMap (fun k =>
        let T := bookedBetween cfg days k (prevClosing cfg s) s
        if T = 0 then []
        else (entryOf cfg s k.1 k.2 (-T)).toList ++ (entryOf cfg s equityAccount k.2 T).toList)) :=
  closing_day_perm cfg hv days s st hn hk hq hval

/-- **with period closing, the report inserts are the ledger entries as a multiset** -/
theorem C02_close (cfg : BalCfg) (hv : cfg.valuation = none) (hc : cfg.close = true)
    (days : List Day) (hs : Sorted days) (hd : DaysConsistent days)
    (hz : ∀ d ∈ days, ∀ t ∈ d.transactions, ∀ p ∈ t.postings, p.value = 0)
    (hcd : ∀ s ∈ cfg.periods.map (·.start), s ∈ days.map (·.date))
    (hper : List.Pairwise (· < ·) (cfg.periods.map (·.start)))
    (st : BalState) (h : Balance.run cfg days = .ok st) :
    st.entries.Perm (ledgerEntries cfg days) := by
  unfold Balance.run at h
  have hp := run_perm cfg hv hc hper days hs hd hz hcd days [] {} st (by simp) (inv_init cfg days) h
  refine hp.trans ?_
  show List.Perm ([] ++ _) _
  rw [List.nil_append]
  unfold ledgerEntries
  refine (flatMap_append_perm (Knut.C02.dayBookings cfg)
    (fun d => if isClosing cfg d then closeAt cfg days d.date else []) days).trans ?_
  rw [flatMap_dayBookings]
  exact List.Perm.append_left _ (closing_days_perm cfg hc hper days hs hcd)

/-! Non-vacuity: a journal with two periods and an income booking in the first one satisfies every hypothesis
of `C02_close`, the run succeeds, a closing pair is emitted at day 11 (T = −5, so `postingBuild` swaps the pair),
and the inserts differ from `ledgerEntries` as lists: the permutation in the statement cannot be an equality. -/
example : Sorted exDays := by simp [Sorted, exDays]
example : DaysConsistent exDays := by
  intro d hd t ht
  simp [exDays] at hd
  rcases hd with rfl | rfl | rfl | rfl <;> simp at ht <;> subst ht <;> rfl
example : ∀ d ∈ exDays, ∀ t ∈ d.transactions, ∀ p ∈ t.postings, p.value = 0 := by
  intro d hd t ht p hp
  simp [exDays] at hd
  rcases hd with rfl | rfl | rfl | rfl <;> simp at ht <;> subst ht <;> simp [postingBuild] at hp <;>
    rcases hp with rfl | rfl <;> rfl
example : ∀ s ∈ exCfg.periods.map (·.start), s ∈ exDays.map (·.date) := by simp [exCfg, exDays]
example : List.Pairwise (· < ·) (exCfg.periods.map (·.start)) := by simp [exCfg]
example : (match Balance.run exCfg exDays with
    | .ok st => decide (st.entries.length = 6 ∧ (closingEntries exCfg exDays).length = 2 ∧
        st.entries ≠ ledgerEntries exCfg exDays)
    | .error _ => false) = true := by decide +kernel

end Knut.C02
