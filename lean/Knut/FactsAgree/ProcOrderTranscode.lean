import Knut.Generated.ProcOrder
/-! # Processor order of `knut transcode`: the extracted list is the one the composition modules assume

Part of the tie described in `FactsAgree/ProcOrder.lean` (extractor `harness/facts_procorder.go`, regenerated on every run of `bin/check`);
a module of its own so that a change of another command's processor list does not break the properties of this one (C16). -/
namespace Knut.FactsAgree.ProcOrder
open Knut.Generated.ProcOrder

/-- `knut transcode` (`cmd/commands/transcode.go`): the four stages of `TransProcessAllTranscode.transcodeSys`:
Sort, ComputePrices, check, Valuate. -/
theorem transcodeOrder_eq : transcodeOrder =
    ["journal.Sort", "journal.ComputePrices", "check.Check", "journal.Valuate"] := by decide

theorem transcodeCalls_eq : transcodeCalls =
    [("journal.Sort", []), ("journal.ComputePrices", ["valuation"]), ("check.Check", []),
     ("journal.Valuate", ["reg", "valuation"])] := by decide

/-- the order of the seeded-style change "check before the prices are computed" in `transcode.go` is not the pinned one -/
example : (["journal.Sort", "check.Check", "journal.ComputePrices", "journal.Valuate"] : List String)
    ≠ ["journal.Sort", "journal.ComputePrices", "check.Check", "journal.Valuate"] := by decide

end Knut.FactsAgree.ProcOrder
