import Knut.Generated.TransAccount
import Knut.Model.Core
import Knut.Model.JournalPrinter
import Knut.Proofs.GoSem
/-!
# The translated `lib/model/account` agrees with the model

Regenerated from /repo on every run: `Knut/Generated/TransAccount.lean`, `TransPosting.lean`, `TransTransaction.lean`.
The Go structs carry more than the model's (`Src` pointers into the syntax tree, the cached `name`/`accountType` of an
account, the `IsCurrency` flag): the conversions below build the Go value of a model value; `Src` is arbitrary.
-/
namespace Knut.FactsAgree.TransAccount
open Knut Knut.GoSem Knut.JournalPrinter
open Knut.Generated.Go

def typeGo : AccountType → Int
  | .assets => 0 | .liabilities => 1 | .equity => 2 | .income => 3 | .expenses => 4

/-- the Go account of a model account: the registry stores the type parsed from the first segment, the full name and
the segments (`9` stands for "no valid type": such accounts are never created by the registry) -/
def accountGo (a : Knut.Account) : account.Account :=
  { accountType := match a.type? with | some t => typeGo t | none => 9, name := a.name, segments := a.segments }

theorem IsAL_agrees (a : Knut.Account) : account.Account.IsAL (accountGo a) = a.isAL := by
  unfold account.Account.IsAL accountGo Knut.Account.isAL
  cases h : a.type? with
  | none => simp [account.ASSETS, account.LIABILITIES]
  | some t => cases t <;> simp [typeGo, account.ASSETS, account.LIABILITIES]

theorem IsIE_agrees (a : Knut.Account) : account.Account.IsIE (accountGo a) = a.isIE := by
  unfold account.Account.IsIE accountGo Knut.Account.isIE
  cases h : a.type? with
  | none => simp [account.EXPENSES, account.INCOME]
  | some t => cases t <;> simp [typeGo, account.EXPENSES, account.INCOME]

theorem Level_agrees (a : Knut.Account) : account.Account.Level (accountGo a) = (a.level : Int) := by
  simp [account.Account.Level, accountGo, Knut.Account.level]

theorem Name_agrees (a : Knut.Account) : account.Account.Name (accountGo a) = a.name := rfl
theorem Segments_agrees (a : Knut.Account) : account.Account.Segments (accountGo a) = a.segments := rfl
theorem Type_agrees (a : Knut.Account) (t : AccountType) (h : a.type? = some t) :
    account.Account.Type_ (accountGo a) = typeGo t := by
  simp [account.Account.Type_, accountGo, h]

theorem typeGo_ord (t : AccountType) : typeGo t = (t.ord : Int) := by cases t <;> rfl

theorem account_Compare_agrees (a b : Knut.Account) :
    account.Compare (accountGo a) (accountGo b) = ordGo (cmpAccount a b) := by
  unfold account.Compare cmpAccount
  simp only [cmpOrdered_string, cmpStr]
  have key : ∀ x : Knut.Account, (accountGo x).accountType = (((x.type?.map (·.ord)).getD 9 : Nat) : Int) := by
    intro x; unfold accountGo
    cases x.type? with
    | none => rfl
    | some t => simp [typeGo_ord]
  rw [key a, key b]
  simp only [accountGo]
  generalize (a.type?.map (·.ord)).getD 9 = ta
  generalize (b.type?.map (·.ord)).getD 9 = tb
  unfold cmpOrdered
  by_cases h1 : ta < tb
  · have : (ta : Int) < tb := by omega
    simp [h1, this, ordGo]
  · by_cases h2 : tb < ta
    · have n1 : ¬ (ta : Int) < tb := by omega
      have n2 : (tb : Int) < ta := by omega
      simp [h1, h2, n1, n2, ordGo]
    · have n1 : ¬ (ta : Int) < tb := by omega
      have n2 : ¬ (tb : Int) < ta := by omega
      simp [h1, h2, n1, n2]

/-- non-vacuity -/
example : account.Account.IsAL (accountGo ⟨["Assets", "Bank"]⟩) = true ∧ account.Account.IsIE (accountGo ⟨["Assets", "Bank"]⟩) = false ∧
    account.Compare (accountGo ⟨["Income", "A"]⟩) (accountGo ⟨["Assets", "Z"]⟩) = 1 := by decide

end Knut.FactsAgree.TransAccount
