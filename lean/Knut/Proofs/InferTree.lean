import Knut.Proofs.InferFormat
/-!
# From the training events back to the syntax trees of the training files (helper lemmas for C15)
-/
namespace Knut.Infer
open Knut Knut.Syntax

theorem mapM_mem {α β : Type} (f : α → Option β) : ∀ (l : List α) (r : List β), l.mapM f = some r →
    ∀ y ∈ r, ∃ x ∈ l, f x = some y
  | [], r, h, y, hy => by simp at h; subst h; cases hy
  | a :: l, r, h, y, hy => by
    obtain ⟨b, bs, h1, h2, rfl⟩ := (mapM_cons_some f a l r).mp h
    rcases List.mem_cons.mp hy with e | e
    · subst e; exact ⟨a, by simp, h1⟩
    · obtain ⟨x, hx, hfx⟩ := mapM_mem f l bs h2 y e
      exact ⟨x, List.mem_cons_of_mem _ hx, hfx⟩

theorem viewBooking_some {text : Bytes} {bk : Booking} {v : BookingV} (h : viewBooking text bk = some v) :
    bk.credit.range.extract text = some v.credit ∧ bk.debit.range.extract text = some v.debit := by
  simp only [viewBooking, Option.bind_eq_bind, Option.bind_eq_some_iff, Option.pure_def, Option.some.injEq] at h
  obtain ⟨cr, h1, db, h2, q, _, c, _, rfl⟩ := h
  exact ⟨h1, h2⟩

/-- a booking that training read is a booking of a transaction of the parsed file -/
theorem fileTxs_mem {text : Bytes} {f : File} {txs : List TTx} (h : fileTxs text f = some txs) {t : TTx} (ht : t ∈ txs)
    {tb : TBooking} (htb : tb ∈ t.bookings) :
    ∃ d ∈ f.directives, ∃ tr, d.body = .transaction tr ∧ ∃ bk ∈ tr.bookings,
      bk.credit.range.extract text = some tb.v.credit ∧ bk.debit.range.extract text = some tb.v.debit ∧
      tb.creditMacro = bk.credit.isMacro ∧ tb.debitMacro = bk.debit.isMacro := by
  unfold fileTxs at h
  obtain ⟨tr, htr, hv⟩ := mapM_mem _ _ _ h t ht
  obtain ⟨d, hd, hdb⟩ := List.mem_filterMap.mp htr
  have hbody : d.body = .transaction tr := by
    cases hb : d.body <;> simp [hb] at hdb
    exact congrArg _ hdb
  simp only [viewT, Option.bind_eq_bind, Option.bind_eq_some_iff, Option.pure_def, Option.some.injEq] at hv
  obtain ⟨desc, _, bs, hbs, rfl⟩ := hv
  obtain ⟨bk, hbk, hvb⟩ := mapM_mem _ _ _ hbs tb htb
  simp only [Option.map_eq_some_iff] at hvb
  obtain ⟨v, hv1, rfl⟩ := hvb
  obtain ⟨e1, e2⟩ := viewBooking_some hv1
  exact ⟨d, hd, tr, hbody, bk, hbk, e1, e2, rfl, rfl⟩

/-- `mapM` into `Option` commutes with permutations: same failure, permuted results -/
theorem mapM_perm {α β : Type} (f : α → Option β) {l₁ l₂ : List α} (h : l₁.Perm l₂) :
    (l₁.mapM f = none ∧ l₂.mapM f = none) ∨ ∃ r₁ r₂, l₁.mapM f = some r₁ ∧ l₂.mapM f = some r₂ ∧ r₁.Perm r₂ := by
  induction h with
  | nil => exact Or.inr ⟨[], [], by simp, by simp, List.Perm.refl _⟩
  | cons x _ ih =>
    rename_i l l'
    rcases ih with ⟨h1, h2⟩ | ⟨r₁, r₂, h1, h2, hp⟩
    · left; simp [List.mapM_cons, h1, h2]
    · cases hx : f x with
      | none => left; simp [List.mapM_cons, hx]
      | some y => right; exact ⟨y :: r₁, y :: r₂, by simp [List.mapM_cons, hx, h1], by simp [List.mapM_cons, hx, h2], hp.cons y⟩
  | swap x y l =>
    cases hx : f x <;> cases hy : f y <;> cases hl : l.mapM f <;> simp [List.mapM_cons, hx, hy, hl]
    exact List.Perm.swap _ _ _
  | trans _ _ ih1 ih2 =>
    rcases ih1 with ⟨h1, h2⟩ | ⟨r₁, r₂, h1, h2, hp⟩
    · rcases ih2 with ⟨h3, h4⟩ | ⟨r₃, r₄, h3, h4, hq⟩
      · exact Or.inl ⟨h1, h4⟩
      · rw [h2] at h3; cases h3
    · rcases ih2 with ⟨h3, h4⟩ | ⟨r₃, r₄, h3, h4, hq⟩
      · rw [h2] at h3; cases h3
      · rw [h2] at h3; injection h3 with h3; subst h3
        exact Or.inr ⟨r₁, r₄, h1, h4, hp.trans hq⟩

end Knut.Infer
