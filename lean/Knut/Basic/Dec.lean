namespace Knut
def hello : Nat := 1
end Knut
