package main

// Differential stream `gosemtree` (run as part of C11, after `gosem`): the meaning lean/Knut/GoSem/Multimap.lean gives to
// lib/common/multimap — the tree the balance report keeps its nodes in, which the Go→Lean translator (trans_tree.go) does not
// translate but pins by source text — against the real package: random programs of
//   g:<path>:<v>   n := root.GetOrCreate(path); n.Value += v        (creation of missing nodes, assignment through the pointer)
//   s:<k>          root.Sort(cmp_k)                                 (alphabetical / by value then name, ascending / descending)
//   p              root.PostOrder(f)                                (f makes the node's value the sum of its subtree and counts)
// compared on the complete tree (values, `Sorted` of every node as seen through the children's CURRENT values) and the state of f.

import (
	"fmt"
	"sort"
	"strings"

	"github.com/sboehler/knut/lib/common/compare"
	"github.com/sboehler/knut/lib/common/multimap"
)

func gosemTreeDump(n *multimap.Node[int]) string {
	keys := make([]string, 0, len(n.Children))
	for k := range n.Children {
		keys = append(keys, k)
	}
	sort.Strings(keys)
	kids := make([]string, len(keys))
	for i, k := range keys {
		kids[i] = gosemTreeDump(n.Children[k])
	}
	sorted := make([]string, len(n.Sorted))
	for i, c := range n.Sorted {
		sorted[i] = fmt.Sprintf("%s:%d", c.Segment, c.Value)
	}
	return fmt.Sprintf("%s=%d[%s](%s)", n.Segment, n.Value, strings.Join(sorted, ","), strings.Join(kids, " "))
}

func gosemTreeByValue(sign int) compare.Compare[*multimap.Node[int]] {
	return func(a, b *multimap.Node[int]) compare.Order {
		if sign*a.Value < sign*b.Value {
			return compare.Smaller
		}
		if sign*a.Value > sign*b.Value {
			return compare.Greater
		}
		return multimap.SortAlpha(a, b)
	}
}

func runGoSemTreeStream(c *Ctx, n int) {
	bt := c.NewBatch()
	defer bt.Flush()
	segs := []string{"a", "b", "c", "d"}
	for i := 0; i < n; i++ {
		if !c.Want("gosemtree", i) {
			continue
		}
		r := c.Rng("gosemtree", i)
		c.Evals++
		root := multimap.New[int]("")
		total, count := 0, 0
		var prog []string
		nops := r.Range(1, 12)
		sorts, posts := 0, 0
		for j := 0; j < nops; j++ {
			switch k := r.Intn(10); {
			case k < 6:
				path := make([]string, r.Intn(4))
				for d := range path {
					path[d] = Pick(r, segs)
				}
				v := r.Range(-3, 3)
				nd := root.GetOrCreate(path)
				nd.Value += v
				ps := strings.Join(path, "/")
				if len(path) == 0 {
					ps = "-"
				}
				prog = append(prog, "g:"+ps+":"+itoa(v))
			case k < 8:
				kind := r.Intn(3)
				switch kind {
				case 0:
					root.Sort(multimap.SortAlpha[int])
				case 1:
					root.Sort(gosemTreeByValue(1))
				default:
					root.Sort(gosemTreeByValue(-1))
				}
				prog = append(prog, "s:"+itoa(kind))
				sorts++
			default:
				root.PostOrder(func(nd *multimap.Node[int]) {
					for _, ch := range nd.Children {
						nd.Value += ch.Value
					}
					total += nd.Value
					count++
				})
				prog = append(prog, "p")
				posts++
			}
		}
		p := strings.Join(prog, ";")
		impl := fmt.Sprintf("%d %d %s", total, count, gosemTreeDump(root))
		idx := i
		bt.Add(func(model string) { c.Compare("gosemtree", idx, "gosemtree", map[string]any{"program": p}, impl, model) }, "gosemtree", p)
		c.Class(fmt.Sprintf("gosemtree/ops%d/sorts%d/posts%d", min(nops, 6), min(sorts, 2), min(posts, 2)))
	}
}
