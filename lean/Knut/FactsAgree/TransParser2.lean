import Knut.FactsAgree.TransParser
/-!
# The translated parser agrees with the model parser, part 2: bookings, balances, performance and accrual annotations

Continues `TransParser.lean` (same invariant `Inv`, same relation `Agree`): `parseBooking`, `parseBalance`, `parsePerformance` with its
loop (`perfLoop`), `parseAccrual`.  Conversions of the tree values (part of the statements): `goBooking`, `goBalance`, `goPerformance`,
`goAccrual` — field by field, every range through `goRange`.
-/
set_option linter.unusedSimpArgs false
namespace Knut.FactsAgree.TransParser
open Knut Knut.GoSem Knut.Syntax Knut.Utf8
open Knut.Generated.Go
open Knut.FactsAgree.TransScanner

def goBooking (text : Bytes) (path : String) (b : Syntax.Booking) : directives.Booking :=
  ⟨goRange text path b.range, goAccount text path b.credit, goAccount text path b.debit, goDecimal text path b.quantity,
    goCommodity text path b.commodity⟩

def goBalance (text : Bytes) (path : String) (b : Syntax.Balance) : directives.Balance :=
  ⟨goRange text path b.range, goAccount text path b.account, goDecimal text path b.quantity, goCommodity text path b.commodity⟩

def goPerformance (text : Bytes) (path : String) (p : Syntax.Performance) : directives.Performance :=
  ⟨goRange text path p.range, p.targets.map (goCommodity text path)⟩

def goAccrual (text : Bytes) (path : String) (a : Syntax.Accrual) : directives.Accrual :=
  ⟨goRange text path a.range, goInterval text path a.interval, goDate text path a.start, goDate text path a.stop,
    goAccount text path a.account⟩

section
variable {text : Bytes} {path : String} {cb : Syn.Proc} {fuel : Nat} {s : St}

/-- `Parser.parseBooking` -/
theorem parseBooking_agrees (h : Inv text fuel s) :
    Agree text path cb (goBooking text path) (parser.Parser.parseBooking fuel (goParser text path cb s)) (parseBooking s) := by
  unfold parser.Parser.parseBooking parseBooking
  simp only [goParser_Scanner, go_Scope]
  pcall (parseAccount_agrees (path := path) (cb := cb) h), h, (parseAccount_prog _).ext => a1 s1 hm1 h1
  scall (ReadWhile1_agrees (path := path) h1.1 h1.2 "whitespace" pred_isWhitespace), h1, (readWhile1_ext _ _ _) => x2 s2 hm2 h2
  pcall (parseAccount_agrees (path := path) (cb := cb) h2), h2, (parseAccount_prog _).ext => a3 s3 hm3 h3
  scall (ReadWhile1_agrees (path := path) h3.1 h3.2 "whitespace" pred_isWhitespace), h3, (readWhile1_ext _ _ _) => x4 s4 hm4 h4
  pcall (parseDecimal_agrees (path := path) (cb := cb) h4), h4, (parseDecimal_prog _).ext => a5 s5 hm5 h5
  scall (ReadWhile1_agrees (path := path) h5.1 h5.2 "whitespace" pred_isWhitespace), h5, (readWhile1_ext _ _ _) => x6 s6 hm6 h6
  pcall (parseCommodity_agrees (path := path) (cb := cb) h6), h6, (parseCommodity_prog _).ext => a7 s7 hm7 h7
  exact agree_ok rfl rfl rfl

/-- `Parser.parseBalance` -/
theorem parseBalance_agrees (h : Inv text fuel s) :
    Agree text path cb (goBalance text path) (parser.Parser.parseBalance fuel (goParser text path cb s)) (parseBalance s) := by
  unfold parser.Parser.parseBalance parseBalance
  simp only [goParser_Scanner, go_Scope]
  pcall (parseAccount_agrees (path := path) (cb := cb) h), h, (parseAccount_prog _).ext => a1 s1 hm1 h1
  pcall (readWhitespace1_agrees (path := path) (cb := cb) h1), h1, (readWhitespace1_ext _) => x2 s2 hm2 h2
  pcall (parseDecimal_agrees (path := path) (cb := cb) h2), h2, (parseDecimal_prog _).ext => a3 s3 hm3 h3
  pcall (readWhitespace1_agrees (path := path) (cb := cb) h3), h3, (readWhitespace1_ext _) => x4 s4 hm4 h4
  pcall (parseCommodity_agrees (path := path) (cb := cb) h4), h4, (parseCommodity_prog _).ext => a5 s5 hm5 h5
  exact agree_ok rfl rfl rfl

/-- the loop of `parsePerformance` is `perfLoop`; the Go loop appends, the model conses and reverses at the end -/
theorem parsePerformance_loop_agrees (start : Nat) :
    ∀ (n : Nat) (acc : List Syntax.Commodity) (s1 : St), Inv text fuel s1 → s1.toks.length < n →
      FlowAgree (β := directives.Performance) text path cb fuel
        (fun (c : List Syntax.Commodity) s' =>
          (goParser text path cb s', (⟨GoZero.zero, c.map (goCommodity text path)⟩ : directives.Performance)))
        (parser.Parser.parsePerformance.loop1 fuel ⟨Syn.lit "parsing performance", (start : Int)⟩ n (goParser text path cb s1)
          ⟨GoZero.zero, acc.reverse.map (goCommodity text path)⟩)
        (perfLoop start acc s1) := by
  intro n
  induction n with
  | zero => intro acc s1 _ hn; omega
  | succ n ih =>
    intro acc s1 h1 hn
    unfold parser.Parser.parsePerformance.loop1
    rw [perfLoop_eq]
    simp only [goParser_Scanner, go_Current, go_Range, decide_eq_true_eq, cur_eq_lit h1.1 44 44 rfl (by decide)]
    by_cases hd : cur s1 = 44
    · have hb : (cur s1 != 44) = false := by simp [hd]
      simp only [hd, if_true, hb, Bool.false_eq_true, if_false]
      scall (ReadCharacter_lit (path := path) h1.1 44 44 rfl (by decide)), h1, (readCharacter_ext _ _) => x2 s2 hm2 h2
      scall (ReadWhile_agrees (path := path) h2.1 h2.2 pred_isWhitespace), h2, (readWhile_ext _ _) => x3 s3 hm3 h3
      pcall (parseCommodity_agrees (path := path) (cb := cb) h3), h3, (parseCommodity_prog _).ext => c4 s4 hm4 h4
      scall (ReadWhile_agrees (path := path) h4.1 h4.2 pred_isWhitespace), h4, (readWhile_ext _ _) => x5 s5 hm5 h5
      have l2 := (readCharacter_extS _ _ _ _ hm2).length_lt
      have l3 := (ext_of_ok (readWhile_ext _ _) hm3).length_le
      have l4 := (ext_of_ok (parseCommodity_prog _).ext hm4).length_le
      have l5 := (ext_of_ok (readWhile_ext _ _) hm5).length_le
      have := ih (c4 :: acc) s5 h5 (by omega)
      simp only [List.reverse_cons, List.map_append, List.map_cons, List.map_nil] at this
      exact this
    · have hb : (cur s1 != 44) = true := by simpa using hd
      simp only [hd, if_false, hb, if_true]
      exact flow_ok rfl h1

/-- `Parser.parsePerformance` -/
theorem parsePerformance_agrees (h : Inv text fuel s) :
    Agree text path cb (goPerformance text path) (parser.Parser.parsePerformance fuel (goParser text path cb s))
      (parsePerformance s) := by
  unfold parser.Parser.parsePerformance parsePerformance
  simp only [goParser_Scanner, go_Scope]
  scall (ReadCharacter_lit (path := path) h.1 40 40 rfl (by decide)), h, (readCharacter_ext _ _) => x1 s1 hm1 h1
  scall (ReadWhile_agrees (path := path) h1.1 h1.2 pred_isWhitespace), h1, (readWhile_ext _ _) => x2 s2 hm2 h2
  refine agree_flow (fuel := fuel)
    (emb := fun (c : List Syntax.Commodity) s' =>
      (goParser text path cb s', (⟨GoZero.zero, c.reverse.map (goCommodity text path)⟩ : directives.Performance))) ?_ ?_ (fun _ => rfl)
  · -- the optional first target
    simp only [go_Current, decide_eq_true_eq, cur_eq_lit h2.1 41 41 rfl (by decide)]
    by_cases hd : cur s2 = 41
    · have hb : (cur s2 != 41) = false := by simp [hd]
      simp only [hd, not_true_eq_false, decide_false, Bool.false_eq_true, if_false, hb]
      exact flow_ok rfl h2
    · have hb : (cur s2 != 41) = true := by simpa using hd
      simp only [hd, not_false_eq_true, decide_true, if_true, hb]
      pcall (parseCommodity_agrees (path := path) (cb := cb) h2), h2, (parseCommodity_prog _).ext => c3 s3 hm3 h3
      scall (ReadWhile_agrees (path := path) h3.1 h3.2 pred_isWhitespace), h3, (readWhile_ext _ _) => x4 s4 hm4 h4
      exact flow_ok rfl h4
  · intro first s3 h3 _
    simp only
    refine agree_flow (parsePerformance_loop_agrees s.off fuel first s3 h3 h3.2) ?_ (fun _ => rfl)
    intro targets s4 h4 _
    simp only [goParser_Scanner]
    scall (ReadCharacter_lit (path := path) h4.1 41 41 rfl (by decide)), h4, (readCharacter_ext _ _) => x5 s5 hm5 h5
    exact agree_ok rfl rfl rfl

/-- `Parser.parseAccrual` -/
theorem parseAccrual_agrees (h : Inv text fuel s) :
    Agree text path cb (goAccrual text path) (parser.Parser.parseAccrual fuel (goParser text path cb s)) (parseAccrual s) := by
  unfold parser.Parser.parseAccrual parseAccrual
  simp only [goParser_Scanner, go_Scope]
  pcall (readWhitespace1_agrees (path := path) (cb := cb) h), h, (readWhitespace1_ext _) => x1 s1 hm1 h1
  pcall (parseInterval_agrees (path := path) (cb := cb) h1), h1, (parseInterval_prog _).ext => a2 s2 hm2 h2
  pcall (readWhitespace1_agrees (path := path) (cb := cb) h2), h2, (readWhitespace1_ext _) => x3 s3 hm3 h3
  pcall (parseDate_agrees (path := path) (cb := cb) h3), h3, (parseDate_prog _).ext => a4 s4 hm4 h4
  pcall (readWhitespace1_agrees (path := path) (cb := cb) h4), h4, (readWhitespace1_ext _) => x5 s5 hm5 h5
  pcall (parseDate_agrees (path := path) (cb := cb) h5), h5, (parseDate_prog _).ext => a6 s6 hm6 h6
  pcall (readWhitespace1_agrees (path := path) (cb := cb) h6), h6, (readWhitespace1_ext _) => x7 s7 hm7 h7
  pcall (parseAccount_agrees (path := path) (cb := cb) h7), h7, (parseAccount_prog _).ext => a8 s8 hm8 h8
  exact agree_ok rfl rfl rfl

end

end Knut.FactsAgree.TransParser
