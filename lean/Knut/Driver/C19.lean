import Knut.Wire
import Knut.Model.Pipeline
/-! Driver ops for C19 (cpr.Seq transition system, trace acceptors, loader/builder). -/
namespace Knut.Driver.C19
open Knut Knut.Wire Knut.Pipeline

/-- the concrete system the harness also runs on the real `cpr.Seq`: items `(id, value)`, stage `k`
counts what it has processed and mixes stage number and count into the value; it fails on the
`(stage, id)` pairs of the spec -/
def mkSys (n m : Nat) (spec : List (Nat × Nat)) : Sys Nat (Nat × Nat) (Nat × Nat) :=
  { n := n, items := (List.range m).map (fun i => (i, i + 1)), init := fun _ => 0,
    f := fun k c a => if spec.contains (k, a.1) then .error (k, a.1)
                      else .ok (c + 1, (a.1, (a.2 * 31 + k * 7 + c) % 1000003)) }

def parsePairs (s : String) : Option (List (Nat × Nat)) :=
  if s = "-" then some [] else
  (splitOn s ',').mapM (fun f => match splitOn f ':' with
    | [a, b] => do let x ← a.toNat?; let y ← b.toNat?; pure (x, y)
    | _ => none)

def showItems (l : List (Nat × Nat)) : String := ",".intercalate (l.map (fun a => s!"{a.1}:{a.2}"))

def mix (seed i : Nat) : Nat :=
  let z := (seed * 2654435761 + i * 40503 + 12345) % 4294967296
  let z := (z ^^^ (z >>> 15)) * 2246822519 % 4294967296
  (z ^^^ (z >>> 13)) % 65536

def doneB (S : Sys Nat (Nat × Nat) (Nat × Nat)) (s : St Nat (Nat × Nat) (Nat × Nat)) : Bool :=
  !s.cancelled && (List.range (S.n + 1)).all (fun k => (s.err k).isNone) && s.out.length == S.items.length

def stoppedB (S : Sys Nat (Nat × Nat) (Nat × Nat)) (s : St Nat (Nat × Nat) (Nat × Nat)) : Bool :=
  s.cancelled && (List.range (S.n + 1)).all (fun k => match s.slot k with
    | some (_, false) => (s.err k).isSome
    | _ => true)

def parseEv (t : String) : Option Ev :=
  match t.toList with
  | 'b' :: r => (String.ofList r).toNat?.map Ev.begin
  | 'e' :: r => (String.ofList r).toNat?.map Ev.done
  | 'f' :: r => (String.ofList r).toNat?.map Ev.fail
  | ['s'] => some Ev.sink
  | _ => none

def parseLEv (t : String) : Option LEv :=
  match splitOn t ':' with
  | [h, i] => do
    let i ← i.toNat?
    match h.toList with
    | 'b' :: r => (String.ofList r).toNat?.map (fun k => LEv.begin k i)
    | 'e' :: r => (String.ofList r).toNat?.map (fun k => LEv.done k i)
    | 'f' :: r => (String.ofList r).toNat?.map (fun k => LEv.fail k i)
    | ['s'] => some (LEv.sink i)
    | _ => none
  | _ => none

def parseList {β : Type} (p : String → Option β) (s : String) : Option (List β) :=
  if s = "-" then some [] else (splitOn s ',').mapM p

def showAcc (n : Nat) (a : Acc) : String :=
  let per := (List.range n).map (fun j => s!"{a.begun (j + 1)}/{a.ended (j + 1)}/{if a.dead (j + 1) then 1 else 0}")
  s!"sunk={a.sunk} " ++ " ".intercalate per

/-- monitor on a logged trace: accepted; if the command succeeded the run must be complete; if a stage
failed the command must have failed -/
def traceVerdict (n m : Nat) (exitOk : Bool) (a : Acc) : String :=
  if exitOk then (if complete n m a then "ok" else "fail incomplete-but-success " ++ showAcc n a)
  else "ok"

def kindOfNat : Nat → Option Kind
  | 0 => some .price | 1 => some .open_ | 2 => some .transaction | 3 => some .assertion | 4 => some .close | _ => none

def Kind.toNat : Kind → Nat
  | .price => 0 | .open_ => 1 | .transaction => 2 | .assertion => 3 | .close => 4

def parseDir (s : String) : Option Dir :=
  match splitOn s ':' with
  | [d, k, i] => do let d ← parseInt d; let k ← k.toNat?.bind kindOfNat; let i ← i.toNat?; pure ⟨d, k, i⟩
  | _ => none

def parseEntry (t : String) : Option Entry :=
  match t.toList with
  | 'd' :: r => (parseDir (String.ofList r)).map Entry.dir
  | 'm' :: r => (parseDir (String.ofList r)).map Entry.modelError
  | 'i' :: r => (String.ofList r).toNat?.map Entry.include_
  | ['x'] => some Entry.syntaxError
  | _ => none

def parseFS (s : String) : Option FS :=
  if s = "-" then some [] else
  (splitOn s ';').mapM (fun f => match splitOn f '=' with
    | [num, es] => do
      let num ← num.toNat?
      let es ← if es = "" then some [] else (splitOn es ',').mapM parseEntry
      pure (num, es)
    | _ => none)

def insertNat (x : Nat) : List Nat → List Nat
  | [] => [x]
  | y :: ys => if x ≤ y then x :: y :: ys else y :: insertNat x ys

def sortNat (l : List Nat) : List Nat := l.foldr insertNat []

def allKinds : List Kind := [.price, .open_, .transaction, .assertion, .close]

/-- canonical census of a built journal: days in order; per kind the sorted ids -/
def census (days : List Day) : String :=
  " ".intercalate (days.map (fun d =>
    s!"{d.date}" ++ String.join (allKinds.map (fun k => s!"|{Kind.toNat k}:" ++ ",".intercalate ((sortNat ((d.get k).map (·.id))).map toString)))))

def showErr : LoadErr → String
  | .missing => "missing" | .cycle => "cycle" | .syntax => "syntax" | .model => "model" | .fuel => "fuel"

def handleStr (fields : List String) : String :=
  match fields with
  | ["c19seq", n, m, spec] =>
    match n.toNat?, m.toNat?, parsePairs spec with
    | some n, some m, some spec =>
      let S := mkSys n m spec
      match seqRun S with
      | some r => "ok " ++ showItems r
      | none => "error " ++ showItems ((seqErrors S).map (·.2))
    | _, _, _ => "bad-op"
  | ["c19run", n, m, spec, seed] =>
    match n.toNat?, m.toNat?, parsePairs spec, seed.toNat? with
    | some n, some m, some spec, some seed =>
      let S := mkSys n m spec
      let bound := 2 * (n + 1) * m + 1
      let (s, ls) := runOracle S (mix seed) (bound + 1) 0 (St.initial S) []
      let steps := ls.length
      if steps > bound then "overrun"
      else if doneB S s then s!"ok {showItems s.out}"
      else if stoppedB S s then
        match s.reported with
        | some (_, e) => s!"error {e.1}:{e.2}"
        | none => "stuck"
      else "stuck"
    | _, _, _, _ => "bad-op"
  | ["c19accept", n, m, tr] =>
    match n.toNat?, m.toNat?, parseList parseEv tr with
    | some n, some m, some tr =>
      match accept n m tr with
      | some a => "ok " ++ showAcc n a
      | none => "reject"
    | _, _, _ => "bad-op"
  | ["c19mon", n, m, exitOk, tr] =>
    match n.toNat?, m.toNat?, parseList parseEv tr with
    | some n, some m, some tr =>
      match accept n m tr with
      | some a =>
        if exitOk = "1" then traceVerdict n m true a
        else if anyDead n a then "ok" else "ok-no-stage-failed"
      | none => "fail not-accepted"
    | _, _, _ => "bad-op"
  | ["c19lmon", n, m, exitOk, tr] =>
    match n.toNat?, m.toNat?, parseList parseLEv tr with
    | some n, some m, some tr =>
      match laccept n m tr with
      | some a =>
        if exitOk = "1" then traceVerdict n m true a
        else if anyDead n a then "ok" else "fail error-without-failed-stage"
      | none => "fail not-accepted"
    | _, _, _ => "bad-op"
  | ["c19load", fs, root] =>
    match parseFS fs, root.toNat? with
    | some fs, some root =>
      match loadOutcome fs root with
      | .ok files => "ok " ++ census (fromModelStream files).build
      | .error errs => "error " ++ ",".intercalate (errs.map showErr)
    | _, _ => "bad-op"
  | ["c19loadmon", expected, observed] =>
    match parseList parseDir expected, parseList parseDir observed with
    | some e, some o => if censusOK e o then "ok" else "fail"
    | _, _ => "bad-op"
  | _ => "no-such-op"

def handle (fields : List String) : Option String :=
  match fields with
  | op :: _ => if op.startsWith "c19" then some (handleStr fields) else none
  | [] => none

end Knut.Driver.C19
