import Knut.Proofs.Portfolio
import Knut.Proofs.PortfolioWeights
import Knut.Proofs.PortfolioFlows
/-!
# C20 — portfolio analytics agree with the valued balance (exact-arithmetic model)

`Performance.returns` / `Weights.weightAdds` + `Weights.report` model `knut portfolio returns` / `knut portfolio weights`
with exact rationals in place of `float64` (the Go code's arithmetic). Everything below is proved of that model for
ALL journals, windows, intervals, `--last`, filters, universes and mappings. What `float64` adds (rounding, summation
order, `NaN`/`Inf` instead of the model's `none`) is outside the theorems: the property is therefore PARTIAL for the
float part, which the harness bounds on every run (printed digits, one to two units tolerance).

* `C20_weights_share`        – on a period end day each commodity is added with weight value / total value;
* `C20_values_are_posting_sums` – the values are the sums of the posting values of the portfolio accounts;
* `C20_group_sum`            – a node's weight is what was added at it plus the weights of its children;
* `C20_top_sums_to_one`      – the top-level nodes sum to 1 on every reported date (no weight on the hidden root);
* `C20_returns_every_period` – `returns` prints exactly one line per period end of the partition inside the window;
* `C20_zero_of_day_equation`, `C20_zero_when_only_external_flows_partial`, `C20_ratio_without_flows` – the two clauses
  about the reported numbers, in their chain-level / whole-run forms; per SINGLE PERIOD of an arbitrary journal they are
  in `Properties/C20Periods.lean`; the tie of `V1` to `knut balance -v` is in `Properties/C20Balance.lean`.
-/
namespace Knut.C20
open Knut Knut.Performance Knut.Weights Knut.PortfolioSpec

/-- **weights are value shares**: the adds of a period end day are, commodity by commodity of `V1`, value / total value,
all dated with that day -/
theorem C20_weights_share (mapping : List MapRule) (u u' : Universe) (date : Int) (v1 : AMap Commodity Rat)
    (adds : List Add) (h : queryDay mapping u date v1 = some (adds, u')) :
    adds.map (·.weight) = v1.map (fun e => e.2 / sumVals v1) ∧ ∀ a ∈ adds, a.date = date :=
  ⟨(queryDay_weights mapping u date v1 adds u' h).1, (queryDay_weights mapping u date v1 adds u' h).2.1⟩

/-- **values are sums of posting values of portfolio accounts**: what `ComputeValues` holds for commodity `c` after a day is
what it held before plus the values of the day's postings in `c` on portfolio accounts (asset/liability accounts passing
the account filter, commodity passing the commodity filter). `V1` of the day is this map. That the same sums are what
`knut balance -v` reports for the asset/liability accounts is `C20_values_are_valued_balance`
(Properties/C20Balance.lean); it is also checked against the real `knut balance -v V --csv -s .` on every case. -/
theorem C20_values_are_posting_sums (cfg : Cfg) (c : Commodity) (txs : List Transaction) (vals : AMap Commodity Rat) :
    (valuesDay cfg vals txs).get c 0 = vals.get c 0 + sumOver (inVc cfg c) (txs.flatMap (·.postings)) :=
  valuesDay_get cfg c txs vals

/-- **a group's weight is the sum of its members** (plus what a mapping may have collapsed onto the group node itself;
`ownSum = 0` whenever no add path is a proper prefix of another). The rendered order of the children is a permutation
of `childSegs` (`sortedChildren` is a `mergeSort` of it). -/
theorem C20_group_sum (adds : List Add) (π : List String) (D : Int) :
    wsum adds π D = ownSum adds π D + ((childSegs adds π).map (fun s => wsum adds (π ++ [s]) D)).sum :=
  group_sum adds π D

theorem C20_children_rendered_once (adds : List Add) (alpha : Bool) (π : List String) :
    (sortedChildren adds alpha π).Perm (childSegs adds π) := by
  unfold sortedChildren
  split <;> exact List.mergeSort_perm _ _

/-- the displayed weight of a node is `wsum` (an absent entry displays as empty, i.e. 0) -/
theorem C20_nodeWeight_is_wsum (adds : List Add) (π : List String) (D : Int) :
    (nodeWeight adds π D).getD 0 = wsum adds π D := by
  unfold nodeWeight wsum
  simp only
  split
  · rename_i h
    have : List.filter (fun a => decide (a.date = D)) (below adds π) = [] := by simpa using h
    simp [this]
  · rfl

/-- **the top level sums to 100 %** on every reported date, for the report of the command, provided no weight was put on
the hidden root (no mapping rule with level 0 and suffix 0 matched) -/
theorem C20_top_sums_to_one (f : WFlags) (ds : List Directive) (adds : List Add)
    (h : weightAdds f ds = .ok (some adds)) (hr : rooted adds = true) (D : Int) (hD : D ∈ adds.map (·.date)) :
    ((childSegs adds []).map (fun s => wsum adds [s] D)).sum = 1 := by
  unfold weightAdds at h
  cases hs : setup f.toFlags ds with
  | panic s => rw [hs] at h; cases h
  | error e => rw [hs] at h; cases h
  | ok r =>
    obtain ⟨part, days⟩ := r
    rw [hs] at h; simp only at h
    cases hp : perfFrom f.toFlags.cfg {} days with
    | error e => rw [hp] at h; cases h
    | ok perfs =>
      rw [hp] at h; simp only at h
      injection h with h
      have hdates := perfFrom_dates days {} perfs hp
      have hsorted := (setup_days hs).1
      rw [← hdates] at hsorted
      exact top_level_sum adds hr D (queryFrom_sum_one f.mapping part.endDates perfs f.classes adds h hsorted D hD)

/-- **one return per period**: the dates `returns` prints are exactly the period ends of the requested partition that lie
inside the window, each once, in order; for a non-empty window these are all period ends -/
theorem C20_returns_every_period (f : Flags) (ds : List Directive) (lines : List (Int × Option Rat))
    (h : returns f ds = .ok lines) :
    ∃ part days, setup f ds = .ok (part, days) ∧
      lines.map (·.1) = part.endDates.filter (fun e => part.span.contains e) ∧
      (part.span.start ≤ part.span.stop → lines.map (·.1) = part.endDates) := by
  unfold returns at h
  cases hs : setup f ds with
  | panic s => rw [hs] at h; cases h
  | error e => rw [hs] at h; cases h
  | ok r =>
    obtain ⟨part, days⟩ := r
    rw [hs] at h; simp only at h
    cases hp : perfFrom f.cfg {} days with
    | error e => rw [hp] at h; cases h
    | ok perfs =>
      rw [hp] at h; simp only at h
      injection h with h; subst h
      obtain ⟨hsorted, hreg, window, hnp⟩ := setup_days hs
      have hdates := perfFrom_dates days {} perfs hp
      rw [← hdates] at hsorted hreg
      obtain ⟨hinc, hin⟩ := endDates_increasing hnp
      have hspan := newPartition_span hnp
      have hev := perfLines_every_period (perfSpan part) part.endDates perfs (some 1) hsorted hinc hreg
      rw [perfSpan_filter hnp] at hev
      refine ⟨part, days, rfl, hev, ?_⟩
      intro hle
      rw [hev, List.filter_eq_self]
      intro e he
      rw [hspan] at hle ⊢
      exact hin hle e he

/-- the chain level: if on every day inside the window the change of the portfolio value equals the day's net external
flow (no unallocated `@performance()` effect) and the day's denominator `V0 + inflow` is not zero, every reported return is 0 -/
theorem C20_zero_of_day_equation (span : Period) (ends : List Int) (perfs : List DayPerf)
    (h : ∀ p ∈ perfs, span.contains p.date = true →
      p.portfolioFlows = 0 ∧ sumVals p.v1 - sumVals p.v0 = p.inflow + p.outflow ∧ sumVals p.v0 + p.inflow ≠ 0) :
    ∀ l ∈ perfLines span ends (some 1) perfs, l.2 = some 0 :=
  perfLines_all_one span ends perfs (fun p hp hc =>
    factor_one_of_net_flow p (h p hp hc).1 (h p hp hc).2.1 (h p hp hc).2.2)

/-- **0 % when prices are unchanged and only external flows occur** — PARTIAL (global form; the clause itself, for ONE
period of an arbitrary journal and the general notion of resting prices, is
`C20_zero_period_when_only_external_flows` in Properties/C20Periods.lean).

Full clause: the reported return is 0 % for a period in which prices are unchanged and only external deposits or
withdrawals occur.

Proved, for every journal, window, partition, account filter and valuation: if prices are declared on the first day
only (so they never change), no transaction carries a `@performance` annotation and every transaction is made of
booking pairs (`Plain`: what the loader builds, `plain_ofBookings`; such a transaction is an external flow, an internal
transfer, or does not touch the portfolio), no `--commodity` filter is given, and no day divides by zero
(`V0 + inflow ≠ 0`), then EVERY reported return is exactly 0. The proof carries the day equation
`V1 − V0 = inflow + outflow` through `ComputeValues` (map with deletion of zero entries), `ComputeFlows` (`split` by
sign per transaction) and the cancellation of internal transfers, and shows that `Valuate` books no adjustment.

Missing for the full clause: (1) the hypotheses range over the whole window, not over one period only; (2) "prices
unchanged" is the sufficient syntactic condition above; (3) with `--commodity` the clause is FALSE on the code (known
finding `returns-commodity-filter-counts-filtered-flows`, witness `C20_filtered_flow_counts`): `ComputeFlows` ignores
the commodity filter that `ComputeValues` applies. -/
theorem C20_zero_when_only_external_flows_partial (cfg : Cfg) (hf : ∀ c, cfg.commodityFilter c = true)
    (days : List Day) (perfs : List DayPerf) (h : perfFrom cfg {} days = .ok perfs)
    (hplain : ∀ d ∈ days, ∀ t ∈ d.transactions, Plain t) (hprices : ∀ d ∈ days.tail, d.prices = [])
    (hden : ∀ p ∈ perfs, sumVals p.v0 + p.inflow ≠ 0) (span : Period) (ends : List Int) :
    ∀ l ∈ perfLines span ends (some 1) perfs, l.2 = some 0 := by
  apply C20_zero_of_day_equation
  intro p hp _
  have := perfFrom_net_flow hf days {} perfs h hplain (Or.inl rfl) (fun hne => absurd rfl hne) hprices rfl List.Pairwise.nil p hp
  exact ⟨this.1, this.2, hden p hp⟩

/-- **end value over start value minus one without flows**: for a period whose days `days ++ [last]` (inside the window,
`last` the period end day, none of the others a period end) carry no flows and have non-zero start values, the line
printed for the period is `V1(last) / V0(first day) − 1`, where `V0(first day)` is the value at the end of the day before
(`Linked`). `r = 1` is the state of `Perf` right after the previous period end was reported.
(List-level form; for a period of the command's partition see `C20_ratio_period_without_flows`, Properties/C20Periods.lean.
Before the repair `32cd4f9`, with `--last n` `Perf` reached the first reported period with `r ≠ 1`.) -/
theorem C20_ratio_without_flows (span : Period) (ends : List Int) (days : List DayPerf) (last : DayPerf)
    (rest : List DayPerf) (prev : AMap Commodity Rat)
    (hdays : ∀ p ∈ days, span.contains p.date = true ∧ ends.contains p.date = false)
    (hc : span.contains last.date = true) (he : ends.contains last.date = true)
    (hnf : ∀ p ∈ days ++ [last], p.portfolioFlows = 0 ∧ p.inflow = 0 ∧ p.outflow = 0 ∧ sumVals p.v0 ≠ 0)
    (hl : Linked prev (days ++ [last])) :
    (perfLines span ends (some 1) (days ++ last :: rest)).head? =
      some (last.date, some (sumVals last.v1 / sumVals prev - 1)) := by
  rw [perfLines_period span ends days last rest 1 hdays hc he hnf]
  have hprev : sumVals prev ≠ 0 := by
    cases days with
    | nil =>
      obtain ⟨h0, _⟩ := hl
      have := (hnf last (by simp)).2.2.2
      rw [h0] at this; exact this
    | cons p ds' =>
      obtain ⟨h0, _⟩ := hl
      have := (hnf p (by simp)).2.2.2
      rw [h0] at this; exact this
  have hacc : (1 : Rat) = sumVals prev / sumVals prev := by
    rw [Rat.div_def, Rat.mul_inv_cancel _ hprev]
  rw [chain_telescopes (days ++ [last]) prev 1 (sumVals prev) hl (fun p hp => (hnf p hp).2.2.2) hprev hacc]
  have : lastV1 prev (days ++ [last]) = last.v1 := by
    have gen : ∀ (l : List DayPerf) (pv : AMap Commodity Rat), lastV1 pv (l ++ [last]) = last.v1 := by
      intro l
      induction l with
      | nil => intro pv; rfl
      | cons x xs ih => intro pv; exact ih x.v1
    exact gen days prev
  rw [this]

/-- the days the model chains are linked: `V0` of each day is `V1` of the day before -/
theorem C20_days_linked (cfg : Cfg) (days : List Day) (perfs : List DayPerf) (h : perfFrom cfg {} days = .ok perfs) :
    Linked [] perfs := perfFrom_linked days {} perfs h

/-! ### Witnesses of the two known findings and non-vacuity (exact model, decided) -/

def d (v0 v1 inflow : Rat) (date : Int) : DayPerf :=
  { date := date, v0 := [("X", v0)], v1 := [("X", v1)], inflow := inflow, outflow := 0, portfolioFlows := 0 }

/-- two days of +10 % each, period ends on both: each period reports 10 % … -/
example : perfLines ⟨1, 2⟩ [1, 2] (some 1) [d 100 110 0 1, d 110 121 0 2] = [(1, some (1/10)), (2, some (1/10))] := by
  decide +kernel

/-- … and with `--last 1` (only day 2 is a period end, the span of the partition still starts on day 1) the one reported
period shows its own 10 %: `Perf` skips the days before the first reported period (`perfSpan`, repair `32cd4f9`).  Before
the repair it chained every day of the span and printed 21 % (former known finding `returns-last-folds-earlier-periods`,
second conjunct: the old traversal over the whole span). -/
theorem C20_last_reports_own_period :
    perfSpan ⟨⟨1, 2⟩, .daily, [⟨2, 2⟩]⟩ = ⟨2, 2⟩ ∧
    perfLines (perfSpan ⟨⟨1, 2⟩, .daily, [⟨2, 2⟩]⟩) [2] (some 1) [d 100 110 0 1, d 110 121 0 2] = [(2, some (1/10))] ∧
    perfLines ⟨1, 2⟩ [2] (some 1) [d 100 110 0 1, d 110 121 0 2] = [(2, some (21/100))] := by
  refine ⟨?_, ?_, ?_⟩ <;> decide +kernel

/-- for every partition the command builds, a day before the first reported period start is outside `perfSpan` -/
theorem C20_before_first_period_skipped (part : Partition) (s : Int) (rest : List Int) (hs : part.startDates = s :: rest)
    (dt : Int) (h : dt < s) : (perfSpan part).contains dt = false := by
  unfold perfSpan
  rw [hs]
  simp only [Period.contains]
  split <;> simp <;> omega

/-- a deposit of 50 that the commodity filter hides from the values but not from the flows: −1/3 instead of 0
(known finding `returns-commodity-filter-counts-filtered-flows`) -/
theorem C20_filtered_flow_counts :
    perfLines ⟨1, 1⟩ [1] (some 1) [d 100 100 50 1] = [(1, some (-1/3))] := by
  decide +kernel

/-- two commodities worth 1 and 3: weights 1/4 and 3/4 -/
example : (queryDay [] [] 5 [("A", 1), ("B", 3)]).map (·.1.map (·.weight)) = some [1/4, 3/4] := by decide +kernel

def adds0 : List Add := [⟨["Eq", "A"], 5, 1/4⟩, ⟨["Eq", "B"], 5, 1/4⟩, ⟨["Cash", "C"], 5, 1/2⟩]

/-- a small report: the group `Eq` weighs 1/2 = 1/4 + 1/4; top level `Eq`, `Cash`; nothing on the root, no leaf-and-group node -/
example : wsum adds0 ["Eq"] 5 = 1/2 ∧ childSegs adds0 [] = ["Eq", "Cash"] ∧ rooted adds0 = true ∧ prefixFree adds0 = true := by
  decide +kernel

/-- what the loader builds is `Plain` -/
example : Plain (Transaction.ofBookings 3 "deposit" none [⟨⟨["Equity", "E"]⟩, ⟨["Assets", "A"]⟩, 5, "CHF"⟩]) :=
  plain_ofBookings _ _ _

/-- a deposit that is seen by both: 0 % -/
example : perfLines ⟨1, 1⟩ [1] (some 1) [d 100 150 50 1] = [(1, some 0)] := by decide +kernel

end Knut.C20
