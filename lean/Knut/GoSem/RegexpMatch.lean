import Knut.GoSem.Basic
/-!
# `*regexp.Regexp` as a value: the predicate `MatchString`

Used by the translation of the account mapping (`harness/trans_units_mapping.go`: `account.Rule.Match`, `Mapping.Level`,
`Shorten`, `Remap`, `regex.Regexes.MatchString`, the filters of `lib/amounts`).

The translated code never builds a regular expression and calls exactly one method on one: `re.MatchString(s)`.  A value of
type `*regexp.Regexp` is therefore read as `nil` or as THE PREDICATE "the expression matches somewhere in `s`"
(`Regexp.Ptr := Option (String → Bool)`): which predicate a pattern text denotes is not part of this reading — the hand model
has the same convention (`MapRule.test`, `BalCfg.remap`, `accountFilter`, `commodityFilter` are `String → Bool`), and the
differential runs of C01–C03 instantiate it with real patterns.  `MatchString` of a compiled expression is a pure function
of the text (package regexp: "a Regexp is safe for concurrent use", matching keeps no state); on a nil pointer it is Go's
nil-pointer panic.  The stream `gosemmap` of C11 (`harness/gosem_mapping.go`) checks both on real Go: the panic, and that two
calls on the same text agree, also between a compiled expression and a copy of it.
-/
namespace Knut.GoSem
namespace Regexp

/-- `*regexp.Regexp`: nil, or the expression as its match predicate -/
abbrev Ptr := Option (String → Bool)

/-- `re.MatchString(s)` -/
def MatchString (re : Ptr) (s : String) : Outcome Bool :=
  match re with
  | none => .panic "invalid memory address or nil pointer dereference"
  | some f => .ok (f s)

@[simp] theorem MatchString_some (f : String → Bool) (s : String) : MatchString (some f) s = .ok (f s) := rfl
@[simp] theorem MatchString_none (s : String) :
    MatchString none s = .panic "invalid memory address or nil pointer dereference" := rfl

end Regexp
end Knut.GoSem
