import Knut.Proofs.InferSort
import Knut.Spec.InferSpec
/-!
# The count tables of `bayes.Model` as counts over the multiset of `update` calls (helper lemmas for C15)

`events placeholder txs` lists the calls `Model.update(t, b, account, other)` that training performs, each as the account
it counts and the token set it counts it with. The three tables of the trained model are then plain counts over that
list (`Agrees`), which do not depend on the order of the transactions nor on the order in which a token set is walked.
-/
namespace Knut.Infer
open Knut Knut.Syntax Knut.Spec.Infer

/-- one call of `Model.update` -/
structure Event where
  account : Bytes
  tokens : List Bytes

def bookingEvents (placeholder desc : Bytes) (b : TBooking) : List Event :=
  if eligible placeholder b then
    [⟨b.v.credit, tokenize desc b.v.commodity b.v.quantity b.v.debit⟩,
     ⟨b.v.debit, tokenize desc b.v.commodity b.v.quantity b.v.credit⟩]
  else []

def txEvents (placeholder : Bytes) (t : TTx) : List Event := t.bookings.flatMap (bookingEvents placeholder t.desc)

def events (placeholder : Bytes) (txs : List TTx) : List Event := txs.flatMap (txEvents placeholder)

/-- a Go map entry: absent for a zero count -/
def cnt (n : Nat) : Option Nat := if n = 0 then none else some n

theorem cnt_getD (n : Nat) : (cnt n).getD 0 = n := by
  unfold cnt; split <;> simp_all

theorem cnt_succ (n : Nat) : cnt (n + 1) = some (n + 1) := by simp [cnt]

/-- the tables of `m` are the counts over `evs` -/
structure Agrees (m : Model) (evs : List Event) : Prop where
  count : m.count = evs.length
  byAccount : ∀ a, m.countByAccount.find? a = cnt (evs.countP fun e => e.account = a)
  byTA : ∀ t a, m.lookupTA t a = cnt (evs.countP fun e => e.account = a ∧ t ∈ e.tokens)

/-- `m.countByTokenAndAccount[t][a]` on the bare table -/
def lookup (tm : AMap Bytes (AMap Bytes Nat)) (t a : Bytes) : Option Nat := (tm.find? t).bind (·.find? a)

theorem lookup_incrTA (tm : AMap Bytes (AMap Bytes Nat)) (acct tok t a : Bytes) :
    lookup (incrTA tm acct tok) t a =
      if tok = t ∧ acct = a then some ((lookup tm t a).getD 0 + 1) else lookup tm t a := by
  unfold lookup incrTA incr
  rw [AMap.find?_set]
  by_cases h : tok = t
  · subst h
    simp only [if_true, Option.bind_some, true_and]
    rw [AMap.find?_set]
    have hin : ∀ x, (AMap.get tm tok []).find? x = (tm.find? tok).bind (·.find? x) := by
      intro x
      unfold AMap.get
      cases tm.find? tok <;> simp
    by_cases h2 : acct = a
    · subst h2
      simp only [if_true]
      have := hin acct
      simp only [AMap.get] at this ⊢
      rw [this]
    · simp only [h2, if_false, hin]
  · simp [h]

theorem lookup_foldl (acct : Bytes) : ∀ (tokens : List Bytes) (tm : AMap Bytes (AMap Bytes Nat)) (t a : Bytes), tokens.Nodup →
    lookup (tokens.foldl (fun tm tok => incrTA tm acct tok) tm) t a =
      if acct = a ∧ t ∈ tokens then some ((lookup tm t a).getD 0 + 1) else lookup tm t a
  | [], tm, t, a, _ => by simp
  | tok :: rest, tm, t, a, hn => by
    rw [List.foldl_cons, lookup_foldl acct rest _ t a (List.nodup_cons.mp hn).2, lookup_incrTA]
    have hnot := (List.nodup_cons.mp hn).1
    by_cases h1 : acct = a
    · by_cases h2 : tok = t
      · subst h2
        simp [h1, hnot]
      · by_cases h3 : t ∈ rest
        · simp [h1, h2, h3]
        · have : ¬ t = tok := fun e => h2 e.symm
          simp [h1, h2, h3, this]
    · simp [h1]

/-- `Model.update` with an arbitrary enumeration of the token set -/
def Model.updateWith (m : Model) (account : Bytes) (tokens : List Bytes) : Model :=
  { m with
    count := m.count + 1
    countByAccount := incr m.countByAccount account
    countByTokenAndAccount := tokens.foldl (fun tm tok => incrTA tm account tok) m.countByTokenAndAccount }

theorem update_eq (m : Model) (desc : Bytes) (b : BookingV) (account other : Bytes) :
    m.update desc b account other = m.updateWith account (tokenize desc b.commodity b.quantity other) := rfl

theorem countP_snoc {α : Type} (p : α → Bool) (l : List α) (x : α) :
    (l ++ [x]).countP p = l.countP p + (if p x then 1 else 0) := by
  rw [List.countP_append]; simp [List.countP_cons]

/-- one `update` call appends one event, whatever the order in which its token set is walked -/
theorem Agrees.updateWith {m : Model} {evs : List Event} (h : Agrees m evs) (account : Bytes) (tokens walk : List Bytes)
    (hw : walk.Nodup) (hmem : ∀ t, t ∈ walk ↔ t ∈ tokens) :
    Agrees (m.updateWith account walk) (evs ++ [⟨account, tokens⟩]) := by
  refine ⟨?_, ?_, ?_⟩
  · simp [Model.updateWith, h.count]
  · intro a
    simp only [Model.updateWith, incr]
    rw [AMap.find?_set, countP_snoc]
    by_cases e : account = a
    · subst e
      simp only [if_true, decide_true]
      rw [AMap.get, h.byAccount, cnt_getD, cnt_succ]
    · simp [e, h.byAccount]
  · intro t a
    have := lookup_foldl account walk m.countByTokenAndAccount t a hw
    simp only [Model.lookupTA, Model.updateWith] at this ⊢
    unfold lookup at this
    rw [this, countP_snoc]
    have hb := h.byTA t a
    simp only [Model.lookupTA] at hb
    by_cases e : account = a ∧ t ∈ walk
    · have e' : account = a ∧ t ∈ tokens := ⟨e.1, (hmem t).mp e.2⟩
      simp only [e, and_self, if_true, e', decide_true]
      rw [hb, cnt_getD, cnt_succ]
    · have e' : ¬ (account = a ∧ t ∈ tokens) := fun x => e ⟨x.1, (hmem t).mpr x.2⟩
      simp only [e, if_false, e', decide_false]
      rw [hb]; simp

theorem nodup_tokenize (d c q o : Bytes) : (tokenize d c q o).Nodup := nodup_sortU _

theorem Agrees.update {m : Model} {evs : List Event} (h : Agrees m evs) (desc : Bytes) (b : BookingV) (account other : Bytes) :
    Agrees (m.update desc b account other) (evs ++ [⟨account, tokenize desc b.commodity b.quantity other⟩]) := by
  rw [update_eq]
  exact h.updateWith account _ _ (nodup_tokenize ..) (fun _ => Iff.rfl)

theorem update_account (m : Model) (desc : Bytes) (b : BookingV) (account other : Bytes) :
    (m.update desc b account other).account = m.account := rfl

theorem updateBooking_account (desc : Bytes) (m : Model) (b : TBooking) : (Model.updateBooking desc m b).account = m.account := by
  unfold Model.updateBooking; split <;> simp [update_account]

theorem Agrees.updateBooking {m : Model} {evs : List Event} (h : Agrees m evs) (desc : Bytes) (b : TBooking) :
    Agrees (Model.updateBooking desc m b) (evs ++ bookingEvents m.account desc b) := by
  unfold Model.updateBooking bookingEvents
  split
  · have := (h.update desc b.v b.v.credit b.v.debit).update desc b.v b.v.debit b.v.credit
    simpa [List.append_assoc] using this
  · simpa using h

theorem foldl_updateBooking_account (desc : Bytes) : ∀ (bs : List TBooking) (m : Model),
    (bs.foldl (Model.updateBooking desc) m).account = m.account
  | [], _ => rfl
  | b :: bs, m => by rw [List.foldl_cons, foldl_updateBooking_account desc bs, updateBooking_account]

theorem Agrees.foldl_updateBooking (desc : Bytes) : ∀ (bs : List TBooking) {m : Model} {evs : List Event}, Agrees m evs →
    Agrees (bs.foldl (Model.updateBooking desc) m) (evs ++ bs.flatMap (bookingEvents m.account desc))
  | [], m, evs, h => by simpa using h
  | b :: bs, m, evs, h => by
    have := Agrees.foldl_updateBooking desc bs (h.updateBooking desc b)
    rw [updateBooking_account] at this
    simpa [List.flatMap_cons, List.append_assoc] using this

theorem updateTx_account (m : Model) (t : TTx) : (m.updateTx t).account = m.account :=
  foldl_updateBooking_account t.desc t.bookings m

theorem Agrees.updateTx {m : Model} {evs : List Event} (h : Agrees m evs) (t : TTx) :
    Agrees (m.updateTx t) (evs ++ txEvents m.account t) :=
  Agrees.foldl_updateBooking t.desc t.bookings h

theorem foldl_updateTx_account : ∀ (txs : List TTx) (m : Model), (txs.foldl Model.updateTx m).account = m.account
  | [], _ => rfl
  | t :: ts, m => by rw [List.foldl_cons, foldl_updateTx_account ts, updateTx_account]

theorem Agrees.foldl_updateTx : ∀ (txs : List TTx) {m : Model} {evs : List Event}, Agrees m evs →
    Agrees (txs.foldl Model.updateTx m) (evs ++ events m.account txs)
  | [], m, evs, h => by simpa [events] using h
  | t :: ts, m, evs, h => by
    have := Agrees.foldl_updateTx ts (h.updateTx t)
    rw [updateTx_account] at this
    simpa [events, List.flatMap_cons, List.append_assoc] using this

theorem agrees_new (placeholder : Bytes) : Agrees (newModel placeholder) [] :=
  ⟨rfl, fun _ => by simp [newModel, cnt], fun _ _ => by simp [newModel, Model.lookupTA, cnt]⟩

/-- **the trained tables are counts over the training events** -/
theorem agrees_train (placeholder : Bytes) (txs : List TTx) : Agrees (train placeholder txs) (events placeholder txs) := by
  have := Agrees.foldl_updateTx txs (agrees_new placeholder)
  simpa [train, newModel] using this

theorem train_account (placeholder : Bytes) (txs : List TTx) : (train placeholder txs).account = placeholder := by
  unfold train; rw [foldl_updateTx_account]; rfl

/-! ### what inference reads of a model -/

/-- two models that `inferAccount` cannot tell apart -/
structure Model.Equiv (m₁ m₂ : Model) : Prop where
  count : m₁.count = m₂.count
  byAccount : ∀ a, m₁.countByAccount.find? a = m₂.countByAccount.find? a
  byTA : ∀ t a, m₁.lookupTA t a = m₂.lookupTA t a
  account : m₁.account = m₂.account

theorem Agrees.equiv {m₁ m₂ : Model} {e₁ e₂ : List Event} (h₁ : Agrees m₁ e₁) (h₂ : Agrees m₂ e₂) (hp : e₁.Perm e₂)
    (ha : m₁.account = m₂.account) : m₁.Equiv m₂ :=
  ⟨by rw [h₁.count, h₂.count, hp.length_eq],
   fun a => by rw [h₁.byAccount, h₂.byAccount, hp.countP_eq],
   fun t a => by rw [h₁.byTA, h₂.byTA, hp.countP_eq], ha⟩

theorem events_perm {placeholder : Bytes} {txs₁ txs₂ : List TTx} (h : txs₁.Perm txs₂) :
    (events placeholder txs₁).Perm (events placeholder txs₂) := h.flatMap_right _

/-- **training is independent of the arrival order of the transactions** -/
theorem train_perm {placeholder : Bytes} {txs₁ txs₂ : List TTx} (h : txs₁.Perm txs₂) :
    (train placeholder txs₁).Equiv (train placeholder txs₂) :=
  (agrees_train placeholder txs₁).equiv (agrees_train placeholder txs₂) (events_perm h)
    (by rw [train_account, train_account])

theorem mem_keys_iff {ν : Type} (m : AMap Bytes ν) (a : Bytes) : a ∈ m.keys ↔ (m.find? a).isSome = true := by
  induction m with
  | nil => simp [AMap.keys]
  | cons p rest ih =>
    obtain ⟨k, v⟩ := p
    simp only [AMap.keys, List.map_cons, List.mem_cons, AMap.find?] at ih ⊢
    by_cases h : k = a
    · simp [h]
    · have : ¬ a = k := fun e => h e.symm
      simp [h, this, ih]

theorem Model.Equiv.sortedKeys {m₁ m₂ : Model} (h : m₁.Equiv m₂) :
    sortU m₁.countByAccount.keys = sortU m₂.countByAccount.keys :=
  sortU_congr fun a => by rw [mem_keys_iff, mem_keys_iff, h.byAccount]

theorem Model.Equiv.scoreCandidate {S : Type} (sc : Scorer S) {m₁ m₂ : Model} (h : m₁.Equiv m₂) (c : Bytes) (tokens : List Bytes) :
    m₁.scoreCandidate sc c tokens = m₂.scoreCandidate sc c tokens := by
  simp only [Model.scoreCandidate, h.count, AMap.get, h.byAccount, h.byTA]

theorem Model.Equiv.inferAccount {S : Type} (sc : Scorer S) {m₁ m₂ : Model} (h : m₁.Equiv m₂) (desc : Bytes) (b : BookingV) (other : Bytes) :
    m₁.inferAccount sc desc b other = m₂.inferAccount sc desc b other := by
  have hs : inferStep sc m₁ = inferStep sc m₂ := by
    funext tokens other st c
    simp only [inferStep, h.scoreCandidate]
  simp only [Model.inferAccount, h.sortedKeys, hs]

theorem Model.Equiv.inferBooking {S : Type} (sc : Scorer S) {m₁ m₂ : Model} (h : m₁.Equiv m₂) (desc : Bytes) (b : BookingV) :
    m₁.inferBooking sc desc b = m₂.inferBooking sc desc b := by
  simp only [Model.inferBooking, h.inferAccount, h.account]

theorem Model.Equiv.inferDir {S : Type} (sc : Scorer S) {m₁ m₂ : Model} (h : m₁.Equiv m₂) : m₁.inferDir sc = m₂.inferDir sc := by
  funext d
  cases d <;> simp [Model.inferDir, h.inferBooking]

/-! ### the learnable accounts -/

theorem filter_flatMap {α β : Type} (p : α → Bool) (f : α → List β) : ∀ l : List α,
    (l.filter p).flatMap f = l.flatMap fun x => if p x then f x else []
  | [] => rfl
  | x :: xs => by
    by_cases h : p x <;> simp [h, List.flatMap_cons, filter_flatMap p f xs]

theorem events_accounts (placeholder : Bytes) (txs : List TTx) :
    (events placeholder txs).map (·.account) = trainingAccounts placeholder txs := by
  unfold events trainingAccounts
  rw [List.map_flatMap]
  congr 1
  funext t
  unfold txEvents
  rw [List.map_flatMap, filter_flatMap]
  congr 1
  funext b
  unfold bookingEvents
  split <;> simp

theorem cnt_isSome (n : Nat) : (cnt n).isSome = true ↔ 0 < n := by
  unfold cnt
  by_cases h : n = 0
  · simp [h]
  · simp [h]; omega

/-- **the keys of `countByAccount` are exactly the learnable accounts of the training transactions** -/
theorem mem_keys_train (placeholder : Bytes) (txs : List TTx) (a : Bytes) :
    a ∈ (train placeholder txs).countByAccount.keys ↔ a ∈ trainingAccounts placeholder txs := by
  rw [mem_keys_iff, (agrees_train placeholder txs).byAccount, cnt_isSome, List.countP_pos_iff, ← events_accounts]
  simp only [List.mem_map, decide_eq_true_eq]

/-- a learnable account is the credit or debit account of a training booking without macro accounts, is not empty and
is not the placeholder -/
theorem trainingAccounts_spec {placeholder : Bytes} {txs : List TTx} {a : Bytes} (h : a ∈ trainingAccounts placeholder txs) :
    ∃ t ∈ txs, ∃ b ∈ t.bookings, (a = b.v.credit ∨ a = b.v.debit) ∧ b.creditMacro = false ∧ b.debitMacro = false ∧
      b.v.credit ≠ placeholder ∧ b.v.debit ≠ placeholder ∧ a ≠ [] ∧ a ≠ placeholder := by
  simp only [trainingAccounts, List.mem_flatMap, List.mem_filter] at h
  obtain ⟨t, ht, b, ⟨hb, he⟩, ha⟩ := h
  simp only [eligible, Bool.and_eq_true, Bool.not_eq_true', Bool.or_eq_false_iff, beq_eq_false_iff_ne] at he
  obtain ⟨⟨⟨h1, h2⟩, h3, h4⟩, h5, h6⟩ := he
  refine ⟨t, ht, b, hb, ?_, h1, h2, h5, h6, ?_, ?_⟩
  · simpa using ha
  · rcases List.mem_cons.mp ha with e | e
    · rw [e]; exact h3
    · simp at e; rw [e]; exact h4
  · rcases List.mem_cons.mp ha with e | e
    · rw [e]; exact h5
    · simp at e; rw [e]; exact h6

end Knut.Infer
