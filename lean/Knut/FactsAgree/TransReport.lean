import Knut.Generated.TransReport
import Knut.FactsAgree.TransAmountsSum
import Knut.FactsAgree.TransQuery
import Knut.Proofs.GoSemTree
/-!
# The translated `lib/reports/balance` (Report) agrees with the model of the balance report

`Knut/Generated/TransReport.lean` is regenerated from /repo on every run.  The Go report keeps two trees of
`multimap.Node[Value]` (A+L and E+I+E), one node per account path, each with the `amounts.Amounts` of the postings
inserted under exactly that account; `Model/BalanceReport.lean` keeps the LOG of inserts and computes `own es path`
(the entries of a path) and `childSegs es path` (the next segments below it).  The tree package itself is not translated
but pinned (`GoSem/Multimap.lean`, stream `gosemtree`).

* `Insert_agrees`: one `Report.Insert` = `MNode.modifyAt` of the account's path in the section of the account
  (nil account: nothing).
* `Insert_fold_agrees`: after any log of inserts, every node of either tree is the model's node: its children's keys are
  `childSegs`, its amounts are `amountsOf` of `own`, its account is the account of the path (`Rep`).
-/
namespace Knut.FactsAgree.TransReport
open Knut Knut.GoSem
open Knut.Generated.Go
open Knut.FactsAgree.TransAmountsSum
open Knut.FactsAgree.TransQuery (entryOf)

abbrev Node := MNode balance.Value
abbrev Log := List (amounts.Key × Rat)

/-! ## one insert -/

theorem NewReport_agrees (part : date.Partition) :
    balance.NewReport part = { AL := MNode.new "", EIE := MNode.new "", partition := part } := rfl

/-- what `Report.Insert` does to the node at the end of the account's path: the first insert sets the node's account (and
its empty amounts), every insert adds to the node's amounts under the FULL key -/
def bump (k : amounts.Key) (v : Rat) (n : Node) : Node :=
  { n with Value := { Account := if n.Value.Account = GoZero.zero then k.Account else n.Value.Account,
                      Amounts := amounts.Amounts.Add (if n.Value.Account = GoZero.zero then [] else n.Value.Amounts) k v,
                      Weight := n.Value.Weight } }

theorem bump_children (k : amounts.Key) (v : Rat) (n : Node) : (bump k v n).Children = n.Children := rfl

theorem modifyAt_const_getAt (f : Node → Node) (p : List String) (n : Node) :
    MNode.modifyAt (fun _ => f (MNode.getAt (MNode.create p n) p)) p n = MNode.modifyAt f p n := by
  rw [← MNode.setAt_create, MNode.setAt_getAt_create]

/-- **`Report.Insert`**: a key without account is dropped; otherwise the path of the account's segments is created in
the tree of the account's section (A+L or E+I+E) and the node at its end is `bump`ed -/
theorem Insert_agrees (r : balance.Report) (k : amounts.Key) (v : Rat) :
    balance.Report.Insert r k v =
      if k.Account = GoZero.zero then r
      else if account.Account.IsAL k.Account = true then { r with AL := MNode.modifyAt (bump k v) k.Account.segments r.AL }
      else { r with EIE := MNode.modifyAt (bump k v) k.Account.segments r.EIE } := by
  unfold balance.Report.Insert
  by_cases hz : k.Account = GoZero.zero
  · simp [hz]
  · simp only [hz, decide_false, Bool.false_eq_true, if_false]
    by_cases hal : account.Account.IsAL k.Account = true
    · simp only [hal, if_true, account.Account.Segments]
      rw [← modifyAt_const_getAt (bump k v)]
      by_cases hn : (MNode.getAt (MNode.create k.Account.segments r.AL) k.Account.segments).Value.Account = GoZero.zero
      · simp only [hn, decide_true, if_true, MNode.setAt_create, MNode.setAt_modifyAt, bump]
      · simp only [hn, decide_false, Bool.false_eq_true, if_false, MNode.setAt_create, bump]
    · simp only [hal, Bool.false_eq_true, if_false, account.Account.Segments]
      rw [← modifyAt_const_getAt (bump k v)]
      by_cases hn : (MNode.getAt (MNode.create k.Account.segments r.EIE) k.Account.segments).Value.Account = GoZero.zero
      · simp only [hn, decide_true, if_true, MNode.setAt_create, MNode.setAt_modifyAt, bump]
      · simp only [hn, decide_false, Bool.false_eq_true, if_false, MNode.setAt_create, bump]


/-! ## the tree after a log of inserts -/

/-- the logged calls `Insert` keeps (an account is set) for one section -/
def sec (al : Bool) (log : Log) : Log :=
  log.filter (fun e => !decide (e.1.Account = GoZero.zero) && account.Account.IsAL e.1.Account == al)

/-- the inserts under exactly the account path `p` -/
def ownL (L : Log) (p : List String) : Log := L.filter (fun e => decide (e.1.Account.segments = p))

/-- **the node of the path `p`** in the tree of the inserts `L`: its segment is the last segment of the path, its amounts are
the `Add`s of the inserts under exactly this path (in order), its account is the account of the first of them (nil before),
no weight has been computed, and its children are the next segments of the inserted paths below `p` (each once) -/
structure Local (L : Log) (p : List String) (n : Node) : Prop where
  segment : n.Segment = p.getLast?.getD ""
  amounts : n.Value.Amounts = amountsOf (ownL L p)
  account : n.Value.Account = (((ownL L p).head?).map (·.1.Account)).getD GoZero.zero
  weight : n.Value.Weight = 0
  nodup : (AMap.keys n.Children).Nodup
  children : ∀ s, s ∈ AMap.keys n.Children ↔ ∃ e ∈ L, (p ++ [s]).isPrefixOf e.1.Account.segments = true

/-- every node of the tree is the node of its path -/
def Rep (L : Log) (T : Node) : Prop := ∀ p n, MNode.nodeAt? T p = some n → Local L p n

theorem Rep_new : Rep [] (MNode.new "" : Node) := by
  intro p n h
  cases p with
  | nil =>
    simp only [MNode.nodeAt?_nil, Option.some.injEq] at h; subst h
    exact ⟨rfl, rfl, rfl, rfl, List.nodup_nil, fun s => by simp [MNode.new, AMap.keys]⟩
  | cons s rest => simp [MNode.nodeAt?_cons, MNode.new, AMap.find?] at h

theorem amountsOf_append (L : Log) (e : amounts.Key × Rat) : amountsOf (L ++ [e]) = amounts.Amounts.Add (amountsOf L) e.1 e.2 := by
  simp [amountsOf, List.foldl_append]

theorem ownL_append (L : Log) (e : amounts.Key × Rat) (p : List String) :
    ownL (L ++ [e]) p = if e.1.Account.segments = p then ownL L p ++ [e] else ownL L p := by
  unfold ownL
  rw [List.filter_append]
  by_cases h : e.1.Account.segments = p <;> simp [h]

theorem isPrefixOf_self (p : List String) : p.isPrefixOf p = true := by
  rw [List.isPrefixOf_iff_prefix]; exact List.prefix_refl p

/-- the node of a path nobody inserted under or below: fresh -/
theorem Local_fresh (L : Log) (p : List String) (hp : ∀ e ∈ L, p.isPrefixOf e.1.Account.segments = false) :
    Local L p (MNode.new (p.getLast?.getD "")) := by
  have hown : ownL L p = [] := by
    apply List.filter_eq_nil_iff.2
    intro e he
    have := hp e he
    simp only [decide_eq_true_eq]
    intro heq
    rw [heq, isPrefixOf_self] at this
    exact Bool.noConfusion this
  refine ⟨rfl, by rw [hown]; rfl, by rw [hown]; rfl, rfl, List.nodup_nil, fun s => ?_⟩
  simp only [MNode.new, AMap.keys, List.map_nil, List.not_mem_nil, false_iff, not_exists, not_and]
  intro e he h
  have h1 := hp e he
  have : p.isPrefixOf e.1.Account.segments = true := by
    rw [List.isPrefixOf_iff_prefix] at h ⊢
    exact (List.prefix_append p [s]).trans h
  simp [this] at h1

theorem isPrefixOf_snoc_of (p : List String) (s : String) (q : List String) (h : (p ++ [s]).isPrefixOf q = true) :
    p.isPrefixOf q = true := by
  rw [List.isPrefixOf_iff_prefix] at h ⊢
  exact (List.prefix_append p [s]).trans h

/-- the node of every prefix of an inserted path exists -/
theorem exists_of_prefix {L : Log} {T : Node} (h : Rep L T) (e : amounts.Key × Rat) (he : e ∈ L) (q : List String)
    (hq : q.isPrefixOf e.1.Account.segments = true) : (MNode.nodeAt? T q).isSome = true := by
  rw [List.isPrefixOf_iff_prefix] at hq
  obtain ⟨t, ht⟩ := hq
  have key : ∀ n, n ≤ q.length → (MNode.nodeAt? T (q.take n)).isSome = true := by
    intro n
    induction n with
    | zero => intro _; rfl
    | succ n ih =>
      intro hn
      have hlt : n < q.length := hn
      have := ih (Nat.le_of_lt hlt)
      cases hm : MNode.nodeAt? T (q.take n) with
      | none => simp [hm] at this
      | some m =>
        have hl := h _ m hm
        have htake : q.take (n + 1) = q.take n ++ [q[n]] := by
          rw [List.take_add_one]; simp [List.getElem?_eq_getElem hlt]
        have hs : q[n] ∈ AMap.keys m.Children := by
          apply (hl.children _).2
          refine ⟨e, he, ?_⟩
          rw [List.isPrefixOf_iff_prefix, ← htake, ← ht]
          exact (List.take_prefix _ q).trans (List.prefix_append q t)
        rw [htake, MNode.nodeAt?_append, hm]
        simp only [Option.bind_some, MNode.nodeAt?_cons]
        have : (AMap.find? m.Children q[n]).isSome := by rw [find?_isSome]; simpa using hs
        cases hc : AMap.find? m.Children q[n] with
        | none => simp [hc] at this
        | some c => simp
  simpa using key q.length (Nat.le_refl _)

/-- **one more insert keeps the representation**: after `modifyAt (bump k v)` along the account's path the tree represents
the log extended by the insert -/
theorem Rep_insert {L : Log} {T : Node} (h : Rep L T) (k : amounts.Key) (v : Rat)
    (hL : ∀ e ∈ L, e.1.Account ≠ GoZero.zero) :
    Rep (L ++ [(k, v)]) (MNode.modifyAt (bump k v) k.Account.segments T) := by
  intro q n hq
  rw [MNode.nodeAt?_modifyAt _ (bump_children k v)] at hq
  generalize hsegs : k.Account.segments = segs at hq
  by_cases hpre : q.isPrefixOf segs = true
  · simp only [hpre, if_true, Option.some.injEq] at hq
    -- the node along the path: the old node of `q`, or a fresh one
    have hold : Local L q ((MNode.nodeAt? T q).getD (MNode.new (q.getLast?.getD ""))) := by
      cases hT : MNode.nodeAt? T q with
      | some m => exact h q m hT
      | none =>
        apply Local_fresh
        intro e he
        -- if an insert had `q` as a prefix, the node would exist
        cases hpe : q.isPrefixOf e.1.Account.segments with
        | false => rfl
        | true =>
          exfalso
          have := (exists_of_prefix h e he q hpe)
          simp [hT] at this
    generalize (MNode.nodeAt? T q).getD (MNode.new (q.getLast?.getD "")) = m at hq hold
    obtain ⟨r, hr⟩ : ∃ r, segs = q ++ r := by
      rw [List.isPrefixOf_iff_prefix] at hpre
      obtain ⟨r, hr⟩ := hpre
      exact ⟨r, hr.symm⟩
    have hdrop : segs.drop q.length = r := by rw [hr]; simp
    rw [hdrop] at hq
    subst hq
    cases r with
    | nil =>
      -- the node at the end of the path: bumped
      have hqs : segs = q := by simpa using hr
      have hown : ownL (L ++ [(k, v)]) q = ownL L q ++ [(k, v)] := by rw [ownL_append]; simp [hsegs, hqs]
      have hacc : m.Value.Account = GoZero.zero ↔ ownL L q = [] := by
        rw [hold.account]
        cases ho : ownL L q with
        | nil => simp
        | cons e rest =>
          have he : e ∈ L := (List.mem_filter.1 (ho ▸ List.mem_cons_self)).1
          simp [hL e he]
      refine ⟨hold.segment, ?_, ?_, hold.weight, hold.nodup, fun s => ?_⟩
      · simp only [MNode.modifyAt, bump]
        rw [hown, amountsOf_append]
        by_cases hz : m.Value.Account = GoZero.zero
        · simp [hz, hacc.1 hz, amountsOf]
        · simp [hz, hold.amounts]
      · simp only [MNode.modifyAt, bump]
        rw [hown]
        by_cases hz : m.Value.Account = GoZero.zero
        · simp [hz, hacc.1 hz]
        · have : ownL L q ≠ [] := fun e => hz (hacc.2 e)
          simp only [hold.account]
          cases ho : ownL L q with
          | nil => exact absurd ho this
          | cons e rest =>
            have he : e ∈ L := (List.mem_filter.1 (ho ▸ List.mem_cons_self)).1
            simp [hL e he]
      · rw [show (MNode.modifyAt (bump k v) [] m).Children = m.Children from rfl, hold.children s]
        constructor
        · rintro ⟨e, he, hp⟩; exact ⟨e, List.mem_append_left _ he, hp⟩
        · rintro ⟨e, he, hp⟩
          rcases List.mem_append.1 he with he | he
          · exact ⟨e, he, hp⟩
          · simp only [List.mem_singleton] at he; subst he
            simp only [hsegs, hqs] at hp
            rw [List.isPrefixOf_iff_prefix] at hp
            have := hp.length_le
            simp at this
            omega
    | cons t r' =>
      -- a node above the end of the path: it gets (or keeps) the child `t`
      have hne : ¬ segs = q := by rw [hr]; simp
      have hown : ownL (L ++ [(k, v)]) q = ownL L q := by rw [ownL_append]; simp [hsegs, hne]
      refine ⟨hold.segment, by rw [hown]; exact hold.amounts, by rw [hown]; exact hold.account, hold.weight, ?_, fun s => ?_⟩
      · simp only [MNode.modifyAt]; exact wf_set hold.nodup _ _
      · simp only [MNode.modifyAt]
        rw [mem_keys_set, hold.children s]
        constructor
        · rintro (hs | ⟨e, he, hp⟩)
          · subst hs
            refine ⟨(k, v), by simp, ?_⟩
            simp only [hsegs, hr]
            rw [List.isPrefixOf_iff_prefix]
            exact ⟨r', by simp⟩
          · exact ⟨e, List.mem_append_left _ he, hp⟩
        · rintro ⟨e, he, hp⟩
          rcases List.mem_append.1 he with he | he
          · exact Or.inr ⟨e, he, hp⟩
          · simp only [List.mem_singleton] at he; subst he
            simp only [hsegs, hr] at hp
            rw [List.isPrefixOf_iff_prefix] at hp
            obtain ⟨w, hw⟩ := hp
            have : s :: w = t :: r' := by
              have := List.append_cancel_left (by simpa [List.append_assoc] using hw : q ++ (s :: w) = q ++ (t :: r'))
              exact this
            exact Or.inl (by injection this)
  · -- a node off the path: unchanged, and the insert is not under it
    have hpre' : q.isPrefixOf segs = false := Bool.eq_false_iff.mpr hpre
    simp only [hpre', Bool.false_eq_true, if_false] at hq
    have hold := h q n hq
    have hne : ¬ segs = q := by
      intro e; subst e; rw [isPrefixOf_self] at hpre'; exact Bool.noConfusion hpre'
    have hown : ownL (L ++ [(k, v)]) q = ownL L q := by rw [ownL_append]; simp [hsegs, hne]
    refine ⟨hold.segment, by rw [hown]; exact hold.amounts, by rw [hown]; exact hold.account, hold.weight, hold.nodup, fun s => ?_⟩
    rw [hold.children s]
    constructor
    · rintro ⟨e, he, hp⟩; exact ⟨e, List.mem_append_left _ he, hp⟩
    · rintro ⟨e, he, hp⟩
      rcases List.mem_append.1 he with he | he
      · exact ⟨e, he, hp⟩
      · simp only [List.mem_singleton] at he; subst he
        simp only [hsegs] at hp
        have := isPrefixOf_snoc_of q s _ hp
        simp [this] at hpre'


theorem sec_kept (al : Bool) (log : Log) : ∀ e ∈ sec al log, e.1.Account ≠ GoZero.zero := by
  intro e he
  have := (List.mem_filter.1 he).2
  simp only [Bool.and_eq_true, Bool.not_eq_true', decide_eq_false_iff_not] at this
  exact this.1

theorem fold_rep (log : Log) (r0 : balance.Report) (La Le : Log)
    (ha : Rep La r0.AL) (he : Rep Le r0.EIE) (hLa : ∀ e ∈ La, e.1.Account ≠ GoZero.zero) (hLe : ∀ e ∈ Le, e.1.Account ≠ GoZero.zero) :
    Rep (La ++ sec true log) (log.foldl (fun r e => balance.Report.Insert r e.1 e.2) r0).AL ∧
    Rep (Le ++ sec false log) (log.foldl (fun r e => balance.Report.Insert r e.1 e.2) r0).EIE ∧
    (log.foldl (fun r e => balance.Report.Insert r e.1 e.2) r0).partition = r0.partition := by
  induction log generalizing r0 La Le with
  | nil => simpa [sec] using ⟨ha, he⟩
  | cons e rest ih =>
    simp only [List.foldl_cons]
    rw [Insert_agrees r0 e.1 e.2]
    by_cases hz : e.1.Account = GoZero.zero
    · have h1 : sec true (e :: rest) = sec true rest := by simp [sec, hz]
      have h2 : sec false (e :: rest) = sec false rest := by simp [sec, hz]
      simp only [hz, if_true, h1, h2]
      exact ih r0 La Le ha he hLa hLe
    · by_cases hal : account.Account.IsAL e.1.Account = true
      · have h1 : sec true (e :: rest) = e :: sec true rest := by simp [sec, hz, hal]
        have h2 : sec false (e :: rest) = sec false rest := by simp [sec, hal]
        simp only [hz, if_false, hal, if_true, h1, h2]
        have := ih { r0 with AL := MNode.modifyAt (bump e.1 e.2) e.1.Account.segments r0.AL } (La ++ [e]) Le
          (Rep_insert ha e.1 e.2 hLa) he
          (by intro x hx; rcases List.mem_append.1 hx with hx | hx
              · exact hLa x hx
              · simp only [List.mem_singleton] at hx; subst hx; exact hz) hLe
        simpa [List.append_assoc] using this
      · have hal' : account.Account.IsAL e.1.Account = false := by simpa using hal
        have h1 : sec true (e :: rest) = sec true rest := by simp [sec, hal']
        have h2 : sec false (e :: rest) = e :: sec false rest := by simp [sec, hz, hal']
        simp only [hz, if_false, hal', Bool.false_eq_true, h1, h2]
        have := ih { r0 with EIE := MNode.modifyAt (bump e.1 e.2) e.1.Account.segments r0.EIE } La (Le ++ [e])
          ha (Rep_insert he e.1 e.2 hLe) hLa
          (by intro x hx; rcases List.mem_append.1 hx with hx | hx
              · exact hLe x hx
              · simp only [List.mem_singleton] at hx; subst hx; exact hz)
        simpa [List.append_assoc] using this

/-- **after any log of inserts** (the calls `Query.Into` makes on the report, `TransQuery`): the A+L tree represents the kept
inserts on asset/liability accounts, the E+I+E tree the others; the partition is the one the report was created with -/
theorem Insert_fold_agrees (part : date.Partition) (log : Log) :
    Rep (sec true log) (log.foldl (fun r e => balance.Report.Insert r e.1 e.2) (balance.NewReport part)).AL ∧
    Rep (sec false log) (log.foldl (fun r e => balance.Report.Insert r e.1 e.2) (balance.NewReport part)).EIE ∧
    (log.foldl (fun r e => balance.Report.Insert r e.1 e.2) (balance.NewReport part)).partition = part := by
  have := fold_rep log (balance.NewReport part) [] [] Rep_new Rep_new (by simp) (by simp)
  simpa [NewReport_agrees] using this

/-! ## against the model (`Model/BalanceReport.lean`): `own`, `childSegs`, `sumAmounts` -/

/-- the model entries of the kept inserts (`TransQuery.entryOf`: column date, account path, commodity name, amount) -/
def esOf (L : Log) : List Knut.Entry := L.filterMap entryOf

theorem entryOf_segments {e : amounts.Key × Rat} {x : Knut.Entry} (h : entryOf e = some x) :
    x.account.segments = e.1.Account.segments ∧ x.amount = e.2 := by
  unfold entryOf at h
  by_cases hz : e.1.Account = GoZero.zero
  · simp [hz] at h
  · simp only [hz, if_false, Option.some.injEq] at h
    subst h; exact ⟨rfl, rfl⟩

/-- the model's `own` of a path is the entries of the inserts under exactly that path -/
theorem own_esOf (L : Log) (p : List String) : BalanceReport.own (esOf L) p = esOf (ownL L p) := by
  unfold BalanceReport.own esOf ownL
  induction L with
  | nil => rfl
  | cons e rest ih =>
    simp only [List.filterMap_cons, List.filter_cons]
    cases hx : entryOf e with
    | none =>
      by_cases hp : e.1.Account.segments = p <;> simp [hp, hx, ih]
    | some x =>
      have := (entryOf_segments hx).1
      by_cases hp : e.1.Account.segments = p
      · simp [hp, hx, ih, this]
      · simp [hp, ih, this]

theorem prefix_snoc_iff (p : List String) (s : String) (l : List String) :
    (p ++ [s]).isPrefixOf l = true ↔ p.isPrefixOf l = true ∧ (l.drop p.length).head? = some s := by
  rw [List.isPrefixOf_iff_prefix, List.isPrefixOf_iff_prefix]
  constructor
  · rintro ⟨t, ht⟩
    refine ⟨⟨s :: t, by simpa [List.append_assoc] using ht⟩, ?_⟩
    rw [← ht]; simp [List.append_assoc]
  · rintro ⟨⟨t, ht⟩, hh⟩
    rw [← ht] at hh
    simp only [List.drop_left'] at hh
    cases t with
    | nil => simp at hh
    | cons a t' =>
      simp only [List.head?_cons, Option.some.injEq] at hh; subst hh
      exact ⟨t', by simpa [List.append_assoc] using ht⟩

/-- the model's `childSegs` of a path are the next segments of the inserted paths below it -/
theorem mem_childSegs (L : Log) (hL : ∀ e ∈ L, e.1.Account ≠ GoZero.zero) (p : List String) (s : String) :
    s ∈ BalanceReport.childSegs (esOf L) p ↔ ∃ e ∈ L, (p ++ [s]).isPrefixOf e.1.Account.segments = true := by
  unfold BalanceReport.childSegs esOf
  rw [List.mem_eraseDups, List.mem_filterMap]
  constructor
  · rintro ⟨x, hx, hs⟩
    obtain ⟨e, he, hxe⟩ := List.mem_filterMap.1 hx
    have hseg := (entryOf_segments hxe).1
    refine ⟨e, he, ?_⟩
    rw [prefix_snoc_iff, ← hseg]
    by_cases hp : p.isPrefixOf x.account.segments = true
    · simp only [hp, if_true] at hs; exact ⟨hp, hs⟩
    · simp [hp] at hs
  · rintro ⟨e, he, hp⟩
    have hz := hL e he
    obtain ⟨x, hxe⟩ : ∃ x, entryOf e = some x := by simp [entryOf, hz]
    have hseg := (entryOf_segments hxe).1
    refine ⟨x, List.mem_filterMap.2 ⟨e, he, hxe⟩, ?_⟩
    rw [prefix_snoc_iff, ← hseg] at hp
    simp [hp.1, hp.2]

/-- the model's `sumAmounts` of the entries of kept inserts is the sum of their values -/
theorem sumAmounts_esOf (M : Log) (hkept : ∀ e ∈ M, e.1.Account ≠ GoZero.zero) :
    (M.map Prod.snd).sum = BalanceReport.sumAmounts (esOf M) := by
  unfold BalanceReport.sumAmounts esOf
  induction M with
  | nil => rfl
  | cons e rest ih =>
    have hz := hkept e List.mem_cons_self
    simp only [List.filterMap_cons, entryOf, hz, if_false, List.map_cons, List.sum_cons]
    rw [ih (fun x hx => hkept x (List.mem_cons_of_mem _ hx))]

/-- **a node of the tree against the model**: the keys of its children are the model's `childSegs` of its path, its amounts are
the amounts of the log of the model's `own` entries of its path, and `SumOver` over them — for every iteration order — is the
model's `sumAmounts` of the own entries that pass the filter -/
theorem Rep_model {L : Log} {T : Node} (h : Rep L T) (hL : ∀ e ∈ L, e.1.Account ≠ GoZero.zero)
    {p : List String} {n : Node} (hn : MNode.nodeAt? T p = some n) :
    (∀ s, s ∈ AMap.keys n.Children ↔ s ∈ BalanceReport.childSegs (esOf L) p) ∧
    (AMap.keys n.Children).Nodup ∧
    n.Value.Amounts = amountsOf (ownL L p) ∧
    BalanceReport.own (esOf L) p = esOf (ownL L p) ∧
    (∀ (f : amounts.Key → Bool) (order : List amounts.Key), order.Perm (AMap.keys n.Value.Amounts) →
      amounts.Amounts.SumOver n.Value.Amounts (pureFn f) order =
        GoSem.Outcome.ok (BalanceReport.sumAmounts (esOf ((ownL L p).filter (fun e => f e.1))))) := by
  have hl := h p n hn
  refine ⟨fun s => ?_, hl.nodup, hl.amounts, own_esOf L p, fun f order ho => ?_⟩
  · rw [hl.children s, mem_childSegs L hL]
  · rw [hl.amounts] at ho ⊢
    rw [SumOver_amountsOf _ f ho]
    have hkept : ∀ e ∈ (ownL L p).filter (fun e => f e.1), e.1.Account ≠ GoZero.zero := by
      intro e he; exact hL e (List.mem_filter.1 (List.mem_filter.1 he).1).1
    rw [logSum, sumAmounts_esOf _ hkept]

/-! ## non-vacuity -/

private def exKey (a : Knut.Account) (c : String) (d : Int) : amounts.Key :=
  { Date := d, Account := TransAccount.accountGo a, Other := GoZero.zero, Commodity := ⟨c, false⟩, Valuation := GoZero.zero, Description := "" }

/-- three inserts: two on a nested asset account, one on an income account -/
private def exReport : balance.Report :=
  [(exKey ⟨["Assets", "Bank", "Giro"]⟩ "CHF" 5, (3 : Rat)), (exKey ⟨["Income", "Job"]⟩ "CHF" 5, -3),
   (exKey ⟨["Assets", "Bank", "Giro"]⟩ "CHF" 5, 4)].foldl (fun r e => balance.Report.Insert r e.1 e.2) (balance.NewReport GoZero.zero)

/-- the two trees, the amounts of the nested node, the intermediate node -/
example : AMap.keys exReport.AL.Children = ["Assets"] ∧ AMap.keys exReport.EIE.Children = ["Income"] := by decide +kernel
example : (MNode.nodeAt? exReport.AL ["Assets", "Bank", "Giro"]).map (fun n => n.Value.Amounts.map Prod.snd) = some [7] := by
  decide +kernel
example : (MNode.nodeAt? exReport.AL ["Assets", "Bank"]).map (fun n => (n.Segment, AMap.keys n.Children, n.Value.Amounts.length)) =
    some ("Bank", ["Giro"], 0) := by decide +kernel

end Knut.FactsAgree.TransReport
