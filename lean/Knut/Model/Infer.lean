import Knut.Basic.AMap
import Knut.Syntax.Printer
/-!
# Model of `lib/syntax/bayes` and of `commands.inferRunner` (`knut infer`)

`bayes.Model` reads a syntax tree only through `Range.Extract()` (and the `Macro` flag while training) and writes
only the `Credit` / `Debit` fields of bookings, which it replaces by the synthetic account
`Account{Range{Start: 0, End: len(best), Text: best}}` whose `Extract()` is `best`. The model therefore works on the
*extracted fields* of a directive (`DirV` / `BookingV` of `Syntax/Printer.lean`: the arguments of the formatter's
`Fprintf` calls): `infer` maps fields to fields, and the command's output is the formatter's rendering of the new
fields between the original gaps (`inferFormat`; `formatWith id` is `Syntax.format`, see `Proofs/InferFormat.lean`).

The float score `math.Log(count/total) + Σ math.Log(…)` is the parameter `Scorer.score`: it receives exactly the
numbers `scoreCandidate` reads (`m.count`, `m.countByAccount[candidate]` and, for the tokens in sorted order, the
lookups `m.countByTokenAndAccount[token][candidate]` with their `ok` flag). `exactScorer` is the same quantity
without logarithms (the product of the ratios, an exact `Rat`), used by the correspondence check.

Go maps are association lists with Go's update order; the two places where the code iterates over a map
(`dict.SortedKeys` of the candidates and of the token set) sort first, which `sortU` models.
-/
namespace Knut.Infer
open Knut Knut.Syntax Knut.Utf8

/-! ## `strings.Fields`, `strings.ToLower` -/

/-- `unicode.IsSpace` (Unicode 15.0.0: the Latin-1 spaces and the `White_Space` table); compared with the Go function
on every code point in each run (`c15uni`) -/
def isSpace (r : Nat) : Bool :=
  (9 ≤ r && r ≤ 13) || r == 32 || r == 0x85 || r == 0xA0 || r == 0x1680 || (0x2000 ≤ r && r ≤ 0x200A) ||
  r == 0x2028 || r == 0x2029 || r == 0x202F || r == 0x205F || r == 0x3000

/-- `unicode.ToLower` as runs `(lo, hi, stride, delta)`: for `lo ≤ r ≤ hi` with `(r - lo) % stride = 0` the lower case
of `r` is `r + delta`; every other rune is its own lower case. Flattened from `unicode.CaseRanges` of the pinned Go
toolchain (Unicode 15.0.0) and compared with `unicode.ToLower` on every code point in each run (`c15uni`). -/
def lowerRuns : List (Nat × Nat × Nat × Int) := [
  (65, 90, 1, 32), (192, 214, 1, 32), (216, 222, 1, 32), (256, 302, 2, 1), (304, 304, 1, -199), (306, 310, 2, 1),
  (313, 327, 2, 1), (330, 374, 2, 1), (376, 376, 1, -121), (377, 381, 2, 1), (385, 385, 1, 210), (386, 388, 2, 1),
  (390, 390, 1, 206), (391, 391, 1, 1), (393, 394, 1, 205), (395, 395, 1, 1), (398, 398, 1, 79), (399, 399, 1, 202),
  (400, 400, 1, 203), (401, 401, 1, 1), (403, 403, 1, 205), (404, 404, 1, 207), (406, 406, 1, 211), (407, 407, 1, 209),
  (408, 408, 1, 1), (412, 412, 1, 211), (413, 413, 1, 213), (415, 415, 1, 214), (416, 420, 2, 1), (422, 422, 1, 218),
  (423, 423, 1, 1), (425, 425, 1, 218), (428, 428, 1, 1), (430, 430, 1, 218), (431, 431, 1, 1), (433, 434, 1, 217),
  (435, 437, 2, 1), (439, 439, 1, 219), (440, 440, 1, 1), (444, 444, 1, 1), (452, 452, 1, 2), (453, 453, 1, 1),
  (455, 455, 1, 2), (456, 456, 1, 1), (458, 458, 1, 2), (459, 475, 2, 1), (478, 494, 2, 1), (497, 497, 1, 2),
  (498, 500, 2, 1), (502, 502, 1, -97), (503, 503, 1, -56), (504, 542, 2, 1), (544, 544, 1, -130), (546, 562, 2, 1),
  (570, 570, 1, 10795), (571, 571, 1, 1), (573, 573, 1, -163), (574, 574, 1, 10792), (577, 577, 1, 1), (579, 579, 1, -195),
  (580, 580, 1, 69), (581, 581, 1, 71), (582, 590, 2, 1), (880, 882, 2, 1), (886, 886, 1, 1), (895, 895, 1, 116),
  (902, 902, 1, 38), (904, 906, 1, 37), (908, 908, 1, 64), (910, 911, 1, 63), (913, 929, 1, 32), (931, 939, 1, 32),
  (975, 975, 1, 8), (984, 1006, 2, 1), (1012, 1012, 1, -60), (1015, 1015, 1, 1), (1017, 1017, 1, -7), (1018, 1018, 1, 1),
  (1021, 1023, 1, -130), (1024, 1039, 1, 80), (1040, 1071, 1, 32), (1120, 1152, 2, 1), (1162, 1214, 2, 1), (1216, 1216, 1, 15),
  (1217, 1229, 2, 1), (1232, 1326, 2, 1), (1329, 1366, 1, 48), (4256, 4293, 1, 7264), (4295, 4295, 1, 7264), (4301, 4301, 1, 7264),
  (5024, 5103, 1, 38864), (5104, 5109, 1, 8), (7312, 7354, 1, -3008), (7357, 7359, 1, -3008), (7680, 7828, 2, 1), (7838, 7838, 1, -7615),
  (7840, 7934, 2, 1), (7944, 7951, 1, -8), (7960, 7965, 1, -8), (7976, 7983, 1, -8), (7992, 7999, 1, -8), (8008, 8013, 1, -8),
  (8025, 8031, 2, -8), (8040, 8047, 1, -8), (8072, 8079, 1, -8), (8088, 8095, 1, -8), (8104, 8111, 1, -8), (8120, 8121, 1, -8),
  (8122, 8123, 1, -74), (8124, 8124, 1, -9), (8136, 8139, 1, -86), (8140, 8140, 1, -9), (8152, 8153, 1, -8), (8154, 8155, 1, -100),
  (8168, 8169, 1, -8), (8170, 8171, 1, -112), (8172, 8172, 1, -7), (8184, 8185, 1, -128), (8186, 8187, 1, -126), (8188, 8188, 1, -9),
  (8486, 8486, 1, -7517), (8490, 8490, 1, -8383), (8491, 8491, 1, -8262), (8498, 8498, 1, 28), (8544, 8559, 1, 16), (8579, 8579, 1, 1),
  (9398, 9423, 1, 26), (11264, 11311, 1, 48), (11360, 11360, 1, 1), (11362, 11362, 1, -10743), (11363, 11363, 1, -3814), (11364, 11364, 1, -10727),
  (11367, 11371, 2, 1), (11373, 11373, 1, -10780), (11374, 11374, 1, -10749), (11375, 11375, 1, -10783), (11376, 11376, 1, -10782), (11378, 11378, 1, 1),
  (11381, 11381, 1, 1), (11390, 11391, 1, -10815), (11392, 11490, 2, 1), (11499, 11501, 2, 1), (11506, 11506, 1, 1), (42560, 42604, 2, 1),
  (42624, 42650, 2, 1), (42786, 42798, 2, 1), (42802, 42862, 2, 1), (42873, 42875, 2, 1), (42877, 42877, 1, -35332), (42878, 42886, 2, 1),
  (42891, 42891, 1, 1), (42893, 42893, 1, -42280), (42896, 42898, 2, 1), (42902, 42920, 2, 1), (42922, 42922, 1, -42308), (42923, 42923, 1, -42319),
  (42924, 42924, 1, -42315), (42925, 42925, 1, -42305), (42926, 42926, 1, -42308), (42928, 42928, 1, -42258), (42929, 42929, 1, -42282), (42930, 42930, 1, -42261),
  (42931, 42931, 1, 928), (42932, 42946, 2, 1), (42948, 42948, 1, -48), (42949, 42949, 1, -42307), (42950, 42950, 1, -35384), (42951, 42953, 2, 1),
  (42960, 42960, 1, 1), (42966, 42968, 2, 1), (42997, 42997, 1, 1), (65313, 65338, 1, 32), (66560, 66599, 1, 40), (66736, 66771, 1, 40),
  (66928, 66938, 1, 39), (66940, 66954, 1, 39), (66956, 66962, 1, 39), (66964, 66965, 1, 39), (68736, 68786, 1, 64), (71840, 71871, 1, 32),
  (93760, 93791, 1, 32), (125184, 125217, 1, 34)]

/-- `unicode.ToLower` -/
def toLowerRune (r : Nat) : Nat :=
  match lowerRuns.find? (fun x => decide (x.1 ≤ r) && decide (r ≤ x.2.1) && (r - x.1) % x.2.2.1 == 0) with
  | some x => ((r : Int) + x.2.2.2).toNat
  | none => r

/-- the encoding of `utf8.RuneError`, which `strings.Map` writes for an invalid byte -/
def replacement : Bytes := [0xEF, 0xBF, 0xBD]

/-- `utf8.AppendRune` -/
def encodeRune (r : Nat) : Bytes :=
  if r < 0x80 then [UInt8.ofNat r]
  else if r < 0x800 then [UInt8.ofNat (0xC0 + r / 64), UInt8.ofNat (0x80 + r % 64)]
  else if r > 0x10FFFF || (0xD800 ≤ r && r ≤ 0xDFFF) then replacement
  else if r < 0x10000 then [UInt8.ofNat (0xE0 + r / 4096), UInt8.ofNat (0x80 + r / 64 % 64), UInt8.ofNat (0x80 + r % 64)]
  else [UInt8.ofNat (0xF0 + r / 262144), UInt8.ofNat (0x80 + r / 4096 % 64), UInt8.ofNat (0x80 + r / 64 % 64),
        UInt8.ofNat (0x80 + r % 64)]

/-- `strings.ToLower`: rune by rune (`strings.Map(unicode.ToLower, s)`; the ASCII fast path computes the same);
a byte that does not decode becomes U+FFFD -/
def toLower (s : Bytes) : Bytes :=
  (decodeAll s).flatMap fun t =>
    if t.invalid then replacement
    else if toLowerRune t.r = t.r then t.bytes
    else encodeRune (toLowerRune t.r)

/-- the loop of `strings.FieldsFunc(s, unicode.IsSpace)`: `cur` is the field being read -/
def fieldsGo : List Tok → Bytes → List Bytes
  | [], cur => if cur.isEmpty then [] else [cur]
  | t :: ts, cur =>
    if isSpace t.r then (if cur.isEmpty then fieldsGo ts [] else cur :: fieldsGo ts [])
    else fieldsGo ts (cur ++ t.bytes)

/-- `strings.Fields` -/
def fields (s : Bytes) : List Bytes := fieldsGo (decodeAll s) []

/-! ## Go's string order and `dict.SortedKeys` -/

/-- `a < b` on Go strings: lexicographic on bytes -/
def bytesLt : Bytes → Bytes → Bool
  | [], [] => false
  | [], _ :: _ => true
  | _ :: _, [] => false
  | a :: as, b :: bs => if a < b then true else if b < a then false else bytesLt as bs

/-- insert into a strictly ascending list, keeping one copy -/
def insertU (x : Bytes) : List Bytes → List Bytes
  | [] => [x]
  | y :: ys => if x = y then y :: ys else if bytesLt x y then x :: y :: ys else y :: insertU x ys

/-- the elements of `l` as a set, ascending: `dict.SortedKeys` of a map/set whose keys are `l` -/
def sortU (l : List Bytes) : List Bytes := l.foldr insertU []

/-! ## The model `bayes.Model` -/

/-- the abstract score: `score total countOfCandidate lookups` and the test `score > max` -/
structure Scorer (S : Type) where
  score : Nat → Nat → List (Option Nat) → S
  gt : S → S → Bool

/-- `bayes.Model` -/
structure Model where
  count : Nat
  countByAccount : AMap Bytes Nat
  countByTokenAndAccount : AMap Bytes (AMap Bytes Nat)
  /-- the placeholder account -/
  account : Bytes
  deriving Repr

/-- `bayes.NewModel` -/
def newModel (account : Bytes) : Model := ⟨0, [], [], account⟩

/-- `tokenize`: the set of lower-cased words of the description, the commodity, the quantity and the other account,
as the ascending list `dict.SortedKeys` makes of it -/
def tokenize (desc commodity quantity other : Bytes) : List Bytes :=
  sortU ((fields desc ++ [commodity, quantity, other]).map toLower)

/-- `m[k]++` -/
def incr (m : AMap Bytes Nat) (k : Bytes) : AMap Bytes Nat := m.set k (m.get k 0 + 1)

/-- `dict.GetDefault(m, token, newCountByAccount)[account]++` -/
def incrTA (m : AMap Bytes (AMap Bytes Nat)) (account token : Bytes) : AMap Bytes (AMap Bytes Nat) :=
  m.set token (incr (m.get token []) account)

/-- `Model.update` (the loop over the token set runs in ascending order here; `Properties/C15.lean` shows that the
order does not matter) -/
def Model.update (m : Model) (desc : Bytes) (b : BookingV) (account other : Bytes) : Model :=
  { m with
    count := m.count + 1
    countByAccount := incr m.countByAccount account
    countByTokenAndAccount :=
      (tokenize desc b.commodity b.quantity other).foldl (fun tm tok => incrTA tm account tok) m.countByTokenAndAccount }

/-- a booking as `Model.Update` reads it: the two `Macro` flags and the extracted fields -/
structure TBooking where
  creditMacro : Bool
  debitMacro : Bool
  v : BookingV
  deriving DecidableEq, Repr

/-- a transaction as `Model.Update` reads it: description content and bookings -/
structure TTx where
  desc : Bytes
  bookings : List TBooking
  deriving DecidableEq, Repr

/-- does `Update` learn from this booking? Not from macro accounts, empty names or the placeholder. -/
def eligible (account : Bytes) (b : TBooking) : Bool :=
  !(b.creditMacro || b.debitMacro) && !(b.v.credit == [] || b.v.debit == []) &&
  !(b.v.credit == account || b.v.debit == account)

/-- the body of the loop of `Model.Update` -/
def Model.updateBooking (desc : Bytes) (m : Model) (b : TBooking) : Model :=
  if eligible m.account b then
    (m.update desc b.v b.v.credit b.v.debit).update desc b.v b.v.debit b.v.credit
  else m

/-- `Model.Update` -/
def Model.updateTx (m : Model) (t : TTx) : Model := t.bookings.foldl (Model.updateBooking t.desc) m

/-- `inferRunner.train`: a new model updated with every transaction of every file, in arrival order -/
def train (account : Bytes) (txs : List TTx) : Model := txs.foldl Model.updateTx (newModel account)

/-- `m.countByTokenAndAccount[token][candidate]` with its `ok` flag -/
def Model.lookupTA (m : Model) (token candidate : Bytes) : Option Nat :=
  (m.countByTokenAndAccount.find? token).bind (·.find? candidate)

/-- `Model.scoreCandidate`: the score of what the Go function reads, tokens in ascending order -/
def Model.scoreCandidate {S : Type} (sc : Scorer S) (m : Model) (candidate : Bytes) (tokens : List Bytes) : S :=
  sc.score m.count (m.countByAccount.get candidate 0) (tokens.map fun t => m.lookupTA t candidate)

/-- one round of the loop of `inferAccount`; the state is `(best, max)`, `max = none` is `math.Inf(-1)` (every score
the code computes is the logarithm sum of positive finite numbers, hence `> -Inf`) -/
def inferStep {S : Type} (sc : Scorer S) (m : Model) (tokens : List Bytes) (other : Bytes)
    (st : Bytes × Option S) (candidate : Bytes) : Bytes × Option S :=
  if candidate = other then st
  else
    let s := m.scoreCandidate sc candidate tokens
    if (match st.2 with | none => true | some mx => sc.gt s mx) then (candidate, some s) else st

/-- `Model.inferAccount`: the text of the synthetic account, `none` for `ok = false` -/
def Model.inferAccount {S : Type} (sc : Scorer S) (m : Model) (desc : Bytes) (b : BookingV) (other : Bytes) : Option Bytes :=
  let tokens := tokenize desc b.commodity b.quantity other
  let best := ((sortU m.countByAccount.keys).foldl (inferStep sc m tokens other) ([], none)).1
  if best = [] then none else some best

/-- the body of the loop of `Model.Infer`: the credit side against the debit account, then the debit side against the
(possibly new) credit account -/
def Model.inferBooking {S : Type} (sc : Scorer S) (m : Model) (desc : Bytes) (b : BookingV) : BookingV :=
  let b1 : BookingV :=
    if b.credit = m.account then
      match m.inferAccount sc desc b b.debit with
      | some a => { b with credit := a }
      | none => b
    else b
  if b.debit = m.account then
    match m.inferAccount sc desc b1 b1.credit with
    | some a => { b1 with debit := a }
    | none => b1
  else b1

/-- `parseAndInfer` on one directive: `Model.Infer` on transactions, nothing else is touched -/
def Model.inferDir {S : Type} (sc : Scorer S) (m : Model) : DirV → DirV
  | .transaction accr perf date desc bookings => .transaction accr perf date desc (bookings.map (m.inferBooking sc desc))
  | d => d

/-! ## The command -/

/-- what `Model.Update` extracts from a transaction (`none`: a slice out of range, Go would panic) -/
def viewT (text : Bytes) (t : Transaction) : Option TTx := do
  let desc ← t.description.content.extract text
  let bs ← t.bookings.mapM fun b => (viewBooking text b).map fun v => (⟨b.credit.isMacro, b.debit.isMacro, v⟩ : TBooking)
  pure ⟨desc, bs⟩

/-- the transactions of a parsed file, in file order -/
def fileTxs (text : Bytes) (f : File) : Option (List TTx) :=
  (f.directives.filterMap fun d => match d.body with | .transaction t => some t | _ => none).mapM (viewT text)

/-- the contribution of the extracted directives to `Printer.Initialize` -/
def paddingOf (vs : List DirV) : Nat := vs.foldl (fun m v => max m (paddingV v)) 0

/-- the loop of `Printer.Format` on extracted fields -/
def formatLoopV (text : Bytes) (padding : Nat) : Nat → List (Directive × DirV) → Option Bytes
  | pos, [] => sliceChecked text pos text.length
  | pos, (d, v) :: rest => do
    let gap ← sliceChecked text pos d.range.start
    let tail ← formatLoopV text padding d.range.stop rest
    pure (gap ++ renderDir padding v ++ tail)

/-- `Printer.Format` of the tree `f` of `text` whose directives' fields were edited by `edit` (`Infer` assigns new
`Account` values, the formatter then extracts the fields of the edited tree) -/
def formatWith (edit : DirV → DirV) (text : Bytes) (f : File) : Option Bytes := do
  let vs ← f.directives.mapM (viewDirective text)
  let vs' := vs.map edit
  formatLoopV text (paddingOf vs') 0 (f.directives.zip vs')

/-- `parseAndInfer` followed by `syntax.FormatFile` -/
def inferFormat {S : Type} (sc : Scorer S) (m : Model) (text : Bytes) (f : File) : Option Bytes :=
  formatWith (m.inferDir sc) text f

/-- outcome of `knut infer -a ACCOUNT -t TRAINING TARGET` -/
inductive Outcome where
  /-- exit 0; the bytes written to stdout resp. (with `--inplace`) into the target file -/
  | written (out : Bytes)
  /-- exit 1: a training file or the target does not parse; nothing is written -/
  | rejected
  /-- a slice-bounds panic -/
  | panic
  deriving DecidableEq, Repr

/-- `inferRunner.execute`: `training` are the texts of the training file and of everything it includes (in any
order: `Properties/C15.lean`), `target` the text of the target file -/
def inferCmd {S : Type} (sc : Scorer S) (account : Bytes) (training : List (String × Bytes)) (path : String) (target : Bytes) :
    Outcome :=
  match training.mapM (fun pt => (parseText pt.1 pt.2).toOption.map fun f => (pt.2, f)) with
  | none => .rejected
  | some files =>
    match files.mapM (fun tf => fileTxs tf.1 tf.2) with
    | none => .panic
    | some txss =>
      match parseText path target with
      | .error _ => .rejected
      | .ok f =>
        match inferFormat sc (train account txss.flatten) target f with
        | some out => .written out
        | none => .panic

/-- the file content after `knut infer --inplace` -/
def Outcome.fileAfter (before : Bytes) : Outcome → Bytes
  | .written c => c
  | _ => before

/-! ## The exact score -/

/-- `exp` of the score of the code: `count/total · Π (countForToken/count | 1/total)`, without rounding -/
def exactScore (total count : Nat) (lookups : List (Option Nat)) : Rat :=
  lookups.foldl (fun p l => p * (match l with | some ct => (ct : Rat) / (count : Rat) | none => 1 / (total : Rat)))
    ((count : Rat) / (total : Rat))

def exactScorer : Scorer Rat := ⟨exactScore, fun a b => decide (b < a)⟩

end Knut.Infer
