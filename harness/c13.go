package main

import (
	"bytes"
	"crypto/sha256"
	"encoding/csv"
	"encoding/json"
	"fmt"
	"os"
	"os/exec"
	"path/filepath"
	"regexp"
	"sort"
	"strings"
	"time"
	"unicode/utf8"

	"github.com/sboehler/knut/lib/syntax/directives"
	"github.com/sboehler/knut/lib/syntax/parser"
	"github.com/shopspring/decimal"
)

func init() { runners["C13"] = runC13 }

// ---------------------------------------------------------------- decoding (trusted glue, mirrored from the importers)

// c13Decode reads the statement as the importer's decoder does (same reader settings, FieldsPerRecord = -1: the field
// count checks belong to the models). syntaxErr reports a CSV/JSON syntax error (records up to it are returned).
func c13Decode(imp string, file []byte) (recs [][]string, syntaxErr bool) {
	d := c13Dialects[imp]
	if d.JSON {
		var resp struct {
			DailyValues []struct {
				Date  string      `json:"date"`
				Value json.Number `json:"value"`
			} `json:"dailyWealth"`
		}
		if err := json.Unmarshal(file, &resp); err != nil {
			return nil, true
		}
		for _, dv := range resp.DailyValues {
			recs = append(recs, []string{dv.Date, dv.Value.String()})
		}
		return recs, false
	}
	data := file
	if d.Latin1 {
		var b strings.Builder
		for _, ch := range file {
			b.WriteRune(rune(ch))
		}
		data = []byte(b.String())
	}
	if d.BOM {
		data = bytes.TrimPrefix(data, []byte("\xef\xbb\xbf"))
	}
	rd := csv.NewReader(bytes.NewReader(data))
	rd.Comma = d.Comma
	rd.TrimLeadingSpace = d.Trim
	rd.LazyQuotes = d.Lazy
	rd.FieldsPerRecord = -1
	for {
		rec, err := rd.Read()
		if err != nil {
			if err.Error() == "EOF" {
				return recs, false
			}
			return recs, true
		}
		recs = append(recs, rec)
	}
}

func c13RecordsWire(recs [][]string) (string, bool) {
	if len(recs) == 0 {
		return ".", true
	}
	parts := make([]string, len(recs))
	for i, rec := range recs {
		fs := make([]string, len(rec))
		for j, f := range rec {
			if !utf8.ValidString(f) {
				return "", false
			}
			fs[j] = Hex(f)
		}
		parts[i] = strings.Join(fs, ",")
	}
	return strings.Join(parts, ";"), true
}

func c13HexList(xs []string) string {
	if len(xs) == 0 {
		return "."
	}
	hs := make([]string, len(xs))
	for i, x := range xs {
		hs[i] = Hex(x)
	}
	return strings.Join(hs, ",")
}

// ---------------------------------------------------------------- the harness' own reader of the importer output

type c13Out struct {
	OK       bool
	Err      string
	Wire     string // directives in the wire form of JournalWire.lean
	NTx      int
	NOther   int
	Accounts []string
	MinDay   int
}

// c13ReadOutput parses the importer's stdout with knut's own parser and lists its directives.
func c13ReadOutput(text string) (res c13Out) {
	defer func() {
		if r := recover(); r != nil {
			res = c13Out{Err: fmt.Sprintf("parser panic: %v", r)}
		}
	}()
	p := parser.New(text, "")
	if err := p.Advance(); err != nil {
		return c13Out{Err: err.Error()}
	}
	f, err := p.ParseFile()
	if err != nil {
		return c13Out{Err: err.Error()}
	}
	accounts := map[string]bool{}
	var parts []string
	res.MinDay = 1 << 30
	day := func(d directives.Date) (int, bool) {
		t, err := d.Parse()
		if err != nil {
			return 0, false
		}
		z := dayNum(t)
		if z < res.MinDay {
			res.MinDay = z
		}
		return z, true
	}
	for _, dir := range f.Directives {
		switch d := dir.Directive.(type) {
		case directives.Transaction:
			z, ok := day(d.Date)
			if !ok {
				return c13Out{Err: "unparseable date " + d.Date.Extract()}
			}
			tg := "-"
			if !d.Addons.Performance.Empty() {
				var ts []string
				for _, t := range d.Addons.Performance.Targets {
					ts = append(ts, t.Extract())
				}
				tg = "=" + strings.Join(ts, ",")
			}
			if !d.Addons.Accrual.Empty() {
				return c13Out{Err: "unexpected accrual annotation"}
			}
			var bks []string
			for _, b := range d.Bookings {
				q, err := decimal.NewFromString(b.Quantity.Extract())
				if err != nil {
					return c13Out{Err: "unparseable quantity " + b.Quantity.Extract()}
				}
				accounts[b.Credit.Extract()] = true
				accounts[b.Debit.Extract()] = true
				bks = append(bks, fmt.Sprintf("%s,%s,%s,%s", b.Credit.Extract(), b.Debit.Extract(), q.String(), b.Commodity.Extract()))
			}
			parts = append(parts, fmt.Sprintf("t~%d~%s~%s~-~%s", z, Hex(d.Description.Content.Extract()), tg, strings.Join(bks, ";")))
			res.NTx++
		case directives.Assertion:
			z, ok := day(d.Date)
			if !ok {
				return c13Out{Err: "unparseable date " + d.Date.Extract()}
			}
			var bals []string
			for _, b := range d.Balances {
				q, err := decimal.NewFromString(b.Quantity.Extract())
				if err != nil {
					return c13Out{Err: "unparseable quantity " + b.Quantity.Extract()}
				}
				accounts[b.Account.Extract()] = true
				bals = append(bals, fmt.Sprintf("%s,%s,%s", b.Account.Extract(), q.String(), b.Commodity.Extract()))
			}
			parts = append(parts, fmt.Sprintf("a~%d~%s", z, strings.Join(bals, ";")))
			res.NOther++
		case directives.Price:
			z, ok := day(d.Date)
			if !ok {
				return c13Out{Err: "unparseable date " + d.Date.Extract()}
			}
			q, err := decimal.NewFromString(d.Price.Extract())
			if err != nil {
				return c13Out{Err: "unparseable price " + d.Price.Extract()}
			}
			parts = append(parts, fmt.Sprintf("p~%d~%s~%s~%s", z, d.Commodity.Extract(), q.String(), d.Target.Extract()))
			res.NOther++
		case directives.Open:
			z, _ := day(d.Date)
			parts = append(parts, fmt.Sprintf("o~%d~%s", z, d.Account.Extract()))
			res.NOther++
		case directives.Close:
			z, _ := day(d.Date)
			parts = append(parts, fmt.Sprintf("c~%d~%s", z, d.Account.Extract()))
			res.NOther++
		default:
			return c13Out{Err: fmt.Sprintf("unexpected directive %T", d)}
		}
	}
	res.OK = true
	res.Wire = "-"
	if len(parts) > 0 {
		res.Wire = strings.Join(parts, "|")
	}
	for a := range accounts {
		res.Accounts = append(res.Accounts, a)
	}
	sort.Strings(res.Accounts)
	return res
}

// ---------------------------------------------------------------- cases

type c13Case struct {
	Stream string
	Idx    int
	St     *c13Stmt
	Mut    string // malformed stream: what was mutated
	// results
	Code       int
	Out, Err   string
	PrintCode  int
	PrintOut   string
	PrintErr   string
	PrintInput string
	Read       c13Out
	Journal    string // the part of stdout that is meant to be the journal
	// stream big
	Timeout   time.Duration // watchdog of one knut run (0: 30 s)
	KeepModel bool          // keep the model's answer to c13-run in Model
	Model     string
	Compact   map[string]any // the input as recorded in findings (nil: the full statement, see input())
}

func (pc *c13Case) input() map[string]any {
	if pc.Compact != nil {
		return pc.Compact
	}
	return map[string]any{"importer": pc.St.Imp, "args": strings.Join(pc.St.Args, " "), "arg_list": pc.St.Args, "flag_list": pc.St.Flags,
		"statement": string(pc.St.File), "statement_hex": Hex(string(pc.St.File)), "mutation": pc.Mut}
}

func c13Outcome(code int, out, stderr string) string {
	switch {
	case strings.Contains(stderr, "panic:") || strings.Contains(stderr, "goroutine 1 ["):
		return "panic"
	case code == 0:
		return "ok " + Hex(out)
	}
	return "error"
}

// c13Run imports the statement with the real binary and, if that worked, feeds `opens + output` to `knut print`.
func c13Run(c *Ctx, dir string, pc *c13Case) {
	path := filepath.Join(dir, fmt.Sprintf("%s-%d.stmt", pc.Stream, pc.Idx))
	os.WriteFile(path, pc.St.File, 0o644)
	defer os.Remove(path)
	args := append([]string{"import", pc.St.Imp}, pc.St.Args...)
	args = append(args, path)
	timeout := 30 * time.Second
	if pc.Timeout > 0 {
		timeout = pc.Timeout
	}
	pc.Code, pc.Out, pc.Err = runKnut(c.KnutBin, timeout, nil, args...)
	if pc.Code != 0 {
		return
	}
	pc.Journal = pc.Out
	pc.Read = c13ReadOutput(pc.Journal)
	if !pc.Read.OK || (pc.Read.NTx == 0 && pc.Read.NOther == 0) {
		return
	}
	// every account the output uses is opened the day before the first directive; the file is then in printed form itself
	var b strings.Builder
	for _, a := range pc.Read.Accounts {
		fmt.Fprintf(&b, "%s open %s\n", fmtDate(pc.Read.MinDay-1), a)
	}
	if len(pc.Read.Accounts) > 0 {
		b.WriteString("\n")
	}
	b.WriteString(pc.Journal)
	pc.PrintInput = b.String()
	jpath := filepath.Join(dir, fmt.Sprintf("%s-%d.knut", pc.Stream, pc.Idx))
	os.WriteFile(jpath, []byte(pc.PrintInput), 0o644)
	defer os.Remove(jpath)
	pc.PrintCode, pc.PrintOut, pc.PrintErr = runKnut(c.KnutBin, timeout, nil, "print", jpath)
}

const (
	c13KnownWise       = "C13-wise-conversion-two-transactions"
	c13KnownForexPair  = "C13-swissquote-forex-pair-one-transaction"
	c13KnownIBRounding = "C13-interactivebrokers-rounds-to-cents"
)

// c13Known reports a recorded finding; at most two cases per key are kept in the evidence (the shared cap on stored
// findings is per kind, not per key), all are counted in the tags.
func c13Known(c *Ctx, stream string, index int, pred string, input any, detail string, key string) {
	c.Tag("known:" + key)
	if c.Tags["known:"+key] <= 2 {
		c.MonitorKnown(stream, index, pred, input, detail, key)
	} else {
		c.Monitored++
	}
}

// c13Monitor is c.Monitor with a per (predicate, importer) limit on stored failures: the shared store keeps 15 findings
// per kind, which one broken importer would otherwise fill alone. Every failure is still counted.
func c13Monitor(c *Ctx, pc *c13Case, stream string, index int, pred string, input any, ok bool, detail string) bool {
	if ok {
		return c.Monitor(stream, index, pred, input, true, "")
	}
	key := "failed:" + pred + ":" + pc.St.Imp
	c.Tag(key)
	if c.Tags[key] <= 2 {
		return c.Monitor(stream, index, pred, input, false, detail)
	}
	c.Monitored++
	c.FindingCount["monitor"]++
	return false
}

func c13Sig(tags []string, keep ...string) string {
	var s []string
	for _, t := range tags {
		for _, k := range keep {
			if t == k {
				s = append(s, t)
			}
		}
	}
	return strings.Join(s, "+")
}

func (pc *c13Case) class(outcome string) string {
	st := pc.St
	text := c13Sig(st.Tags, "quote", "newline", "unicode", "sep")
	feat := c13Sig(st.Tags, "zero-amount", "credit", "fee", "fx", "conversion", "forex-pair", "trade", "dividend", "rounding-line", "fx-comment", "multi-currency",
		"sub-cent-amounts", "balances", "pending-row", "cancelled-row", "from", "half-cent", "odd-currency", "exotic-number", "thousands-sep", "stock-trade", "forex-trade",
		"flags-equal", "flags-3-equal", "flag-is-tbd")
	return fmt.Sprintf("%s/%s/%s/n%s/%s/%s", pc.Stream, st.Imp, outcome, bucket(st.Rows), text, feat)
}

// c13Evaluate runs the model comparison and the monitors of one executed case.
func c13Evaluate(c *Ctx, bt *Batch, pc *c13Case) {
	st := pc.St
	c.Evals++
	in := pc.input()
	impl := c13Outcome(pc.Code, pc.Out, pc.Err)
	outcome := strings.Fields(impl)[0]
	c.Class(pc.class(outcome))
	for _, t := range st.Tags {
		c.Tag(st.Imp + ":" + t)
	}
	c.Tag("outcome:" + outcome)
	if pc.Idx < 1 && pc.Stream == "stmt" {
		c.Sample(map[string]any{"importer": st.Imp, "args": strings.Join(st.Args, " "), "statement": clip(string(st.File)), "output": clip(pc.Out)})
	}
	wellFormed := pc.Stream == "stmt" || pc.Stream == "flags" || pc.Stream == "big" || pc.Stream == "long"

	// ---- correspondence: real importer vs Lean row model + journal printer, byte for byte
	recs, syntaxErr := c13Decode(st.Imp, st.File)
	fileCopy := st.File
	recWire, wireOK := c13RecordsWire(recs)
	flags := c13HexList(st.Flags)
	if wireOK {
		bt.Add(func(model string) {
			if model == "unsupported" {
				c.Tag("model:unsupported")
				return
			}
			if syntaxErr && model != "panic" {
				model = "error" // the decoder fails after the rows the model has seen
			}
			if pc.KeepModel {
				pc.Model = model
			}
			if !c.Compare(pc.Stream, pc.Idx, "import:"+st.Imp, in, impl, model) {
				if pc.Stream != "directed" && len(c13Suspects) < 12 {
					c13Suspects = append(c13Suspects, &c13Case{Stream: pc.Stream, Idx: pc.Idx, St: &c13Stmt{Imp: st.Imp, Flags: st.Flags, Args: st.Args, File: append([]byte{}, fileCopy...), Tags: st.Tags}})
				}
				f := &c.Findings[len(c.Findings)-1]
				if strings.HasPrefix(model, "ok ") {
					f.Model = clip(UnHex(strings.TrimPrefix(model, "ok ")))
				}
				f.Impl = clip(fmt.Sprintf("exit %d\n%s%s", pc.Code, pc.Out, pc.Err))
			}
		}, "c13-run", Hex(st.Imp), flags, recWire)
	} else {
		c.Tag("model:invalid-utf8-skipped")
	}

	if wellFormed {
		// a well-formed statement must import
		if !c13Monitor(c, pc, pc.Stream, pc.Idx, "wellformed_statement_imports", in, pc.Code == 0, fmt.Sprintf("exit %d\n%s", pc.Code, pc.Err)) {
			return
		}
	}
	if pc.Code != 0 {
		return
	}

	// domain: a statement is text in its encoding; a file that is not valid UTF-8 (only the malformed stream produces
	// one) yields descriptions that are not text, and the journal syntax cannot carry them
	if !c13Dialects[st.Imp].Latin1 && !utf8.Valid(st.File) {
		c.Tag("domain:statement-not-valid-utf8")
		return
	}
	// ---- monitor: the emitted text is valid for knut's own parser
	if !c13Monitor(c, pc, pc.Stream, pc.Idx, "output_parses", in, pc.Read.OK, "the importer's output is rejected by knut's parser: "+pc.Read.Err+"\n"+pc.Journal) {
		return
	}
	bt.Add(func(a string) {
		c13Monitor(c, pc, pc.Stream, pc.Idx, "output_parses_lean_parser", in, a == "ok", "the Lean parser model rejects the importer's output:\n"+pc.Journal)
	}, "c13-parse", Hex(pc.Journal))
	bt.Add(func(a string) {
		c13Monitor(c, pc, pc.Stream, pc.Idx, "directives_wellformed", in, a == "ok", "a directive in the output is not well-formed ("+a+"):\n"+pc.Journal)
	}, "c13-wf", pc.Read.Wire)

	// ---- monitor: once the accounts are opened the output is accepted and re-printed unchanged
	if pc.PrintInput != "" && (st.Checked || !wellFormed) {
		if wellFormed {
			if c13Monitor(c, pc, pc.Stream, pc.Idx, "output_accepted", in, pc.PrintCode == 0, fmt.Sprintf("`knut print` rejects opens + output (exit %d):\n%s\n---\n%s", pc.PrintCode, pc.PrintErr, pc.PrintInput)) {
				pc.fixpoint(c, in, recs)
			}
		} else if pc.PrintCode == 0 {
			pc.fixpoint(c, in, recs)
		}
	}

	// ---- monitor: fidelity. (a) against the Lean reading of the records (Spec/ImportItems.lean)
	if wireOK && !syntaxErr {
		bt.Add(func(a string) {
			if a == "unsupported" {
				return
			}
			c13Monitor(c, pc, pc.Stream, pc.Idx, "faithful_to_spec_reader", in, a == "ok", "the output is not, one for one, the items the specification reads from the statement ("+a+"):\n"+pc.Journal)
		}, "c13-spec"+c13BigOp(pc), Hex(st.Imp), flags, recWire, pc.Read.Wire)
	}
	if !wellFormed {
		return
	}
	// (b) against the generator's own reading of the statement, (c) the literal reading of the property where the importer
	// nets, pairs or rounds by design
	c13FidelityMonitors(c, bt, pc, in, pc.Read, pc.Journal, "")
	acct := st.Flags[0]
	if st.Strict != nil {
		bt.Add(func(a string) {
			if a != "ok" {
				c13Known(c, pc.Stream, pc.Idx, "faithful_to_statement_unrounded", in, "amounts differ from the statement's unrounded amounts\nexpected items: "+c13ItemsWire(st.Strict)+"\noutput:\n"+pc.Journal, c13KnownIBRounding)
			} else {
				c.Monitored++
			}
		}, "c13-faithful"+c13BigOp(pc), Hex(acct), c13ItemsWire(st.Strict), pc.Read.Wire)
	}
}

// c13BigOp: the statements of the stream big have tens of thousands of rows; the driver evaluates faithfulB for them with the
// items taken in the order of their days first (Driver/C13.lean, faithfulBig: same verdict, not quadratic).
func c13BigOp(pc *c13Case) string {
	if pc.Stream == "big" {
		return "-big"
	}
	return ""
}

// c13FidelityMonitors: the fidelity clauses of the property against the generator's own reading of the statement, evaluated on
// `journal` as read into `read` (the importer's standard output as one consumer received it; `suffix` names the consumer in the
// predicate, "" for the eagerly read output): faithful_to_statement (Lean faithfulB with the generator's items) and
// one_transaction_per_row.
func c13FidelityMonitors(c *Ctx, bt *Batch, pc *c13Case, in map[string]any, read c13Out, journal string, suffix string) {
	st := pc.St
	shown := journal
	if len(shown) > 20000 {
		shown = clip(shown)
	}
	acct := st.Flags[0]
	{
		detail := "the output is not, one for one, the rows/balances/prices of the statement\nexpected items: " + clip(c13ItemsWire(st.Items)) + "\noutput:\n" + shown
		alt, altKey, readWire := st.Alt, st.AltKey, read.Wire
		bt.Add(func(a string) {
			if a == "ok" || alt == nil {
				c13Monitor(c, pc, pc.Stream, pc.Idx, "faithful_to_statement"+suffix, in, a == "ok", detail)
				return
			}
			// is the failure the recorded one (the output is exactly what the finding predicts)?
			if c.Drv.Ask("c13-faithful"+c13BigOp(pc), Hex(acct), c13ItemsWire(alt), readWire) == "ok" {
				c13Known(c, pc.Stream, pc.Idx, "faithful_to_statement"+suffix, in, detail, altKey)
			} else {
				c13Monitor(c, pc, pc.Stream, pc.Idx, "faithful_to_statement"+suffix, in, false, detail)
			}
		}, "c13-faithful"+c13BigOp(pc), Hex(acct), c13ItemsWire(st.Items), read.Wire)
	}
	bookings := 0
	for _, it := range st.Items {
		if it.Kind == 'b' {
			bookings++
		}
	}
	if !st.OneTx {
		key := c13KnownWise
		if st.Imp == "ch.swissquote" {
			key = c13KnownForexPair
		}
		if st.Imp == "com.wise" || st.Imp == "ch.swissquote" {
			c13Known(c, pc.Stream, pc.Idx, "one_transaction_per_row"+suffix, in, fmt.Sprintf("%d transactions for %d statement rows:\n%s", read.NTx, st.Rows, shown), key)
		}
	} else {
		c13Monitor(c, pc, pc.Stream, pc.Idx, "one_transaction_per_row"+suffix, in, read.NTx == bookings, fmt.Sprintf("%d transactions for %d booking rows:\n%s", read.NTx, bookings, shown))
	}
}

// fixpoint: `knut print` must reproduce opens + output byte for byte (also when a free-text field holds a double quote:
// since repair 7934e0c the built transaction stores the replaced description, so sorting and printing see the same text).
func (pc *c13Case) fixpoint(c *Ctx, in map[string]any, recs [][]string) {
	c13Monitor(c, pc, pc.Stream, pc.Idx, "output_reprinted_unchanged", in, pc.PrintOut == pc.PrintInput,
		"`knut print` changes opens + output:\n"+pc.PrintInput+"\n---\n"+pc.PrintOut)
}

// statements on which the real importer and the model disagree (without a monitor having failed there): the directed
// search isolates their rows
var c13Suspects []*c13Case

// c13Directed builds, for every suspect statement, the statements that keep its head (and tail) and ONE of its other
// lines: if the disagreement hides a property failure, a one-row statement shows it with a small replayable input.
func c13Directed(suspects []*c13Case) []*c13Case {
	var res []*c13Case
	for si, sp := range suspects {
		if c13Dialects[sp.St.Imp].JSON {
			continue
		}
		lines := strings.SplitAfter(string(sp.St.File), "\n")
		head, tail := 1, 0
		switch sp.St.Imp {
		case "ch.supercard":
			head = 2
		case "ch.cumulus":
			head = 0
		case "ch.postfinance":
			tail = 2
			for i, l := range lines {
				if strings.Contains(l, "Buchungsdatum") {
					head = i + 1
				}
			}
		case "us.interactivebrokers":
			for i, l := range lines {
				if strings.Contains(l, "Base Currency") || strings.Contains(l, "Period") {
					head = i + 1
				}
			}
		}
		if head+tail >= len(lines) {
			continue
		}
		body := lines[head : len(lines)-tail]
		step := 1
		if len(body) > 40 {
			step = len(body) / 40
		}
		for k := 0; k < len(body); k += step {
			file := strings.Join(lines[:head], "") + body[k]
			if sp.St.Imp == "ch.swissquote" && k+1 < len(body) {
				file += body[k+1] // forex rows come in pairs
			}
			file += strings.Join(lines[len(lines)-tail:], "")
			res = append(res, &c13Case{Stream: "directed", Idx: si*1000 + k, Mut: fmt.Sprintf("row %d of %s/%d alone", k, sp.Stream, sp.Idx),
				St: &c13Stmt{Imp: sp.St.Imp, Flags: sp.St.Flags, Args: sp.St.Args, File: []byte(file), Tags: []string{"directed"}, Rows: 1}})
		}
	}
	return res
}

// c13CaseFromInput rebuilds a case from the input recorded in a finding (replay of derived cases).
func c13CaseFromInput(in map[string]any, stream string, idx int) *c13Case {
	imp, _ := in["importer"].(string)
	hexs, _ := in["statement_hex"].(string)
	strs := func(v any) []string {
		var res []string
		if xs, ok := v.([]any); ok {
			for _, x := range xs {
				s, _ := x.(string)
				res = append(res, s)
			}
		}
		return res
	}
	if imp == "" || hexs == "" {
		return nil
	}
	mut, _ := in["mutation"].(string)
	return &c13Case{Stream: stream, Idx: idx, Mut: mut, St: &c13Stmt{Imp: imp, Flags: strs(in["flag_list"]), Args: strs(in["arg_list"]), File: []byte(UnHex(hexs)), Tags: []string{"replay"}, Rows: 1}}
}

func c13RunCases(c *Ctx, dir string, cases []*c13Case) {
	const chunk = 4000
	for lo := 0; lo < len(cases); lo += chunk {
		hi := lo + chunk
		if hi > len(cases) {
			hi = len(cases)
		}
		part := cases[lo:hi]
		parallelFor(len(part), 16, func(k int) { c13Run(c, dir, part[k]) })
		bt := c.NewBatch()
		for _, pc := range part {
			c13Evaluate(c, bt, pc)
		}
		bt.Flush()
		for _, pc := range part {
			pc.Out, pc.PrintOut, pc.PrintInput, pc.St.File = "", "", "", nil
		}
	}
}

func runC13(c *Ctx) {
	dir := filepath.Join(c.WorkDir, "c13")
	os.MkdirAll(dir, 0o755)
	c13Suspects = nil
	if c.Replay && c.ReplayInput != nil && (c.OnlyStr == "directed" || c.OnlyStr == "golden") {
		if pc := c13CaseFromInput(c.ReplayInput, c.OnlyStr, c.OnlyIndex); pc != nil {
			c13RunCases(c, dir, []*c13Case{pc})
		}
		return
	}
	runC13Lib(c)
	perImp := c.N(700, 8000)
	perImpMal := c.N(250, 2500)
	var cases []*c13Case
	for k, imp := range c13Importers {
		for i := 0; i < perImp; i++ {
			idx := k*1000000 + i
			if !c.Want("stmt", idx) {
				continue
			}
			r := c.Rng("stmt", idx)
			cases = append(cases, &c13Case{Stream: "stmt", Idx: idx, St: c13Gen(r, imp)})
		}
		for i := 0; i < perImpMal; i++ {
			idx := k*1000000 + i
			if !c.Want("malformed", idx) {
				continue
			}
			r := c.Rng("malformed", idx)
			st := c13Gen(r, imp)
			mut := c13Mutate(r, st)
			cases = append(cases, &c13Case{Stream: "malformed", Idx: idx, St: st, Mut: mut})
		}
	}
	// stream flags: the importers with several account flags, on every way in which these flags can name the same account
	// or Expenses:TBD (the set partitions of {TBD, flag 1, …, flag k}, taken in turn by the index: 2 for revolut2, 5 for
	// com.wise, 203 for the two brokers). The flags differ from the import account, as the theorems assume; the statement and
	// the generator's reading of it are those of the stmt stream, so all its monitors apply.
	for k, imp := range c13Importers {
		per := map[string]int{"revolut2": c.N(60, 600), "com.wise": c.N(100, 1000), "ch.swissquote": c.N(406, 4060), "us.interactivebrokers": c.N(406, 4060)}[imp]
		for i := 0; i < per; i++ {
			idx := k*1000000 + i
			if !c.Want("flags", idx) {
				continue
			}
			r := c.Rng("flags", idx)
			st := c13GenBase(r, imp)
			ps := c13Partitions(len(c13FlagSlots(st)))
			c13ApplyPartition(st, ps[i%len(ps)])
			cases = append(cases, &c13Case{Stream: "flags", Idx: idx, St: st})
		}
	}
	// the repository's own example statements, as a fixed corpus
	if !c.Replay {
		cases = append(cases, c13Golden(c)...)
	}
	c13RunCases(c, dir, cases)
	// several statement files in one invocation (the importers that take more than one): every booking row still yields
	// exactly one transaction, so the output holds as many transactions as the outputs for the single files together
	if !c.Replay || c.OnlyStr == "multi" {
		c13Multi(c, dir)
	}
	// long statements whose output is read by paced consumers
	if !c.Replay || c.OnlyStr == "big" {
		runC13Big(c, dir)
	}
	// long free-text fields and long physical lines
	if !c.Replay || c.OnlyStr == "long" {
		runC13Long(c, dir)
	}
	// directed search around disagreements: every row of a disagreeing statement alone
	if len(c13Suspects) > 0 && !c.Replay {
		directed := c13Directed(c13Suspects)
		c.Notes = append(c.Notes, fmt.Sprintf("directed search: %d one-row statements cut from %d statements on which importer and model disagree", len(directed), len(c13Suspects)))
		c13RunCases(c, dir, directed)
	}
	c.Notes = append(c.Notes,
		"row models and Faithful theorems exist for all eleven importers; the text-level validity clause (printed text parses and re-prints unchanged) is decided by the monitors output_parses, output_parses_lean_parser, output_accepted, output_reprinted_unchanged on the REAL output",
		"known by-design deviations are reported as KNOWN-FINDING lines: wise books a conversion row as two transactions, swissquote books a forex pair (two rows) as one, interactivebrokers rounds to cents; the three repaired findings (postfinance debug line, quote replaced after sorting, swissquote sale without proceeds) are ordinary violations if they return")
}

// ---------------------------------------------------------------- stream long: long fields, long physical lines
//
// See c13GenLong (c13gen.go). Per importer the indices run through twelve classes of length (on the field / on the physical
// line; at 4096, 65536, 1 MiB, another power of two, +-2; just above 64 KiB; log-uniform in 1 KiB .. 1 MiB); the statement goes
// through c13Evaluate like a stmt case: byte comparison with the Lean model, all monitors, `knut print` on opens + output.
// The Lean model and predicates take about a second per MiB of statement, so the quick tier keeps three in four of the MiB
// classes at 64 KiB; the thorough tier runs them all.
func runC13Long(c *Ctx, dir string) {
	per := c.N(12, 96)
	t0 := time.Now()
	type slot struct {
		idx, i int
		imp    string
	}
	var slots []slot
	for k, imp := range c13Importers {
		for i := 0; i < per; i++ {
			if idx := k*1000000 + i; c.Want("long", idx) {
				slots = append(slots, slot{idx, i, imp})
			}
		}
	}
	if len(slots) == 0 {
		return
	}
	total, maxLine, maxStmt := 0, 0, 0
	hugeOff := c.Rng("long-huge", 0).Intn(4)
	var inexact []string
	build := func(sl slot) *c13Case {
		// quick tier: the MiB classes at full size for one importer in four, which ones depends on the seed
		huge := c.Thorough() || (sl.idx/1000000+sl.i/4+hugeOff)%4 == 0
		st, lc := c13GenLong(func() *RNG { return c.Rng("long", sl.idx) }, sl.imp, sl.i%12, huge)
		pc := &c13Case{Stream: "long", Idx: sl.idx, St: st, Timeout: 120 * time.Second}
		if len(st.File) <= 100000 {
			pc.Compact = pc.input()
		} else {
			pc.Compact = map[string]any{"importer": st.Imp, "args": strings.Join(st.Args, " "), "arg_list": st.Args, "flag_list": st.Flags,
				"statement_bytes": len(st.File), "statement_sha256": fmt.Sprintf("%x", sha256.Sum256(st.File)), "statement_head": clip(string(st.File)),
				"note": "the statement is a function of (seed, stream long, index): bin/check --replay regenerates it"}
		}
		pc.Compact["rows"] = st.Rows
		pc.Compact["long"] = *lc
		kind := "-"
		for j, f := range lc.Fields {
			if j == 0 || f.Len > lc.Want/2 {
				kind = f.Kind
			}
		}
		edge := "free"
		if lc.Edge > 0 {
			edge = fmt.Sprintf("%d%+d", lc.Edge, lc.Want-lc.Edge)
		}
		c.Class(fmt.Sprintf("long/%s/%s/%s/%s/%s/%s", st.Imp, lc.Target, c13SizeClass(lc.Want), edge, kind, lc.Where))
		c.Tag("long:" + lc.Target + ":" + c13SizeClass(lc.MaxLine))
		if lc.Target == "line" && !lc.Exact {
			c.Tag("long:line-length-not-exact")
			if len(inexact) < 8 {
				inexact = append(inexact, fmt.Sprintf("%d (%s, %s): longest physical line %d bytes for %d wanted", sl.idx, st.Imp, kind, lc.MaxLine, lc.Want))
			}
		}
		if len(lc.Fields) == 0 {
			c.Tag("long:no-free-text-in-statement")
		}
		total += len(st.File)
		maxLine = max(maxLine, lc.MaxLine)
		maxStmt = max(maxStmt, len(st.File))
		if sl.idx == 0 {
			c.Sample(map[string]any{"stream": "long", "importer": st.Imp, "rows": st.Rows, "statement_bytes": len(st.File), "long": *lc})
		}
		return pc
	}
	// a few at a time: each case holds its statement, the output and the texts sent to the model
	const chunk = 48
	for lo := 0; lo < len(slots); lo += chunk {
		var cases []*c13Case
		for _, sl := range slots[lo:min(lo+chunk, len(slots))] {
			cases = append(cases, build(sl))
		}
		c13RunCases(c, dir, cases)
	}
	c.Extra["long_cases"] = len(slots)
	c.Extra["long_statement_bytes"] = total
	c.Extra["long_largest_statement_bytes"] = maxStmt
	c.Extra["long_longest_physical_line"] = maxLine
	c.Extra["long_line_length_not_exact"] = inexact
	c.Extra["long_wall_s"] = fmt.Sprintf("%.1f", time.Since(t0).Seconds())
}

// ---------------------------------------------------------------- stream big: long statements, paced consumers of stdout
//
// The property speaks about the text the importer EMITS, for every well-formed statement: also for the export of several
// years of a busy account, and whoever reads the importer's standard output (`knut import … > file`, `| less`, `| ssh`, a
// script that reads line by line). The other streams read stdout eagerly and stay below 60 rows, i.e. below every buffer
// between journal.Print and the consumer. Here a statement has hundreds to tens of thousands of rows (output from about
// 100 KiB to several MiB: many times bufio's 4 KiB, the pipe's 64 KiB, and any block or ring a writer may keep) and the same
// import runs once with an eager reader - with the stmt stream's oracle, model comparison and all its monitors - and then
// through consumers that start late, stall at an offset, read slowly, in tiny pieces or in bursts, through pipes of 4 KiB to
// 1 MiB capacity, or into a regular file (the consumers of C17's stream paced). What a consumer receives must be, byte for
// byte, what the eager reader received and what the model prints, and the property's clauses are evaluated on the bytes of
// every consumer: output_parses, one_transaction_per_row, faithful_to_statement.

// the importers in the order in which the indices take them (the first ones differ most in shape)
var c13BigOrder = []string{"ch.swisscard2", "revolut2", "ch.swissquote", "ch.postfinance", "com.wise", "ch.supercard", "us.interactivebrokers", "ch.cumulus",
	"revolut", "ch.swisscard", "ch.viac"}

var c13BigKinds = []string{"late", "stall", "slow", "tiny", "burst", "late", "stall", "file"}

type c13BigRun struct {
	pace     c17pace
	code     int
	out, err string
	timeout  bool
}

type c13BigCase struct {
	pc   *c13Case
	rows int
	runs []*c13BigRun
	path string
}

func c13SizeClass(n int) string {
	switch {
	case n <= 65536:
		return "<=64K"
	case n <= 262144:
		return "64-256K"
	case n <= 1<<20:
		return "256K-1M"
	case n <= 17*65536:
		return "1M-17x64K"
	case n <= 2<<20:
		return "-2M"
	case n <= 4<<20:
		return "2-4M"
	}
	return ">4M"
}

// bytes of output per statement row, roughly (ch.viac: per price line); only used to turn a size into a row count
var c13BigBytesPerRow = map[string]int{"ch.swisscard2": 147, "revolut2": 129, "ch.swissquote": 206, "ch.postfinance": 123, "com.wise": 175, "ch.supercard": 85,
	"us.interactivebrokers": 204, "ch.cumulus": 103, "revolut": 187, "ch.swisscard": 149, "ch.viac": 34}

// the models of these two importers append every row's transaction to the end of a list (as the Go code appends to a slice),
// which makes the model run quadratic in the rows: 14000 rows (1.4 / 2.6 MiB of output) take it a few seconds
var c13BigRowCap = map[string]int{"ch.cumulus": 14000, "revolut": 14000}

// c13BigRows draws the size of the output - a few buffers' worth, up to a MiB, or (five indices in eight) well beyond, where a
// MiB is also the largest pipe and any plausible ring of blocks - and returns the row count that gives about that size.
func c13BigRows(c *Ctx, r *RNG, idx int, imp string) int {
	var size int
	switch []byte("LLMLSLML")[idx%8] {
	case 'S':
		size = r.Range(100<<10, 300<<10)
	case 'M':
		size = r.Range(300<<10, 1100<<10)
	default:
		size = r.Range(1200<<10, c.N(2400<<10, 6<<20))
	}
	rows := size / c13BigBytesPerRow[imp]
	if m := c13BigRowCap[imp]; m > 0 && rows > m {
		rows = m
	}
	return rows
}

func c13BigStatement(c *Ctx, idx int) *c13BigCase {
	r := c.Rng("big", idx)
	imp := c13BigOrder[idx%len(c13BigOrder)]
	rows := c13BigRows(c, r, idx, imp)
	c13ForceRows = rows
	st := c13Gen(r, imp)
	c13ForceRows = 0
	pc := &c13Case{Stream: "big", Idx: idx, St: st, Timeout: 120 * time.Second, KeepModel: true}
	return &c13BigCase{pc: pc, rows: rows}
}

var c13BigFull int // findings of the stream that carry the whole statement (the others: digest and head; all replay from seed and index)

func (bc *c13BigCase) input(p *c17pace) map[string]any {
	st := bc.pc.St
	m := map[string]any{"importer": st.Imp, "args": strings.Join(st.Args, " "), "arg_list": st.Args, "flag_list": st.Flags, "rows": bc.rows,
		"statement_bytes": len(st.File), "statement_head": clip(string(st.File)),
		"note": "the statement is a function of (seed, stream big, index): bin/check --replay regenerates it"}
	if p != nil {
		m["consumer_of_stdout"] = *p
	}
	return m
}

// runC13Big runs the stream; cases are taken a few at a time (each holds several copies of an output of several MiB).
func runC13Big(c *Ctx, dir string) {
	n := c.N(5, 33)
	npace := c.N(3, 4)
	const watchdog = 120 * time.Second
	var idxs []int
	for i := 0; i < n; i++ {
		if c.Want("big", i) {
			idxs = append(idxs, i)
		}
	}
	if len(idxs) == 0 {
		return
	}
	t0 := time.Now()
	var tEager, tPaced, tEval time.Duration
	nruns, differing, blocked, maxOut := 0, 0, 0, 0
	var sizes []string
	const chunk = 6
	for lo := 0; lo < len(idxs); lo += chunk {
		hi := lo + chunk
		if hi > len(idxs) {
			hi = len(idxs)
		}
		var cases []*c13BigCase
		for _, i := range idxs[lo:hi] {
			cases = append(cases, c13BigStatement(c, i))
		}
		// phase 1: the eager run (and `knut print` on opens + output)
		t1 := time.Now()
		parallelFor(len(cases), 6, func(k int) { c13Run(c, dir, cases[k].pc) })
		tEager += time.Since(t1)
		// phase 2: the consumers
		type job struct {
			bc  *c13BigCase
			run *c13BigRun
		}
		var jobs []job
		for _, bc := range cases {
			pc := bc.pc
			if pc.Code != 0 {
				continue
			}
			r := c.Rng("big-pace", pc.Idx)
			start := r.Intn(len(c13BigKinds))
			for j := 0; j < npace; j++ {
				p := genC17Pace(r, c13BigKinds[(start+j)%len(c13BigKinds)], len(pc.Out), c.N(1200, 2600))
				if p.Kind == "stall" && r.Chance(1, 2) {
					// just around the multiples of 64 KiB and of 1 MiB
					p.StallAt = Pick(r, []int{1, 2, 3, 15, 16, 17, 31, 32, 33})*65536 + r.Range(-2, 2)
				}
				bc.runs = append(bc.runs, &c13BigRun{pace: p})
			}
			bc.path = filepath.Join(dir, fmt.Sprintf("big-%d.stmt", pc.Idx))
			os.WriteFile(bc.path, pc.St.File, 0o644)
			for _, run := range bc.runs {
				jobs = append(jobs, job{bc, run})
			}
		}
		t2 := time.Now()
		parallelFor(len(jobs), 6, func(k int) {
			jb := jobs[k]
			st := jb.bc.pc.St
			args := append(append([]string{"import", st.Imp}, st.Args...), jb.bc.path)
			out, stderr, err := c17RunPaced(c.KnutBin, watchdog, jb.run.pace, fmt.Sprintf("%s.out%d", jb.bc.path, k), args...)
			jb.run.out, jb.run.err = out, stderr
			if err != nil {
				jb.run.code = -1
				if ee, ok := err.(*exec.ExitError); ok {
					jb.run.code = ee.ExitCode()
				}
				jb.run.timeout = err.Error() == "timeout"
			}
		})
		tPaced += time.Since(t2)
		// phase 3: verdicts
		t3 := time.Now()
		for _, bc := range cases {
			if bc.path != "" {
				os.Remove(bc.path)
			}
			pc := bc.pc
			st := pc.St
			pc.Compact = bc.input(nil)
			if c13BigFull < 2 {
				pc.Compact["statement"] = string(st.File) // ISO 8859-1 statements: shown as far as JSON carries them
			}
			failedBefore := c.FindingCount["monitor"]
			bt := c.NewBatch()
			c13Evaluate(c, bt, pc)
			bt.Flush()
			eagerClean := c.FindingCount["monitor"] == failedBefore
			if !eagerClean {
				c13BigFull++
			}
			if len(pc.Out) > maxOut {
				maxOut = len(pc.Out)
			}
			c.Class(fmt.Sprintf("big/%s/out%s", st.Imp, c13SizeClass(len(pc.Out))))
			if len(sizes) < 80 {
				sizes = append(sizes, fmt.Sprintf("%d %s: %d rows, statement %d bytes, output %d bytes", pc.Idx, st.Imp, bc.rows, len(st.File), len(pc.Out)))
			}
			if pc.Idx < 1 {
				c.Sample(map[string]any{"stream": "big", "importer": st.Imp, "rows": bc.rows, "statement_bytes": len(st.File), "output_bytes": len(pc.Out), "consumers": len(bc.runs)})
			}
			eagerImpl := c13Outcome(pc.Code, pc.Out, pc.Err)
			for _, run := range bc.runs {
				run := run
				nruns++
				p := run.pace
				in := bc.input(&p)
				if run.timeout {
					c.Tag("big:consumer-timeout")
					c.Notes = append(c.Notes, fmt.Sprintf("big %d: watchdog expired for consumer %+v (not evaluated)", pc.Idx, p))
					continue
				}
				capacity := p.Pipe
				if capacity == 0 {
					capacity = 65536
				}
				if p.Kind != "file" && len(pc.Out) > capacity+4096 && (p.Stall >= 100 || p.Pause >= 100) {
					blocked++
				}
				c.Class(fmt.Sprintf("big-consumer/%s/pipe%d/out%s", p.Kind, p.Pipe, c13SizeClass(len(pc.Out))))
				impl := c13Outcome(run.code, run.out, run.err)
				// correspondence: the consumer's bytes are the eager reader's bytes and the model's text
				c.Compare("big", pc.Idx, "import:"+st.Imp+" (paced consumer = eager reader)", in, clipOutcome(impl), clipOutcome(eagerImpl))
				if pc.Model != "" && pc.Model != "unsupported" {
					if !c.Compare("big", pc.Idx, "import:"+st.Imp+" (paced consumer)", in, clipOutcome(impl), clipOutcome(pc.Model)) {
						f := &c.Findings[len(c.Findings)-1]
						if strings.HasPrefix(pc.Model, "ok ") && strings.HasPrefix(impl, "ok ") {
							f.Impl = c17FirstDiff(UnHex(strings.TrimPrefix(pc.Model, "ok ")), run.out)
						}
					}
				}
				// monitors on the consumer's bytes
				if !c13Monitor(c, pc, "big", pc.Idx, "wellformed_statement_imports (paced consumer)", in, run.code == 0, fmt.Sprintf("exit %d\n%s", run.code, clip(run.err))) {
					continue
				}
				if run.out == pc.Out {
					// the bytes the clauses were evaluated on above
					if eagerClean {
						c.Monitor("big", pc.Idx, "output_parses (paced consumer)", nil, true, "")
						c.Monitor("big", pc.Idx, "faithful_to_statement (paced consumer)", nil, true, "")
						if st.OneTx {
							c.Monitor("big", pc.Idx, "one_transaction_per_row (paced consumer)", nil, true, "")
						}
					}
					continue
				}
				differing++
				if c13BigFull < 2 {
					in["statement"] = string(st.File)
					c13BigFull++
				}
				rd := c13ReadOutput(run.out)
				if !c13Monitor(c, pc, "big", pc.Idx, "output_parses (paced consumer)", in, rd.OK,
					"the importer's output as this consumer received it is rejected by knut's parser: "+rd.Err+"\n"+c17FirstDiff(pc.Out, run.out)) {
					continue
				}
				c13FidelityMonitors(c, bt, pc, in, rd, c17FirstDiff(pc.Out, run.out), " (paced consumer)")
			}
			bt.Flush()
			pc.Out, pc.PrintOut, pc.PrintInput, pc.Journal, pc.Model, st.File = "", "", "", "", "", nil
			bc.runs = nil
		}
		tEval += time.Since(t3)
	}
	c.Extra["big_cases"] = len(idxs)
	c.Extra["big_consumer_runs"] = nruns
	c.Extra["big_consumer_runs_with_other_bytes"] = differing
	c.Extra["big_consumer_runs_blocking_100ms"] = blocked
	c.Extra["big_largest_output_bytes"] = maxOut
	c.Extra["big_statements"] = sizes
	c.Extra["big_wall_s"] = fmt.Sprintf("total %.1f: eager runs %.1f, paced runs %.1f, model and monitors %.1f", time.Since(t0).Seconds(), tEager.Seconds(), tPaced.Seconds(), tEval.Seconds())
}

// clipOutcome keeps a comparison of two outputs of several MiB exact and its record small: equal strings stay equal, different
// ones stay different (length and digest of the whole are appended to the head).
func clipOutcome(s string) string {
	if len(s) <= 4000 {
		return s
	}
	return fmt.Sprintf("%s… [%d bytes, sha256 %x]", s[:2000], len(s), sha256.Sum256([]byte(s)))
}

// ---------------------------------------------------------------- corpus: the golden files of the repository

func c13Golden(c *Ctx) []*c13Case {
	type g struct {
		imp, dir string
		flags    []string
		args     []string
	}
	six := []string{"Assets:IB", "Income:Dividends", "Expenses:Tax", "Expenses:Fees", "Income:Interest", "Expenses:Trading"}
	sixArgs := []string{"--account", six[0], "--dividend", six[1], "--tax", six[2], "--fee", six[3], "--interest", six[4], "--trading", six[5]}
	gs := []g{
		{"ch.swisscard2", "swisscard2", []string{"Liabilities:CreditCard"}, []string{"--account", "Liabilities:CreditCard"}},
		{"ch.swisscard", "swisscard", []string{"Liabilities:CreditCard"}, []string{"--account", "Liabilities:CreditCard"}},
		{"ch.supercard", "supercard", []string{"Liabilities:CreditCard"}, []string{"--account", "Liabilities:CreditCard"}},
		{"ch.cumulus", "cumulus", []string{"Liabilities:Cumulus"}, []string{"--account", "Liabilities:Cumulus"}},
		{"ch.postfinance", "postfinance", []string{"Assets:Postfinance"}, []string{"--account", "Assets:Postfinance"}},
		{"revolut2", "revolut2", []string{"Assets:Accounts:Revolut", "Expenses:Fees"}, []string{"--account", "Assets:Accounts:Revolut", "--fee", "Expenses:Fees"}},
		{"revolut", "revolut", []string{"Assets:Accounts:Revolut"}, []string{"--account", "Assets:Accounts:Revolut"}},
		{"com.wise", "wise", []string{"Assets:Accounts:Wise", "Expenses:Fees", "Expenses:Trading"}, []string{"--account", "Assets:Accounts:Wise", "--fee", "Expenses:Fees", "--trading", "Expenses:Trading"}},
		{"ch.viac", "viac", []string{"Viac", "0"}, []string{"--commodity", "Viac"}},
		{"ch.swissquote", "swissquote", six, sixArgs},
		{"us.interactivebrokers", "interactivebrokers", six, sixArgs},
	}
	repo := os.Getenv("KNUT_REPO")
	if repo == "" {
		repo = "/repo"
	}
	var res []*c13Case
	for i, x := range gs {
		b, err := os.ReadFile(filepath.Join(repo, "cmd/importer", x.dir, "testdata/example1.input"))
		if err != nil {
			c.Notes = append(c.Notes, "golden input missing: "+x.dir)
			continue
		}
		res = append(res, &c13Case{Stream: "golden", Idx: i, St: &c13Stmt{Imp: x.imp, Flags: x.flags, Args: x.args, File: b, Tags: []string{"golden"}, Rows: bytes.Count(b, []byte("\n"))}})
	}
	return res
}

// ---------------------------------------------------------------- malformed stream

// c13Mutate damages a well-formed statement (fields, structure, bytes, flags) and says how.
func c13Mutate(r *RNG, st *c13Stmt) string {
	d := c13Dialects[st.Imp]
	st.Items, st.Strict = nil, nil
	text := string(st.File)
	lines := strings.SplitAfter(text, "\n")
	pickLine := func() int {
		if len(lines) <= 1 {
			return 0
		}
		return r.Intn(len(lines))
	}
	sep := string(d.Comma)
	if d.JSON {
		sep = ","
	}
	mut := ""
	switch r.Intn(14) {
	case 0:
		st.File = nil
		return "empty file"
	case 1:
		cut := r.Intn(len(text) + 1)
		st.File = []byte(text[:cut])
		return fmt.Sprintf("truncated at byte %d", cut)
	case 2:
		i := pickLine()
		lines = append(lines[:i], lines[i+1:]...)
		mut = fmt.Sprintf("line %d removed", i)
	case 3:
		i := pickLine()
		lines = append(lines[:i+1], append([]string{lines[i]}, lines[i+1:]...)...)
		mut = fmt.Sprintf("line %d doubled", i)
	case 4:
		i := pickLine()
		lines[i] = strings.Replace(lines[i], sep, sep+sep, 1)
		mut = fmt.Sprintf("extra field in line %d", i)
	case 5:
		i := pickLine()
		if k := strings.LastIndex(lines[i], sep); k >= 0 {
			lines[i] = lines[i][:k] + "\n"
		}
		mut = fmt.Sprintf("last field of line %d dropped", i)
	case 6:
		i := pickLine()
		pos := r.Intn(len(lines[i]) + 1)
		lines[i] = lines[i][:pos] + "\"" + lines[i][pos:]
		mut = fmt.Sprintf("stray quote in line %d", i)
	case 7, 8:
		// damage a number or a date: replace one digit run
		i := pickLine()
		runs := regexp.MustCompile(`[0-9]+`).FindAllStringIndex(lines[i], -1)
		if len(runs) > 0 {
			loc := runs[r.Intn(len(runs))]
			repl := Pick(r, []string{"", "x", "99", "0", "1e30", "١٢", "00", "-", "3.3.3", " 5", "32", "13", "0000", "20200", "1'0"})
			lines[i] = lines[i][:loc[0]] + repl + lines[i][loc[1]:]
			mut = fmt.Sprintf("digit run -> %q in line %d", repl, i)
		} else {
			mut = "no digits to damage"
		}
	case 9:
		// damage a currency / keyword: replace an upper-case run
		i := pickLine()
		runs := regexp.MustCompile(`[A-Z]{3,}`).FindAllStringIndex(lines[i], -1)
		if len(runs) > 0 {
			loc := runs[r.Intn(len(runs))]
			repl := Pick(r, []string{"", "C-F", "CH F", "chf", "€", "TOTAL", "Total"})
			lines[i] = lines[i][:loc[0]] + repl + lines[i][loc[1]:]
			mut = fmt.Sprintf("word -> %q in line %d", repl, i)
		} else {
			mut = "no word to damage"
		}
	case 10:
		// an invalid account or commodity flag
		bad := Pick(r, []string{"Foo:Bar", "Assets:", "Assets:a b", "assets:x", ":", "Assets:x-y"})
		for i := range st.Args {
			if !strings.HasPrefix(st.Args[i], "--") && i > 0 && st.Args[i-1] != "--from" && r.Chance(1, 2) {
				st.Args[i] = bad
				st.Flags[(i-1)/2] = bad
				return fmt.Sprintf("flag %s = %q", st.Args[i-1], bad)
			}
		}
		mut = "flags unchanged"
	case 11:
		i := pickLine()
		lines[i] = "\n"
		mut = fmt.Sprintf("line %d blanked", i)
	case 12:
		i, j := pickLine(), pickLine()
		lines[i], lines[j] = lines[j], lines[i]
		mut = fmt.Sprintf("lines %d and %d swapped", i, j)
	default:
		// random byte
		if len(text) > 0 {
			b := []byte(text)
			pos := r.Intn(len(b))
			b[pos] = Pick(r, []byte{'"', ';', ',', '\n', ' ', '0', 'x', '.', '-', '{', ']', 0xff})
			st.File = b
			return fmt.Sprintf("byte %d overwritten", pos)
		}
		mut = "nothing to overwrite"
	}
	st.File = []byte(strings.Join(lines, ""))
	return mut
}

// c13Multi: `knut import <imp> flags f1 f2` against the two single-file imports.
func c13Multi(c *Ctx, dir string) {
	type job struct {
		idx           int
		imp           string
		a, b          *c13Stmt
		c1, c2, c12   int
		o1, o2, o12   string
		e12           string
		n1, n2, n12   int
		ok1, ok2, ok3 bool
	}
	var jobs []*job
	for k, imp := range []string{"revolut2", "com.wise"} {
		for i := 0; i < c.N(120, 1500); i++ {
			idx := k*1000000 + i
			if !c.Want("multi", idx) {
				continue
			}
			r := c.Rng("multi", idx)
			jb := &job{idx: idx, imp: imp, a: c13Gen(r, imp), b: c13Gen(r, imp)}
			if r.Chance(1, 5) {
				jb.b = jb.a // the same export twice (overlapping downloads)
			}
			jobs = append(jobs, jb)
		}
	}
	parallelFor(len(jobs), 16, func(q int) {
		jb := jobs[q]
		p1 := filepath.Join(dir, fmt.Sprintf("multi-%d-a.stmt", jb.idx))
		p2 := filepath.Join(dir, fmt.Sprintf("multi-%d-b.stmt", jb.idx))
		os.WriteFile(p1, jb.a.File, 0o644)
		os.WriteFile(p2, jb.b.File, 0o644)
		defer os.Remove(p1)
		defer os.Remove(p2)
		base := append([]string{"import", jb.imp}, jb.a.Args...)
		jb.c1, jb.o1, _ = runKnut(c.KnutBin, 30*time.Second, nil, append(append([]string{}, base...), p1)...)
		jb.c2, jb.o2, _ = runKnut(c.KnutBin, 30*time.Second, nil, append(append([]string{}, base...), p2)...)
		jb.c12, jb.o12, jb.e12 = runKnut(c.KnutBin, 30*time.Second, nil, append(append([]string{}, base...), p1, p2)...)
		r1, r2, r3 := c13ReadOutput(jb.o1), c13ReadOutput(jb.o2), c13ReadOutput(jb.o12)
		jb.n1, jb.n2, jb.n12 = r1.NTx, r2.NTx, r3.NTx
		jb.ok1, jb.ok2, jb.ok3 = r1.OK, r2.OK, r3.OK
	})
	for _, jb := range jobs {
		c.Evals++
		in := map[string]any{"importer": jb.imp, "args": strings.Join(jb.a.Args, " "), "statement_1": string(jb.a.File), "statement_2": string(jb.b.File)}
		c.Class(fmt.Sprintf("multi/%s/exit%d%d%d/rows%s", jb.imp, jb.c1, jb.c2, jb.c12, bucket(jb.a.Rows+jb.b.Rows)))
		if jb.c1 != 0 || jb.c2 != 0 {
			c.Monitor("multi", jb.idx, "a statement that fails alone fails the joint import", in, jb.c12 != 0, fmt.Sprintf("exit codes %d %d, joint %d", jb.c1, jb.c2, jb.c12))
			continue
		}
		if !c.Monitor("multi", jb.idx, "two importable statements import together", in, jb.c12 == 0 && jb.ok3, fmt.Sprintf("exit %d: %s", jb.c12, clip(jb.e12))) {
			continue
		}
		if jb.ok1 && jb.ok2 {
			c.Monitor("multi", jb.idx, "one transaction per booking row (joint import = sum of the single imports)", in, jb.n12 == jb.n1+jb.n2,
				fmt.Sprintf("transactions: file 1 alone %d, file 2 alone %d, both %d\n%s", jb.n1, jb.n2, jb.n12, clip(jb.o12)))
		}
	}
}
