import Knut.Generated.ProcOrder
/-! # Processor order of `knut print`: the extracted list is the one the composition modules assume

Part of the tie described in `FactsAgree/ProcOrder.lean` (extractor `harness/facts_procorder.go`, regenerated on every run of `bin/check`);
a module of its own so that a change of another command's processor list does not break the properties of this one (C09). -/
namespace Knut.FactsAgree.ProcOrder
open Knut.Generated.ProcOrder

/-- `knut print` (`cmd/commands/print.go`): ONE processor, the package-level `check.Check()` (a fresh checker without `Write`) —
again the stage of `TransProcessAllCheck`; the journal is printed afterwards, outside the pipeline. -/
theorem printOrder_eq : printOrder = ["check.Check"] := by decide

theorem printCalls_eq : printCalls = [("check.Check", [])] := by decide

end Knut.FactsAgree.ProcOrder
