import Knut.GoSem.Strings
/-!
# String primitives of the importers (`harness/trans_units_import.go`)

`regexp.MustCompile(`\s+`).ReplaceAllString(src, repl)` (`ch.supercard` `parseWords`; the pattern text is listed in `trRegexpPrelude`,
the replacement is a constant without `$`): `\s` is the Perl class `[\t\n\f\r ]` (ASCII only — not `unicode.IsSpace`); `+` is greedy
and leftmost, so every MAXIMAL run of such characters is replaced by `repl` once; the pattern never matches the empty string.

A copy of `Import.collapseWsChars` of `Model/Import/Common.lean` (with the replacement as a parameter), so that the generated modules
need not import the model; `FactsAgree/TransImportSupercard.lean` proves the copy equal to the original (`replaceAllWs_model`).  The
original is compared with the real `regexp` by the stream `lib-str` of C13.
-/
namespace Knut.GoSem

namespace Regexp

/-- regexp `\s` = `[\t\n\f\r ]` -/
def isSpaceRe (c : Char) : Bool := c == '\t' || c == '\n' || c == '\x0c' || c == '\r' || c == ' '

theorem length_dropWhile_le {α : Type} (p : α → Bool) (l : List α) : (l.dropWhile p).length ≤ l.length := by
  induction l with
  | nil => simp
  | cons a t ih => simp only [List.dropWhile_cons]; split <;> simp <;> omega

def replaceAllWsChars (repl : List Char) : List Char → List Char
  | [] => []
  | c :: rest =>
    if isSpaceRe c then repl ++ replaceAllWsChars repl (rest.dropWhile isSpaceRe) else c :: replaceAllWsChars repl rest
termination_by cs => cs.length
decreasing_by
  all_goals simp_wf
  · have := length_dropWhile_le isSpaceRe rest; omega

/-- `regexp.MustCompile("\\s+").ReplaceAllString(src, repl)` for a replacement without `$` -/
def replaceAllWs (src repl : String) : String := String.ofList (replaceAllWsChars repl.toList src.toList)

end Regexp

end Knut.GoSem
