module verifharness

go 1.21

require github.com/sboehler/knut v0.0.0

replace github.com/sboehler/knut => /repo
