import Knut.FactsAgree.TransCreate2
import Knut.Proofs.SyntaxDirSound
import Knut.Proofs.ElabFields
import Knut.Proofs.PrintSound
/-!
# The translated MODEL LAYER conversion, part 3: the hypotheses hold of parsed files; ONE file from its text to its model directives

Parts 1 and 2 (`TransCreate.lean`, `TransCreate2.lean`) prove `ParseDirective_agrees` for the Go tree of any model tree under
hypotheses about the texts of the fields (`DirectiveOK`).  Here:

* **the grammar guarantees the hypotheses** (`parsed_directivesOK`): the parser's soundness (`FromSyntax.parse_views` on top of
  `parseDirective_sound`, C07/C08) gives every directive of a parsed file a field view of token lists of the right lexical classes,
  validly encoded.  From the classes: every field is a text (`textOK_of`), account segments and commodities are alphanumeric and not
  empty (`accountOK_of_toks`, `commodityOK_of_toks`: what the registries check), the interval is one of the four keywords
  (`intervalOK_of_toks`), and a decimal is `-?X+(.X+)?` with `X` ranging over ALL Unicode digits (`unicode.IsDigit` in
  `parseDecimal`): `newFromString_eq_parseDec` shows that on this shape the model's `parseDec` and `decimal.NewFromString` agree — the
  same value for ASCII digits (file ≤ 2 GiB), both fail otherwise (`decimalOK_of_toks`).
* `ParseDirective_parsed`: `model.ParseDirective` on a directive of a parsed file, the `ext` parameters of `expand` computed from the
  directive's accrual node (`goParseDirectiveAt`), no hypothesis on the fields left.
* `goFromFile`: the per-file loop of `model.FromStream`, hand-written around the translated `ParseDirective`; `Seq.loadText_eq`: the
  model's `loadText` is the sequential load of the directives (`loadItems` with its accumulator, `loadFailed` on the prefix);
  **`FromFile_agrees`**, and with `ParseFile_agrees` **`text_to_directives`**: for every byte string of at most 2 GiB the translated
  parser followed by the translated conversion returns what the model's `loadText` computes.
-/
namespace Knut.FactsAgree.TransCreate
open Knut Knut.GoSem
open Knut.Generated.Go
open Knut.FactsAgree.TransScanner Knut.FactsAgree.TransParser

/-! ### decimals with Unicode digits: `parseDecimal` admits them, `parseDec` and `decimal.NewFromString` both reject them -/

section decimals
open Knut.Import

/-- a character that `decimal.NewFromString` gives no role: not an exponent mark, a point or a sign -/
def Plain (c : Char) : Prop := c ≠ 'E' ∧ c ≠ 'e' ∧ c ≠ '.' ∧ c ≠ '-' ∧ c ≠ '+'

theorem plain_of_isDig {c : Char} (h : isDig c = true) : Plain c := dig_props h

theorem udigit_E : Syntax.isDigit 69 = false := by decide +kernel
theorem udigit_e : Syntax.isDigit 101 = false := by decide +kernel
theorem udigit_dot : Syntax.isDigit 46 = false := by decide +kernel
theorem udigit_minus : Syntax.isDigit 45 = false := by decide +kernel
theorem udigit_plus : Syntax.isDigit 43 = false := by decide +kernel

/-- a Unicode digit (`unicode.IsDigit`) is plain -/
theorem plain_of_udigit {c : Char} (h : Syntax.isDigit c.toNat = true) : Plain c := by
  refine ⟨?_, ?_, ?_, ?_, ?_⟩ <;> (intro e; subst e)
  · rw [show ('E' : Char).toNat = 69 from rfl, udigit_E] at h; cases h
  · rw [show ('e' : Char).toNat = 101 from rfl, udigit_e] at h; cases h
  · rw [show ('.' : Char).toNat = 46 from rfl, udigit_dot] at h; cases h
  · rw [show ('-' : Char).toNat = 45 from rfl, udigit_minus] at h; cases h
  · rw [show ('+' : Char).toNat = 43 from rfl, udigit_plus] at h; cases h

theorem parseSignedInt_plain {l : List Char} (hne : l ≠ []) (h : ∀ c ∈ l, Plain c) :
    parseSignedInt l = (if l.all isDig then some (digitsVal l : Int) else none) ∧
      parseSignedInt ('-' :: l) = (if l.all isDig then some (-(digitsVal l : Int)) else none) := by
  obtain ⟨c, rest, rfl⟩ := List.exists_cons_of_ne_nil hne
  have hc := h c (by simp)
  constructor
  · unfold parseSignedInt
    have h1 : ((c :: rest).head? == some '-') = false := by simp [hc.2.2.2.1]
    simp only [h1]
    split
    · rename_i r e; simp only [List.cons.injEq] at e; exact absurd e.1 hc.2.2.2.1
    · rename_i r e; simp only [List.cons.injEq] at e; exact absurd e.1 hc.2.2.2.2
    · cases hall : (c :: rest).all isDig <;> simp [hall]
  · unfold parseSignedInt
    cases hall : (c :: rest).all isDig <;> simp [hall]


theorem plain_filter_ne {l : List Char} (h : ∀ c ∈ l, Plain c) : l.filter (· != '.') = l :=
  List.filter_eq_self.mpr (fun c hc => by have := (h c hc).2.2.1; simpa using this)

theorem plain_filter_eq {l : List Char} (h : ∀ c ∈ l, Plain c) : l.filter (· == '.') = [] :=
  List.filter_eq_nil_iff.mpr (fun c hc => by have := (h c hc).2.2.1; simpa using this)

theorem plain_noE {l : List Char} (h : ∀ c ∈ l, Plain c) : ∀ c ∈ l, (c != 'E' && c != 'e') = true := fun c hc => by
  have := h c hc; simp [this.1, this.2.1]

theorem plain_noDot {l : List Char} (h : ∀ c ∈ l, Plain c) : ∀ c ∈ l, (c != '.') = true := fun c hc => by
  have := h c hc; simp [this.2.2.1]

/-- `decimal.NewFromString` on `-?X+(.X+)?` for plain characters `X`: the value when they are all ASCII digits, an error otherwise -/
theorem newFromString_plain {s : String} {neg frac : Bool} {ip fp : List Char}
    (hs : s.toList = signOf neg ++ ip ++ fracOf frac fp) (hip : ip ≠ []) (hi : ∀ c ∈ ip, Plain c)
    (hf : ∀ c ∈ fp, Plain c) (h0 : frac = false → fp = []) (hlen : fp.length ≤ 2147483648) :
    newFromString s = if (ip ++ fp).all isDig then
        some (if frac then mkRat (if neg then -(digitsVal (ip ++ fp) : Int) else (digitsVal (ip ++ fp) : Int)) (10 ^ fp.length)
          else (((if neg then -(digitsVal ip : Int) else (digitsVal ip : Int)) : Int) : Rat))
      else none := by
  have hif : ∀ c ∈ ip ++ fp, Plain c := by
    intro c hc; rcases List.mem_append.mp hc with h | h
    · exact hi c h
    · exact hf c h
  have hne : ip ++ fp ≠ [] := by simp [hip]
  have hsign : ∀ c ∈ signOf neg, (c != 'E' && c != 'e') = true ∧ (c != '.') = true := by
    intro c hc; cases neg <;> simp [signOf] at hc; subst hc; decide
  have hallE : ∀ c ∈ signOf neg ++ ip ++ fracOf frac fp, (c != 'E' && c != 'e') = true := by
    intro c hc
    simp only [List.mem_append] at hc
    rcases hc with (h | h) | h
    · exact (hsign c h).1
    · exact plain_noE hi c h
    · cases frac
      · simp [fracOf] at h
      · simp only [fracOf, if_true, List.mem_cons] at h
        rcases h with h | h
        · subst h; decide
        · exact plain_noE hf c h
  unfold newFromString
  rw [hs]
  simp only [(takeWhile_self hallE).1, (takeWhile_self hallE).2]
  have hsf : (signOf neg).filter (· == '.') = [] := by cases neg <;> simp [signOf]
  have hsf' : (signOf neg).filter (· != '.') = signOf neg := by cases neg <;> simp [signOf]
  have hdrop : ∀ tl, (signOf neg ++ ip ++ tl).dropWhile (· != '.') = tl.dropWhile (· != '.') := by
    intro tl
    rw [List.dropWhile_append_of_pos]
    intro c hc
    rcases List.mem_append.mp hc with h | h
    · exact (hsign c h).2
    · exact plain_noDot hi c h
  have hdrop0 : (signOf neg ++ ip).dropWhile (· != '.') = [] := by
    apply (takeWhile_self _).2
    intro c hc
    rcases List.mem_append.mp hc with h | h
    · exact (hsign c h).2
    · exact plain_noDot hi c h
  cases frac
  · have hfp : fp = [] := h0 rfl
    subst hfp
    simp only [fracOf, Bool.false_eq_true, if_false, List.append_nil, List.filter_append, hsf, plain_filter_eq hi, hsf',
      plain_filter_ne hi, List.length_nil, hdrop0]
    have hp := parseSignedInt_plain hip hi
    cases hall : ip.all isDig <;> cases neg <;> simp [signOf, hp.1, hp.2, hall, int32Min, int32Max, scale10]
  · have hd : ('.' :: fp).dropWhile (· != '.') = '.' :: fp := by simp [List.dropWhile_cons]
    have hcnt : ((signOf neg ++ ip ++ '.' :: fp).filter (· == '.')).length = 1 := by
      simp [List.filter_append, hsf, plain_filter_eq hi, List.filter_cons, plain_filter_eq hf]
    have hint : (signOf neg ++ ip ++ '.' :: fp).filter (· != '.') = signOf neg ++ (ip ++ fp) := by
      simp [List.filter_append, hsf', plain_filter_ne hi, List.filter_cons, plain_filter_ne hf]
    simp only [fracOf, if_true, hcnt, hint, hdrop, hd]
    have hp := parseSignedInt_plain hne hif
    have hb : ¬ ((0 : Int) - (fp.length : Int) < int32Min) := by simp only [int32Min]; omega
    have hb2 : ¬ (int32Max < (0 : Int) - (fp.length : Int)) := by simp only [int32Max]; omega
    have e1 : (-((0 : Int) - (fp.length : Int))).toNat = fp.length := by omega
    have fin : ∀ v : Int, (if (0 : Int) ≤ 0 - (fp.length : Int) then ((v * 10 ^ ((0 : Int) - (fp.length : Int)).toNat : Int) : Rat)
        else mkRat v (10 ^ (-((0 : Int) - (fp.length : Int))).toNat)) = mkRat v (10 ^ fp.length) := by
      intro v
      by_cases hz : fp.length = 0
      · simp [hz, Rat.mkRat_one]
      · have : ¬ ((0 : Int) ≤ 0 - (fp.length : Int)) := by omega
        simp only [this, if_false, e1]
    cases hall : (ip ++ fp).all isDig
    · cases neg
      · simp only [signOf, Bool.false_eq_true, if_false, List.nil_append, hp.1, hall]; simp
      · simp only [signOf, if_true, List.singleton_append, List.cons_append, List.nil_append, hp.2, hall]; simp
    · cases neg
      · simp only [signOf, Bool.false_eq_true, if_false, List.nil_append, hp.1, hall, if_true]
        simp only [hb, hb2, scale10, if_false, Bool.or_false, decide_false, fin]
        simp
      · simp only [signOf, if_true, List.singleton_append, List.cons_append, List.nil_append, hp.2, hall]
        simp only [hb, hb2, scale10, if_false, Bool.or_false, decide_false, fin]
        simp


theorem parseDec_eq (s : String) : ∀ x, Dec.parseDec s = x →
    (∃ rest, s.toList = '-' :: rest ∧ decCore true rest = x) ∨ ((∀ rest, s.toList ≠ '-' :: rest) ∧ decCore false s.toList = x) := by
  intro x h
  unfold Dec.parseDec at h
  simp only [] at h
  split at h
  · rename_i rest e
    exact Or.inl ⟨rest, e, h⟩
  · rename_i hne
    exact Or.inr ⟨fun rest e => hne rest e, h⟩

theorem parseDec_neg {s : String} {rest : List Char} (hs : s.toList = '-' :: rest) : Dec.parseDec s = decCore true rest := by
  rcases parseDec_eq s _ rfl with ⟨r, e, h⟩ | ⟨hne, _⟩
  · rw [hs] at e; cases e; exact h.symm
  · exact absurd hs (hne rest)

theorem parseDec_pos {s : String} (hne : ∀ rest, s.toList ≠ '-' :: rest) : Dec.parseDec s = decCore false s.toList := by
  rcases parseDec_eq s _ rfl with ⟨r, e, _⟩ | ⟨_, h⟩
  · exact absurd e (hne r)
  · exact h.symm

theorem tw_digits {ip tl : List Char} (hi : ∀ c ∈ ip, isDig c = true) (htl : ∀ x r, tl = x :: r → isDig x = false) :
    (ip ++ tl).takeWhile isDig = ip ∧ (ip ++ tl).dropWhile isDig = tl := by
  induction ip with
  | nil =>
    cases tl with
    | nil => exact ⟨rfl, rfl⟩
    | cons x r => simp [List.takeWhile_cons, List.dropWhile_cons, htl x r rfl]
  | cons a rest ih =>
    have ha : isDig a = true := hi a (by simp)
    have := ih (fun c hc => hi c (by simp [hc]))
    simp [List.takeWhile_cons, List.dropWhile_cons, ha, this.1, this.2]

/-- the model's `parseDec` on `-?digits(.digits)?` in ASCII digits -/
theorem decCore_digits {neg frac : Bool} {ip fp : List Char} (hip : ip ≠ []) (hi : ∀ c ∈ ip, isDig c = true)
    (hf : ∀ c ∈ fp, isDig c = true) (h1 : frac = true → fp ≠ []) :
    decCore neg (ip ++ fracOf frac fp) =
      some (if frac then mkRat (if neg then -(digitsVal (ip ++ fp) : Int) else (digitsVal (ip ++ fp) : Int)) (10 ^ fp.length)
          else (((if neg then -(digitsVal ip : Int) else (digitsVal ip : Int)) : Int) : Rat)) := by
  have htl : ∀ x r, fracOf frac fp = x :: r → isDig x = false := by
    intro x r e
    cases frac
    · simp [fracOf] at e
    · simp only [fracOf, if_true, List.cons.injEq] at e
      rw [← e.1]; decide
  have tw := tw_digits hi htl
  unfold decCore
  simp only [tw.1, tw.2]
  have hipe : ip.isEmpty = false := by cases ip <;> simp at hip ⊢
  simp only [hipe, Bool.false_eq_true, if_false]
  cases frac
  · simp [fracOf]
  · have hfpe : fp.isEmpty = false := by have := h1 rfl; cases fp <;> simp at this ⊢
    have hall : fp.all isDig = true := List.all_eq_true.mpr hf
    simp [fracOf, hfpe, hall]


/-- on `-?X+(.X+)?` for plain characters `X` (every Unicode digit is one) the model's `parseDec` and `decimal.NewFromString` agree: the
same value when all `X` are ASCII digits, both fail otherwise -/
theorem newFromString_eq_parseDec {s : String} {neg frac : Bool} {ip fp : List Char}
    (hs : s.toList = signOf neg ++ ip ++ fracOf frac fp) (hip : ip ≠ []) (hi : ∀ c ∈ ip, Plain c)
    (hf : ∀ c ∈ fp, Plain c) (h1 : frac = true → fp ≠ []) (h0 : frac = false → fp = []) (hlen : fp.length ≤ 2147483648) :
    newFromString s = Dec.parseDec s := by
  rw [newFromString_plain hs hip hi hf h0 hlen]
  cases hall : (ip ++ fp).all isDig with
  | true =>
    have hd : ∀ c ∈ ip ++ fp, isDig c = true := List.all_eq_true.mp hall
    have hi' : ∀ c ∈ ip, isDig c = true := fun c hc => hd c (List.mem_append_left _ hc)
    have hf' : ∀ c ∈ fp, isDig c = true := fun c hc => hd c (List.mem_append_right _ hc)
    simp only [if_true]
    cases neg with
    | true =>
      have hs' : s.toList = '-' :: (ip ++ fracOf frac fp) := by rw [hs]; simp [signOf]
      rw [parseDec_neg hs', decCore_digits hip hi' hf' h1]
    | false =>
      have hs' : s.toList = ip ++ fracOf frac fp := by rw [hs]; simp [signOf]
      have hne : ∀ rest, s.toList ≠ '-' :: rest := by
        intro rest e
        obtain ⟨c, r, rfl⟩ := List.exists_cons_of_ne_nil hip
        rw [hs'] at e
        simp only [List.cons_append, List.cons.injEq] at e
        exact (hi c (by simp)).2.2.2.1 e.1
      rw [parseDec_pos hne, hs', decCore_digits hip hi' hf' h1]
  | false =>
    simp only [Bool.false_eq_true, if_false]
    cases hp : Dec.parseDec s with
    | none => rfl
    | some q =>
      exfalso
      have hch := Knut.ElabAgree.parseDec_chars hp
      have : ∃ x ∈ ip ++ fp, isDig x = false := by
        apply Classical.byContradiction
        intro hcon
        have : (ip ++ fp).all isDig = true := by
          apply List.all_eq_true.mpr
          intro x hx
          cases hx' : isDig x with
          | true => rfl
          | false => exact absurd ⟨x, hx, hx'⟩ hcon
        rw [this] at hall; cases hall
      obtain ⟨x, hx, hxd⟩ := this
      have hpl : Plain x := by
        rcases List.mem_append.mp hx with h | h
        · exact hi x h
        · exact hf x h
      have hmem : x ∈ s.toList := by
        rw [hs]
        rcases List.mem_append.mp hx with h | h
        · simp [h]
        · have : frac = true := by cases frac; · simp [h0 rfl] at h
                                   · rfl
          subst this
          simp [fracOf, h]
      rcases hch x hmem with h | h | h
      · exact hpl.2.2.2.1 h
      · exact hpl.2.2.1 h
      · have : isDig x = true := h
        rw [this] at hxd; cases hxd

end decimals

/-! ### from the grammar to the hypotheses: the fields of a directive the parser returned -/

section fields
open Knut.Syntax Knut.Utf8 Knut.FromSyntax Knut.ElabAgree

/-- a field whose tokens are validly encoded is a text -/
theorem textOK_of_toks {text : List UInt8} {r : Syntax.Range} {c : List Tok} (hx : r.extract text = some (flat c)) (hc : Canon c)
    (hv : Valid c) : ∃ s, c = strToks s ∧ FromSyntax.fieldStr text r = some s := by
  obtain ⟨s, hs, hf, _⟩ := field_string hx hc hv
  exact ⟨s, hs, hf⟩

theorem commodityOK_of_toks {text : List UInt8} {cm : Syntax.Commodity} {c : List Tok} (hx : cm.range.extract text = some (flat c))
    (hc : Canon c) (hok : Syntax.CommodityOK c) : CommodityOK text cm := by
  obtain ⟨s, hs, hf⟩ := textOK_of_toks hx hc hok.2
  refine ⟨s, hf, ?_⟩
  obtain ⟨hne, hall⟩ := hok.1
  rw [hs] at hne hall
  have h1 := all_chars_of_toks hall
  have h2 : s.toList ≠ [] := by intro e; apply hne; simp [strToks, charsToks, e]
  simp only [Import.validCommodity, Bool.and_eq_true, Bool.not_eq_true', List.all_eq_true]
  refine ⟨?_, h1⟩
  cases hl : s.toList with
  | nil => exact absurd hl h2
  | cons a l => simp [String.isEmpty_iff, ← String.toList_eq_nil_iff, hl]


theorem isEmpty_toList (s : String) : s.isEmpty = s.toList.isEmpty := by
  cases hl : s.toList with
  | nil => simp [← String.toList_eq_nil_iff, hl]
  | cons a l => simp [← String.toList_eq_nil_iff, hl]

theorem validSegment_okName (s : String) : Import.validSegment s = FromSyntax.okName s := by
  simp [Import.validSegment, FromSyntax.okName, isEmpty_toList]

theorem validAccount_of_printable {a : Knut.Account} (h : PrintableAccount a = true) : Import.validAccount a = true := by
  simp only [PrintableAccount, Bool.and_eq_true, List.all_eq_true] at h
  obtain ⟨hwf, hs⟩ := h
  unfold Import.validAccount
  cases hseg : a.segments with
  | nil => simp [Account.wf, Account.type?, hseg] at hwf
  | cons t rest =>
    simp only [Account.wf, Account.type?, hseg] at hwf
    simp only [Bool.and_eq_true, List.all_eq_true, hwf, true_and]
    intro x hx
    rw [validSegment_okName]
    exact hs x (by rw [hseg]; exact List.mem_cons_of_mem _ hx)

theorem accountOK_of_toks {text : List UInt8} {a : Syntax.Account} {c : List Tok} (hx : a.range.extract text = some (flat c))
    (hc : Canon c) (hok : Syntax.AccountOK c) : AccountOK text a := by
  obtain ⟨s, hs, hf⟩ := textOK_of_toks hx hc hok.2
  refine ⟨s, hf, ?_⟩
  intro hwf
  have hacc : accountV (flat c) = some (Account.ofName s) := by
    unfold accountV
    rw [hs, utf8_str]
    simp [hwf]
  exact validAccount_of_printable (printableAccount_of_accountOK hok hc hacc)


theorem char_of_tok_r {ch : Char} {t : Tok} {n : Nat} (h : Utf8.charTok ch = t) (hr : t.r = n) (c : Char) (hc : c.toNat = n) : ch = c := by
  apply char_of_toNat
  rw [← charTok_r ch, h, hr, hc]

theorem chars_all_of_map {p : Nat → Bool} {l : List Char} {c : List Tok} (e : l.map Utf8.charTok = c) (h : All p c) :
    ∀ ch ∈ l, p ch.toNat = true := fun ch hch => h (Utf8.charTok ch) (by rw [← e]; exact List.mem_map.mpr ⟨ch, hch, rfl⟩)

/-- the characters of a decimal of the grammar: an optional `-`, Unicode digits, an optional point with Unicode digits -/
theorem decimal_chars {s : String} (h : IsDecimal (strToks s)) :
    ∃ (neg frac : Bool) (ip fp : List Char), s.toList = signOf neg ++ ip ++ fracOf frac fp ∧ ip ≠ [] ∧
      (∀ c ∈ ip, Syntax.isDigit c.toNat = true) ∧ (∀ c ∈ fp, Syntax.isDigit c.toNat = true) ∧
      (frac = true → fp ≠ []) ∧ (frac = false → fp = []) := by
  obtain ⟨sign, int, frac, e, hsign, hint, hall, hfrac⟩ := h
  unfold strToks charsToks at e
  obtain ⟨l12, lf, e1, e12, ef⟩ := List.map_eq_append_iff.mp e
  obtain ⟨ls, li, e2, es, ei⟩ := List.map_eq_append_iff.mp e12
  have hli : li ≠ [] := by intro e0; subst e0; exact hint (by simpa using ei.symm)
  have hlid := chars_all_of_map ei hall
  have hsg : ∃ neg, ls = signOf neg := by
    rcases hsign with h0 | ⟨m, hm, hr⟩
    · subst h0
      exact ⟨false, by simpa [signOf] using es⟩
    · subst hm
      cases ls with
      | nil => simp at es
      | cons ch l' =>
        simp only [List.map_cons, List.cons.injEq, List.map_eq_nil_iff] at es
        obtain ⟨h1, h2⟩ := es
        subst h2
        have : ch = '-' := char_of_tok_r h1 hr '-' rfl
        exact ⟨true, by simp [signOf, this]⟩
  obtain ⟨neg, hneg⟩ := hsg
  rcases hfrac with h0 | ⟨dot, fr, hf, hdot, hfr, hfrall⟩
  · subst h0
    have : lf = [] := by simpa using ef
    refine ⟨neg, false, li, [], ?_, hli, hlid, by simp, by simp, by simp⟩
    rw [e1, e2, hneg, this]; simp [fracOf]
  · subst hf
    cases lf with
    | nil => simp at ef
    | cons ch lfr =>
      simp only [List.map_cons, List.cons.injEq] at ef
      obtain ⟨h1, h2⟩ := ef
      have hch : ch = '.' := char_of_tok_r h1 hdot '.' rfl
      have hlfr : lfr ≠ [] := by intro e0; subst e0; exact hfr (by simpa using h2.symm)
      refine ⟨neg, true, li, lfr, ?_, hli, hlid, chars_all_of_map h2 hfrall, fun _ => hlfr, by simp⟩
      rw [e1, e2, hneg, hch]; simp [fracOf]

theorem decimalOK_of_toks {text : List UInt8} {d : Syntax.Decimal} {c : List Tok} (hx : d.range.extract text = some (flat c))
    (hc : Canon c) (hok : Syntax.DecimalOK c) (hlen : text.length ≤ 2147483648) : DecimalOK text d := by
  obtain ⟨s, hs, hf⟩ := textOK_of_toks hx hc hok.2
  refine ⟨s, hf, ?_⟩
  have hdec : FromSyntax.decimal text d.range = Dec.parseDec s := by
    rw [decimal_of_extract hx, hs, flat_strToks]
    exact decimal_agree s
  rw [hdec, newFromString_model]
  have hshape := hok.1
  rw [hs] at hshape
  obtain ⟨neg, frac, ip, fp, hl, hip, hi, hfp, h1, h0⟩ := decimal_chars hshape
  have hlen' : fp.length ≤ 2147483648 := by
    have h1 := chars_le_bytes s
    have hb : s.toByteArray.data.toList = flat c := by
      have hu : FromSyntax.utf8 (flat c) = some s := by rw [← fieldStr_of_extract hx]; exact hf
      exact bytes_of_utf8 hu
    rw [hb] at h1
    have h2 := extract_length hx
    have h3 : fp.length ≤ s.toList.length := by
      rw [hl]
      simp only [List.length_append]
      cases frac
      · simp [h0 rfl]
      · simp only [fracOf, if_true, List.length_cons]; omega
    omega
  exact newFromString_eq_parseDec hl hip (fun c hc => plain_of_udigit (hi c hc)) (fun c hc => plain_of_udigit (hfp c hc)) h1 h0 hlen'


theorem toNat_map_inj : ∀ (a b : List Char), a.map Char.toNat = b.map Char.toNat → a = b
  | [], [], _ => rfl
  | [], _ :: _, h => by simp at h
  | _ :: _, [], h => by simp at h
  | x :: a, y :: b, h => by
    simp only [List.map_cons, List.cons.injEq] at h
    rw [char_of_toNat h.1, toNat_map_inj a b h.2]

/-- the interval keyword of an `@accrue` annotation is one of the four the model knows -/
theorem intervalOK_of_toks {text : List UInt8} {iv : Syntax.Interval} {c : List Tok} (hx : iv.range.extract text = some (flat c))
    (hc : Canon c) (hok : Syntax.IntervalOK c) :
    ∃ s, FromSyntax.fieldStr text iv.range = some s ∧ (FromSyntax.interval s).isSome = true := by
  obtain ⟨s, hs, hf⟩ := textOK_of_toks hx hc hok.2
  refine ⟨s, hf, ?_⟩
  obtain ⟨kw, hkw, hr⟩ := hok.1
  rw [hs] at hr
  have : s.toList = kw.toList := by
    apply toNat_map_inj
    simpa [strToks, charsToks, runesOf, List.map_map, Function.comp_def, Utf8.charTok] using hr
  have hsk : s = kw := String.ext this
  subst hsk
  simp only [intervalKeywords, List.mem_cons, List.not_mem_nil, or_false] at hkw
  rcases hkw with rfl | rfl | rfl | rfl <;> decide


theorem mapM_mem {α β γ : Type} {f : α → Option β} {g : γ → β} : ∀ {l : List α} {r : List γ}, l.mapM f = some (r.map g) →
    ∀ a ∈ l, ∃ c ∈ r, f a = some (g c)
  | [], _, _, a, ha => by cases ha
  | x :: l, r, h, a, ha => by
    simp only [List.mapM_cons, Option.bind_eq_bind, Option.bind_eq_some_iff, Option.pure_def, Option.some.injEq] at h
    obtain ⟨b, hb, r', hr', e⟩ := h
    cases r with
    | nil => simp at e
    | cons c rc =>
      simp only [List.map_cons, List.cons.injEq] at e
      rcases List.mem_cons.mp ha with rfl | ha
      · exact ⟨c, by simp, by rw [hb, e.1]⟩
      · obtain ⟨c', hc', hf⟩ := mapM_mem (l := l) (r := rc) (by rw [hr', e.2]) a ha
        exact ⟨c', List.mem_cons_of_mem _ hc', hf⟩

theorem bookingOK_of_view {text : List UInt8} {b : Syntax.Booking} {bT : BookingT} (hok : bT.ok) (hc : bT.canon)
    (hview : viewBooking text b = some bT.bytes) (hlen : text.length ≤ 2147483648) : BookingOK text b := by
  unfold viewBooking at hview
  simp only [Option.bind_eq_bind, Option.bind_eq_some_iff, Option.pure_def, Option.some.injEq] at hview
  obtain ⟨cr, hcr, db, hdb, q, hq, c, hcm, e⟩ := hview
  simp only [BookingT.bytes, BookingV.mk.injEq] at e
  obtain ⟨e1, e2, e3, e4⟩ := e
  subst e1 e2 e3 e4
  obtain ⟨o1, o2, o3, o4⟩ := hok
  obtain ⟨c1, c2, c3, c4⟩ := hc
  exact ⟨accountOK_of_toks hcr c1 o1, accountOK_of_toks hdb c2 o2, decimalOK_of_toks hq c3 o3 hlen, commodityOK_of_toks hcm c4 o4⟩

theorem balanceOK_of_view {text : List UInt8} {b : Syntax.Balance} {bT : BalanceT} (hok : bT.ok) (hc : bT.canon)
    (hview : viewBalance text b = some bT.bytes) (hlen : text.length ≤ 2147483648) : BalanceOK text b := by
  unfold viewBalance at hview
  simp only [Option.bind_eq_bind, Option.bind_eq_some_iff, Option.pure_def, Option.some.injEq] at hview
  obtain ⟨acc, hacc, q, hq, c, hcm, e⟩ := hview
  simp only [BalanceT.bytes, BalanceV.mk.injEq] at e
  obtain ⟨e1, e2, e3⟩ := e
  subst e1 e2 e3
  obtain ⟨o1, o2, o3⟩ := hok
  obtain ⟨c1, c2, c3⟩ := hc
  exact ⟨accountOK_of_toks hacc c1 o1, decimalOK_of_toks hq c2 o2 hlen, commodityOK_of_toks hcm c3 o3⟩

theorem textOK_of {text : List UInt8} {r : Syntax.Range} {c : List Tok} (hx : r.extract text = some (flat c)) (hc : Canon c)
    (hv : Valid c) : TextOK text r := by
  obtain ⟨s, _, hf⟩ := textOK_of_toks hx hc hv
  simp [TextOK, hf]

theorem accrualOK_of_view {text : List UInt8} {a : Syntax.Accrual} {aT : AccrualT} (hok : aT.ok) (hc : aT.canon)
    (hview : viewAccrual text a = some aT.bytes) : AccrualOK text a := by
  unfold viewAccrual at hview
  simp only [Option.bind_eq_bind, Option.bind_eq_some_iff, Option.pure_def, Option.some.injEq] at hview
  obtain ⟨iv, hiv, d0, hd0, d1, hd1, acc, hacc, e⟩ := hview
  simp only [AccrualT.bytes, AccrualV.mk.injEq] at e
  obtain ⟨e1, e2, e3, e4⟩ := e
  subst e1 e2 e3 e4
  obtain ⟨o1, o2, o3, o4⟩ := hok
  obtain ⟨c1, c2, c3, c4⟩ := hc
  exact ⟨intervalOK_of_toks hiv c1 o1, textOK_of hd0 c2 o2.2, textOK_of hd1 c3 o3.2, accountOK_of_toks hacc c4 o4⟩


theorem viewTransaction_some {text : List UInt8} {t : Syntax.Transaction} {w : DirV} (h : viewTransaction text t = some w) :
    ∃ accr perf date desc bks, w = .transaction accr perf date desc bks ∧
      (t.addons.accrual.range.empty = false → ∃ a, viewAccrual text t.addons.accrual = some a ∧ accr = some a) ∧
      (t.addons.performance.range.empty = false →
        ∃ l, t.addons.performance.targets.mapM (fun (c : Syntax.Commodity) => c.range.extract text) = some l ∧ perf = some l) ∧
      t.date.range.extract text = some date ∧ t.description.content.extract text = some desc ∧
      t.bookings.mapM (viewBooking text) = some bks := by
  unfold viewTransaction at h
  cases hae : t.addons.accrual.range.empty <;> cases hpe : t.addons.performance.range.empty <;>
    simp only [hae, hpe, Bool.not_false, Bool.not_true, if_true, Bool.false_eq_true, if_false, Option.pure_def, Option.bind_eq_bind,
      Option.bind_eq_some_iff, Option.map_eq_some_iff, Option.some.injEq] at h
  · obtain ⟨accr, ⟨a, ha, rfl⟩, perf, ⟨l, hl, rfl⟩, date, hd, desc, hdesc, bks, hb, rfl⟩ := h
    exact ⟨_, _, _, _, _, rfl, fun _ => ⟨a, ha, rfl⟩, fun _ => ⟨l, hl, rfl⟩, hd, hdesc, hb⟩
  · obtain ⟨accr, ⟨a, ha, rfl⟩, perf, rfl, date, hd, desc, hdesc, bks, hb, rfl⟩ := h
    exact ⟨_, _, _, _, _, rfl, fun _ => ⟨a, ha, rfl⟩, (fun hc => by cases hc), hd, hdesc, hb⟩
  · obtain ⟨accr, rfl, perf, ⟨l, hl, rfl⟩, date, hd, desc, hdesc, bks, hb, rfl⟩ := h
    exact ⟨_, _, _, _, _, rfl, (fun hc => by cases hc), fun _ => ⟨l, hl, rfl⟩, hd, hdesc, hb⟩
  · obtain ⟨accr, rfl, perf, rfl, date, hd, desc, hdesc, bks, hb, rfl⟩ := h
    exact ⟨_, _, _, _, _, rfl, (fun hc => by cases hc), (fun hc => by cases hc), hd, hdesc, hb⟩

/-- **the hypotheses of `ParseDirective_agrees` hold of every directive the parser returns**: its field view consists of token lists of
the grammar's classes, validly encoded (`parseDirective_sound`), in a file of at most 2 GiB -/
theorem directiveOK_of_view {text : List UInt8} {d : Syntax.Directive} (v : DirT) (hok : v.ok) (hc : v.canon)
    (hview : viewDirective text d = some v.bytes) (hlen : text.length ≤ 2147483648) : DirectiveOK text d := by
  obtain ⟨r, body⟩ := d
  unfold DirectiveOK
  cases body with
  | transaction t =>
    obtain ⟨accr, perf, date, desc, bks, e, haccr, hperf, hdate, hdesc, hbks⟩ := viewTransaction_some (show viewTransaction text t = some v.bytes from hview)
    cases v with
    | transaction aT pT dT descT bsT =>
      simp only [DirT.bytes, DirV.transaction.injEq] at e
      obtain ⟨e1, e2, e3, e4, e5⟩ := e
      subst e1 e2 e3 e4 e5
      obtain ⟨oa, op, od, odesc, _, ob⟩ := hok
      obtain ⟨ca, cp, cd, cdesc, cb⟩ := hc
      refine ⟨textOK_of hdate cd od.2, textOK_of hdesc cdesc odesc.2, ?_, ?_, ?_⟩
      · intro b hb
        obtain ⟨bT, hbT, hv⟩ := mapM_mem hbks b hb
        exact bookingOK_of_view (ob bT hbT) (cb bT hbT) hv hlen
      · intro hne c hcm
        obtain ⟨l, hl, e⟩ := hperf hne
        cases pT with
        | none => simp at e
        | some ts =>
          simp only [Option.map_some, Option.some.injEq] at e
          subst e
          obtain ⟨tk, htk, hx⟩ := mapM_mem (g := flat) hl c hcm
          exact commodityOK_of_toks hx (cp ts rfl tk htk) (op ts rfl tk htk)
      · intro hne
        obtain ⟨w, hw, e⟩ := haccr hne
        cases aT with
        | none => simp at e
        | some a =>
          simp only [Option.map_some, Option.some.injEq] at e
          subst e
          exact accrualOK_of_view (oa a rfl) (ca a rfl) hw
    | _ => simp [DirT.bytes] at e
  | «open» o =>
    simp only [viewDirective, Option.bind_eq_bind, Option.bind_eq_some_iff, Option.pure_def, Option.some.injEq] at hview
    obtain ⟨date, hdate, acc, hacc, e⟩ := hview
    cases v with
    | «open» dT aT =>
      simp only [DirT.bytes, DirV.open.injEq] at e
      obtain ⟨e1, e2⟩ := e
      subst e1 e2
      exact ⟨accountOK_of_toks hacc hc.2 hok.2, textOK_of hdate hc.1 hok.1.2⟩
    | _ => simp [DirT.bytes] at e
  | close c =>
    simp only [viewDirective, Option.bind_eq_bind, Option.bind_eq_some_iff, Option.pure_def, Option.some.injEq] at hview
    obtain ⟨date, hdate, acc, hacc, e⟩ := hview
    cases v with
    | close dT aT =>
      simp only [DirT.bytes, DirV.close.injEq] at e
      obtain ⟨e1, e2⟩ := e
      subst e1 e2
      exact ⟨accountOK_of_toks hacc hc.2 hok.2, textOK_of hdate hc.1 hok.1.2⟩
    | _ => simp [DirT.bytes] at e
  | assertion a =>
    simp only [viewDirective, Option.bind_eq_bind, Option.bind_eq_some_iff, Option.pure_def, Option.some.injEq] at hview
    obtain ⟨date, hdate, bs, hbs, e⟩ := hview
    cases v with
    | assertion dT bsT =>
      simp only [DirT.bytes, DirV.assertion.injEq] at e
      obtain ⟨e1, e2⟩ := e
      subst e1 e2
      refine ⟨textOK_of hdate hc.1 hok.1.2, ?_⟩
      intro b hb
      obtain ⟨bT, hbT, hv⟩ := mapM_mem hbs b hb
      exact balanceOK_of_view (hok.2.2 bT hbT) (hc.2 bT hbT) hv hlen
    | _ => simp [DirT.bytes] at e
  | price p =>
    simp only [viewDirective, Option.bind_eq_bind, Option.bind_eq_some_iff, Option.pure_def, Option.some.injEq] at hview
    obtain ⟨date, hdate, c, hcm, pr, hpr, t, ht, e⟩ := hview
    cases v with
    | price dT cT pT tT =>
      simp only [DirT.bytes, DirV.price.injEq] at e
      obtain ⟨e1, e2, e3, e4⟩ := e
      subst e1 e2 e3 e4
      obtain ⟨o1, o2, o3, o4⟩ := hok
      obtain ⟨c1, c2, c3, c4⟩ := hc
      exact ⟨textOK_of hdate c1 o1.2, commodityOK_of_toks hcm c2 o2, commodityOK_of_toks ht c4 o4, decimalOK_of_toks hpr c3 o3 hlen⟩
    | _ => simp [DirT.bytes] at e
  | «include» i =>
    simp only [viewDirective, Option.bind_eq_bind, Option.bind_eq_some_iff, Option.pure_def, Option.some.injEq] at hview
    obtain ⟨p, hp, e⟩ := hview
    cases v with
    | «include» pT =>
      simp only [DirT.bytes, DirV.include.injEq] at e
      subst e
      exact textOK_of hp hc hok.2
    | _ => simp [DirT.bytes] at e


/-- every directive of a file the parser accepts satisfies the hypotheses of `ParseDirective_agrees` -/
theorem parsed_directivesOK {path : String} {text : List UInt8} {f : Syntax.File} (h : parseText path text = .ok f)
    (hlen : text.length ≤ 2147483648) : ∀ d ∈ f.directives, DirectiveOK text d := by
  obtain ⟨vs, hvs, hviews⟩ := FromSyntax.parse_views h
  intro d hd
  obtain ⟨v, hv, hview⟩ := mapM_mem hviews d hd
  exact directiveOK_of_view v (hvs v hv).1 (hvs v hv).2 hview hlen

end fields

/-! ### the `ext` parameters of `expand`, computed from the directive -/

/-- the value of a call that returns -/
def okOr {α : Type} [GoZero α] : GoSem.Outcome α → α
  | .ok a => a
  | _ => GoZero.zero

/-- the accrual node of a directive (`&t.Addons.Accrual`; the zero struct for the other kinds) -/
def accrualOf (w : directives.Directive) : directives.Accrual :=
  match w.Directive with
  | .Transaction t => t.Addons.Accrual
  | _ => GoZero.zero

/-- `model.ParseDirective` with the registries fixed to their model and the `ext` parameters of `expand` what its four calls return on
the accrual node of the directive (`transaction.Create.externals`) -/
def goParseDirectiveAt (cur : String → Bool) (w : directives.Directive) : GoSem.Outcome (List model.Directive × Option Error) :=
  let a := accrualOf w
  goParseDirective cur w (regAccount a.Account) (okOr (directives.Date.Parse a.Start)) (okOr (directives.Date.Parse a.End))
    (okOr (Bridge.extract a.Interval.Range))

/-- **`model.ParseDirective` on a directive of a parsed file**: for every byte string of at most 2 GiB that the model's parser accepts
(`ParseFile_agrees`: the translated parser returns `goFile text path f`) and every directive `d` of the tree, the translated
`ParseDirective` on `goDirective text path d` returns what the model computes — no hypothesis on the fields is left: the grammar
guarantees them (`parsed_directivesOK`) -/
theorem ParseDirective_parsed {path : String} {text : List UInt8} {f : Syntax.File} (cur : String → Bool)
    (h : Syntax.parseText path text = .ok f) (hlen : text.length ≤ 2147483648) (d : Syntax.Directive) (hd : d ∈ f.directives) :
    match FromSyntax.item text d with
    | none => IsErr (goParseDirectiveAt cur (goDirective text path d))
    | some it => DirsRel cur (goParseDirectiveAt cur (goDirective text path d)) (FromSyntax.loadItems [it]) := by
  have hok := parsed_directivesOK h hlen d hd
  unfold goParseDirectiveAt
  apply ParseDirective_agrees (path := path) cur d hok
  intro t ht hne
  have hacc : AccrualOK text t.addons.accrual := by
    obtain ⟨r, body⟩ := d
    simp only at ht
    subst ht
    exact hok.2.2.2.2 hne
  have ha : accrualOf (goDirective text path d) = goAccrual text path t.addons.accrual := by
    obtain ⟨r, body⟩ := d
    simp only at ht
    subst ht
    simp only [accrualOf, goDirective, goBody, goTransaction, accr_of_nonempty text path t.addons hne]
  obtain ⟨⟨ivs, hiv, _⟩, hs, he, _⟩ := hacc
  rw [ha]
  simp only [goAccrual, goInterval]
  exact ⟨rfl, by rw [Date_Parse_agrees hs]; rfl, by rw [Date_Parse_agrees he]; rfl, by rw [extract_ok hiv]; rfl⟩


/-! ### one file: the loop of `model.FromStream` over its directives -/

open Knut.FactsAgree.TransProcess (AllRel) in
open Knut.FactsAgree.TransJournal (DirRel) in
/-- the loop of `model.FromStream` over the directives of ONE file (`for _, d := range input.Directives { m, err := ParseDirective(reg, d);
if err != nil { return err }; ds = append(ds, m...) }`), written by hand around the translated `ParseDirective`: the loop stands in a
closure that a goroutine pool runs (C19 / C14 are about the pool and the channels) -/
def goFromFile (cur : String → Bool) : List directives.Directive → List model.Directive → GoSem.Outcome (List model.Directive × Option Error)
  | [], acc => .ok (acc, none)
  | w :: rest, acc =>
    (goParseDirectiveAt cur w).bind fun r => if r.2.isSome then GoSem.Outcome.ok ([], r.2) else goFromFile cur rest (acc ++ r.1)

namespace Seq
open Knut.FromSyntax

/-- `acc` in front of a loaded result -/
def prepend (acc : List Knut.Directive) : Loaded → Loaded
  | .ok l => .ok (acc ++ l)
  | .error => .error
  | .panic s => .panic s

/-- the items one after the other: the first error or panic ends the load -/
def seqItems : List Item → Loaded
  | [] => .ok []
  | it :: rest =>
    match loadItems [it] with
    | .ok ds => prepend ds (seqItems rest)
    | .error => .error
    | .panic s => .panic s

/-- the directives one after the other, each converted (`item`) and expanded (`loadItems`) when its turn comes -/
def seqLoad (text : List UInt8) : List Syntax.Directive → Loaded
  | [] => .ok []
  | d :: rest =>
    match item text d with
    | none => .error
    | some it =>
      match loadItems [it] with
      | .ok ds => prepend ds (seqLoad text rest)
      | .error => .error
      | .panic s => .panic s

theorem prepend_prepend (a b : List Knut.Directive) (l : Loaded) : prepend a (prepend b l) = prepend (a ++ b) l := by
  cases l <;> simp [prepend]

theorem prepend_nil (l : Loaded) : prepend [] l = l := by cases l <;> simp [prepend]

/-- the model's `loadItems` (an accumulator, reversed at the end) is the sequential load -/
theorem go_eq : ∀ (items : List Item) (acc : List Knut.Directive), loadItems.go items acc = prepend acc.reverse (seqItems items)
  | [], acc => by simp [loadItems.go, seqItems, prepend]
  | it :: rest, acc => by
    cases it with
    | price p => simp [loadItems.go, seqItems, loadItems, go_eq rest, prepend_prepend]
    | opening o => simp [loadItems.go, seqItems, loadItems, go_eq rest, prepend_prepend]
    | closing c => simp [loadItems.go, seqItems, loadItems, go_eq rest, prepend_prepend]
    | assertion a => simp [loadItems.go, seqItems, loadItems, go_eq rest, prepend_prepend]
    | includeFile p => simp [loadItems.go, seqItems, loadItems, go_eq rest, prepend_nil]
    | tx t =>
      simp only [loadItems.go, seqItems, loadItems_tx]
      cases Accrual.create t with
      | ok txs => simp [go_eq rest, prepend_prepend]
      | error => simp [prepend]
      | panic s => simp [prepend]

theorem loadItems_eq (items : List Item) : loadItems items = seqItems items := by
  simp [loadItems, go_eq, prepend_nil]

theorem seqLoad_of_items {text : List UInt8} : ∀ {ds : List Syntax.Directive} {items : List Item},
    ds.mapM (item text) = some items → seqLoad text ds = seqItems items
  | [], items, h => by simp at h; subst h; rfl
  | d :: rest, items, h => by
    simp only [List.mapM_cons, Option.bind_eq_bind, Option.bind_eq_some_iff, Option.pure_def, Option.some.injEq] at h
    obtain ⟨it, hit, r, hr, rfl⟩ := h
    simp only [seqLoad, hit, seqItems, seqLoad_of_items hr]

theorem seqLoad_of_none {text : List UInt8} : ∀ {ds : List Syntax.Directive},
    ds.mapM (item text) = none → seqLoad text ds = loadFailed (okPrefix (item text) ds)
  | [], h => by simp at h
  | d :: rest, h => by
    cases hit : item text d with
    | none => simp [seqLoad, hit, okPrefix, loadFailed, loadItems, loadItems.go]
    | some it =>
      have hr : rest.mapM (item text) = none := by
        simp only [List.mapM_cons, hit, Option.bind_eq_bind, Option.bind_some, Option.pure_def] at h
        cases hm : rest.mapM (item text) with
        | none => rfl
        | some r => simp [hm] at h
      have ih := seqLoad_of_none hr
      have hpre : okPrefix (item text) (d :: rest) = it :: okPrefix (item text) rest := by simp [okPrefix, hit]
      have hLF : ∀ l, loadFailed l = match seqItems l with | .panic s => .panic s | _ => .error := by
        intro l; unfold loadFailed; rw [loadItems_eq]; rfl
      simp only [seqLoad, hit, ih, hpre]
      rw [hLF (it :: okPrefix (item text) rest), hLF (okPrefix (item text) rest)]
      simp only [seqItems]
      cases loadItems [it] with
      | ok l => cases seqItems (okPrefix (item text) rest) <;> simp [prepend]
      | error => rfl
      | panic s => rfl

/-- the model's load of one file is the sequential load of the directives of its tree -/
theorem loadText_eq {path : String} {text : List UInt8} {f : Syntax.File} (h : Syntax.parseText path text = .ok f) :
    loadText path text = seqLoad text f.directives := by
  unfold loadText
  simp only [h]
  cases hm : f.directives.mapM (item text) with
  | none => simp only [seqLoad_of_none hm]
  | some items => simp only [seqLoad_of_items hm, loadItems_eq]

end Seq


open Knut.FactsAgree.TransProcess (AllRel AllRel_append) in
open Knut.FactsAgree.TransJournal (DirRel) in
/-- the loop over the directives of a parsed file, from any point on -/
theorem goFromFile_agrees {path : String} {text : List UInt8} {f : Syntax.File} (cur : String → Bool)
    (h : Syntax.parseText path text = .ok f) (hlen : text.length ≤ 2147483648) :
    ∀ (ds : List Syntax.Directive), (∀ d ∈ ds, d ∈ f.directives) → ∀ (accG : List model.Directive) (accM : List Knut.Directive),
      AllRel (DirRel cur) accG accM →
      DirsRel cur (goFromFile cur (ds.map (goDirective text path)) accG) (Seq.prepend accM (Seq.seqLoad text ds)) := by
  intro ds
  induction ds with
  | nil =>
    intro _ accG accM hacc
    simp only [List.map_nil, goFromFile, Seq.seqLoad, Seq.prepend, List.append_nil, DirsRel]
    exact ⟨accG, rfl, hacc⟩
  | cons d rest ih =>
    intro hmem accG accM hacc
    have hd := ParseDirective_parsed (path := path) cur h hlen d (hmem d (by simp))
    have ih' := ih (fun x hx => hmem x (by simp [hx]))
    simp only [List.map_cons, goFromFile, Seq.seqLoad]
    cases hit : FromSyntax.item text d with
    | none =>
      simp only [hit] at hd
      obtain ⟨v, e, hv⟩ := hd
      simp only [hv, GoSem.Outcome.bind, Option.isSome_some, if_true, Seq.prepend, DirsRel]
      exact isErr_ok _ _
    | some it =>
      simp only [hit] at hd
      cases hl : FromSyntax.loadItems [it] with
      | ok l =>
        simp only [hl, DirsRel] at hd
        obtain ⟨gs, hg, hrel⟩ := hd
        simp only [hg, hl, GoSem.Outcome.bind, Option.isSome_none, Bool.false_eq_true, if_false, Seq.prepend_prepend]
        exact ih' (accG ++ gs) (accM ++ l) (AllRel_append hacc hrel)
      | error =>
        simp only [hl, DirsRel] at hd
        obtain ⟨v, e, hv⟩ := hd
        simp only [hv, hl, GoSem.Outcome.bind, Option.isSome_some, if_true, Seq.prepend, DirsRel]
        exact isErr_ok _ _
      | panic s =>
        simp only [hl, DirsRel] at hd
        simp only [hd, hl, GoSem.Outcome.bind, Seq.prepend, DirsRel]

/-- **one file, from the syntax tree to the model directives**: for a byte string of at most 2 GiB that the parser accepts, the loop of
`model.FromStream` over the Go tree of the file, built from the translated `ParseDirective`, returns what the model's `loadText`
computes: directives that stand for the model's, in order; an error where the model fails; the panic of `expand` where the model panics -/
theorem FromFile_agrees {path : String} {text : List UInt8} {f : Syntax.File} (cur : String → Bool)
    (h : Syntax.parseText path text = .ok f) (hlen : text.length ≤ 2147483648) :
    DirsRel cur (goFromFile cur (goFile text path f).Directives []) (FromSyntax.loadText path text) := by
  have := goFromFile_agrees (path := path) cur h hlen f.directives (fun _ hd => hd) [] [] .nil
  rw [Seq.prepend_nil, ← Seq.loadText_eq h] at this
  exact this

/-- **text → model directives of ONE file, on generated definitions**: `os.ReadFile` aside, `syntax.ParseFile` (the translated scanner and
parser: `goSyntaxParse`, `ParseFile_agrees`) followed by the per-file loop of `model.FromStream` (the translated `ParseDirective` and
`Create` functions: `goFromFile`).  For EVERY byte string of at most 2 GiB, every path and callback and every fuel above the token
count: when the model's parser accepts the text, the translated parser returns the tree `goFile text path f` with a nil error and the
conversion of that tree returns what the model's `loadText` computes (`DirsRel`); otherwise the translated parser returns the model's
error chain and the model's load fails.  The registries are fixed to their model (`regAccount`, `regCommodity cur`) -/
theorem text_to_directives (cur : String → Bool) (text : List UInt8) (path : String) (cb : Syn.Proc) (fuel : Nat)
    (hf : (Utf8.decodeAll text).length < fuel) (hlen : text.length ≤ 2147483648) :
    match Syntax.parseText path text with
    | .ok f => goSyntaxParse fuel text path cb = .ok (goFile text path f, .nil) ∧
        DirsRel cur (goFromFile cur (goFile text path f).Directives []) (FromSyntax.loadText path text)
    | .error e => (∃ pv, goSyntaxParse fuel text path cb = .ok (pv, goErr text path e)) ∧ e ≠ [] ∧
        FromSyntax.loadText path text = .error := by
  have hp := goSyntaxParse_agrees text path cb fuel hf
  cases hparse : Syntax.parseText path text with
  | ok f =>
    rw [hparse] at hp
    exact ⟨hp, FromFile_agrees cur hparse hlen⟩
  | error e =>
    rw [hparse] at hp
    refine ⟨hp.2, hp.1, ?_⟩
    simp [FromSyntax.loadText, hparse]


/-! ### non-vacuity -/

/-- the empty file: the translated parser returns the empty tree, the conversion no directives, as the model -/
example : goSyntaxParse 1 [] "j" ⟨false⟩ = .ok (goFile [] "j" ⟨⟨0, 0⟩, []⟩, .nil) ∧
    goFromFile (fun _ => false) (goFile [] "j" ⟨⟨0, 0⟩, []⟩).Directives [] = .ok ([], none) ∧
    FromSyntax.loadText "j" [] = .ok [] := by
  have hp : Syntax.parseText "j" [] = .ok ⟨⟨0, 0⟩, []⟩ := by
    simp [Syntax.parseText, Syntax.start, Syntax.parseFile, Syntax.fileLoop_eq, Syntax.atEOF, Syntax.rng]
  have h := text_to_directives (fun _ => false) [] "j" ⟨false⟩ 1 (by simp) (by simp)
  rw [hp] at h
  refine ⟨h.1, rfl, ?_⟩
  simp [FromSyntax.loadText, hp, FromSyntax.loadItems, FromSyntax.loadItems.go]

/-- the worked example of C07 (a comment line and `open` directive, 23 tokens): the translated parser returns the tree, and the
translated conversion of that tree stands for what the model loads -/
example : goSyntaxParse 24 (Syntax.bytesOf Syntax.exText) "j.knut" ⟨true⟩ =
      .ok (goFile (Syntax.bytesOf Syntax.exText) "j.knut" ⟨⟨0, 23⟩, [⟨⟨3, 22⟩, .open ⟨⟨3, 22⟩, ⟨⟨3, 13⟩⟩, ⟨⟨19, 22⟩, false⟩⟩⟩]⟩, .nil) ∧
    DirsRel (fun _ => false)
      (goFromFile (fun _ => false) (goFile (Syntax.bytesOf Syntax.exText) "j.knut" ⟨⟨0, 23⟩, [⟨⟨3, 22⟩, .open ⟨⟨3, 22⟩, ⟨⟨3, 13⟩⟩, ⟨⟨19, 22⟩, false⟩⟩⟩]⟩).Directives [])
      (FromSyntax.loadText "j.knut" (Syntax.bytesOf Syntax.exText)) := by
  have h := text_to_directives (fun _ => false) (Syntax.bytesOf Syntax.exText) "j.knut" ⟨true⟩ 24 (by rw [Syntax.ex_decode]; decide) (by decide)
  rw [Syntax.ex_parse] at h
  exact h

end Knut.FactsAgree.TransCreate
