import Knut.Spec.SyntaxTree
import Knut.Syntax.Printer
/-!
# C08: executable predicates relating a journal text and its formatted version

`semFlat text root` is the meaning of a parsed file with all positions erased: the sequence of directives with
their kinds and, for every field (date, account, amount, commodity, description/path content, interval), the bytes
it points to. Two texts "parse to the same directives with identical fields" iff their `semFlat` agree.
Annotations appear in field order (performance, accrual), so their textual order is normalised away.
-/
namespace Knut.Spec.Syntax
open Knut.Syntax

/-- position-free view of a tree, in prefix order -/
inductive SemTok where
  | «open» (kind : Nat)
  | close
  | field (kind : Nat) (text : List UInt8)
  deriving DecidableEq, Repr

/-- kinds whose meaning is their text -/
def isFieldKind (k : Nat) : Bool :=
  k == Kind.date || k == Kind.account || k == Kind.macroAccount || k == Kind.commodity || k == Kind.decimal ||
  k == Kind.content || k == Kind.interval

mutual
def semFlat (text : List UInt8) : Node → Option (List SemTok)
  | .mk k r cs =>
    if isFieldKind k then (r.extract text).map fun b => [SemTok.field k b]
    else (semsFlat text cs).map fun l => SemTok.open k :: l ++ [SemTok.close]
def semsFlat (text : List UInt8) : List Node → Option (List SemTok)
  | [] => some []
  | c :: cs =>
    match semFlat text c, semsFlat text cs with
    | some a, some b => some (a ++ b)
    | _, _ => none
end

/-- `out` with tree `root'` is a faithful formatting of `text` with tree `root`: same directives and fields,
and the text outside the directives is kept byte for byte -/
def formatOK (text : List UInt8) (root : Node) (out : List UInt8) (root' : Node) : Bool :=
  (match semFlat text root, semFlat out root' with
   | some a, some b => a == b
   | _, _ => false) &&
  (gapsOf text 0 (root.children.map Node.range) == gapsOf out 0 (root'.children.map Node.range))

end Knut.Spec.Syntax
