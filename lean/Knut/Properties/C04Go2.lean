import Knut.FactsAgree.TransCreate3
import Knut.Properties.C05Go
/-!
# C04 (loading) on the generated definitions: a rejected directive is an error

C04's checker clauses on the translated `check.Checker` are in `Properties/C04Go.lean`.  This module states what comes BEFORE the
checker, on the definitions translated from `/repo`'s `lib/model` (`model.ParseDirective`, the `Create` functions of every directive
kind, `directives.Date.Parse`, `Decimal.Parse`) and from the syntax layer (`syntax.ParseFile`), composed from
`TransCreate3.ParseDirective_parsed` / `text_to_directives` and (for the accepted case) `TransJournal.journal_agrees`:

* a directive of a parsed file that the model's conversion rejects (`FromSyntax.item = none`, or its load fails: bad date, bad decimal,
  bad account or commodity name, an accrual that cannot be expanded) makes the translated `ParseDirective` return an ERROR — no directive
  reaches the journal builder, hence none reaches the checker;
* a file the model's loader rejects is rejected by the translation: the translated parser returns a non-nil error chain, or the
  translated conversion returns an error;
* a file the model's loader accepts is converted without error to Go directives that stand for the model's, and the translated journal
  builder makes of them the days of `Builder.ofList` — the input of `C04Go.runGo`.

No hypothesis on the fields is left (the grammar guarantees `DirectiveOK`: `parsed_directivesOK`); the registries are fixed to their
model (`regAccount`, `regCommodity cur`); texts of at most 2 GiB; every fuel above the token count.
-/
namespace Knut.C04Go2
open Knut Knut.GoSem
open Knut.Generated.Go
open Knut.FactsAgree.TransScanner Knut.FactsAgree.TransParser Knut.FactsAgree.TransCreate
open Knut.FactsAgree.TransProcess (AllRel)
open Knut.FactsAgree.TransJournal (DirRel DayRel)

/-- **a rejected directive is an error**: on a directive of a parsed file whose conversion the model rejects the translated
`model.ParseDirective` returns a non-nil error -/
theorem C04_rejected_directive_is_error_go {path : String} {text : List UInt8} {f : Syntax.File} (cur : String → Bool)
    (h : Syntax.parseText path text = .ok f) (hlen : text.length ≤ 2147483648) (d : Syntax.Directive) (hd : d ∈ f.directives)
    (hrej : FromSyntax.item text d = none ∨ ∃ it, FromSyntax.item text d = some it ∧ FromSyntax.loadItems [it] = .error) :
    ∃ v e, goParseDirectiveAt cur (goDirective text path d) = .ok (v, some e) := by
  have := ParseDirective_parsed (path := path) cur h hlen d hd
  rcases hrej with hn | ⟨it, hi, hl⟩
  · rw [hn] at this; exact this
  · rw [hi] at this
    simp only [] at this
    rw [hl] at this
    exact this

/-- … and an accepted one is converted without error to Go directives that stand for the model's, in order -/
theorem C04_accepted_directive_go {path : String} {text : List UInt8} {f : Syntax.File} (cur : String → Bool)
    (h : Syntax.parseText path text = .ok f) (hlen : text.length ≤ 2147483648) (d : Syntax.Directive) (hd : d ∈ f.directives)
    (it : FromSyntax.Item) (ds : List Directive) (hi : FromSyntax.item text d = some it) (hl : FromSyntax.loadItems [it] = .ok ds) :
    ∃ gs, goParseDirectiveAt cur (goDirective text path d) = .ok (gs, none) ∧ AllRel (DirRel cur) gs ds := by
  have := ParseDirective_parsed (path := path) cur h hlen d hd
  rw [hi] at this
  simp only [] at this
  rw [hl] at this
  exact this

/-- **a file the model's loader rejects is rejected in the translation**: the translated parser returns a non-nil error chain, or it
returns the model's tree and the translated conversion of that tree returns an error -/
theorem C04_rejected_file_is_error_go (cur : String → Bool) (text : List UInt8) (path : String) (cb : Syn.Proc) (fuel : Nat)
    (hf : (Utf8.decodeAll text).length < fuel) (hlen : text.length ≤ 2147483648) (hrej : FromSyntax.loadText path text = .error) :
    (∃ pv e, e ≠ [] ∧ goSyntaxParse fuel text path cb = .ok (pv, goErr text path e)) ∨
    (∃ f v e, goSyntaxParse fuel text path cb = .ok (goFile text path f, .nil) ∧
      goFromFile cur (goFile text path f).Directives [] = .ok (v, some e)) := by
  have := text_to_directives cur text path cb fuel hf hlen
  cases hp : Syntax.parseText path text with
  | error e =>
    rw [hp] at this
    obtain ⟨⟨pv, h1⟩, h2, _⟩ := this
    exact Or.inl ⟨pv, e, h2, h1⟩
  | ok f =>
    rw [hp] at this
    obtain ⟨h1, h2⟩ := this
    rw [hrej] at h2
    obtain ⟨v, e, he⟩ := h2
    exact Or.inr ⟨f, v, e, h1, he⟩

/-- **a file the model's loader accepts**: the translated parser returns its tree with a nil error, the translated conversion returns
Go directives that stand for the model's, and the translated journal builder makes of them — in ANY arrival order `gs'` — days that
stand for the days of the model's builder on a permutation of the model's directives: the journal the checker of `C04Go` runs over -/
theorem C04_accepted_file_go (cur : String → Bool) (text : List UInt8) (path : String) (cb : Syn.Proc) (fuel : Nat)
    (hf : (Utf8.decodeAll text).length < fuel) (hlen : text.length ≤ 2147483648) (ds : List Directive)
    (hacc : FromSyntax.loadText path text = .ok ds) :
    ∃ f gs, goSyntaxParse fuel text path cb = .ok (goFile text path f, .nil) ∧
      goFromFile cur (goFile text path f).Directives [] = .ok (gs, none) ∧ AllRel (DirRel cur) gs ds ∧
      AllRel (DayRel cur) (C05Go.journalGo gs).Days (Builder.ofList ds).days ∧
      ∀ gs', gs.Perm gs' → ∃ ds', ds.Perm ds' ∧ AllRel (DayRel cur) (C05Go.journalGo gs').Days (Builder.ofList ds').days := by
  have := text_to_directives cur text path cb fuel hf hlen
  cases hp : Syntax.parseText path text with
  | error e =>
    rw [hp] at this
    rw [this.2.2] at hacc
    cases hacc
  | ok f =>
    rw [hp] at this
    obtain ⟨h1, h2⟩ := this
    rw [hacc] at h2
    obtain ⟨gs, hg, hrel⟩ := h2
    refine ⟨f, gs, h1, hg, hrel, (C05Go.journalGo_agrees cur hrel).1, ?_⟩
    intro gs' hperm
    obtain ⟨ds', hrel', hp'⟩ := C05Go.perm_rel hperm hrel
    exact ⟨ds', hp', (C05Go.journalGo_agrees cur hrel').1⟩

/-! ## Non-vacuity: the empty file is accepted; a lone byte `0xff` is rejected by the translated parser -/

example : ∃ f gs, goSyntaxParse 1 [] "j" ⟨false⟩ = .ok (goFile [] "j" f, .nil) ∧
    goFromFile (fun _ => false) (goFile [] "j" f).Directives [] = .ok (gs, none) := by
  have hp : Syntax.parseText "j" [] = .ok ⟨⟨0, 0⟩, []⟩ := by
    simp [Syntax.parseText, Syntax.start, Syntax.parseFile, Syntax.fileLoop_eq, Syntax.atEOF, Syntax.rng]
  have hl : FromSyntax.loadText "j" [] = .ok [] := by
    simp [FromSyntax.loadText, hp, FromSyntax.loadItems, FromSyntax.loadItems.go]
  obtain ⟨f, gs, h1, h2, _⟩ := C04_accepted_file_go (fun _ => false) [] "j" ⟨false⟩ 1 (by simp) (by simp) [] hl
  exact ⟨f, gs, h1, h2⟩

end Knut.C04Go2
