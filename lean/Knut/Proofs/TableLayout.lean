import Knut.Proofs.TableNum
/-!
# Helper lemmas for C17: column widths, cells, lines

The width passes of `Render` leave every cell a column at least as wide as `minLengthCell`; a cell
rendered into such a column fills it exactly and shows its content; a row is lead, slots, separators
and trail.
-/
open Knut.Dec Knut.Table Knut.Table.Spec
namespace Knut.Table

/-- every cell of the row has a column and fits into it -/
def fits (r : Renderer) : List Nat → List Cell → Prop
  | _, [] => True
  | [], _ :: _ => False
  | w :: ws, c :: cs => minLengthCell r c ≤ (w : Int) ∧ fits r ws cs

/-- pointwise `≤` of width vectors of the same length -/
def le2 : List Nat → List Nat → Prop
  | [], [] => True
  | a :: as, b :: bs => a ≤ b ∧ le2 as bs
  | _, _ => False

theorem le2_refl : ∀ ws, le2 ws ws
  | [] => trivial
  | _ :: ws => ⟨Nat.le_refl _, le2_refl ws⟩

theorem le2_trans : ∀ {a b c : List Nat}, le2 a b → le2 b c → le2 a c
  | [], [], [], _, _ => trivial
  | _ :: _, _ :: _, _ :: _, h1, h2 => ⟨Nat.le_trans h1.1 h2.1, le2_trans h1.2 h2.2⟩
  | [], [], _ :: _, _, h2 => by simp [le2] at h2
  | [], _ :: _, _, h1, _ => by simp [le2] at h1
  | _ :: _, [], _, h1, _ => by simp [le2] at h1
  | _ :: _, _ :: _, [], _, h2 => by simp [le2] at h2

theorem le2_length : ∀ {a b : List Nat}, le2 a b → a.length = b.length
  | [], [], _ => rfl
  | _ :: _, _ :: _, h => by simp [le2_length h.2]
  | [], _ :: _, h => by simp [le2] at h
  | _ :: _, [], h => by simp [le2] at h

theorem fits_mono (r : Renderer) : ∀ {ws ws' : List Nat} {row : List Cell}, le2 ws ws' → fits r ws row → fits r ws' row
  | _, _, [], _, _ => by simp [fits]
  | [], [], _ :: _, _, h => by simp [fits] at h
  | w :: ws, w' :: ws', c :: cs, hl, h => by
    simp only [fits] at h ⊢
    exact ⟨by have := hl.1; omega, fits_mono r hl.2 h.2⟩
  | [], _ :: _, _ :: _, hl, _ => by simp [le2] at hl
  | _ :: _, [], _ :: _, hl, _ => by simp [le2] at hl

theorem updWidths_spec (r : Renderer) : ∀ (ws : List Nat) (row : List Cell) (ws' : List Nat),
    updWidths r ws row = some ws' → le2 ws ws' ∧ fits r ws' row
  | ws, [], ws', h => by
    simp only [updWidths] at h; cases h; exact ⟨le2_refl _, by simp [fits]⟩
  | [], _ :: _, _, h => by simp [updWidths] at h
  | w :: ws, c :: cs, ws', h => by
    simp only [updWidths] at h
    cases hrec : updWidths r ws cs with
    | none => simp [hrec] at h
    | some t =>
      simp only [hrec] at h
      cases h
      have ⟨h1, h2⟩ := updWidths_spec r ws cs t hrec
      refine ⟨⟨?_, h1⟩, ?_, h2⟩
      · split <;> omega
      · split <;> omega

theorem widthsPass1_spec (r : Renderer) : ∀ (rows : List (List Cell)) (ws ws' : List Nat),
    widthsPass1 r ws rows = some ws' → le2 ws ws' ∧ ∀ row ∈ rows, fits r ws' row
  | [], ws, ws', h => by
    simp only [widthsPass1] at h; cases h; exact ⟨le2_refl _, by simp⟩
  | row :: rows, ws, ws', h => by
    simp only [widthsPass1] at h
    cases hu : updWidths r ws row with
    | none => simp [hu] at h
    | some w1 =>
      simp only [hu] at h
      have ⟨h1, h2⟩ := updWidths_spec r ws row w1 hu
      have ⟨h3, h4⟩ := widthsPass1_spec r rows w1 ws' h
      refine ⟨le2_trans h1 h3, ?_⟩
      intro x hx
      rcases List.mem_cons.mp hx with rfl | hx
      · exact fits_mono r h3 h2
      · exact h4 x hx

theorem le2_zipIdx_map (g : Nat → Nat) : ∀ (ws : List Nat) (n : Nat),
    le2 ws ((ws.zipIdx n).map (fun wi => if wi.1 < g wi.2 then g wi.2 else wi.1))
  | [], _ => trivial
  | w :: ws, n => by
    simp only [List.zipIdx_cons, List.map_cons, le2]
    refine ⟨by split <;> omega, le2_zipIdx_map g ws (n + 1)⟩

theorem widthsPass2_le (cols ws : List Nat) : le2 ws (widthsPass2 cols ws) :=
  le2_zipIdx_map (groupWidth cols ws) ws 0


theorem spaces_length (n : Int) : (spaces n).length = n.toNat := by simp [spaces]
theorem dashes_length (n : Int) : (dashes n).length = n.toNat := by simp [dashes]

theorem tdiv2_bounds (x : Int) (h : 0 ≤ x) : 0 ≤ Int.tdiv x 2 ∧ Int.tdiv x 2 ≤ x := by
  rw [Int.tdiv_eq_ediv_of_nonneg h]
  omega

/-- a cell that fits its column fills it exactly -/
theorem renderCell_length (r : Renderer) (c : Cell) (w : Nat)
    (hfit : minLengthCell r c ≤ (w : Int)) (hp : cellPlain c = true) : (renderCell r c w).length = w := by
  cases c with
  | empty => simp [renderCell, spaces]
  | sep => simp [renderCell, dashes]
  | text s a ind =>
    have hind : 0 ≤ ind := by simp [cellPlain] at hp; exact hp.1
    simp only [renderCell, List.length_append, spaces_length]
    cases a with
    | left =>
      simp only [minLengthCell, if_true] at hfit
      simp only []
      omega
    | right =>
      simp only [minLengthCell] at hfit
      simp at hfit
      simp only []
      omega
    | center =>
      simp only [minLengthCell] at hfit
      simp at hfit
      have ⟨h1, h2⟩ := tdiv2_bounds ((w : Int) - (s.length : Int)) (by omega)
      simp only []
      omega
  | num n =>
    simp only [minLengthCell] at hfit
    simp only [renderCell, padLeft]
    split
    · simp
    · simp only [List.length_append, List.length_replicate]
      omega

/-- amounts for which the property's exact quotient and the code's `Div` agree -/
def cellExact (r : Renderer) : Cell → Prop
  | .num d => r.thousands = false ∨ thousandsExact d = true
  | _ => True

theorem target_eq (r : Renderer) (d : Rat) (_h : r.thousands = false ∨ thousandsExact d = true) :
    exactTarget r d = codeTarget r d := rfl

/-- since `Shift(-3)` replaced `Div(1000)` the code's target IS the property's target, for every amount -/
theorem target_eq' (r : Renderer) (d : Rat) : exactTarget r d = codeTarget r d := rfl

theorem numToString_head (r : Renderer) (d : Rat) : ∃ c rest, numToString r d = c :: rest ∧ c ≠ ' ' := by
  rw [numToString_shape]
  generalize fixedInt r.round (scaled r d) = m
  generalize fixedScale r.round = k
  unfold signPart
  by_cases hm : m < 0
  · exact ⟨'-', groupLeft (intDigits m k) ++ fracPart k (m.natAbs % 10 ^ k), by simp [hm], by decide⟩
  · cases h : intDigits m k with
    | nil => exact absurd h (digitsOf_ne_nil _)
    | cons c cs =>
      have hd : isDigit c = true := digitsOf_isDigit (h ▸ List.mem_cons_self)
      refine ⟨c, _, by simp only [hm, if_false, List.nil_append]; rw [groupLeft_cons]; rfl, ?_⟩
      intro hc; subst hc; simp [isDigit] at hd

theorem paddedText_intro (content : List Char) (a b : Nat) :
    paddedText content (List.replicate a ' ' ++ content ++ List.replicate b ' ') = true := by
  unfold paddedText
  rw [List.any_eq_true]
  refine ⟨a, by simp; omega, ?_⟩
  have : (List.replicate a ' ' ++ content ++ List.replicate b ' ').length - a - content.length = b := by
    simp
  rw [this]
  simp

/-- what a column slot displays is its cell -/
theorem cellShows_renderCell (exact : Bool) (r : Renderer) (c : Cell) (w : Nat)
    (hfit : minLengthCell r c ≤ (w : Int)) (hp : cellPlain c = true) (hex : exact = true → cellExact r c) :
    cellShows exact r c (renderCell r c w) = true := by
  cases c with
  | empty => simp [cellShows, renderCell, spaces, allSpaces]
  | sep => simp [cellShows, renderCell, dashes]
  | text s a ind =>
    simp only [cellShows, renderCell, spaces]
    exact paddedText_intro _ _ _
  | num n =>
    simp only [cellShows, renderCell]
    by_cases hn : n = 0
    · simp [hn, padLeft, allSpaces]
    · simp only [hn, if_false, padLeft]
      obtain ⟨c, rest, hcr, hc⟩ := numToString_head r n
      have hdrop : List.dropWhile (fun c => c == ' ') (List.replicate (w - (numToString r n).length) ' ' ++ numToString r n)
          = numToString r n := by
        rw [List.dropWhile_append_of_pos (by intro a ha; simp [List.mem_replicate] at ha; simp [ha.2])]
        rw [hcr, List.dropWhile_cons]
        simp [hc]
      rw [hdrop]
      have hne : (numToString r n).isEmpty = false := by rw [hcr]; rfl
      simp only [hne, Bool.not_false, Bool.true_and]
      have htarget : (if exact = true then exactTarget r n else codeTarget r n) = codeTarget r n := by
        by_cases he : exact = true
        · simp only [he, if_true]; exact target_eq r n (hex he)
        · simp [he]
      rw [htarget]
      exact numShownAs_numToString r n



theorem midOK_createSep (c c' : Cell) : midOK (createSep c c') = true := by
  unfold createSep midOK
  cases c.isSep <;> cases c'.isSep <;> decide

theorem createSep_length (c c' : Cell) : (createSep c c').length = 3 := by
  unfold createSep
  cases c.isSep <;> cases c'.isSep <;> rfl

/-- the cells of a row, followed by a trail, decompose into slots -/
theorem renderCells_conforms (exact : Bool) (r : Renderer) (trail : List Char) (htrail : trailOK trail = true) :
    ∀ (row : List Cell) (W : List Nat), row ≠ [] → fits r W row → (∀ c ∈ row, cellPlain c = true) →
      (exact = true → ∀ c ∈ row, cellExact r c) →
      ∃ body, renderCells r row W = some body ∧ conformsCells exact r row W (body ++ trail) = true
  | [], _, h, _, _, _ => absurd rfl h
  | _ :: _, [], _, hf, _, _ => by simp [fits] at hf
  | [c], w :: ws, _, hf, hp, hex => by
    have hfit : minLengthCell r c ≤ (w : Int) := hf.1
    have hpc := hp c (by simp)
    have hl := renderCell_length r c w hfit hpc
    refine ⟨renderCell r c w, rfl, ?_⟩
    simp only [conformsCells]
    rw [List.take_left' hl, List.drop_left' hl, htrail,
      cellShows_renderCell exact r c w hfit hpc (fun he => hex he c (by simp))]
    rfl
  | c :: c' :: cs, w :: ws, _, hf, hp, hex => by
    have hfit : minLengthCell r c ≤ (w : Int) := hf.1
    have hpc := hp c (by simp)
    have hl := renderCell_length r c w hfit hpc
    obtain ⟨body', hb, hc⟩ := renderCells_conforms exact r trail htrail (c' :: cs) ws (by simp) hf.2
      (fun x hx => hp x (by simp [hx])) (fun he x hx => hex he x (by simp [hx]))
    refine ⟨renderCell r c w ++ createSep c c' ++ body', by simp [renderCells, hb], ?_⟩
    simp only [conformsCells]
    have e1 : renderCell r c w ++ createSep c c' ++ body' ++ trail
        = renderCell r c w ++ (createSep c c' ++ (body' ++ trail)) := by simp
    rw [e1, List.take_left' hl, List.drop_left' hl, List.take_left' (createSep_length c c'),
      List.drop_left' (createSep_length c c'), midOK_createSep, hc,
      cellShows_renderCell exact r c w hfit hpc (fun he => hex he c (by simp))]
    rfl



theorem renderRow_conforms (exact : Bool) (r : Renderer) (W : List Nat) (row : List Cell) (hne : row ≠ [])
    (hf : fits r W row) (hp : ∀ c ∈ row, cellPlain c = true) (hex : exact = true → ∀ c ∈ row, cellExact r c) :
    ∃ line, renderRow r W row = some line ∧ conformsRow exact r W row line = true := by
  cases row with
  | nil => exact absurd rfl hne
  | cons c0 rest =>
    let trail := if ((c0 :: rest).getLast?.getD c0).isSep then "-+".toList else " |".toList
    have htrail : trailOK trail = true := by
      simp only [trail]; split <;> decide
    obtain ⟨body, hb, hc⟩ := renderCells_conforms exact r trail htrail (c0 :: rest) W hne hf hp hex
    refine ⟨(if c0.isSep then "+-".toList else "| ".toList) ++ body ++ trail, by simp [renderRow, hb, trail], ?_⟩
    unfold conformsRow
    have hlead : (if c0.isSep = true then "+-".toList else "| ".toList).length = 2 := by split <;> rfl
    rw [List.append_assoc, List.take_left' hlead, List.drop_left' hlead, hc]
    have : leadOK (if c0.isSep = true then "+-".toList else "| ".toList) = true := by split <;> decide
    rw [this]; rfl

theorem renderRows_conforms (exact : Bool) (r : Renderer) (W : List Nat) :
    ∀ (rows : List (List Cell)), (∀ row ∈ rows, row ≠ [] ∧ fits r W row ∧ (∀ c ∈ row, cellPlain c = true) ∧
        (exact = true → ∀ c ∈ row, cellExact r c)) →
      ∃ ls, renderRows r W rows = some ls ∧ conformsAll exact r W rows ls = true
  | [], _ => ⟨[], rfl, rfl⟩
  | row :: rows, h => by
    obtain ⟨hne, hf, hp, hex⟩ := h row (by simp)
    obtain ⟨line, hl, hc⟩ := renderRow_conforms exact r W row hne hf hp hex
    obtain ⟨ls, hls, hcs⟩ := renderRows_conforms exact r W rows (fun x hx => h x (by simp [hx]))
    exact ⟨line :: ls, by simp [renderRows, hl, hls], by simp [conformsAll, hc, hcs]⟩



/-- length of `n` slots with their separators and the trail -/
def slotsLen : Nat → List Nat → Nat
  | 0, _ => 0
  | _ + 1, [] => 0
  | 1, w :: _ => w + 2
  | n + 2, w :: ws => w + 3 + slotsLen (n + 1) ws

theorem trailOK_length {s : List Char} (h : trailOK s = true) : s.length = 2 := by
  unfold trailOK at h
  simp only [Bool.or_eq_true, beq_iff_eq] at h
  rcases h with h | h <;> rw [h] <;> rfl

theorem midOK_length {s : List Char} (h : midOK s = true) : s.length = 3 := by
  unfold midOK at h
  simp only [Bool.or_eq_true, beq_iff_eq] at h
  rcases h with ((h | h) | h) | h <;> rw [h] <;> rfl

theorem leadOK_length {s : List Char} (h : leadOK s = true) : s.length = 2 := by
  unfold leadOK at h
  simp only [Bool.or_eq_true, beq_iff_eq] at h
  rcases h with h | h <;> rw [h] <;> rfl

theorem conformsCells_length (e : Bool) (r : Renderer) : ∀ (row : List Cell) (W : List Nat) (s : List Char),
    conformsCells e r row W s = true → s.length = slotsLen row.length W
  | [], _, _, h => by simp [conformsCells] at h
  | _ :: _, [], _, h => by simp [conformsCells] at h
  | [c], w :: ws, s, h => by
    simp only [conformsCells, Bool.and_eq_true] at h
    have := trailOK_length h.2
    simp only [List.length_drop] at this
    simp only [List.length_cons, List.length_nil, slotsLen]
    omega
  | c :: c' :: cs, w :: ws, s, h => by
    simp only [conformsCells, Bool.and_eq_true] at h
    have h1 := midOK_length h.1.2
    have h2 := conformsCells_length e r (c' :: cs) ws _ h.2
    simp only [List.length_drop, List.length_take] at h1 h2
    simp only [List.length_cons, slotsLen] at h2 ⊢
    omega

theorem conformsRow_length (e : Bool) (r : Renderer) (W : List Nat) (row : List Cell) (line : List Char)
    (h : conformsRow e r W row line = true) : line.length = 2 + slotsLen row.length W := by
  unfold conformsRow at h
  simp only [Bool.and_eq_true] at h
  have h1 := leadOK_length h.1
  have h2 := conformsCells_length e r row W _ h.2
  simp only [List.length_drop, List.length_take] at h1 h2
  omega

theorem conformsAll_lengths (e : Bool) (r : Renderer) (W : List Nat) (n : Nat) :
    ∀ (rows : List (List Cell)) (ls : List (List Char)), conformsAll e r W rows ls = true →
      (∀ row ∈ rows, row.length = n) → ∀ l ∈ ls, l.length = 2 + slotsLen n W
  | [], [], _, _ => by simp
  | [], _ :: _, h, _ => by simp [conformsAll] at h
  | _ :: _, [], h, _ => by simp [conformsAll] at h
  | row :: rows, l :: ls, h, hn => by
    simp only [conformsAll, Bool.and_eq_true] at h
    intro x hx
    rcases List.mem_cons.mp hx with rfl | hx
    · rw [conformsRow_length e r W row _ h.1, hn row (by simp)]
    · exact conformsAll_lengths e r W n rows ls h.2 (fun y hy => hn y (by simp [hy])) x hx

/-- lines that decompose into the same slots are equally long -/
theorem rectLines_of_conformsAll (e : Bool) (r : Renderer) (W : List Nat) (n : Nat)
    (rows : List (List Cell)) (ls : List (List Char)) (h : conformsAll e r W rows ls = true)
    (hn : ∀ row ∈ rows, row.length = n) : rectLines ls = true := by
  have hl := conformsAll_lengths e r W n rows ls h hn
  cases ls with
  | nil => rfl
  | cons l rest =>
    unfold rectLines
    rw [List.all_eq_true]
    intro x hx
    rw [hl x (by simp [hx]), hl l (by simp)]
    simp



/-- positions (relative to `off`, the start of the first slot) of the separator characters after each of `n` slots -/
def bounds : Nat → List Nat → Nat → List Nat
  | 0, _, _ => []
  | _ + 1, [], _ => []
  | n + 1, w :: ws, off => (off + w + 1) :: bounds n ws (off + w + 3)

theorem bounds_shift : ∀ (n : Nat) (W : List Nat) (off a : Nat),
    bounds n W (off + a) = (bounds n W off).map (· + a)
  | 0, _, _, _ => rfl
  | _ + 1, [], _, _ => rfl
  | n + 1, w :: ws, off, a => by
    simp only [bounds, List.map_cons]
    rw [show off + a + w + 3 = (off + w + 3) + a by omega, bounds_shift n ws (off + w + 3) a]
    congr 1; omega

theorem bounds_gt : ∀ (n : Nat) (W : List Nat) (off : Nat), ∀ p ∈ bounds n W off, off < p
  | 0, _, _, p, h => by simp [bounds] at h
  | _ + 1, [], _, p, h => by simp [bounds] at h
  | n + 1, w :: ws, off, p, h => by
    simp only [bounds, List.mem_cons] at h
    rcases h with rfl | h
    · omega
    · have := bounds_gt n ws (off + w + 3) p h; omega

theorem bounds_nodup : ∀ (n : Nat) (W : List Nat) (off : Nat), (bounds n W off).Nodup
  | 0, _, _ => by simp [bounds]
  | _ + 1, [], _ => by simp [bounds]
  | n + 1, w :: ws, off => by
    simp only [bounds, List.nodup_cons]
    refine ⟨?_, bounds_nodup n ws _⟩
    intro h
    have := bounds_gt n ws (off + w + 3) _ h
    omega

theorem sepAt_drop (s : List Char) (k p : Nat) : sepAt (s.drop k) p = sepAt s (k + p) := by
  simp [sepAt, List.getElem?_drop]

theorem trailOK_sep {s : List Char} (h : trailOK s = true) : sepAt s 1 = true := by
  unfold trailOK at h
  simp only [Bool.or_eq_true, beq_iff_eq] at h
  rcases h with h | h <;> rw [h] <;> decide

theorem midOK_sep {s : List Char} (h : midOK s = true) : sepAt s 1 = true := by
  unfold midOK at h
  simp only [Bool.or_eq_true, beq_iff_eq] at h
  rcases h with ((h | h) | h) | h <;> rw [h] <;> decide

theorem leadOK_sep {s : List Char} (h : leadOK s = true) : sepAt s 0 = true := by
  unfold leadOK at h
  simp only [Bool.or_eq_true, beq_iff_eq] at h
  rcases h with h | h <;> rw [h] <;> decide

theorem sepAt_take (s : List Char) (k p : Nat) (h : p < k) : sepAt (s.take k) p = sepAt s p := by
  simp [sepAt, List.getElem?_take, h]

theorem conformsCells_sep (e : Bool) (r : Renderer) : ∀ (row : List Cell) (W : List Nat) (s : List Char),
    conformsCells e r row W s = true →
      (bounds row.length W 0).length = row.length ∧ ∀ p ∈ bounds row.length W 0, sepAt s p = true
  | [], _, _, h => by simp [conformsCells] at h
  | _ :: _, [], _, h => by simp [conformsCells] at h
  | [c], w :: ws, s, h => by
    simp only [conformsCells, Bool.and_eq_true] at h
    have := trailOK_sep h.2
    rw [sepAt_drop] at this
    simp only [List.length_cons, List.length_nil, bounds, Nat.zero_add, List.mem_singleton]
    exact ⟨trivial, fun p hp => by rw [hp]; exact this⟩
  | c :: c' :: cs, w :: ws, s, h => by
    simp only [conformsCells, Bool.and_eq_true] at h
    have h1 := midOK_sep h.1.2
    rw [sepAt_take _ _ _ (by omega), sepAt_drop] at h1
    have ⟨h2, h3⟩ := conformsCells_sep e r (c' :: cs) ws _ h.2
    simp only [List.length_cons, bounds, Nat.zero_add] at h2 ⊢
    have hs := bounds_shift (cs.length + 1) ws 0 (w + 3)
    simp only [Nat.zero_add] at hs
    rw [hs]
    refine ⟨by simp [h2], ?_⟩
    intro p hp
    simp only [List.mem_cons, List.mem_map] at hp
    rcases hp with rfl | ⟨q, hq, rfl⟩
    · exact h1
    · have := h3 q (by simpa using hq)
      rw [sepAt_drop, sepAt_drop] at this
      rw [show q + (w + 3) = w + (3 + q) by omega]
      exact this

/-- the separator columns of a line: column 0 and the one after each slot -/
def lineBounds (n : Nat) (W : List Nat) : List Nat := 0 :: bounds n W 2

theorem conformsRow_sep (e : Bool) (r : Renderer) (W : List Nat) (row : List Cell) (line : List Char)
    (h : conformsRow e r W row line = true) :
    (lineBounds row.length W).length = row.length + 1 ∧ ∀ p ∈ lineBounds row.length W, sepAt line p = true := by
  unfold conformsRow at h
  simp only [Bool.and_eq_true] at h
  have h0 := leadOK_sep h.1
  rw [sepAt_take _ _ _ (by omega)] at h0
  have ⟨h1, h2⟩ := conformsCells_sep e r row W _ h.2
  have hs := bounds_shift row.length W 0 2
  simp only [Nat.zero_add] at hs
  unfold lineBounds
  rw [hs]
  refine ⟨by simp [h1], ?_⟩
  intro p hp
  simp only [List.mem_cons, List.mem_map] at hp
  rcases hp with rfl | ⟨q, hq, rfl⟩
  · exact h0
  · have := h2 q hq
    rw [sepAt_drop] at this
    rw [Nat.add_comm]; exact this

theorem lineBounds_nodup (n : Nat) (W : List Nat) : (lineBounds n W).Nodup := by
  unfold lineBounds
  rw [List.nodup_cons]
  refine ⟨fun h => ?_, bounds_nodup _ _ _⟩
  have := bounds_gt n W 2 0 h
  omega

/-- `n + 1` distinct columns that hold a separator on every line: vertically aligned -/
theorem alignedOK_of (n : Nat) (ls : List (List Char)) (B : List Nat) (hB : B.Nodup) (hlen : B.length = n + 1)
    (h : ∀ l ∈ ls, ∀ p ∈ B, sepAt l p = true) : alignedOK n ls = true := by
  unfold alignedOK
  cases ls with
  | nil => rfl
  | cons l rest =>
    simp only [List.isEmpty_cons, Bool.false_or, decide_eq_true_eq]
    rw [← hlen]
    apply List.Nodup.length_le_of_subset hB
    intro p hp
    unfold commonSep
    rw [List.mem_filter, List.mem_range, List.all_eq_true]
    refine ⟨?_, fun x hx => h x hx p hp⟩
    have := h l (by simp) p hp
    unfold sepAt at this
    by_cases hlt : p < l.length
    · exact hlt
    · rw [List.getElem?_eq_none (by omega)] at this
      simp at this

theorem alignedOK_of_conformsAll (e : Bool) (r : Renderer) (W : List Nat) (n : Nat)
    (rows : List (List Cell)) (ls : List (List Char)) (h : conformsAll e r W rows ls = true)
    (hn : ∀ row ∈ rows, row.length = n) : alignedOK n ls = true := by
  cases hls : ls with
  | nil => rfl
  | cons l0 rest =>
    have key : ∀ (rows : List (List Cell)) (ls : List (List Char)), conformsAll e r W rows ls = true →
        (∀ row ∈ rows, row.length = n) →
        ∀ l ∈ ls, (lineBounds n W).length = n + 1 ∧ ∀ p ∈ lineBounds n W, sepAt l p = true := by
      intro rows
      induction rows with
      | nil => intro ls h _ l hl; cases ls <;> simp [conformsAll] at h hl
      | cons row rows ih =>
        intro ls h hn l hl
        cases ls with
        | nil => simp [conformsAll] at h
        | cons l' ls' =>
          simp only [conformsAll, Bool.and_eq_true] at h
          rcases List.mem_cons.mp hl with rfl | hl
          · have := conformsRow_sep e r W row _ h.1
            rw [hn row (by simp)] at this
            exact this
          · exact ih ls' h.2 (fun y hy => hn y (by simp [hy])) l hl
    rw [← hls]
    have hall := key rows ls h hn
    have hlen : (lineBounds n W).length = n + 1 := (hall l0 (by rw [hls]; simp)).1
    exact alignedOK_of n ls (lineBounds n W) (lineBounds_nodup n W) hlen (fun l hl => (hall l hl).2)



theorem updWidths_some (r : Renderer) : ∀ (ws : List Nat) (row : List Cell), row.length ≤ ws.length →
    ∃ ws', updWidths r ws row = some ws'
  | ws, [], _ => ⟨ws, by simp [updWidths]⟩
  | [], _ :: _, h => by simp at h
  | w :: ws, c :: cs, h => by
    obtain ⟨t, ht⟩ := updWidths_some r ws cs (by simpa using h)
    exact ⟨(if (w : Int) < minLengthCell r c then (minLengthCell r c).toNat else w) :: t, by simp only [updWidths, ht]⟩

theorem widthsPass1_some (r : Renderer) : ∀ (rows : List (List Cell)) (ws : List Nat),
    (∀ row ∈ rows, row.length ≤ ws.length) → ∃ ws', widthsPass1 r ws rows = some ws'
  | [], ws, _ => ⟨ws, rfl⟩
  | row :: rows, ws, h => by
    obtain ⟨w1, h1⟩ := updWidths_some r ws row (h row (by simp))
    have hl := le2_length (updWidths_spec r ws row w1 h1).1
    obtain ⟨w2, h2⟩ := widthsPass1_some r rows w1 (fun x hx => by rw [← hl]; exact h x (by simp [hx]))
    exact ⟨w2, by simp only [widthsPass1, h1, h2]⟩

/-- every cell of the table is plain / exact -/
def tableExact (r : Renderer) (t : Table) : Prop := ∀ row ∈ t.rows, ∀ c ∈ row, cellExact r c

theorem uniform_spec {n : Nat} {t : Table} (h : uniform n t = true) :
    1 ≤ n ∧ n ≤ t.width ∧ ∀ row ∈ t.rows, row.length = n := by
  unfold uniform at h
  simp only [Bool.and_eq_true, decide_eq_true_eq, List.all_eq_true, beq_iff_eq] at h
  exact ⟨h.1.1, h.1.2, h.2⟩

theorem plain_spec {t : Table} (h : plain t = true) : ∀ row ∈ t.rows, ∀ c ∈ row, cellPlain c = true := by
  unfold plain at h
  simp only [List.all_eq_true] at h
  exact h

/-- **the model's text conforms**: with rows of `n ≥ 1` cells and plain texts, `Render` does not panic
and every line decomposes into the slots of the final widths, each slot showing its cell -/
theorem renderLines_conforms (exact : Bool) (r : Renderer) (t : Table) (n : Nat)
    (hu : uniform n t = true) (hp : plain t = true) (hex : exact = true → tableExact r t) :
    ∃ W ls, finalWidths r t = some W ∧ renderLines r t = .ok ls ∧ conformsAll exact r W t.rows ls = true := by
  obtain ⟨h1, h2, h3⟩ := uniform_spec hu
  have hpl := plain_spec hp
  obtain ⟨w1, hw1⟩ := widthsPass1_some r t.rows (List.replicate t.width 0)
    (fun row hrow => by simp [h3 row hrow, h2])
  have ⟨_, hfit⟩ := widthsPass1_spec r t.rows _ w1 hw1
  have hW : finalWidths r t = some (widthsPass2 t.columns w1) := by simp [finalWidths, hw1]
  have hfit2 : ∀ row ∈ t.rows, fits r (widthsPass2 t.columns w1) row :=
    fun row hrow => fits_mono r (widthsPass2_le _ _) (hfit row hrow)
  obtain ⟨ls, hls, hc⟩ := renderRows_conforms exact r (widthsPass2 t.columns w1) t.rows (fun row hrow =>
    ⟨by intro h; have := h3 row hrow; rw [h] at this; simp at this; omega, hfit2 row hrow, hpl row hrow,
      fun he => hex he row hrow⟩)
  exact ⟨_, ls, hW, by simp [renderLines, hW, hls], hc⟩



/-- a numeric cell is blank exactly for the amount zero (the test is on the unrounded amount) -/
theorem numCell_blank_iff (r : Renderer) (d : Rat) (w : Nat) :
    allSpaces (renderCell r (.num d) w) = true ↔ d = 0 := by
  constructor
  · intro h
    by_cases hd : d = 0
    · exact hd
    · exfalso
      obtain ⟨c, rest, hcr, hc⟩ := numToString_head r d
      simp only [renderCell, hd, if_false, padLeft, allSpaces, List.all_eq_true] at h
      have := h c (by rw [hcr]; simp)
      simp at this
      exact hc this
  · intro h
    simp [renderCell, h, padLeft, allSpaces]



theorem splitOnNL_cons_ne (c : Char) (cs : List Char) (hc : c ≠ '\n') (l : List Char) (ls : List (List Char))
    (h : splitOnNL cs = l :: ls) : splitOnNL (c :: cs) = (c :: l) :: ls := by
  rw [splitOnNL, h]; simp [hc]

theorem splitOnNL_ne_nil : ∀ cs, splitOnNL cs ≠ []
  | [] => by simp [splitOnNL]
  | c :: cs => by
    rw [splitOnNL]
    split
    · simp
    · split <;> simp

theorem splitOnNL_nl (cs : List Char) : splitOnNL ('\n' :: cs) = [] :: splitOnNL cs := by
  rw [splitOnNL]
  split
  · rename_i h; exact absurd h (splitOnNL_ne_nil cs)
  · rename_i l ls h; simp [h]

theorem splitOnNL_line : ∀ (l : List Char) (rest : List Char), (∀ c ∈ l, c ≠ '\n') →
    splitOnNL (l ++ '\n' :: rest) = l :: splitOnNL rest
  | [], rest, _ => by simp [splitOnNL_nl]
  | c :: l, rest, h => by
    have ih := splitOnNL_line l rest (fun x hx => h x (by simp [hx]))
    rw [List.cons_append]
    exact splitOnNL_cons_ne c _ (h c (by simp)) l _ ih

theorem splitOnNL_joinLines : ∀ (ls : List (List Char)), (∀ l ∈ ls, ∀ c ∈ l, c ≠ '\n') →
    splitOnNL (joinLines ls) = ls ++ [[], []]
  | [], _ => by
    show splitOnNL ['\n'] = _
    rw [splitOnNL_nl]; rfl
  | l :: ls, h => by
    have ih := splitOnNL_joinLines ls (fun x hx => h x (by simp [hx]))
    have : joinLines (l :: ls) = l ++ '\n' :: joinLines ls := by simp [joinLines]
    rw [this, splitOnNL_line l _ (h l (by simp)), ih]; rfl

/-- the lines of a text are recovered from its bytes -/
theorem tableLines_joinLines (ls : List (List Char)) (h : ∀ l ∈ ls, ∀ c ∈ l, c ≠ '\n') :
    tableLines (joinLines ls) = some ls := by
  unfold tableLines
  rw [splitOnNL_joinLines ls h]
  have e1 : (ls ++ [[], []] : List (List Char)).dropLast = ls ++ [[]] := by
    rw [show (ls ++ [[], []] : List (List Char)) = (ls ++ [[]]) ++ [[]] by simp, List.dropLast_concat]
  have e2 : (ls ++ [[]] : List (List Char)).dropLast = ls := List.dropLast_concat
  simp only [e1, e2]
  simp



theorem mem_groupLeft : ∀ (D : List Char) (c : Char), c ∈ groupLeft D → c ∈ D ∨ c = ','
  | [], c, h => by simp [groupLeft] at h
  | d :: D, c, h => by
    rw [groupLeft_cons] at h
    simp only [List.mem_cons, List.mem_append] at h ⊢
    rcases h with h | h | h
    · exact Or.inl (Or.inl h)
    · unfold commaIf at h
      split at h
      · simp at h; exact Or.inr h
      · simp at h
    · rcases mem_groupLeft D c h with h | h
      · exact Or.inl (Or.inr h)
      · exact Or.inr h

theorem isDigit_ne_nl {c : Char} (h : isDigit c = true) : c ≠ '\n' := by
  intro hc; subst hc; simp [isDigit] at h

theorem numToString_noNL (r : Renderer) (d : Rat) : ∀ c ∈ numToString r d, c ≠ '\n' := by
  rw [numToString_shape]
  intro c hc
  simp only [List.mem_append] at hc
  rcases hc with (hc | hc) | hc
  · unfold signPart at hc
    split at hc
    · simp at hc; rw [hc]; decide
    · simp at hc
  · rcases mem_groupLeft _ c hc with h | h
    · exact isDigit_ne_nl (digitsOf_isDigit h)
    · rw [h]; decide
  · rw [fracPart_eq] at hc
    split at hc
    · simp at hc
    · rcases List.mem_cons.mp hc with h | h
      · rw [h]; decide
      · exact isDigit_ne_nl (fracDigits_isDigit h)

theorem renderCell_noNL (r : Renderer) (c : Cell) (w : Nat) (hp : cellPlain c = true) :
    ∀ x ∈ renderCell r c w, x ≠ '\n' := by
  intro x hx
  cases c with
  | empty => simp [renderCell, spaces] at hx; rw [hx.2]; decide
  | sep => simp [renderCell, dashes] at hx; rw [hx.2]; decide
  | text s a ind =>
    simp only [renderCell, spaces, List.mem_append, List.mem_replicate] at hx
    rcases hx with (hx | hx) | hx
    · rw [hx.2]; decide
    · intro h
      subst h
      simp only [cellPlain, Bool.and_eq_true, Bool.not_eq_eq_eq_not, Bool.not_true] at hp
      have := hp.2
      simp at this
      exact this hx
    · rw [hx.2]; decide
  | num n =>
    simp only [renderCell, padLeft] at hx
    split at hx
    · simp at hx; rw [hx.2]; decide
    · simp only [List.mem_append, List.mem_replicate] at hx
      rcases hx with hx | hx
      · rw [hx.2]; decide
      · exact numToString_noNL r n x hx

theorem createSep_noNL (c c' : Cell) : ∀ x ∈ createSep c c', x ≠ '\n' := by
  unfold createSep
  cases c.isSep <;> cases c'.isSep <;> decide

theorem renderCells_noNL (r : Renderer) : ∀ (row : List Cell) (W : List Nat) (body : List Char),
    (∀ c ∈ row, cellPlain c = true) → renderCells r row W = some body → ∀ x ∈ body, x ≠ '\n'
  | [], _, body, _, h => by simp [renderCells] at h; subst h; simp
  | _ :: _, [], _, _, h => by simp [renderCells] at h
  | [c], w :: ws, body, hp, h => by
    simp only [renderCells] at h
    cases h
    exact renderCell_noNL r c w (hp c (by simp))
  | c :: c' :: cs, w :: ws, body, hp, h => by
    simp only [renderCells] at h
    cases hrec : renderCells r (c' :: cs) ws with
    | none => simp [hrec] at h
    | some t =>
      simp only [hrec] at h
      cases h
      intro x hx
      simp only [List.mem_append] at hx
      rcases hx with (hx | hx) | hx
      · exact renderCell_noNL r c w (hp c (by simp)) x hx
      · exact createSep_noNL c c' x hx
      · exact renderCells_noNL r (c' :: cs) ws t (fun y hy => hp y (by simp [hy])) hrec x hx

theorem renderRow_noNL (r : Renderer) (W : List Nat) (row : List Cell) (line : List Char)
    (hp : ∀ c ∈ row, cellPlain c = true) (h : renderRow r W row = some line) : ∀ x ∈ line, x ≠ '\n' := by
  cases row with
  | nil => simp [renderRow] at h
  | cons c0 rest =>
    simp only [renderRow] at h
    cases hb : renderCells r (c0 :: rest) W with
    | none => simp [hb] at h
    | some body =>
      simp only [hb] at h
      cases h
      intro x hx
      simp only [List.mem_append] at hx
      rcases hx with (hx | hx) | hx
      · split at hx <;> (revert x; decide)
      · exact renderCells_noNL r _ W body hp hb x hx
      · split at hx <;> (revert x; decide)

theorem renderRows_noNL (r : Renderer) (W : List Nat) : ∀ (rows : List (List Cell)) (ls : List (List Char)),
    (∀ row ∈ rows, ∀ c ∈ row, cellPlain c = true) → renderRows r W rows = some ls →
      ∀ l ∈ ls, ∀ x ∈ l, x ≠ '\n'
  | [], ls, _, h => by simp [renderRows] at h; subst h; simp
  | row :: rows, ls, hp, h => by
    simp only [renderRows] at h
    cases h1 : renderRow r W row with
    | none => simp [h1] at h
    | some l =>
      cases h2 : renderRows r W rows with
      | none => simp [h1, h2] at h
      | some ls' =>
        simp only [h1, h2] at h
        cases h
        intro l' hl'
        rcases List.mem_cons.mp hl' with rfl | hl'
        · exact renderRow_noNL r W row _ (hp row (by simp)) h1
        · exact renderRows_noNL r W rows ls' (fun y hy => hp y (by simp [hy])) h2 l' hl'

theorem renderLines_noNL (r : Renderer) (t : Table) (ls : List (List Char)) (hp : plain t = true)
    (h : renderLines r t = .ok ls) : ∀ l ∈ ls, ∀ x ∈ l, x ≠ '\n' := by
  unfold renderLines at h
  split at h
  · cases h
  · rename_i ws _
    split at h
    · rename_i ls' hls
      cases h
      exact renderRows_noNL r ws t.rows ls (plain_spec hp) hls
    · cases h



theorem updWidths_none (r : Renderer) : ∀ (ws : List Nat) (row : List Cell), ws.length < row.length →
    updWidths r ws row = none
  | _, [], h => by simp at h
  | [], _ :: _, _ => rfl
  | w :: ws, c :: cs, h => by
    simp only [updWidths, updWidths_none r ws cs (by simpa using h)]

theorem widthsPass1_none (r : Renderer) : ∀ (rows : List (List Cell)) (ws : List Nat),
    (∃ row ∈ rows, ws.length < row.length) → widthsPass1 r ws rows = none
  | [], _, h => by simp at h
  | row :: rows, ws, h => by
    simp only [widthsPass1]
    cases hu : updWidths r ws row with
    | none => rfl
    | some w1 =>
      simp only []
      have hl := le2_length (updWidths_spec r ws row w1 hu).1
      apply widthsPass1_none r rows w1
      obtain ⟨x, hx, hlt⟩ := h
      rcases List.mem_cons.mp hx with rfl | hx
      · have := updWidths_none r ws x hlt
        rw [this] at hu; cases hu
      · exact ⟨x, hx, by omega⟩

theorem renderCells_some (r : Renderer) : ∀ (row : List Cell) (W : List Nat), row.length ≤ W.length →
    ∃ body, renderCells r row W = some body
  | [], _, _ => ⟨[], rfl⟩
  | _ :: _, [], h => by simp at h
  | [c], w :: ws, _ => ⟨_, rfl⟩
  | c :: c' :: cs, w :: ws, h => by
    obtain ⟨t, ht⟩ := renderCells_some r (c' :: cs) ws (by simpa using h)
    exact ⟨renderCell r c w ++ createSep c c' ++ t, by simp only [renderCells, ht]⟩

theorem renderRows_some_iff (r : Renderer) (W : List Nat) : ∀ (rows : List (List Cell)),
    (∀ row ∈ rows, row.length ≤ W.length) → ((∃ ls, renderRows r W rows = some ls) ↔ ∀ row ∈ rows, row ≠ [])
  | [], _ => by simp [renderRows]
  | row :: rows, h => by
    have ih := renderRows_some_iff r W rows (fun x hx => h x (by simp [hx]))
    constructor
    · intro ⟨ls, hls⟩
      simp only [renderRows] at hls
      cases h1 : renderRow r W row with
      | none => simp [h1] at hls
      | some l =>
        cases h2 : renderRows r W rows with
        | none => simp [h1, h2] at hls
        | some ls' =>
          intro x hx
          rcases List.mem_cons.mp hx with rfl | hx
          · intro he; subst he; simp [renderRow] at h1
          · exact ih.mp ⟨ls', h2⟩ x hx
    · intro hne
      obtain ⟨ls', h2⟩ := ih.mpr (fun x hx => hne x (by simp [hx]))
      have hrow := hne row (by simp)
      cases row with
      | nil => exact absurd rfl hrow
      | cons c0 rest =>
        obtain ⟨body, hb⟩ := renderCells_some r (c0 :: rest) W (h _ (by simp))
        exact ⟨((if c0.isSep then "+-".toList else "| ".toList) ++ body ++
          (if ((c0 :: rest).getLast?.getD c0).isSep then "-+".toList else " |".toList)) :: ls', by simp only [renderRows, renderRow, hb, h2]⟩

theorem widthsPass1_length (r : Renderer) (rows : List (List Cell)) (ws ws' : List Nat)
    (h : widthsPass1 r ws rows = some ws') : ws'.length = ws.length :=
  (le2_length (widthsPass1_spec r rows ws ws' h).1).symm

/-- **the panic outcomes, under exactly the guards the code has**: `Render` completes iff every row
has at least one cell (`row.cells[0]`) and at most as many as the table has columns (`widths[i]`). -/
theorem renderLines_ok_iff (r : Renderer) (t : Table) :
    (∃ ls, renderLines r t = .ok ls) ↔ ∀ row ∈ t.rows, row ≠ [] ∧ row.length ≤ t.width := by
  constructor
  · intro ⟨ls, hls⟩
    unfold renderLines finalWidths at hls
    cases hw : widthsPass1 r (List.replicate t.width 0) t.rows with
    | none => simp [hw] at hls
    | some w1 =>
      have hlen : ∀ row ∈ t.rows, row.length ≤ t.width := by
        intro row hrow
        rcases Nat.lt_or_ge t.width row.length with hlt | hge
        · have := widthsPass1_none r t.rows (List.replicate t.width 0) ⟨row, hrow, by simpa using hlt⟩
          rw [this] at hw; cases hw
        · exact hge
      have hl1 := widthsPass1_length r _ _ _ hw
      have hl2 : (widthsPass2 t.columns w1).length = t.width := by
        rw [← le2_length (widthsPass2_le t.columns w1), hl1]; simp
      simp only [hw] at hls
      cases hr : renderRows r (widthsPass2 t.columns w1) t.rows with
      | none => simp [hr] at hls
      | some ls' =>
        have := (renderRows_some_iff r _ t.rows (fun x hx => by rw [hl2]; exact hlen x hx)).mp ⟨ls', hr⟩
        exact fun row hrow => ⟨this row hrow, hlen row hrow⟩
  · intro h
    obtain ⟨w1, hw1⟩ := widthsPass1_some r t.rows (List.replicate t.width 0)
      (fun row hrow => by simpa using (h row hrow).2)
    have hl1 := widthsPass1_length r _ _ _ hw1
    have hl2 : (widthsPass2 t.columns w1).length = t.width := by
      rw [← le2_length (widthsPass2_le t.columns w1), hl1]; simp
    obtain ⟨ls, hls⟩ := (renderRows_some_iff r _ t.rows (fun x hx => by rw [hl2]; exact (h x hx).2)).mpr
      (fun row hrow => (h row hrow).1)
    exact ⟨ls, by simp [renderLines, finalWidths, hw1, hls]⟩


end Knut.Table
