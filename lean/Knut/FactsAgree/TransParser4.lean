import Knut.FactsAgree.TransParser3
import Knut.Proofs.SyntaxExamples
/-!
# The translated parser agrees with the model parser, part 4: `parseDirective`, `ParseFile`, and the whole of `syntax.ParseFile`

* `parseDirective_agrees`: optional addons, then `include` or a dated directive (transaction, or keyword + `switch r.Extract()`).
* `ParseFile_loop_agrees` / `ParseFile_method_agrees`: the loop of `Parser.ParseFile` is `fileLoop`.
* `ParseFile_agrees` (top level): for **every** byte string `text`, path, `Callback` (nil or not) and every fuel above the number of
  tokens of the text, `parser.New(text, path)` + `Advance()` + `ParseFile()` in the translation return exactly what the model's
  `parseText` returns: the same tree through `goFile`, or the same error chain through `goErr` — never `outOfFuel`, never a panic.
  `goSyntaxParse` spells the three calls of `syntax.ParseFile`/`parseRec` out; `goSyntaxParse_agrees` is the same statement about it.

The `Callback` of the Go parser is invoked for each directive (the include mechanism of `parseRec`); it has no result and no access to
the parser, so it is no step of the translated `ParseFile` (see `GoSem/Syntax.lean`) and the model has no counterpart: the tree and the
error are the whole result.
-/
set_option linter.unusedSimpArgs false
namespace Knut.FactsAgree.TransParser
open Knut Knut.GoSem Knut.Syntax Knut.Utf8
open Knut.Generated.Go
open Knut.FactsAgree.TransScanner

/-- the dynamic type of `Directive.Directive` -/
def goBody (text : Bytes) (path : String) : Syntax.Body → directives.GoAny
  | .transaction t => .Transaction (goTransaction text path t)
  | .open o => .Open (goOpen text path o)
  | .close c => .Close (goClose text path c)
  | .assertion a => .Assertion (goAssertion text path a)
  | .price p => .Price (goPrice text path p)
  | .include i => .Include (goInclude text path i)

def goDirective (text : Bytes) (path : String) (d : Syntax.Directive) : directives.Directive :=
  ⟨goRange text path d.range, goBody text path d.body⟩

def goFile (text : Bytes) (path : String) (f : Syntax.File) : directives.File :=
  ⟨goRange text path f.range, f.directives.map (goDirective text path)⟩

section
variable {text : Bytes} {path : String} {cb : Syn.Proc} {fuel : Nat} {s : St}

/-- a `Flow` outcome whose fall-through state is only repackaged by the continuation -/
theorem flow_map {β γ σ σ' : Type} {emb : γ → St → σ} {emb' : γ → St → σ'}
    {J : Flow σ (parser.Parser × β × directives.GoError) → Outcome (Flow σ' (parser.Parser × β × directives.GoError))}
    {X : Outcome (Flow σ (parser.Parser × β × directives.GoError))} {A : Res γ}
    (hX : FlowAgree text path cb fuel emb X A)
    (hK : ∀ c s1, J (Flow.next (emb c s1)) = .ok (Flow.next (emb' c s1)))
    (hJ : ∀ v, J (Flow.ret v) = .ok (Flow.ret v)) :
    FlowAgree text path cb fuel emb' (X.bind J) A := by
  cases A with
  | ok c s1 =>
    obtain ⟨hx, hi⟩ := hX
    rw [hx]
    exact ⟨hK c s1, hi⟩
  | err e s1 =>
    obtain ⟨hne, pv, hx⟩ := hX
    rw [hx]
    exact ⟨hne, pv, hJ _⟩

/-! ### parseDirective -/

/-- `Parser.parseDirective` -/
theorem parseDirective_agrees (h : Inv text fuel s) :
    Agree text path cb (goDirective text path) (parser.Parser.parseDirective fuel (goParser text path cb s)) (parseDirective s) := by
  unfold parser.Parser.parseDirective parseDirective
  simp only [goParser_Scanner, go_Scope, go_Current, decide_eq_true_eq]
  refine agree_flow (fuel := fuel) (emb := fun (a : Syntax.Addons) s' =>
      (goParser text path cb s', (GoZero.zero : directives.Directive), goAddonsZ text path a, directives.GoError.nil)) ?_ ?_ (fun _ => rfl)
  · -- the optional addons
    simp only [cur_eq_lit h.1 64 64 rfl (by decide)]
    by_cases hc : cur s = 64
    · have hb : (cur s == 64) = true := by simp [hc]
      simp only [hc, if_true, hb]
      pcall (parseAddons_agrees (path := path) (cb := cb) h), h, (parseAddons_prog _).ext => a1 s1 hm1 h1
      exact flow_ok rfl h1
    · have hb : (cur s == 64) = false := by simpa using hc
      simp only [hc, if_false, hb, Bool.false_eq_true]
      refine flow_ok ?_ h
      simp only [goAddonsZ, if_true]
      rfl
  · intro addons s1 h1 _
    simp only
    refine agree_flow (fuel := fuel) (emb := fun (b : Syntax.Body) s' =>
        (goParser text path cb s', (⟨GoZero.zero, goBody text path b⟩ : directives.Directive), directives.GoError.nil)) ?_ ?_ (fun _ => rfl)
    · -- the directive proper
      unfold parseDirectiveBody
      simp only [goParser_Scanner, go_Current, decide_eq_true_eq, cur_eq_lit h1.1 105 105 rfl (by decide)]
      by_cases hi : cur s1 = 105
      · have hb : (cur s1 == 105) = true := by simp [hi]
        simp only [hi, if_true, hb]
        pcall (parseInclude_agrees (path := path) (cb := cb) h1), h1, (parseInclude_prog _).ext => i2 s2 hm2 h2
        exact flow_ok rfl h2
      · have hb : (cur s1 == 105) = false := by simpa using hi
        simp only [hi, if_false, hb, Bool.false_eq_true]
        pcall (parseDate_agrees (path := path) (cb := cb) h1), h1, (parseDate_prog _).ext => d2 s2 hm2 h2
        pcall (readWhitespace1_agrees (path := path) (cb := cb) h2), h2, (readWhitespace1_ext _) => x3 s3 hm3 h3
        refine flow_map (emb := fun (b : Syntax.Body) s' =>
          (goParser text path cb s', (⟨GoZero.zero, goBody text path b⟩ : directives.Directive), directives.GoError.nil))
          ?_ (fun _ _ => rfl) (fun _ => rfl)
        simp only [decide_eq_true_eq, cur_eq_lit h3.1 34 34 rfl (by decide)]
        by_cases hq : cur s3 = 34
        · have hb : (cur s3 == 34) = true := by simp [hq]
          simp only [hq, if_true, hb]
          pcall (parseTransaction_agrees (path := path) (cb := cb) h3 (Syn.lit "parsing directive") s.off d2 addons), h3,
            (parseTransaction_prog _ _ _ _).ext => t4 s4 hm4 h4
          exact flow_ok rfl h4
        · have hb : (cur s3 == 34) = false := by simpa using hq
          simp only [hq, if_false, hb, Bool.false_eq_true]
          have hq4 : ∀ t ∈ ["open", "close", "balance", "price"], Plain t := by decide
          have hA := ReadAlternative_agrees (path := path) h3.1 ["open", "close", "balance", "price"] hq4
          simp only [List.map_cons, List.map_nil] at hA
          rw [hA.1]
          cases hm : readAlternative ["open", "close", "balance", "price"] s3 with
          | err e s4 =>
            have hne := hA.2.2 e s4 hm
            simp only [Res.map, goResR]
            call_err hne
          | ok rt s4 =>
            obtain ⟨r, kw⟩ := rt
            have h4 : Inv text fuel s4 := h3.ext (ext_of_ok (readAlternative_ext _ _) hm)
            obtain ⟨hmem, hex, _, _⟩ := readAlternative_extract (path := path) h3.1 _ (by decide) hm
            simp only [Res.map, goResR]
            go_ok
            pcall (readWhitespace1_agrees (path := path) (cb := cb) h4), h4, (readWhitespace1_ext _) => x5 s5 hm5 h5
            rw [hex]
            simp only [obind_ok]
            refine flow_map (emb := fun (b : Syntax.Body) s' =>
              (goParser text path cb s', (⟨GoZero.zero, goBody text path b⟩ : directives.Directive), directives.GoError.nil))
              ?_ (fun _ _ => rfl) (fun _ => rfl)
            have hkw : kw = "open" ∨ kw = "close" ∨ kw = "balance" ∨ kw = "price" := by simpa using hmem
            unfold parseKeyword
            rcases hkw with rfl | rfl | rfl | rfl
            · simp only [eq_self, decide_true, if_true, beq_self_eq_true]
              pcall (parseOpen_agrees (path := path) (cb := cb) h5 (Syn.lit "parsing directive") s.off d2), h5,
                (parseOpen_prog _ _ _).ext => o6 s6 hm6 h6
              exact flow_ok rfl h6
            · have g1 : (Syn.lit "close" = Syn.lit "open") = False := by decide
              have m1 : ("close" == "open") = false := by decide
              simp only [g1, m1, eq_self, decide_true, decide_false, if_true, if_false, Bool.false_eq_true, beq_self_eq_true]
              pcall (parseClose_agrees (path := path) (cb := cb) h5 (Syn.lit "parsing directive") s.off d2), h5,
                (parseClose_prog _ _ _).ext => o6 s6 hm6 h6
              exact flow_ok rfl h6
            · have g1 : (Syn.lit "balance" = Syn.lit "open") = False := by decide
              have g2 : (Syn.lit "balance" = Syn.lit "close") = False := by decide
              have m1 : ("balance" == "open") = false := by decide
              have m2 : ("balance" == "close") = false := by decide
              simp only [g1, g2, m1, m2, eq_self, decide_true, decide_false, if_true, if_false, Bool.false_eq_true, beq_self_eq_true]
              pcall (parseAssertion_agrees (path := path) (cb := cb) h5 (Syn.lit "parsing directive") s.off d2), h5,
                (parseAssertion_prog _ _ _).ext => o6 s6 hm6 h6
              exact flow_ok rfl h6
            · have g1 : (Syn.lit "price" = Syn.lit "open") = False := by decide
              have g2 : (Syn.lit "price" = Syn.lit "close") = False := by decide
              have g3 : (Syn.lit "price" = Syn.lit "balance") = False := by decide
              have m1 : ("price" == "open") = false := by decide
              have m2 : ("price" == "close") = false := by decide
              have m3 : ("price" == "balance") = false := by decide
              simp only [g1, g2, g3, m1, m2, m3, eq_self, decide_true, decide_false, if_true, if_false, Bool.false_eq_true,
                beq_self_eq_true]
              pcall (parsePrice_agrees (path := path) (cb := cb) h5 (Syn.lit "parsing directive") s.off d2), h5,
                (parsePrice_prog _ _ _).ext => o6 s6 hm6 h6
              exact flow_ok rfl h6
    · intro body s2 h2 _
      simp only [goParser_Scanner, go_Range]
      exact agree_ok rfl rfl rfl

/-! ### ParseFile -/

/-- the range of a parsed file runs from the start of the scope to the offset reached -/
theorem fileLoop_range (path : String) (start : Nat) (acc : List Syntax.Directive) (s : St) :
    ∀ f s', fileLoop path start acc s = .ok f s' → f.range = rng start s' := by
  fun_induction fileLoop path start acc s with
  | case1 acc s hE => intro f s' h; injection h with h1 h2; subst h1 h2; rfl
  | case2 acc s hE e s1 h1 => intro f s' h; cases h
  | case3 acc s hE d s1 h1 hE1 => intro f s' h; injection h with h1 h2; subst h1 h2; rfl
  | case4 acc s hE d s1 h1 hE1 e s2 h2 => intro f s' h; cases h
  | case5 acc s hE d s1 h1 hE1 x s2 h2 ih => exact ih

theorem Res.bind_ann_split {α β} (r : Res α) (on : Err → St → Err) (f : α → St → Res β) :
    r.bind on f = (r.bind on (fun a s => .ok a s)).bind (fun e _ => e) f := by
  cases r <;> rfl

/-- the loop of `Parser.ParseFile` is `fileLoop` -/
theorem ParseFile_loop_agrees (start : Nat) :
    ∀ (n : Nat) (acc : List Syntax.Directive) (s1 : St), Inv text fuel s1 → s1.toks.length < n →
      FlowAgree (β := directives.File) text path cb fuel
        (fun (f : Syntax.File) s' =>
          (goParser text path cb s', (⟨GoZero.zero, f.directives.map (goDirective text path)⟩ : directives.File)))
        (parser.Parser.ParseFile.loop1 fuel ⟨goStr (fileDesc path), (start : Int)⟩ n (goParser text path cb s1)
          ⟨GoZero.zero, acc.reverse.map (goDirective text path)⟩)
        (fileLoop path start acc s1) := by
  intro n
  induction n with
  | zero => intro _ s1 _ hn; omega
  | succ n ih =>
    intro acc s1 h1 hn
    unfold parser.Parser.ParseFile.loop1
    rw [fileLoop_eq]
    simp only [goParser_Scanner, go_Current, decide_eq_true_eq, cur_eof' h1]
    by_cases hE : atEOF s1 = true
    · simp only [hE, not_true_eq_false, decide_false, Bool.false_eq_true, if_false, if_true]
      exact flow_ok rfl h1
    · simp only [hE, not_false_eq_true, decide_true, if_true, Bool.false_eq_true, if_false]
      rw [Res.bind_ann_split]
      refine flow_flow (fuel := fuel) (emb := fun (d : Option Syntax.Directive) s' =>
          (goParser text path cb s',
            (⟨GoZero.zero, (pushOpt d acc).reverse.map (goDirective text path)⟩ : directives.File))) ?_ ?_ (fun _ => rfl)
      · -- comment, directive, or neither
        unfold fileItem
        simp only [cur_eq_lit h1.1 42 42 rfl (by decide), cur_eq_lit h1.1 35 35 rfl (by decide),
          cur_eq_lit h1.1 47 47 rfl (by decide), cur_eq_lit h1.1 64 64 rfl (by decide), nat_beq,
          pred_isAlphanumeric _ h1.1.cur_dom]
        by_cases hc : (decide (cur s1 = 42) || decide (cur s1 = 35) || decide (cur s1 = 47)) = true
        · simp only [hc, if_true]
          pcall (readComment_agrees (path := path) (cb := cb) h1), h1, (readComment_prog _).ext => x2 s2 hm2 h2
          exact flow_ok rfl h2
        · simp only [hc, if_false, Bool.false_eq_true]
          by_cases hd : (isAlphanumeric (cur s1) || decide (cur s1 = 64)) = true
          · simp only [hd, if_true]
            pcall (parseDirective_agrees (path := path) (cb := cb) h1), h1, (parseDirective_prog _).ext => d2 s2 hm2 h2
            refine flow_ok ?_ h2
            simp only [pushOpt, List.reverse_cons, List.map_append, List.map_cons, List.map_nil]
          · simp only [hd, if_false, Bool.false_eq_true, rbind_ok]
            exact flow_ok rfl h1
      · intro d s2 h2 hm2
        have e2 : Ext s1 s2 :=
          ext_of_ok (Res.bind_ext (r := fileItem s1) (onErr := annotate (fileDesc path) start) (f := fun a s' => .ok a s')
            (fileItem_ext s1) (fun a s' _ => Ext.refl s')) hm2
        have l2 := e2.length_le
        simp only [goParser_Scanner, go_Current, decide_eq_true_eq, cur_eof' h2]
        by_cases hE2 : atEOF s2 = true
        · simp only [hE2, if_true]
          exact flow_ok rfl h2
        · simp only [hE2, if_false, Bool.false_eq_true]
          pcall (readRestOfWhitespaceLine_agrees (path := path) (cb := cb) h2), h2, (readRestOfWhitespaceLine_ext _) => x3 s3 hm3 h3
          have l3 := (readRestOfWhitespaceLine_extS s2 s3 _ (by simpa using hE2) hm3).length_lt
          exact ih (pushOpt d acc) s3 h3 (by omega)

/-- `Parser.ParseFile` -/
theorem ParseFile_method_agrees (h : Inv text fuel s) :
    Agree text path cb (goFile text path) (parser.Parser.ParseFile fuel (goParser text path cb s)) (parseFile path s) := by
  unfold parser.Parser.ParseFile parseFile
  have hd : Syn.lit "parsing file `" ++ Syn.Fmt.s (goScanner text path s).Path ++ Syn.lit "`" = goStr (fileDesc path) := by
    simp [fileDesc, goScanner, goStr]
  simp only [goParser_Scanner, go_Scope, hd]
  have hL := ParseFile_loop_agrees (text := text) (path := path) (cb := cb) (fuel := fuel) s.off fuel [] s h h.2
  change FlowAgree _ _ _ _ _ (parser.Parser.ParseFile.loop1 fuel _ fuel _ GoZero.zero) _ at hL
  have e : fileLoop path s.off [] s = (fileLoop path s.off [] s).bind (fun e _ => e) (fun f s' => .ok f s') :=
    (Res.bind_ok_id _).symm
  rw [e]
  refine agree_flow hL ?_ (fun _ => rfl)
  intro f s' h' hm
  simp only [goParser_Scanner, go_Range]
  refine agree_ok rfl ?_ rfl
  have := fileLoop_range path s.off [] s f s' hm
  simp only [goFile, this, rng]

end

/-! ### the whole of `syntax.ParseFile` -/

/-- **top level**: `p := parser.New(text, path); p.Advance(); p.Callback = cb; p.ParseFile()` in the translation against the model's
`parseText`, for every text, path, callback and every fuel above the number of tokens of the text.  `Advance` returns a scanner `sc`
and an error `err`; the model's answer is a tree exactly if `err` is nil and `ParseFile` returns the converted tree with a nil error;
it is an error chain `e` exactly if `Advance` fails with `e` (Go returns it without parsing) or `ParseFile` returns `e`. -/
theorem ParseFile_agrees (text : Bytes) (path : String) (cb : Syn.Proc) (fuel : Nat) (hf : (decodeAll text).length < fuel) :
    ∃ sc err, scanner.Scanner.Advance (parser.New text (goStr path)).Scanner = .ok (sc, err) ∧
      match parseText path text with
      | .ok f => err = .nil ∧
          ∃ p', parser.Parser.ParseFile fuel { Scanner := sc, Callback := cb } = .ok (p', goFile text path f, .nil)
      | .error e => e ≠ [] ∧ (err = goErr text path e ∨
          (err = .nil ∧ ∃ p' pv, parser.Parser.ParseFile fuel { Scanner := sc, Callback := cb } = .ok (p', pv, goErr text path e))) := by
  obtain ⟨hA, hP, hst⟩ := New_Advance_agrees text path
  refine ⟨_, _, hA, ?_⟩
  unfold parseText
  cases hs : start (decodeAll text) with
  | err e s0 =>
    have hne := hP.2 e s0 hs
    simp only [Res.errs]
    first | exact ⟨hne, Or.inl rfl⟩ | exact ⟨hne, Or.inl trivial⟩
  | ok u s0 =>
    rw [hs] at hst
    simp only [Res.st_ok] at hst
    subst hst
    have h0 : Inv text fuel ⟨0, decodeAll text⟩ := ⟨SimOK_start text, hf⟩
    have hF := ParseFile_method_agrees (path := path) (cb := cb) h0
    simp only [Res.errs, Res.st_ok, goErr_nil]
    cases hp : parseFile path ⟨0, decodeAll text⟩ with
    | ok f s' =>
      rw [hp] at hF
      first | exact ⟨rfl, _, hF⟩ | exact ⟨trivial, _, hF⟩
    | err e s' =>
      rw [hp] at hF
      obtain ⟨hne, pv, hF⟩ := hF
      first | exact ⟨hne, Or.inr ⟨rfl, _, pv, hF⟩⟩ | exact ⟨hne, Or.inr ⟨trivial, _, pv, hF⟩⟩

/-- `syntax.ParseFile` / `parseRec` after `os.ReadFile`, spelled out with the translated functions (hand-written composition of the
three calls; the `Callback` is installed after `Advance`, as `parseRec` does) -/
def goSyntaxParse (fuel : Nat) (text : Bytes) (path : String) (cb : Syn.Proc) : Outcome (directives.File × directives.GoError) :=
  let p := parser.New text (goStr path)
  (scanner.Scanner.Advance p.Scanner).bind fun t =>
    if t.2 ≠ .nil then .ok (GoZero.zero, t.2)
    else (parser.Parser.ParseFile fuel { Scanner := t.1, Callback := cb }).bind fun r => .ok (r.2.1, r.2.2)

/-- the composition never runs out of fuel and never panics; it returns the model's tree with a nil error, or the model's error chain
(next to it Go returns `File{}` or a partially filled tree, which the model does not describe) -/
theorem goSyntaxParse_agrees (text : Bytes) (path : String) (cb : Syn.Proc) (fuel : Nat) (hf : (decodeAll text).length < fuel) :
    match parseText path text with
    | .ok f => goSyntaxParse fuel text path cb = .ok (goFile text path f, .nil)
    | .error e => e ≠ [] ∧ ∃ pv, goSyntaxParse fuel text path cb = .ok (pv, goErr text path e) := by
  obtain ⟨sc, err, hA, hM⟩ := ParseFile_agrees text path cb fuel hf
  unfold goSyntaxParse
  simp only [hA, obind_ok]
  cases hp : parseText path text with
  | ok f =>
    rw [hp] at hM
    obtain ⟨he, p', hF⟩ := hM
    subst he
    simp only [ne_eq, not_true_eq_false, if_false, hF, obind_ok]
  | error e =>
    rw [hp] at hM
    obtain ⟨hne, hM⟩ := hM
    refine ⟨hne, ?_⟩
    rcases hM with he | ⟨he, p', pv, hF⟩
    · subst he
      simp only [ne_eq, goErr_ne_nil text path hne, not_false_eq_true, if_true]
      exact ⟨_, rfl⟩
    · subst he
      simp only [ne_eq, not_true_eq_false, if_false, hF, obind_ok]
      exact ⟨_, rfl⟩

/-- non-vacuity: an empty text parses to an empty file, in the model and in the translation -/
example : goSyntaxParse 1 [] "j" ⟨false⟩ = .ok (goFile [] "j" ⟨⟨0, 0⟩, []⟩, .nil) := by
  have := goSyntaxParse_agrees [] "j" ⟨false⟩ 1 (by simp)
  have hp : parseText "j" [] = .ok ⟨⟨0, 0⟩, []⟩ := by
    simp [parseText, start, parseFile, fileLoop_eq, atEOF, rng]
  rw [hp] at this
  exact this

/-- non-vacuity: the worked example of C07 (a comment line and an `open` directive, 23 tokens), with a callback installed: the
translation returns the converted tree -/
example : goSyntaxParse 24 (bytesOf exText) "j.knut" ⟨true⟩ =
    .ok (goFile (bytesOf exText) "j.knut" ⟨⟨0, 23⟩, [⟨⟨3, 22⟩, .open ⟨⟨3, 22⟩, ⟨⟨3, 13⟩⟩, ⟨⟨19, 22⟩, false⟩⟩⟩]⟩, .nil) := by
  have := goSyntaxParse_agrees (bytesOf exText) "j.knut" ⟨true⟩ 24 (by rw [ex_decode]; decide)
  rw [ex_parse] at this
  exact this

/-- non-vacuity of the error side: an invalid byte after the first digit; the translation returns the model's chain of five links -/
example : ∃ pv, goSyntaxParse 3 [0x32, 0xff] "j.knut" ⟨false⟩ =
    .ok (pv, goErr [0x32, 0xff] "j.knut" [Frame.at "invalid unicode character" ⟨1, 1⟩, Frame.at "reading next character" ⟨0, 1⟩,
      Frame.at "while parsing the date" ⟨0, 1⟩, Frame.at "while parsing directive" ⟨0, 1⟩,
      Frame.at "while parsing file `j.knut`" ⟨0, 1⟩]) := by
  have hd : decodeAll [0x32, 0xff] = [⟨0x32, [0x32]⟩, ⟨runeError, [0xff]⟩] := by
    simp [decodeAll_cons, decodeRune]
  have := goSyntaxParse_agrees [0x32, 0xff] "j.knut" ⟨false⟩ 3 (by rw [hd]; decide)
  rw [ex_invalid] at this
  exact this.2

end Knut.FactsAgree.TransParser
