import Knut.Basic.Date
import Knut.Model.Partition
