# Per-property configuration of bin/check: Lean modules holding the property theorems, level, notes.
PROPS = {
    "C20": {
        "lean": ["Knut.Properties.C20", "Knut.Properties.C20Periods", "Knut.Properties.C20Balance", "Knut.FactsAgree.TransPerformance", "Knut.FactsAgree.TransPerformanceFlows", "Knut.FactsAgree.TransPerformanceDay", "Knut.FactsAgree.TransWeights", "Knut.FactsAgree.TransWeightsTree", "Knut.FactsAgree.TransWeightsSort", "Knut.Properties.C20Go"],
        "level": "proof",
        "claim": "PARTIAL: proof on the exact-arithmetic (Rat) model of lib/journal/performance, lib/reports/weights and the two portfolio commands + tolerance correspondence with the float64 "
                 "code. Lean theorems (all journals, windows, intervals, --last, filters, universes, mappings): C20_weights_share (each commodity is added with value / total value on a period end "
                 "day), C20_group_sum (a node's weight = what was added at it + the weights of its children; C20_children_rendered_once, C20_nodeWeight_is_wsum), C20_top_sums_to_one (top level sums "
                 "to 1 on every reported date of the command's report, no weight on the hidden root), C20_returns_every_period (exactly one line per period end of the partition inside the window, "
                 "in order; uses the C11 tiling lemmas and that the end days are registered before Build), C20_zero_of_day_equation + C20_zero_when_only_external_flows_partial (prices declared on day one only, no annotations, "
                 "transactions of booking pairs, no --commodity, no zero denominator => EVERY return is exactly 0: the day equation V1-V0 = inflow+outflow is carried through ComputeValues, "
                 "ComputeFlows' split by sign, the cancellation of internal transfers, and Valuate booking no adjustment while prices rest), C20_ratio_without_flows (telescoping: V1(last)/V0(first)-1 over linked days without flows), C20_days_linked. Decided witnesses of two defects of "
                 "the real code: C20_filtered_flow_counts (open) and C20_last_reports_own_period (repaired by 32cd4f9: Perf skips the days before the first reported period, model `perfSpan`, lemma perfSpan_filter, C20_before_first_period_skipped). PER SINGLE PERIOD of an arbitrary journal (Properties/C20Periods.lean, the other periods arbitrary): C20_period_line (the line under p.stop is the chained factor of exactly the days of p, minus one, and the only line with that date), "
                 "C20_zero_period_when_only_external_flows (every transaction of the period Plain = external flow / internal transfer / outside the portfolio, and the prices rest in the general sense PricesRestOn: every commodity of which an A/L account holds a non-zero quantity at the start of a day has the same normalised price after the day as before => the line is exactly 0; excluded are --commodity and a day with V0+inflow = 0, where the clause is false on the code: findings), "
                 "C20_zero_period_of_monitor (the same from the executable test calmPeriodB, sound by calmPeriodB_sound), C20_ratio_period_without_flows / C20_ratio_period_of_records (no boundary-crossing transaction in the period, non-zero start values => line = V(p.stop)/V(p.start-1)-1, V = valueAt = V1 of the last day not after the date). "
                 "V1 IS THE VALUED BALANCE (Properties/C20Balance.lean): C20_values_are_valued_balance, C20_v1_is_valued_balance, C20_weights_are_shares_of_valued_balance: over the same list of days the balance pipeline (Balance.run: check, ComputePrices, Valuate, Filter, CloseAccounts, Query) succeeds whenever the portfolio pipeline does and for every commodity c and column date D, V1(D)(c) = sum of the report inserts on A/L accounts, commodity c, columns <= D (same -v/--account/--commodity, no -m/--remap on the balance, days up to D inside the balance window or nothing booked yet); C20_command_values_are_valued_balance, C20_command_weights_are_shares_of_valued_balance: the same for the models of the two COMMANDS over one journal (setup+perfFrom vs BalanceCmd.entries; they register different empty days before Build: an empty day is a no-op of the portfolio pipeline, and the portfolio pipeline accepts every day list the balance pipeline accepts), balance without a --from after the first transaction. "
                 "NOT mechanised: the float64 arithmetic; the rendering of the balance inserts into report cells (C01/C06 material; compared with the real `knut balance -v V --csv -s .` on every case). Tie: `portfolio returns`, `portfolio weights "
                 "--csv` (+ text rendering for the tree depth) and `balance -v` run as subprocesses; returns/weights compared with the exact model after rounding to the printed digits (1-2 units).",
        "note": "Trusted: Lean kernel; axioms propext, Classical.choice, Quot.sound; float64 vs exact arithmetic bounded only by the per-case tolerance comparison; `Commodity.IsCurrency` is never "
                "set by the CLI (pickTargets returns the annotation's list); sequential pipeline semantics (C19); yaml/regexp/cobra; sibling order under the weighted sort is compared as a set "
                "and checked for monotonicity (float ties). Known findings: returns-commodity-filter-counts-filtered-flows, returns-meaningless-when-start-value-plus-inflow-vanishes, returns-meaningless-when-start-value-is-rounding-residue; repaired: returns-last-folds-earlier-periods (32cd4f9).",
        "rule": "streams portfolio (lifecycle journals over 3-800 days with re-pricing on later and otherwise empty days, x window from/to incl. period ends on days without directives, "
                "six intervals, --last, account/commodity filters, universe files with nested classes, -m mappings with level 0-3 and suffix, -a), external (constant prices, no annotations: "
                "every return must be 0), noflow (all transactions on the first day, then only price changes: return = end/start-1 from the balance totals), malformed (lifecycle mutations, "
                "dropped prices, no -v, inverted windows, duplicate universe entries), mixed (price changes and @performance annotations confined to one window of the span, several periods: single "
                "periods satisfy the hypotheses of the 0%-clause, the journal does not), universe (generated universe files of odd but legal shape - lines and files beyond 4 KiB / 64 KiB / 1 MiB, flow/block/wrapped lists, "
                "BOM, CRLF, tabs, comments, anchors, deep and many classes - and files that must be rejected as a whole; groups are checked against the classes the generator wrote) and universe-reader "
                "(performance.LoadUniverse in-process over readers that deliver pieces or fail part-way: loaded = the whole file, or an error). Per-period monitors: zero_period_when_calm (driver op `calm` = Performance.calmPeriods), ratio_without_flows. "
                "class = (stream, outcomes, flag signature, size bucket).",
        "assumptions": ["exact rational arithmetic in place of float64 (outputs compared after rounding to the printed digits with 1-2 units tolerance)",
                        "translated lib/journal/performance (FactsAgree/TransPerformance*.lean): float64 is read as an exact rational (GoSem/Float.lean: + - * exact, comparisons of rationals, decimal.Float64 = the value); x/0 (Go: +-Inf/NaN, no panic) is the distinct outcome F64.undefined at which the translated run stops, the model's `none`; fmt.Printf(\"%0.1f\") is recorded with its exact operand, not formatted; no commodity is tagged as a currency (pickTargets_agrees); translated lib/reports/weights (FactsAgree/TransWeights.lean): the same reading of float64, Value.Weights as an Option (nil map), the tree of lib/common/multimap with its pinned meaning; Query.Execute and the Renderer are not translated",
                        "C20_zero_period_when_only_external_flows: no --commodity, V0+inflow != 0 on the days of the period (both are points where the clause fails on the code: known findings); C20_ratio_period_without_flows: non-zero start value on every day of the period",
                        "C20_command_values_are_valued_balance: both commands succeed; same -v/--account/--commodity, no -m/--remap on the balance, no --from of the balance after the first transaction; D a column of the balance report (pipeline-level form: same list of days, days up to D inside the balance window or before the first booking)"],
        "trusted": ["known findings: returns-commodity-filter-counts-filtered-flows, returns-meaningless-when-start-value-plus-inflow-vanishes, returns-meaningless-when-start-value-is-rounding-residue"],
    },
    "C16": {
        "lean": ["Knut.Properties.C16", "Knut.FactsAgree.TransProcess", "Knut.FactsAgree.TransJPrinter", "Knut.FactsAgree.TransJPrinter2", "Knut.FactsAgree.TransBeancount", "Knut.Properties.C16Go", "Knut.FactsAgree.TransProcessAll", "Knut.FactsAgree.TransProcessAllCheck"],
        "level": "proof",
        "claim": "PARTIAL proof (one clause is false on the code and recorded as known finding) + byte-exact correspondence. Lean theorems over the model of `knut transcode -v V` "
                 "(Sort, ComputePrices, check, Valuate with daily value adjustments, then beancount.Transcode as an entry list and its text), for ALL journals and valuation commodities on which "
                 "the command succeeds: C16_balanced (every emitted transaction sums to exactly 0 in V; from the Paired invariant through sorting, valuation and adjustments), "
                 "C16_chronological (entry dates never decrease), C16_open_before_use_partial (every account used by a posting is open on the day of use — an open dated on or before it that no "
                 "close before that day follows — except the generated valuation account `Income:<path>` of a value adjustment; proved from the checker having accepted plus an invariant tying "
                 "Valuate's positions to the checker's: a position still held belongs to an open account), C16_openOn_meaning, C16_not_after_close, C16_tx_bijection (emitted transactions are a "
                 "permutation of the valued transactions of the processed journal), C16_valued_transactions (those are the user's transactions, valued and otherwise unchanged, plus the value "
                 "adjustments), wf_ofList. The full open-before-use clause is FALSE on the code: C16_valuation_account_not_opened is the decided witness (known finding valuation-account-not-opened). "
                 "Tie: `knut transcode` (subprocess) compared BYTE FOR BYTE with the model text; the real output is read by a line-based beancount reader and all four invariants are evaluated on it "
                 "twice: in Go (model-free) and by the Lean predicates BeancountSpec.balanced/chronological/lifecycleOK/sameTxs.",
        "note": "Trusted: Lean kernel; axioms propext, Classical.choice, Quot.sound; sort.Slice modelled as a stable sort (transactions comparing equal print identically); sequential pipeline "
                "semantics (C19 covers the concurrent realisation); Go regexp `[^a-zA-Z]` modelled as a per-rune replacement; the harness' beancount reader; accrual-annotated transactions are "
                "not generated here (C10 proves each expansion is paired). PARTIAL: C16_open_before_use_partial excludes the generated valuation accounts (real defect, golden test enshrines it).",
        "rule": "lifecycle journals (2-8 accounts incl. nested and Unicode ones, 1-9 days over spans of 0-400 days plus extra price-only days, several commodities, zero/negative/many-decimal "
                "amounts) with price declarations (direct, inverse, chained; re-priced on later days so that value adjustments occur) x valuation commodity (incl. names with digits / non-ASCII "
                "letters for the X-replacement, lower case); tie-rich: equal descriptions per day, a transaction followed by its reversal, exact duplicates; user accounts under the "
                "`Equity:Valuation:` prefix (synthesised opens). Malformed stream: lifecycle mutations, dropped/zero prices, unpriced commodities, missing/empty/invalid -v (must fail cleanly, "
                "empty stdout, model agrees). Stream `lifecycle` (a quarter of the main stream): 3-14 days, A/L accounts holding positions over night are emptied (wholly, one commodity, half, in two "
                "bookings, positive or negative amounts), closed on the emptying day or later and re-opened, while prices keep moving on, between and after the journal's days. "
                "Stream `trees` (quick 2 000): the same journals spread over 1-6 files (chains, fans, sub-directories, `./` `../` spellings, odd file names and endings, includes first/last/anywhere, "
                "a member included twice): same bytes as the model and as the same directives in one file, all invariants against the union; two fifths with a member that cannot be loaded "
                "(dangling include, member gone / a directory / a broken link, cycle, a line that is no directive): must fail with an empty stdout. "
                "Stream `epochs` (quick 1 500): 1-4 such journals with accounts of their own in one file, each moved centuries into the past / future, stretched (days before 1678 and after 2262) "
                "or laid across a date where a time representation ends (int64 nanoseconds, int32 seconds, Unix epoch, years 1 / 1000 / 9999), file order not date order. "
                "Fixed witness journal of the known finding. class = (outcome, feature signature, valuation, transaction-count bucket, size bucket).",
        "assumptions": ["accepted journals with sufficient prices (the command succeeds); transactions are posting pairs (everything the loader builds)"],
        "trusted": ["known finding valuation-account-not-opened: generated valuation accounts are never opened (C16_valuation_account_not_opened)"],
    },
    "C06": {
        "lean": ["Knut.Properties.C06", "Knut.Properties.C06Report", "Knut.Properties.C05Valued", "Knut.FactsAgree.C06", "Knut.FactsAgree.C06Conc", "Knut.Properties.C05Go"],
        "level": "proof",
        "claim": "PARTIAL proof + repeated-run check. In the model every map iteration / arrival order is the order of a list; proved for all inputs: C06_sort_oracle_irrelevant and "
                 "C06_sorted_fold_oracle_irrelevant (sorting with a total antisymmetric comparator removes the enumeration order: the dict.SortedKeys / compare.Sort sites), C06_sum_oracle_irrelevant "
                 "and C06_comm_fold_oracle_irrelevant (commutative folds: Amounts.Add, SumBy, Totals, journal period), C06_report_cells_deterministic, C06_journal_deterministic (any two arrival "
                 "orders of the directives give the same days, per-day contents up to order, and period); Properties/C06Report.lean: table_perm (the rendered report is a function of the MULTISET of report inserts, for inserts "
                 "whose accounts start with an account type — without that proviso two non-type top-level names tie in the level-1 comparator, kernel-checked witness table_perm_needs_wf), rows_order_perm, "
                 "eraseDups_perm. Not provable in this model: absence of further order leaks in the Go code, float "
                 "summation order in portfolio/infer. Decided on every run: each of balance, print, check --write, transcode, portfolio weights, infer and import revolut2 is run 8 (thorough: 30) "
                 "times on tie-rich inputs with different schedule-perturbation seeds and GOMAXPROCS 1/2/16 (Go randomises map iteration per run); stdout bytes and exit status must be identical. "
                 "Census (FactsAgree/C06.lean, C06Conc.lean): every range over a map (or over a slice handed out in map order), every sort with its comparator, every float accumulation, clock/environment use, "
                 "goroutine, channel operation and locking sequence of /repo is re-extracted on every run, classified mechanically (translated with the order as a parameter / sorted before use / commutative accumulation / other) "
                 "and must equal the reviewed expectation: a new, changed or vanished site is a broken obligation naming the file and function; the class-d sites are a documented allowlist (verdict, reason, covering theorem).",
        "note": "Trusted: Lean kernel; axioms propext, Classical.choice, Quot.sound. Go map order and goroutine schedules can be sampled, not enumerated. A genuine defect found by this check "
                "(portfolio weights rows with equal weight in map order) was repaired in /repo (fix: commit 795b0e8). Findings on the unchanged code (known_findings.jsonl), recognised by their exact shape only: "
                "returns-prints-periods-before-a-late-failure (portfolio returns prints a schedule-dependent prefix of its report when the journal is rejected on a late day; exit status stable) and "
                "print-same-day-directives-of-different-files-in-arrival-order (print / transcode: same-day price / open / balance / close directives of different included files come out in loader arrival order), "
                "returns-ill-conditioned-period-float-sum-in-arrival-order (portfolio returns on several files: NaN% or +Inf% in a period whose denominator vanishes), "
                "print-same-day-transactions-differing-only-in-targets-in-arrival-order (print: same-day transactions of different files that differ only in their @performance targets tie in transaction.Compare) and "
                "valued-reports-same-day-requote-across-files (one price pair quoted differently on one date in two files: the last arrival wins) - the last two found by the review of the census, kept in view by stream `arrival`. "
                "A second genuine defect found by this check (register -d / -a: "
                "rows tied on destination account and commodity in map order) was repaired in /repo (fix: commit e77962c); a third, found by the census review (portfolio weights: float sums in map order swap rows of equal weight), by 19865c1 + 54048cb.",
        "rule": "inputs built for ties: sibling accounts with equal values, diamond-shaped price graphs with inconsistent cross rates, equally likely bayes candidates split over included training "
                "files, several currencies per day in revolut2 statements, same-day directives; plus lifecycle journals with chained prices. class = (command, exit, output size). "
                "Stream `failing`: include trees (2-30 files of very different or equal sizes, nested) with 0-2 faults at the first / a middle / the last position of any file (half-typed directive, include of a missing file / a directory / an ancestor, "
                "directive rejected by the journal) under infer -t, balance, print, check [--write], transcode, register (with -d / -a / -s), portfolio weights / returns: stdout bytes and exit status of rejected inputs must not depend on the schedule either; class = (command, faults, exit, output size). "
                "Stream `floatties`: sibling rows that tie in exact arithmetic through addends differing in number, order, sign and magnitude over many periods (instalments against lump sums, subtrees, several commodities, monthly two-decimal prices) "
                "under balance (valued / unvalued, every interval, --diff, -m, -s) and portfolio weights (tied commodities; --universe classes collapsed by -m), 24 / 60 runs each: a float sum taken in map order shows as rows that change places. "
                "Stream `period`: journals split over 2-6 files of very different or equal sizes whose first / last dated directives are of every kind (price, open, assertion, transaction, close) and live in files other than the transactions, "
                "under balance (valued / unvalued, intervals, --diff, --last, --from / --to), register, portfolio weights / returns, 16 / 40 runs each: the report period (a fold over the directives in file arrival order) must not depend on the schedule. "
                "Stream `targets`: transactions with every shape of `@performance(...)` annotation (0-8 entries, repeated entries, the bookings' own commodities, case variants, blanks, with @accrue; one file or an include tree) under print, balance, "
                "portfolio returns, transcode, register — the same richer annotations are drawn (from RNGs of their own) for the journals of `repeat`, `failing`, `arrival` and `period`: the target list must come out as written on every run.",
        "assumptions": [],
    },
    "C05": {
        "lean": ["Knut.Properties.C05", "Knut.Properties.C05Verdict", "Knut.Properties.C05Inserts", "Knut.Properties.C05Valued", "Knut.Properties.C05Layout", "Knut.FactsAgree.TransJournal", "Knut.Properties.C05Go"],
        "level": "proof",
        "claim": "PARTIAL proof + metamorphic correspondence. Proved for all directive lists and all permutations of them: ofList_spec (the builder's days are sorted by date and each day holds "
                 "exactly the directives of its date, per kind, in input order), C05_same_dates, C05_same_day_content (per day and kind the contents are permutations of each other), "
                 "C05_journal_period_perm (the window-clipping journal period is order-independent), C05_cells_perm (every report cell is invariant under permutation of the report inserts). "
                 "Properties/C05Verdict.lean: verdict_perm / C05_verdict_perm (the checker's accept/reject verdict is the same for every permutation of the directives; only the NAMED offender may "
                 "differ, witness C05_offender_may_differ), C05_days_equiv; Properties/C05Inserts.lean: C05_inserts_perm (unvalued pipeline, closing on or off: the report inserts of two day-equivalent journals are "
                 "permutations of each other; equality fails, kernel-checked witness), C05_run_ok_perm, C05_report_perm and C05_balance_output_perm (for every permutation of the directives of a journal with well-formed "
                 "accounts BalanceCmd.run f ds = BalanceCmd.run f ds' — period, partition, closing days, pipeline, table, text or CSV bytes, failure included). Properties/C05Valued.lean: the same for VALUED reports (C05_inserts_perm_valued, C05_run_ok_perm_valued, C05_report_perm_valued, C05_balance_output_perm_valued: any flags incl. --val, adjustment order and missing-price failures included), for journals without two price directives for one commodity pair on one date (PricesDistinct; needed: kernel-checked witness C05_two_prices_one_day_order_matters). "
                 "END TO END (Properties/C05Layout.lean, Spec/LayoutSpec.lean): Layout.journalOf fs root = the directives the commands work on (recursive include loader on the file system fs, model.FromStream per file incl. accrual expansion, concatenated in the loader's order; Commands.fromPath is this function). C05_run_factors: Cmd.run c fs f = onJournal c f (journalOf fs f.path) for check, balance, print. For two file systems/roots whose journals are permutations of each other: C05_layout_verdict (same check outcome class, same outcome without --write), C05_layout_balance / C05_layout_balance_valued (Cmd.run .balance gives the same CmdOutcome - stdout bytes, error, panic - for every flag vector; valued under PricesDistinct), C05_layout_print (both print runs rejected, or both print journals that are Layout.PrintEquiv: same days, per day the same directives per kind as multisets, same column width, sorted transaction sequences equal position by position up to transaction.Compare; C05_compare_equal_prints_alike: such transactions print alike up to the @performance line), C05_layout_print_exact (same relative order within every (date, kind) block => identical bytes), C05_layout_arrival (any arrival order of the loaded files gives a permutation), C05_layout_wf (every loaded journal satisfies DirsWF: no well-formedness hypothesis is left). Constructive side C05_split / C05_split_fs / C05_split_reports: ANY distribution of the directives of ds over the files of ANY include tree (LTree: path, items = directive or include of a child under some spelling), written with the functions of journal.Print and include lines, is loaded back - from every file system holding these files - as a permutation of ds (explicitly: file by file, depth first), for printable directives (C09 PrintableDir), include spellings that resolve (path.Join(filepath.Dir(includer), spelling)) to the child's path, pairwise different cleaned paths; two such layouts give the same verdict, balance bytes and print-equivalent journals. Kernel-checked closed instance: three files in two directories against one file in reverse order. Open: the assertions check --write prints (class only). "
                 "Decided on every run as well: each journal is written in several directive orders and include-tree "
                 "layouts (1-5 files, depth <= 3, ./ and ../ paths, sub-directories), loaded by the REAL concurrent loader under different schedule-perturbation seeds (-tags verif), and check "
                 "verdict, balance output (byte for byte) and print output (same directives per date, identical transaction sequence) are compared across all variants and with the model run on the "
                 "permuted list; and for EVERY variant the days the real loader (journal.FromPath, in-process) builds from the tree are compared, up to the order within a (day, kind) block, with the days built from the model's "
                 "journalOf on the tree read back from disk (driver op c05journal).",
        "note": "Trusted: Lean kernel; axioms propext, Classical.choice, Quot.sound; path.Join/filepath.Dir/path.Clean of include resolution are modelled (Loader.resolve, tied by C14's paths stream and by the journal-of comparison here); goroutine arrival order is "
                "sampled through schedule perturbation (its protocol-level treatment is C19; C05_layout_arrival covers every arrival order of the files).",
        "rule": "150 (quick) / 4000 (thorough) journals x 5-10 variants; variant 0 = original order in one file; others = random permutation distributed over a random include tree; a fifth of "
                "the journals carry a lifecycle mutation so that rejecting verdicts are compared too. class = (verdict, flag signature, number of tree shapes, size). "
                "Stream `order`: 200 / 2500 journals in which busy days of 2-6 same-day transactions on one account are followed, on a later day, by a directive that breaks one rule of the checker (booking on a closed / never opened / not yet opened account, second open or close, close with a position, failed assertion, assertion on a closed account; two valid controls), x 6-10 variants incl. same-day shuffles, plus 8 / 16 further orders judged in-process: every order and layout must give the same verdict, and the model's verdict. "
                "Stream `prices`: 120 / 2500 valued reports over price graphs with several equally long price chains of different products from the valuation commodity to a held commodity (diamonds, wide / long / stacked, rings, layered graphs, quotes spread over days, re-quotes on other days; no pair twice a day), the commodities first mentioned in prices, bookings and assertions, x 6-10 variants incl. one directive moved to the top and same-day price shuffles: same balance bytes in every order and layout, and the model's.",
        "assumptions": ["journals with two prices for one commodity pair on one day are not generated (excluded by the property)"],
    },
    "C03": {
        "lean": ["Knut.Properties.C03", "Knut.Properties.C03Bound", "Knut.Properties.C03Bridge", "Knut.Properties.C03Window", "Knut.Properties.C03Report", "Knut.Properties.C03Command", "Knut.Properties.C03Modes", "Knut.Properties.C03Flows", "Knut.FactsAgree.TransProcess", "Knut.FactsAgree.TransQuery", "Knut.FactsAgree.TransMapping", "Knut.FactsAgree.TransSwapType", "Knut.FactsAgree.TransBalanceCmd", "Knut.FactsAgree.TransProcessAll", "Knut.FactsAgree.TransProcessAllCheck", "Knut.FactsAgree.TransProcessAllBalance", "Knut.Properties.C03Go"],
        "level": "proof",
        "claim": "Proof + full correspondence + exact monitors. Spec.mtm (Spec/MTM.lean) = sum over commodities of summed quantity x Prices.normalize price of the declarations up to D, exact. "
                 "Proved from the directives to the CELLS of the rendered table for every valued report mode except a --commodity filter: (a) C03_command_cell (Properties/C03Report.lean): cumulative per-account rows, "
                 "all intervals, every window (--from/--to/--last), closing on or off, every directive list whose postings arrive unvalued: the table contains the row of every A/L account with an insert and its "
                 "cell in the column of period end D is within Spec.stepBound x 1e-8 of Spec.mtm(D) - Spec.mtm(window start - 1); both values exist whenever the command succeeds; C03_command_cell_abs (nothing held on the eve: the property's sentence). "
                 "(b) Properties/C03Modes.lean: C03_command_cell_diff (--diff: |cell - (Spec.mtm(D_k) - Spec.mtm(D_k-1))| <= Spec.stepBound of the steps INSIDE the period), C03_command_cell_mapped (any -m level[:suffix][,regex], --remap, --account, "
                 "cumulative or --diff: the cell of an A/L ROW r is within Spec.stepBoundOver x 1e-8 of Spec.mtmOver(S, D_k) - Spec.mtmOver(S, eve), S = Spec.sourceAccounts(rowSel f r) the journal's accounts mapped onto the row: sum of the accounts' exact values, bounds summed), "
                 "C03_command_cell_show / _show_other (-s: one line per commodity, each cell within Spec.stepCountOver x 1e-8 of the change of Spec.mtmPosOver = summed quantity x normalised price of that commodity; a commodity without a line has that change within the bound of 0). "
                 "(c) Properties/C03Flows.lean, the flow clause for EVERY income/expense/equity account, closing on or off, exact: C03_command_flow_cell (cumulative report: the cell of a non-A/L account other than Equity:Equity is "
                 "-(Spec.flowAt(b) - (sum over the A/L accounts a mirrored on b (Income:<path of a>) of (shown(a,D_k) - shown(a,F_k)) - Spec.flowOver)) over (F_k, D_k], F_k = eve of the window without closing, eve of the PERIOD with closing: "
                 "bookings at the price of their own day, minus the value adjustments of the mirrored accounts; with closing every column shows its own period because the valued closing transfers moved the earlier ones to Equity:Equity), "
                 "C03_gain_delta_noclose, C03_close_period (closing run vs run without closing: same A/L inserts, closable account: cumulative(D) - cumulative(s-1) of the run without closing), C03_command_row_shows, C03_equity_equity_residual. "
                 "Spec.stepBound is an explicit function of the journal (C03_step_bound_closed_form; C03_window_steps_le, C03_run_window_explicit). Below: C03_run_window / C03_run_window_split, C03_account_window, C03_run_mtm_bound, C03_mtm_bound(_window), C03_trunc_close, C03_telescope and the per-step facts of Properties/C03.lean. "
                 "Properties/C03Command.lean: C03_command_missing_price (a booking in a commodity other than V without a price on or before its day: BalanceCmd.run ends in error - or in the partition panic that precedes "
                 "processing - never in ok stdout; all flags), C03_gain_mirrors_adjustments, C03_inserts_are_postings. Open: a --commodity filter on mapped rows; the flow cells of a --diff report with closing and of the first column under --close with --last n. "
                 "On every run the driver evaluates Spec.mtm / mtmOver / mtmPosOver, the step bounds and Spec.flowAt exactly and the harness compares them with the cells of the REAL `knut balance -v V --digits 10` report: stream valued (per-account rows: A/L cells with the proved bound, no slack; "
                 "every expense/equity/Income:<path> cell exactly, closing off AND on), stream modes (-m, --remap, --account, -s, --diff: every A/L row and commodity line with the proved summed bound); valued reports are also compared byte for byte with the pipeline model. "
                 "Known finding: with --from after a position was acquired the report shows the value change inside the window, not the absolute mark-to-market (design behaviour) - which is what C03_command_cell states.",
        "note": "Trusted: Lean kernel; axioms propext, Classical.choice, Quot.sound; price normalisation is C12's model (Knut.Model.Prices); text-table parsing of the harness (indentation -> account path); the rendering of a numeric cell to text is C17's theorem.",
        "rule": "journals with price histories (sparse/daily redeclarations, direct, inverse and chained declarations, an eighth with some declarations dropped so that valuation must fail), "
                "position histories with sign changes and liabilities, many-decimal quantities; stream valued: -v V, all intervals, --from/--to/--last, --close on/off, --digits 10; stream modes: additionally "
                "-m level[:suffix][,regex] (1-2 rules), --remap, --account, -s, --diff; stream text: the journal as text over an include tree (prices in files of their own: one / by age / per day / per commodity; "
                "flat, index file, chain; sub-directories; names with glob characters), in half of the cases one member missing / renamed / a directory / a dangling symlink / named by a glob pattern: the command must fail, "
                "and every tree that loads has its A/L cells checked against Spec.mtm of the union of the files. class = (outcome, flag signature, size bucket; text: layout, tree, fault, what the lost part holds, depth, files).",
        "assumptions": ["no --commodity filter in this check's flag vectors (the filtered sum of positions is not assembled into a theorem)"],
    },
    "C09": {
        "lean": ["Knut.Properties.C09", "Knut.Properties.C09Decimal", "Knut.Properties.C09Text", "Knut.Properties.C09Journal", "Knut.Properties.C09Cmd", "Knut.FactsAgree.TransTransaction", "Knut.FactsAgree.TransCreate", "Knut.FactsAgree.TransCreate2", "Knut.FactsAgree.TransCreate3", "Knut.FactsAgree.TransJPrinter", "Knut.FactsAgree.TransJPrinter2", "Knut.Properties.C09Go"],
        "level": "proof",
        "claim": "Proof (all three clauses, for every printable journal, on the model of the commands for a journal that is one file) + full correspondence. Properties/C09Journal.lean: C09_print_accepted (the printed text loads and the checker gives the reloaded journal the verdict of the original), C09_print_fixpoint / C09_print_rejected (knut print on the printed text of an accepted printable journal writes that text; a rejected one stays rejected), C09_print_idempotent(_bytes) (print is idempotent on its own output), C09_reports_equal (knut balance under ANY flag vector, valued or not, no restriction on price directives, gives the same bytes or fails alike on the directives loaded from the printed text and on the directives the journal was built from), C09_verdict_equal. Printable (PrintableDir / PrintableJournal, decidable) = what the journal syntax can carry: dates 0000..9999, names of Unicode letters/digits, decimal amounts, assertions with at least one balance, descriptions without a double quote, transactions as transaction.Create builds them. UNCONDITIONAL for texts: C09_loaded_printable (every directive the loader returns from ANY byte string is PrintableDir: the parser's soundness gives field tokens of the right lexical classes, time.Parse / NewFromString / the registry / transaction.Create incl. @accrue expansion give the rest; Proofs/PrintSound.lean), hence C09_print_idempotent: for EVERY input text, if knut print succeeds on it then knut print on its output writes the same bytes; C09_file_reports_equal: check verdict and every balance report (any flags) of the printed file equal those of the input file. ONE ELABORATION MODEL (Properties/C09Cmd.lean): C09_elab_agrees - on every file the parser accepts, Commands.elabFile (inside Cmd.run, the command model C14 compares with the binary) returns the directives FromSyntax.loadText returns, errs iff it errs, panics iff it panics (a validly encoded token is the token of a character; the two models of time.Parse and NewFromString agree on every string; same order of handling). The models differed on one input class (transaction.Create panic followed by a later directive the elaboration rejects: loadText said error, Cmd.run and the real binary panic); loadText was repaired. C09_cmd_print_is_printFile (Cmd.run .print on a file without include directives = printFile of its bytes), and for EVERY file system and include tree on the input side: C09_cmd_loaded_printable, C09_cmd_print_idempotent (knut print succeeds with out => knut print on a file holding out writes out), C09_cmd_reports_equal (knut balance, every flag vector, same outcome on that file as on the input), C09_cmd_verdict_equal (knut check). Open: check --write's printed assertions are not compared. Proved (all bookings, all amounts): C09_booking_normal_form (rebuilding the booking that print writes from the debit-side posting yields "
                 "the identical posting pair), C09_printed_quantity_nonneg, C09_reprint_same_line, C09_targets_line. Properties/C09Decimal.lean: C09_dec_scaled_roundtrip, C09_dec_string_roundtrip (parseDec (showDec r) = r for every decimal rational), C09_dec_string_shortest, "
                 "closure of decimals under +, x, negation. Properties/C09Text.lean (text level, all inputs): C09_text_open, C09_text_close, C09_text_price, C09_text_assertion, C09_text_transaction (a printed open/close/price/single- or multi-balance assertion/transaction - any padding, @performance targets, negative bookings via the booking normal form, description without double quote - of printable fields - any Unicode letters/digits, dates 0000..9999, decimal amounts - is loaded back by parser + elaboration as exactly that directive), C09_text_items (a rendering of items parses and loads to the elaboration of their field views), C09_text_decode (UTF-8 decoding of a Lean string inverts utf8EncodeChar, every Char). WHOLE JOURNALS: C09_text_journal_fixpoint - for every printable journal j (PrintableJournal, decidable: days in strictly increasing date order, none empty, every directive under its own date and printable) the text journal.Print writes loads back (parser model, elaboration, transaction.Create) to exactly the directives of j day by day in print order, journal.Builder regroups them into the days of j with the transactions in journal.Sort order, and printing that journal reproduces the text byte for byte; C09_sort_idempotent (transaction.Compare is a total preorder, Std.TransCmp); the hypothesis is what the builder and transaction.Create produce: C09_text_built_shape (every built journal is sorted, without empty days, directives under their own date), C09_text_built_printable, C09_text_printed_perm (the printed directives are a permutation of the directives the journal was built from), C09_text_created_normal_form / C09_text_loaded_normal_form (every transaction Create / the loader returns is in booking normal form, with or without @accrue); exJournal (3 days, all directive kinds, decided printable; the real binary reproduces its text). The printer's quote replacement is JournalPrinter.descText (character-wise), the identity on descriptions without a double quote (descText_id). The same clauses are also decided on every run on the REAL binary: `knut print` output is "
                 "compared byte for byte with the Lean model of journal.Print, the printed journal is fed back to `knut print` (must be accepted and reproduce itself byte for byte) and "
                 "`knut balance` under a random flag vector must give byte-identical output on original and printed journal; `knut print` = Cmd.run .print of the model byte for byte on the SAME input text (print_text: every case, and stream text of mutated texts - rejected inputs must be rejected alike, error vs panic distinguished).",
        "note": "Trusted: Lean kernel; axioms propext, Classical.choice, Quot.sound; sort.Slice modelled as a stable sort (transactions comparing equal print identically unless their "
                "@performance targets differ); @accrue-annotated transactions are generated and expanded by Model/Accrual.",
        "rule": "lifecycle journals with negative/zero/trailing-zero/many-decimal amounts, @performance() with 0..n targets, multi-balance assertions followed by further assertions, several "
                "assertions per day, Unicode names, multi-line descriptions, a twelfth with a lifecycle mutation (rejected journals must be rejected by the model too). "
                "Stream sizes: the same journals with wide fields (account names of 30-300 runes - deep, long segments, letters/digits of 1-4 bytes -, commodity names of 8-40 runes, "
                "amounts of 8-40 characters, lengths clustered around powers of two and typical caps), same comparisons and monitors; class = (outcome, longest account / commodity / amount bucket). "
                "class = (outcome, feature signature, size bucket).",
        "assumptions": [],
    },
    "C02": {
        "lean": ["Knut.Properties.C02", "Knut.Properties.C02Close", "Knut.Properties.C02Command", "Knut.FactsAgree.TransProcess", "Knut.FactsAgree.TransQuery", "Knut.FactsAgree.TransAmountsSum", "Knut.FactsAgree.TransReport", "Knut.FactsAgree.TransReportTotals", "Knut.FactsAgree.TransReportSort", "Knut.FactsAgree.TransRender", "Knut.FactsAgree.TransRenderVals", "Knut.FactsAgree.TransMapping", "Knut.FactsAgree.TransSwapType", "Knut.FactsAgree.TransBalanceCmd", "Knut.FactsAgree.TransBalanceCmdGo", "Knut.Properties.C02Go", "Knut.FactsAgree.TransProcessAll", "Knut.FactsAgree.TransProcessAllCheck", "Knut.FactsAgree.TransProcessAllBalance", "Knut.Properties.C02Go2"],
        "level": "proof",
        "claim": "Spec.ledgerEntries (Spec/Ledger.lean) defines the report independently of the pipeline: window bookings mapped/filtered/aligned plus, with closing, the transfer of "
                 "each income/expense/equity total booked in [previous closing day, s) to Equity:Equity at every shown period start. Proved for all journals and flags: C02_noclose (without "
                 "closing the pipeline model's report inserts ARE the ledger entries, same list), C02_unmapped_untouched, C02_hidden_no_entry, C02_hidden_only_in_delta, and "
                 "C02_closing_partial (the closing pair books -T / +T); Properties/C02Close.lean: C02_close (WITH closing the inserts are a permutation of Spec.ledgerEntries — the accumulators equal the direct sums over "
                 "[previous closing day, s) — for sorted, date-consistent days containing the period starts; the permutation cannot be strengthened to equality, kernel-checked witness), C02_closing_day, C02_close_invariant. "
                 "The hypotheses (sorted days, period starts present and increasing, zero values in unvalued runs) are what Builder.ofList + ensureDays + NewPartition produce, and Properties/C02Command.lean derives them: C02_command_hyps, C02_startDates_increasing, "
                 "C02_command (for every flag vector without --val and every directive list with value-0 postings the inserts of BalanceCmd.entries are a permutation of Spec.ledgerEntries on the "
                 "configuration and days the command builds), C02_command_noclose, C02_create_zero / C02_loader_zero / C02_loaded_journal (the value-0 hypothesis holds for everything transaction.Create and the "
                 "loader produce), C02_command_output (BalanceCmd.run = BalanceCmd.runSpec: same stdout, error or panic, for directives on accounts with an account type). "
                 "Additionally the monitor report_equals_ledger renders Spec.ledgerEntries and compares it cell for cell with the REAL output of `knut balance` (text and CSV) on every case, "
                 "in addition to the cell-exact model-vs-code comparison over the full flag space (filters, -m incl. level 0 and suffix, remap, last, diff, close).",
        "note": "Trusted: Lean kernel; axioms propext, Classical.choice, Quot.sound; regexps restricted to the family the driver implements; rendering (BalanceReport.table, Table) is shared by "
                "model and specification (its numeric/width properties are C17's subject); cobra flag parsing.",
        "rule": "lifecycle-generated journals (incl. a tenth with one lifecycle mutation, so rejected journals are compared too) x flag vectors over --from/--to/--last/interval/--diff/"
                "--close/--account/--commodity/-m level[:suffix][,regex] (level 0 included)/--remap/-a/--csv. class = (outcome, flag signature, size bucket). "
                "Stream baltext: the journal as TEXT spread over a main file and 0-5 included files (chunks or interleaved, include trees with sub-directories), in four of five cases with one fault in one "
                "directive of any kind, first/last/anywhere in the main or an included file: parses but must be rejected by the conversion to the model (impossible or non-ASCII-digit date, account without an "
                "account type or a $macro, non-ASCII-digit amount or price, @accrue ending before its start / with a bad date or account), or a syntax error, an unreadable include, an include cycle; the real "
                "command against the Lean parser + FromSyntax + pipeline model and against the ledger specification on the parsed text, and, whenever it exits 0, against the ledger of all directives written. "
                "Stream shared: a root file including 3-10 sibling files that all book on the same 50-400 new commodities and 2-12 accounts from their first directives on (names, orders, days, layouts varied), loaded 6-12 times "
                "(natural schedule, GOMAXPROCS 2/16) plus once as the concatenated single file; every load must print the rendering of the ledger specification on the union of the files.",
        "assumptions": ["unvalued reports only (valued ones: C01/C03)",
                        "translated account mapping and balance query (FactsAgree/TransMapping, TransSwapType, TransBalanceCmd): a compiled regular expression is read as its match predicate (GoSem/RegexpMatch.lean; which predicate a pattern denotes is outside the reading, as in the model); the account registry is not translated: MustGetPath and SwapType/Get are parameters assumed to return THE account of the path / name asked for; of cmd/commands/balance.go execute the journal.Query literal and Multiperiod.Partition are translated, the rest (processor list with its arguments, setup statements, renderer literals, flags) is pinned by source text"],
    },
    "C01": {
        "lean": ["Knut.Properties.C01", "Knut.Properties.C01Table", "Knut.FactsAgree.TransAccount", "Knut.FactsAgree.TransPosting", "Knut.FactsAgree.TransTransaction", "Knut.FactsAgree.TransProcess", "Knut.FactsAgree.TransQuery", "Knut.FactsAgree.TransAmountsSum", "Knut.FactsAgree.TransReport", "Knut.FactsAgree.TransReportTotals", "Knut.FactsAgree.TransReportSort", "Knut.FactsAgree.TransRender", "Knut.FactsAgree.TransRenderVals", "Knut.FactsAgree.TransMapping", "Knut.FactsAgree.TransSwapType", "Knut.FactsAgree.TransBalanceCmd", "Knut.FactsAgree.TransBalanceCmdGo", "Knut.Properties.C01Go", "Knut.FactsAgree.TransProcessAll", "Knut.FactsAgree.TransProcessAllCheck", "Knut.FactsAgree.TransProcessAllBalance", "Knut.Properties.C01Go2"],
        "level": "proof",
        "claim": "Lean theorems over the model of the whole balance pipeline (check, ComputePrices, Valuate with daily value adjustments, Filter, CloseAccounts, Query, report totals): "
                 "C01_entries_cancel (for every journal made of posting pairs, every window/interval/--last/--diff/--close/--remap/-m level>=1, valued or not, without filters, the report inserts "
                 "selected by ANY predicate on (column, commodity) sum to zero), C01_delta_cells_zero, C01_delta_row_zero (every numeric cell of the rendered Delta rows is 0, cumulative or --diff), "
                 "visible_of_levels (mapping levels >= 1 hide nothing), ofBookings_paired (what the loader builds is paired); Properties/C01Table.lean: C01_table_delta (in the rendered table the rows between the last two "
                 "separator rows are exactly the Delta block and all its numeric cells are 0), C01_command / C01_command_table (the same at the level of BalanceCmd.entries from a directive list: window clip, "
                 "partition, closing days, pipeline), C01_create_paired and C01_loader_paired (everything transaction.Create produces, with or without @accrue, is paired), C01_loaded_journal (no hypothesis left for "
                 "journals that come through the loader model). The invariant 'every transaction reaching the Query stage is a list of "
                 "cancelling posting pairs' is proved through valuation (Truncate is odd), adjustments, filtering and closing. Tie: `knut balance` (subprocess, text and CSV, valued and unvalued) "
                 "compared cell for cell with the model's rendering (text tables reduced to their cell contents incl. row order and indentation; column widths/padding are C17's subject, CSV compared byte for byte) on generated journals x flag vectors; the Delta rows of the real output are parsed and checked to be zero on every case.",
        "note": "Trusted: Lean kernel; axioms propext, Classical.choice, Quot.sound; regexps restricted to the literal/anchored/alternation family the driver implements; cobra flag parsing; "
                "sequential pipeline semantics (C19 covers the concurrent realisation); @accrue-annotated transactions are generated and expanded by Model/Accrual (C10 proves each expansion is paired).",
        "rule": "journals from the lifecycle generator (2-8 accounts incl. nested ones booked directly, 1-8 days over spans of 0-800 days, several commodities, zero/negative/many-decimal amounts, "
                "half of them with daily/sparse price declarations incl. inverse ones and a valuation commodity) x flag vectors (from/to/last, six intervals, diff, close, sort, -s, -m level>=1 with "
                "suffix, remap, csv/text, -k, digits). Stream `unpriced`: valued reports of such journals with the price declarations of some commodities withdrawn before a cut day or altogether and the "
                "transactions regrouped (same-day transactions merged, bookings split, round trips and extra bookings in unpriced commodities added, order shuffled / unpriced first / unpriced last), so that a booking "
                "without a price stands alone, before, between and after priced ones; the Delta predicate is evaluated whenever the real command exits 0. class = (outcome, flag signature, size bucket, shape of the first transaction with an unpriced booking).",
        "assumptions": ["no account/commodity filter and no level-0 mapping in this check's flag vectors (the property's own proviso)"],
    },
    "C04": {
        "lean": ["Knut.Properties.C04", "Knut.FactsAgree.TransCheck", "Knut.FactsAgree.TransCreate", "Knut.FactsAgree.TransCreate2", "Knut.FactsAgree.TransCreate3", "Knut.Properties.C04Go", "Knut.Properties.C04Go2"],
        "level": "proof",
        "claim": "Refinement theorem C04_refines: on every list of days the model of the checker processor (maps with deletion on close, as in check.go) and the "
                 "lifecycle specification (open set + log of A/L postings; running quantity = sum over the log) give the same verdict and, on rejection, name the same "
                 "directive; corollaries C04_accept_iff_strict, C04_names_offender, C04_sound (accepted => well-formed as the property text defines it) and "
                 "C04_complete_partial (well-formed => accepted when no non-zero assertion on a non-A/L account occurs). The one deviation of the code from the "
                 "property text is pinned by kernel-checked witnesses (C04_nonAL_assertion_rejected) and listed as a known finding. Tie: journals from a lifecycle "
                 "automaton plus targeted mutations run through the real loader + check.Check() in-process and through `knut check|print|balance`; verdict and named "
                 "directive compared with the model; the Lean specification is evaluated on the real verdict of every case. The glue from file text to the builder is tied as well: the file bytes go "
                 "through the Lean parser model, Model/FromSyntax (Date.Parse, Decimal.Parse, account/commodity registries), Model/Accrual and the builder model, and the resulting days are compared "
                 "with a dump of the days the REAL loader built (op loadtext), incl. semantic damage (Feb 30, month 13, day 00, non-ASCII digits, macro accounts, unknown account types, year 0000).",
        "note": "Trusted: Lean kernel; axioms propext, Classical.choice, Quot.sound; "
                "error message texts are not modelled, only verdict and named directive.  @accrue-annotated transactions are generated too and expanded on the model side by Model/Accrual (C10).",
        "rule": "journals generated by an account-lifecycle automaton (2-6 accounts of all five types incl. nested ones, 1-3+ commodities incl. Unicode names, 1-5 days, same-day "
                "open/use/assert/close, multi-booking transactions, zero and negative amounts, multi-balance assertions) with at most one mutation out of: drop-open, duplicate-open, "
                "wrong-assertion, random-close, late-booking, zero-assertion, non-AL-assertion, reopen-assert, zero-booking-unopened. class = (verdict, mutation, size bucket, account shapes). "
                "In two of five cases of every stream some or all accounts are renamed, injectively and within their account type, to minimal and odd valid names (the bare root account, "
                "digit-only / type-word / non-ASCII / one-letter / very long segments, 6-66 segments, parent, child, string-prefix sibling or leaf of another account). "
                "Stream disorder: sparse account timelines (one open/booking/assertion/close/price per step, mostly on a date of its own), re-open journals and automaton journals whose FILE order is "
                "rearranged (displaced or nudged directives, swapped/displaced/permuted/reversed days, shuffled tail, full shuffle, grouped by kind, concatenated chronological files); the specification "
                "sorts the generated directive list itself and is compared with check.Check and `knut check`. "
                "Stream trees: the journal spread over an include tree of 1-40 (120) files (wide, below hubs, nested, chains, random, a file included twice; sub-directories, respelled paths), a presence tie "
                "through all members, half of the cases with a fault at a chosen place (missing / directory / empty / cyclic include, unreadable member, rejected text first / middle / last in a member, "
                "rejected date or account type, lifecycle violation in a member's last line), one case in eight with members of 60 KB - 6 MB of comments, prices and bookings laid out around the fault; "
                "in-process and `knut check|print|balance` under KNUT_VERIF_SEED and GOMAXPROCS 1/2/16: an unloadable tree is rejected, otherwise the verdict is the specification's on the union of the directives. "
                "Stream balflags: re-open, timeline, automaton and ledger journals (several accounts per type booked against each other) under 2-4 full `knut balance` flag vectors each (GenBalFlags, then 0-3 features forced on; "
                "one vector in four is --account/--commodity with --close=false and without -v): exit status 0 iff the specification accepts, whatever the report flags (valued runs that stop on a price are not counted).",
        "assumptions": ["the day grouping of journal.Builder (model Builder.ofList) is exercised through the real loader on every case"],
    },
    "C07": {
        "lean": ["Knut.Properties.C07", "Knut.FactsAgree.TransScanner", "Knut.FactsAgree.TransParser", "Knut.FactsAgree.TransParser2", "Knut.FactsAgree.TransParser3", "Knut.FactsAgree.TransParser4", "Knut.Properties.C07Go"],
        "level": "proof",
        "claim": "Lean theorems over a model of lib/syntax/scanner + lib/syntax/parser (one definition per Go method, same call order and error decoration, "
                 "input = any byte string decoded rune by rune as utf8.DecodeRuneInString does): C07_total (tree or error for every input; all loops are "
                 "well-founded recursions on the unconsumed tokens), C07_offsets_in_text / C07_parse_stays_in_text (no scanner state leaves the text), "
                 "C07_error_in_bounds / C07_errOK (every error link has start <= end <= len), C07_error_renderable, C07_ranges_nested (all ranges in the text, "
                 "children in parents), C07_file_range, C07_top_level_sorted_disjoint, C07_extract_is_slice, C07_gaps_blank_or_comment, C07_cover "
                 "(gaps and directives interleave to the exact input), C07_treeOK (the monitor predicate holds of the model). Tie: the real parser "
                 "(parser.New, Advance, ParseFile, in-process, recover + watchdog) is compared with the model byte for byte on the dumped tree "
                 "(kind, start, end, children) resp. on the error chain ranges and the full rendered error text, and the Lean predicates treeOK / errOK are "
                 "evaluated on the real parser's output for every case.",
        "note": "Trusted: Lean kernel; axioms propext, Classical.choice, Quot.sound; the unicode tables are regenerated from the Go toolchain on every run "
                "(Generated/Unicode.lean); utf8.DecodeRuneInString is modelled (Utf8.decodeRune) and compared on its own stream. Not modelled: Go stack/heap "
                "limits, the partially filled tree Go returns next to an error, the Callback hook, ParseFileRecursively (C14/C19).",
        "rule": "streams: utf8 (all first bytes x continuation patterns + random byte strings, DecodeRuneInString vs Utf8.decodeAll); scan (random scripts of calls of the exported scanner.Scanner API - Advance, ReadWhile, ReadWhile1, ReadUntil, ReadCharacter, ReadCharacterWith, ReadString, ReadAlternative, ReadN - on short texts, result ranges, offset, current rune and rendered errors compared call by call); corpus (the repository's .knut "
                "files, their prefixes and one-position mutations; thorough: every prefix and every position); journal (grammar-based mostly valid journals: "
                "all directive kinds, addons in both orders, multi-line assertions, CRLF, tabs, trailing blanks, Unicode letters/digits, multi-line descriptions, "
                "missing final newline); mutated (1-3 byte-level edits of such journals: delete/duplicate/replace/insert/splice/truncate); prefixes (every prefix of "
                "generated journals); raw (random bytes over an alphabet with invalid UTF-8, surrogates, overlong forms, NUL, CR, U+FFFD, keywords); long (one very long "
                "token, 1e5 bytes quick / 1e6 thorough); big (c07big.go: files of hundreds to thousands of directives from C08's big generator and dense runs of transactions of 1-129 bookings around powers of two, Lean work capped at nodes x bytes <= 1e8/3e8, above it a Go mirror of treeOK that is compared with Lean below it). Every case: model vs implementation (tree dump or error ranges + rendered message), Go-side check that every "
                "range carries the input text and Extract() is the slice, Lean treeOK/errOK on the real result. A class = outcome x (directive-kind set + layout tags) "
                "resp. (error depth, innermost message shape). Disagreements trigger a directed search (all prefixes and one-position edits of the disagreeing input). loader (c07loader.go; worker process with KNUT_VERIF_SEED, varying GOMAXPROCS, consumer speed and caller-side cancellation): generated include trees on disk - all valid, or with a missing include / directory / syntax error early or late / invalid UTF-8 / include cycle in a member, files from a few bytes to MB - through syntax.ParseFileRecursively and syntax.ParseFile, several loads per tree; on EVERY delivered tree: it is the tree of a file of the load with that file's content as text and file range [0,len], text identity of all ranges, Lean treeOK, model tree (files up to 150 KB); on every returned syntax error: text identity, errOK, and it is the error of that file's own text (none for a text that parses); panic/hang = C07_total.",
        "assumptions": ["utf8.DecodeRuneInString behaves as Utf8.decodeRune (compared on every run)",
                        "unicode.IsLetter/IsDigit are the regenerated range tables (Go toolchain of the run)",
                        "fmt's %c/%q/%d and strings.Builder behave as the model's string building (compared through the rendered error text)"],
    },
    "C08": {
        "lean": ["Knut.Properties.C08", "Knut.FactsAgree.TransScanner", "Knut.FactsAgree.TransParser", "Knut.FactsAgree.TransParser2", "Knut.FactsAgree.TransParser3", "Knut.FactsAgree.TransParser4", "Knut.FactsAgree.TransPrinter", "Knut.FactsAgree.TransPrinter2", "Knut.FactsAgree.TransPrinter3", "Knut.Properties.C08Go", "Knut.FactsAgree.C08"],
        "level": "proof",
        "claim": "Lean theorems for ALL byte strings over the models of lib/syntax/parser, lib/syntax/printer (extract the fields, then render; same format strings, fmt padding counted in runes) and formatRunner.formatFile: C08_unparseable_untouched; C08_format_total (formatting a parsed file never violates a slice bound); C08_gaps_verbatim (output = the input's own gap slices interleaved with the re-rendered directives); C08_reparse_same_fields (the output parses, to the same number and kinds of directives with byte-identical dates, accounts, amounts, commodities, descriptions/paths, @accrue fields and @performance targets, annotation order normalised; the gaps of the output are the gaps of the input); C08_idempotent (format of the output is the output); C08_command (the disjunction for the command). All stages closed (open/close/price/include/single-line assertion, transactions with both addons in any order, multi-line assertions incl. the one-balance form); no _partial theorem remains. Proof: token-level grammar of every field with soundness and completeness of each parser function, decomposition of a successful ParseFile run into items, replay of the main loop on the rendered tokens, UTF-8 self-delimitation for re-decoding. Tie: syntax.FormatFile in-process and `knut format` on temp files are compared byte for byte with the model; the Lean predicate formatOK (same directives and fields by semFlat incl. macro-account kinds, gaps byte for byte) is evaluated on the two real trees; reparse and format-twice are checked on the real code for every case; unparseable files are checked untouched through the CLI.",
        "note": "The theorems compare typed field views (viewDirective); the monitor compares the untyped semFlat of the dumped trees (which also carries the macro-account kind) - the two formalisations of \"same fields\" are proved equivalent on parsed files (C08_monitor_iff: formatOK on the two trees iff views and gaps agree; C08_monitor_sound: formatOK holds of the model; Proofs/SyntaxSem.lean: for a tree the parser returned the account kind and the annotation nodes are functions of the field bytes, semFlat = semFileV of the views, semFileV injective). Trusted: Lean kernel; axioms propext, Classical.choice, Quot.sound; fmt padding (%-*s, %10s count runes) and strings.Join as modelled (compared byte for byte); "
                "atomic.WriteFile is C18's subject; cobra argument handling and multierr are glue (exit status compared).",
        "rule": "streams: corpus (repository journals); journal (grammar-based layouts: tabs, CRLF, trailing blanks, multi-line descriptions, Unicode account names and digits, "
                "both addon orders, multi-line assertions, missing final newline); stress (layouts the formatter must normalise: amounts wider than 10, one-balance multi-line "
                "assertions, annotations before non-transactions, transactions ending at EOF, CR/tab inside directives); mutated (byte-level edits, mostly unparseable); formatted "
                "(already formatted text); big / bigcli (size: files of hundreds to thousands of directives, transactions of 1-40 bookings, a running count - booking lines, "
                "directives, transactions, lines, bytes, bytes of one line or field - steered to every power of two or multiple of 32..4096 at a drawn offset inside a transaction, "
                "multi-line assertion or one-line directive; above a work limit of the list-slicing model the case keeps the monitors, formatOK through its Go mirror c08FormatOK, "
                "which is compared with the Lean predicate on every case below the limit); cli (`knut format` on one or two temp files: file bytes afterwards, exit status, no "
                "leftover files; the file left behind parses, keeps fields and gaps, is a fixed point). Every in-process case: "
                "syntax.FormatFile output vs model output byte for byte; monitors on the real output: it parses, Lean formatOK (same directives/fields by semFlat, gaps equal) on the "
                "two real trees, formatting again changes nothing; cli: unparseable files untouched. "
                "flags, flags-infer (harness/c08_cli.go): the flags of `knut format` / `knut infer` are read from `--help` on every run (and pinned to the reviewed surface by FactsAgree/C08); "
                "every subset of up to three of the boolean flags offered - reviewed or not - in all spellings and positions, on unformatted / formatted / unparseable files, one and several, "
                "with a line above 64 KiB; judged on what is on disk afterwards: unparseable untouched, still parses, formatOK against the original, format of it (in process and by a second plain "
                "`knut format`) = plain format of the original; infer with an absent account: --inplace = FormatFile of the target, otherwise target untouched and stdout judged as formatted text. "
                "A class = outcome x changed? x directive-kind set x layout tags.",
        "assumptions": ["fmt.Fprintf padding verbs and strings.Join behave as renderDir (compared on every case)",
                        "the parser model equals the Go parser (C07's correspondence, re-exercised here through c08format)"],
    },
    "C10": {
        "lean": ["Knut.Properties.C10", "Knut.FactsAgree.TransDate", "Knut.FactsAgree.TransAccount", "Knut.FactsAgree.TransPosting", "Knut.FactsAgree.TransTransaction", "Knut.FactsAgree.TransCreate", "Knut.FactsAgree.TransCreate2", "Knut.FactsAgree.TransCreate3", "Knut.Properties.C10Go"],
        "level": "proof",
        "claim": "Lean theorems over the model of transaction.Create/expand (lib/model/transaction/transaction.go) with posting.Builder.Build, date.NewPartition (the C11 model, last = 0) "
                 "and Decimal.QuoRem(n, 1), for any number of bookings, all five account types, any quantities, every interval and every window with start <= end: every generated "
                 "transaction is a pair of mutually negated postings against the accrual account (C10_each_balances); for EVERY account and commodity the total over the generated "
                 "transactions equals what the original books (C10_conserves_all; C10_conserves is the stated clause for accounts other than the accrual account); the accrual account nets "
                 "to zero when the transaction does not book on it and otherwise keeps exactly the original amount (C10_accrual_nets_zero, ..._partial); posting by posting, income/expense "
                 "legs give one transaction per period of the C11 partition dated at the period ends in order with '(accrual i/n)' descriptions, all other legs (assets, liabilities, "
                 "equity) one transaction on the original date (C10_dates, C10_period_count); n*amount + rem = quantity (C10_quoRem_sum); a non-empty window with valid accounts expands "
                 "without error or panic (C10_expands), end < start is rejected (C10_inverted_rejected), a window starting on 0001-01-01 panics (C10_zero_start_panics, known finding). "
                 "The executable predicate accrualOK is proved of the model and proved to mean these clauses; it is evaluated on the real output of every generated case; the real "
                 "Create (fed by the real parser) is compared with the model byte for byte (dates, descriptions, posting pairs in order, targets).",
        "note": "Literal reading of 'the accrual account nets to zero' fails when a booking of the transaction is itself on the accrual account: the account then keeps what the original "
                "booked (conservation holds for it too); stated and proved in that form. Trusted: Lean kernel; axioms propext, Classical.choice, Quot.sound; the C11 partition model "
                "(tied to date.NewPartition by C11's exhaustive check); shopspring QuoRem/Add/Neg/String on Rat (dec stream); the real parser turns text into syntax.Transaction "
                "(its output, not the generator's structure, is what the model is given).",
        "rule": "stream accrual: generated journal text with @accrue (4 parser intervals; windows: single day, within a week, whole months, multi-year, on month borders, random, independent "
                "of the date) and optional @performance, 1-8 bookings over all five account types incl. both-I/E, neither-I/E, equity legs, same account on both sides and bookings that "
                "touch the accrual account, quantities from remainder-rich/negative/zero/many-decimal/huge classes; parsed by the real parser, Create compared with the model and accrualOK "
                "evaluated (original postings taken from the real Create of the same transaction without the annotation); stream malformed: end < start, start 0001-01-01, invalid account "
                "types, impossible dates, I/E accrual account, random text mutations (outcome classes compared, no panic unless known; windows of more than ~4000 periods x bookings are skipped); "
                "stream print: `knut print` on a journal holding the annotated transaction, its output parsed back and compared (sorted) with the library expansion; stream dec: decimal arithmetic against shopspring. "
                "A class = (stream, outcome, interval, legs bucket, I/E legs, generated bucket).",
        "assumptions": ["shopspring/decimal QuoRem, Add, Neg and String() behave as the Rat model (sampled on every run by the dec stream)",
                        "date.NewPartition behaves as the C11 model (established by C11's exhaustive correspondence)"],
    },
    "C11": {
        "lean": ["Knut.Properties.C11", "Knut.Properties.C11Monitor", "Knut.FactsAgree.TransDate", "Knut.Properties.C11Go"],
        "level": "proof",
        "claim": "Lean theorems for all windows, all six intervals and all --last values over the model of lib/common/date: periods are consecutive, "
                 "cover the window exactly, are pairwise disjoint, lie within one calendar unit, start at the window start or a unit start, --last n keeps the n "
                 "most recent, Align attributes inside/before/after dates as stated, inverted windows give no (or one empty) period; the loop's termination is a "
                 "well-founded recursion; Properties/C11Monitor.lean: partitionOK_of_model and alignSpec_of_model (the monitor predicates hold of the model's output for every window, interval and --last, "
                 "so a monitor alarm on the real code is a deviation from proved behaviour). The calendar model (year/month/day/weekday from a day number) is tied to Go's time package by an exhaustive comparison "
                 "over every day 0001-01-01..9999-12-31 in the thorough tier; partitions and Align by differential runs of date.NewPartition; the property "
                 "predicate (Lean partitionOK/alignSpec) is evaluated on the real output of every case.",
        "note": "Trusted: Lean kernel; axioms propext, Classical.choice, Quot.sound; Go time package outside the compared range; sort.Search modelled as linear search; "
                "flag parsing in cmd/flags (Multiperiod.Partition = NewPartition(period.Clip(journal period), interval, last)) is covered through the balance checks (C02), not here.",
        "rule": "stream calendar: day numbers (quick: 20k random + all month borders 1890-2110; thorough: every day 0001-01-01..9999-12-31) "
                "compared on Year/Month/Day/Weekday/StartOf x6/EndOf x6; stream partition: random windows (inverted, single day, long, near zero time, "
                "on unit borders) x 6 intervals x --last values, compared on the period list and on Align at border/random probe dates, "
                "and monitored with the Lean predicates partitionOK/alignSpec; stream files: `knut balance --csv` on a one-booking-a-day journal spread over 2-6 included files "
                "(chunks, enclosing layers, interleaved, random; include trees and positions; prices outside the transactions) under several KNUT_VERIF_SEED/GOMAXPROCS schedules, "
                "columns = period ends of the model partition of the window and day counts per column. A class = (month, weekday, leap) resp. "
                "(interval, inverted?, sign of last, bucket of period count); distinct_nontrivial counts classes hit.",
        "assumptions": ["Go's time package (Date normalisation, AddDate, Weekday) behaves as the day-number model on 0001..9999 (checked exhaustively in the thorough tier)",
                        "sort.Search in Partition.Align is modelled as a linear search over the (strictly increasing) period ends"],
    },
    "C12": {
        "lean": ["Knut.Properties.C12", "Knut.FactsAgree.TransPrice", "Knut.Properties.C12Go"],
        "level": "proof",
        "claim": "Lean theorems for all lists of price declarations (any graph: trees, alternative paths, cycles, disconnected parts, redeclarations in any order), "
                 "all valuation commodities, over the model of lib/model/price/prices.go (Insert/addPrice, the breadth-first Normalize with its queue and result map, "
                 "Price, Valuate) and of journal.ComputePrices: the valuation commodity has price 1; a commodity whose pair with V is declared gets the latest declared price "
                 "(its stored reciprocal Truncate(8)(Div(1,p)) when declared the other way), as Multiply(p,1); every price returned is the fold of Multiply along a simple chain "
                 "of latest prices from V; a commodity has no price iff it is not connected to V, and Valuate fails exactly then; Insert rejects exactly zero prices; the table "
                 "is the same for every enumeration order of the Go maps (outer and inner); Day.Normalized of day i is Normalize of all declarations of days 0..i (nil before the "
                 "first), the days being sorted by date with file order inside a day (C12_journal_order). The traversal's termination is a well-founded recursion on unvisited+queue length. The executable predicate priceOK is proved of the model "
                 "(C12_priceOK) and proved to mean the four clauses (C12_priceOK_sound); it is evaluated on the real code's table for every generated case, the real code is "
                 "compared with the model byte for byte, and every case is run several times with fresh maps.",
        "note": "Partial in one clause: the declared price is returned exactly only when it has at most 8 decimals (C12_direct_exact_partial); with more decimals the real code "
                "cuts a directly declared price to 8 decimals (known finding direct-price-cut-to-8-decimals). Trusted: Lean kernel; axioms propext, Classical.choice, Quot.sound; "
                "shopspring/decimal Mul/Div/Truncate/String as modelled on Rat (sampled by the dec stream); Go string comparison = code point order on valid UTF-8 names; "
                "sort.Slice on distinct keys = any correct sort. Not covered here: price.Create (parsing a price directive) and the flag -v; how valued reports use the table is C03.",
        "rule": "stream graph: 2-10 commodities with tie-rich names, shapes line/star/tree/diamond/cycle/complete/two-components/triangle/ladder/sparse(with self loops), "
                "random directions, shuffled order, 0-4 redeclarations, prices from nice/8-decimal/9+-decimal/huge/tiny classes, V in or outside the graph; stream malformed: zero, "
                "negative, self-priced, duplicate, empty; every case: Insert+Normalize+Price+Valuate compared with the model under a random map-order oracle, repeated 3x (6x thorough) "
                "with fresh registries, monitors priceOK/valuateOK/insertOK/directExact evaluated by the Lean driver on the real table; stream days: the same declarations dated over 1-6 "
                "days plus days without prices, through journal.Builder (every third case: written to a file and loaded through journal.FromPath, i.e. parser and price.Create) and journal.ComputePrices, every day's table compared and monitored against the declarations up to that day, and the journal's outcome monitored by insertOK (a zero price directive anywhere => rejected, else accepted); "
                "stream requote: 1-3 pairs quoted 0-5 times a day in either direction over 1-4 dates with one or two zero/negative/tiny quotes placed alone, first, in the middle, last, "
                "before/after/between same-direction or inverse quotes of their pair, twice, or re-quoted on an earlier/later date, file order by date, reversed or merged, same pipeline and monitors as days, "
                "every 10th journal also through `knut balance -v V` (exit status and the invalid price error); "
                "stream shared: one price history of 2-40 new commodities spread over 2-8 included files (siblings or nested) that all quote the same pairs in the same order on different dates, loaded 8x (16x thorough) by journal.FromPath under GOMAXPROCS 16/2/4/8, every load compared and monitored like a days case (priceOK(day) also on every load that differs), every 10th tree with one unit of every commodity booked through `knut balance -v V` (natural schedule and KNUT_VERIF_SEED, GOMAXPROCS 2/16: fails exactly for a zero price or an unconnected commodity); "
                "stream dec: decimal arithmetic against shopspring. A class = (shape, size, reached bucket, redeclared?, V in graph?) resp. (shape, days bucket, nil day?, carried day?).",
        "assumptions": ["shopspring/decimal arithmetic and String() behave as the Rat model (sampled on every run by the dec stream)",
                        "two declarations of the same unordered pair on one day are inserted in file order (in-process journal.Builder.Add order); the order in which concurrently loaded files reach the builder is C05/C19 (stream shared never quotes a pair twice on one date)"],
    },
    "C14": {
        "lean": ["Knut.Properties.C14"],
        "level": "proof",
        "claim": "PARTIAL proof + subprocess monitors. Proved in Lean for ALL inputs of the model (any bytes, any include graph, any flag vector): the recursive loader "
                 "(syntax.parseRec over a file system Path -> Option Bytes with finitely many readable cleaned paths and an arbitrary parser; path.Clean / filepath.Dir / path.Join modelled) is "
                 "defined WITHOUT fuel and its include chain is never longer than the number of readable paths + 1 (C14_loader_depth_bounded); it has no panic outcome (C14_loader_no_panic); a "
                 "missing, unreadable or rejected file reached by include directives fails the load (C14_included_error_fails); any cycle under any spelling of the paths is an error "
                 "(C14_cycle_is_error, C14_self_include_is_error); the load succeeds exactly if no include walk ends in a failing call (C14_load_ok_iff). For the composed outcome model "
                 "Cmd.run of check, balance, print, format, infer, transcode (loader + model.FromStream elaboration + the existing processor/printer models) and portfolioClass: a loader error "
                 "is a command error (C14_included_error_fails_command), a failing command has written nothing to stdout (C14_error_stdout_empty; tied to the source by the extracted fact that "
                 "every report command creates its stdout writer after its last fallible call), and NO command panics (C14_no_panic, C14_no_panic_portfolio) under exactly the guards of the two "
                 "recorded findings (an @accrue window starting 0001-01-01; a report window starting 0001-01-01), which are shown necessary (C14_zero_window_panics); the monitor predicate "
                 "failsCleanly holds of the model (C14_fails_cleanly). Not provable in a model: wall-clock hangs, memory exhaustion, panics inside cobra/pflag/regexp/yaml. Decided on every "
                 "run on the REAL binary: ~2900 (thorough ~60k) subprocess runs of all nine command forms under a 10 s wall-clock bound and an address-space limit, over include graphs (cycles, "
                 "self-includes, diamonds, missing/dir/unreadable/symlink-loop files, deep chains, many siblings, bad leaves under schedule perturbation), arbitrary and mutated bytes, boundary "
                 "journals (dates 0000/0001/9999, accrual windows, zero prices, empty files) and hostile flag values; the Lean predicate failsCleanly is evaluated on every run and the outcome "
                 "class is compared with Cmd.run on the file system the run saw.",
        "note": "Trusted: Lean kernel; axioms propext, Classical.choice, Quot.sound. The file-system model assumes finitely many readable cleaned paths (true of any OS through PATH_MAX). The "
                "parser is the C07 model; Range.Extract of parsed elements is the slice (C07_extract_is_slice). cobra/pflag, regexp, yaml, runtime behaviour (time, memory) can only be sampled. "
                "Findings on the unchanged code (known_findings.jsonl): transaction-dated-0001-01-01 and accrual-window-starting-0001-01-01 (panics, predicted by the model), absurd-digits-hang "
                "(--digits of 10^7 and more runs for minutes to hours), calendar-wide-window-memory (a --days report or daily accrual over the whole calendar needs gigabytes).",
        "rule": "streams: graph (20 shapes of include graphs x 9 command forms x schedule seeds x GOMAXPROCS), bytes (random bytes, random ASCII, truncated and token-mutated journals), special (44 "
                "boundary journals x drawn window flags incl. inverted windows, huge/negative --last, negative --digits), flags (41 argv-level variants: unknown flags, bad regex/map/dates, "
                "missing/dir/empty paths, absent -v, universe files), slow (the recorded resource findings), paths (path.Clean and path.Join(filepath.Dir) vs the model), late (64 / 800 journals whose valid prefix "
                "reports more than 4 KiB / 64 KiB / 1 MiB before one failing directive - each checker rule, a missing price, a late syntax / date / account / accrual / include error - x 8 command forms, each run with and without the failing directive), flagmix (700 / 12000 runs of balance / portfolio weights / returns with the full balance flag vector of C01-C03 plus 2-4 forced features - -m level 0, -m level 1-3, several -m rules, --remap, --account, --commodity, -s, -v, window, --last, interval, --diff, --close=false, --csv, -a, -k, --digits: every pair occurs - on boundary and generated journals; patterns from the names in the journal; a fifth with a regex or level outside the model, monitored only). A class = "
                "(stream, kind, command, observed outcome class); distinct_nontrivial counts classes hit.",
        "assumptions": ["the file system has finitely many readable cleaned paths (PATH_MAX)",
                        "the processors' models (Check, Balance, Beancount, Table, Infer, Syntax printer) behave as the code: established by their own properties' correspondence checks; here only the outcome class is compared",
                        "wall-clock and memory behaviour is sampled on the generated inputs, not proved"],
        "timeout": {"quick": 1200, "thorough": 5400},
    },
    "C17": {
        "lean": ["Knut.Properties.C17", "Knut.FactsAgree.TransTable", "Knut.FactsAgree.TransRender", "Knut.FactsAgree.TransRenderVals", "Knut.Properties.C17Go", "Knut.FactsAgree.TransTableRender", "Knut.FactsAgree.TransTableRender2", "Knut.FactsAgree.TransTableRender3", "Knut.FactsAgree.TransTableCsv", "Knut.FactsAgree.TransTableBuild", "Knut.FactsAgree.TransTableLog", "Knut.Properties.C17Go2"],
        "level": "proof",
        "claim": "Lean theorems over the model of lib/common/table (TextRenderer.Render incl. both width passes and the panic outcomes, numToString, addThousandsSep, "
                 "CSVRenderer.Render with encoding/csv quoting), for all tables whose rows have a common number n>=1 of cells with non-negative indents and no line breaks, "
                 "all amounts, every --digits (any integer) and --thousands on/off: all lines have the same rune width (C17_rectangular); n+1 character columns hold a "
                 "separator on every line (C17_separators_aligned); every line decomposes into slots of the final column widths and every slot shows its cell "
                 "(C17_text_conforms; the code's quotient by 1000 is the exact one since the repair 93a24c8 replaced Div(1000) by Shift(-3): exactTarget = codeTarget by rfl); without commas a number text reads "
                 "as Round(digits)(amount) resp. Round(digits)(amount/1000) for EVERY amount (C17_num_value, C17_num_value_exact_all), starts with '-' iff that value is negative (C17_sign), "
                 "is blank iff the amount is zero (C17_blank), is grouped exactly as the independent grouper groupLeft does with digits-only fraction of the requested length "
                 "(C17_grouping, C17_fraction_digits, C17_only_commas_inserted); CSV records are the non-blank rows in order with texts verbatim and amounts reading back "
                 "exactly (C17_csv_positions) and the CSV bytes parse back to those records (C17_csv_roundtrip). Decided witnesses: C17_no_double_rounding (the input of the former defect thousands-with-more-than-13-decimals now prints 0; the old 16-place quotient gave 1) "
                 "and the unsigned zero for a negative amount that rounds to zero. Tie: byte comparison of the real TextRenderer/CSVRenderer with the model "
                 "on generated tables (numbers, balance-shaped, malformed), the Lean predicates evaluated on the real output of every case, the shopspring correspondence "
                 "stream, and `knut balance` text vs --csv of generated journals (text re-rendered by the model from the CSV amounts; predicate with the CSV amounts).",
        "note": "Trusted: Lean kernel; axioms propext, Classical.choice, Quot.sound; shopspring StringFixed/Div/String as modelled in Knut.Basic.Dec (sampled by the dec stream); "
                "fmt %*s padding and utf8.RuneCountInString (= code points on valid UTF-8; sampled); encoding/csv.Writer as modelled (sampled); percentCell, colour and io.Writer "
                "errors are not modelled; FillEmpty on a row that outgrew the table width is not modelled; the balance report's construction of the table "
                "(lib/reports/balance/renderer.go) is covered only through the subprocess stream, not by a theorem.",
        "rule": "streams: dec (shopspring vs Knut.Basic.Dec), numbers (one-column tables of amounts steered at the rounding position in use: halves, near-halves, 99..9.5 carries, "
                "rounds-to-zero, 1e-8..1e17, group borders, >13 decimals; every --digits -3..10 and more, -k on/off), table (balance-shaped tables: groups (1,n),(1,1,n),random; "
                "separator/empty/header/name-only/data rows, FillEmpty, multi-byte and awkward names incl. CSV specials), malformed (short/long/empty rows, zero-width tables, "
                "negative indents, line breaks: panic outcomes and bytes compared, line monitor skipped), directed (single amounts around disagreeing cases x all digits x -k), "
                "balance (knut balance --color=false [-k] --digits n vs --csv on generated journals of one day to three years; flag vectors stratified over every interval flag "
                "(none, --once, --days, --weeks, --months, --quarters, --years) x --last absent/0/-1/1/2/3/P-1/P/P+1/12/1000 (P = periods of the span), with --from/--to absent, one-sided, "
                "inside, covering, overlapping, outside, inverted, one day, a few intervals long, and --diff, -a, -v with and without -s, -s alone, -m, --account, --commodity; "
                "a report whose table cannot be rebuilt from the CSV is still given to rectLines/alignedOK), paced (reports of 30-2000 (thorough: 3500) booked accounts, 4 KiB-1 MiB of text, "
                "read from knut's standard output by consumers that start late, stop in the middle, read slowly, in tiny pieces or in bursts, through pipes of 4 KiB-1 MiB capacity, or into a file: "
                "every consumer must receive the model's rendering and text/CSV satisfying textOK/csvTextOK). Each case: text and CSV bytes compared with the model, textOK "
                "(rectLines, alignedOK, conformsAll with widths read off the real output) and csvTextOK evaluated by the Lean driver on the real output. "
                "A class = (stream, width, -k, digits class, set of amount/name kinds present).",
        "assumptions": ["shopspring/decimal StringFixed, Div (16 places, half away from zero) and String behave as Knut.Basic.Dec (sampled by the dec stream on every run)",
                        "fmt pads %*s to a width counted in runes; cell texts are valid UTF-8",
                        "every amount is a decimal fraction (holds for every decimal.Decimal)"],
        "timeout": {"quick": 900, "thorough": 3000},
    },
    "C19": {
        "lean": ["Knut.Properties.C19", "Knut.Properties.C19Registry", "Knut.FactsAgree.C19", "Knut.FactsAgree.TransJournal", "Knut.FactsAgree.C06Conc"],
        "level": "proof",
        "race": True,
        "claim": "Lean theorems over a transition-system model of cpr.Seq (any number of stages, items, stage functions with private state; a schedule is any "
                 "sequence of enabled steps incl. failure and cancellation): exclusive ownership of every item, no deadlock (progress), termination within "
                 "2(n+1)m+1 steps, every successful schedule delivers exactly the sequential result, after a failure nothing new starts, the run stops and reports "
                 "the error of a stage function on the item it held (one of the sequential first failures), never success; theorems about the relaxed trace "
                 "acceptor (per-stage FIFO, stage-order dependency, completeness) and about the builder fan-in (every directive of every file exactly once, for "
                 "every arrival order; days sorted). PARTIAL for the clause 'no data races': the Go memory model is not modelled, races are searched for with the "
                 "race detector over the processor matrix (supporting evidence). Tie: logged traces of the real cpr.Seq (in-process and in the knut binary, under "
                 "perturbed schedules) must be accepted by the Lean acceptor, results must equal the model's sequential result, errors must be among the model's "
                 "possible errors; include trees are loaded by the real binary and compared with the model's census; the race-instrumented binary must agree with the normal one.",
        "note": "Trusted: Lean kernel; axioms propext, Classical.choice, Quot.sound; the Go scheduler/memory model (only the channel protocol is modelled); "
                "conc pool semantics (first error recorded before cancel) as read from the pinned source; the verif hooks in lib/common/cpr; the race detector.",
        "rule": "streams: seq (in-process cpr.Seq on generated stage functions with failure specs, schedule perturbed by KNUT_VERIF_SEED and in-function yields; "
                "result vs model, item-labelled trace vs Lean acceptor/monitor), trace (knut commands on generated journals with KNUT_VERIF_TRACE; trace vs acceptor, "
                "output vs unperturbed run), race (processor matrix under the -race binary with several seeds), loader (include trees incl. error trees, every file with a drawn byte layout: how it begins, what separates directives, how it ends - no final newline after any kind of directive, blanks, CRLF, comment without newline, include first/last/only; census vs model, "
                "no-loss/no-dup monitor, timeouts), grow (journals over 100-600 days in which accounts of depth 2-5, commodities, positions and daily prices keep appearing "
                "x balance/register with -v and every -m level 1-4 plus random combinations of -m rules, --remap, filters, -s, intervals, windows, --diff, --close=false; race detector and normal binary, perturbed schedules). "
                "A class = (stream, stages/items bucket, failure shape) resp. (command, flags) resp. (tree shape, error kind).",
        "assumptions": ["stage closures share no mutable state other than the item handed over (checked by the race detector runs, not proved)",
                        "the conc pool records the first error before cancelling the context (pinned source, sourcegraph/conc)"],
        "timeout": {"quick": 900, "thorough": 3000},
    },
    "C15": {
        "lean": ["Knut.Properties.C15", "Knut.Properties.C15Parse", "Knut.FactsAgree.TransPrinter", "Knut.FactsAgree.TransPrinter2", "Knut.FactsAgree.TransPrinter3", "Knut.FactsAgree.TransBayes", "Knut.FactsAgree.TransBayes2", "Knut.FactsAgree.TransBayes3", "Knut.FactsAgree.TransBayes4", "Knut.Properties.C15Go"],
        "level": "proof",
        "claim": "Proof (for every score function: the float evaluation is a parameter, see note) + full correspondence. Lean theorems over a model of lib/syntax/bayes (Update/update/tokenize/Infer/inferAccount/scoreCandidate, count tables as "
                 "association lists) and of inferRunner.execute (train on every reachable file, Infer on the target tree, syntax.FormatFile), proved for EVERY score function and comparison "
                 "(the float log-sum is an abstract parameter) and all training/target journals and placeholder names: C15_only_placeholder / C15_only_bookings (only booking account fields "
                 "whose text is the placeholder change), C15_candidate_from_training (each replacement is a credit/debit account of a non-macro, non-placeholder training booking), "
                 "C15_differs_from_other (it differs from the other account, as updated; an edited booking never has equal sides), C15_no_candidate_unchanged, C15_candidate_replaced, "
                 "C15_viewsOK (the monitor predicate holds of the model), C15_deterministic / _files / _booking (any permutation of the training transactions resp. files gives the same output), "
                 "C15_token_walk_irrelevant + C15_equiv_same_choice + C15_tables_are_counts (map iteration orders do not matter: the tables are counts over the multiset of update calls and the "
                 "candidates are visited sorted), C15_output_is_format_modulo_accounts / C15_output_shape (output = formatter run on the edited fields: same gaps, fields related by viewsOK, padding "
                 "implied by the new accounts), C15_no_new_panic. Properties/C15Parse.lean closes the text-level clause with the parser model of C07 and the print-then-parse lemmas of C08 run on the "
                 "EDITED fields: C15_output_parses (whenever the command writes a text, for all training files, targets and placeholders, that text parses; its directives have exactly the fields "
                 "of the target's directives with Infer applied; the text between directives is the target's gap by gap; it is a fixed point of format), "
                 "C15_output_is_formatted_input_modulo_accounts (knut format of the target succeeds and the monitor predicate inferOK holds between it and the output: both parse, fields related by "
                 "viewsOK, identical gaps), C15_idempotent_after (infer run again on its own output with the same training writes the same text, whether or not a placeholder is left, and so does "
                 "format), C15_infer_idempotent, C15_written_account_is_training_node (every written account text is the Extract() of a non-macro account node of a parsed training file). No _partial "
                 "theorem is left. Tie: bayes.NewModel/Update/Infer + "
                 "syntax.FormatFile in-process and `knut infer [-a] -t TRAINING TARGET` / `-i` as subprocess are compared byte for byte with the model instantiated with the exact rational score "
                 "(product of count ratios); the real count tables (read by reflection) are compared with the model's; the Lean predicate inferOK is evaluated on the real output against the real "
                 "`knut format` of the target; repeated runs under perturbed schedules must be identical.",
        "note": "Trusted: Lean kernel; axioms propext, Classical.choice, Quot.sound. float64: the code compares sums of logarithms, the model exact products; when the exact scores of the best "
                "candidates differ by less than 1e-9 (relative) the code's choice is accepted if it is one of them (op c15tol; counted as tag near-tie-other-choice). unicode.ToLower / IsSpace are "
                "modelled by tables compared with the Go functions on every code point in each run. The include graph (ParseFileRecursively) is resolved by the harness, the model receives the files "
                "in arrival order (order-independence is a theorem; the concurrent loader is C19's subject). cobra flag parsing, atomic.WriteFile (C18) not modelled.",
        "rule": "streams: unicode (all code points), tokens (strings.Fields/ToLower on random and malformed UTF-8), corpus, infer (training: empty / no transactions / one account pair / "
                "tie-rich repeated transactions / 1-4 files with nested and repeated includes / bookings with macros and the placeholder; target: placeholder on credit, debit, both, mixed, none, "
                "several bookings, other directives and comments mentioning the placeholder, odd layouts; placeholder: default, custom, Unicode, macro, empty, not-an-account, equal to a training "
                "account), scale (sizes on logarithmic ladders: 1-2500 words in the target description, 0-100 % of them unseen in training, distinct or repeated, 0-200/2000 training "
                "transactions with descriptions of up to hundreds of words, vocabulary 3-3000, 2-40 accounts; 8/150 of these also through the command), "
                "malformed (byte mutations of target/training), cli (subprocess: stdout, --inplace, training file = target file, missing include, 5/20 repeated runs with KNUT_VERIF_SEED), "
                "bigfile (5/20 training journals with ONE file of 1000-65000 directives - around 1024/2048/4096/8192/16384/32768/65536 +-1 and in between - made of near-tied accounts "
                "in six layouts, through the command under GOMAXPROCS 1/2/16 and KNUT_VERIF_SEED schedules: same output on every run, as the library code, as the model, and as the same "
                "directives cut into included files of 25-150). "
                "class = (outcome, placeholder kind, number of placeholder fields per side, replaced/kept, sizes, generator kinds).",
        "assumptions": ["scores closer than 1e-9 relative are treated as ties the float evaluation may break either way",
                        "every score the code computes is finite (logarithms of positive ratios), so the first candidate always beats -Inf",
                        "translated lib/syntax/bayes (FactsAgree/TransBayes*.lean): float64 is UNINTERPRETED (Syn.F64: math.Inf, math.Log, float64(n), + / > as a record; the theorems hold for every interpretation, inferAccount/Infer for every Scorer; with the code's own score function they assume FiniteScores: every candidate's score is above -Inf); maps are association lists with every key once, a nil map reads as empty (the zero bayes.Model, whose first store panics in Go, is not covered: goModel only yields what NewModel/Update produce); map iteration orders are parameters (one per call site and round; the theorems quantify over every order that lists each key once); string = bytes; that the write t.Bookings[i].Credit = a shows through other slices sharing the array (commands.parseAndInfer) is outside the translated result"],
    },
    "C18": {
        "lean": ["Knut.Properties.C18"],
        "level": "proof",
        "claim": "Lean theorems over a file-system state machine of formatFile / infer -i / natefinch atomic.WriteFile v1.0.1 (TempFile, Copy, Sync, Close, Stat, Stat, "
                 "Chmod, Rename, Remove on error) for every file system, target, renderer and fault scenario (injected error at any operation, any RLIMIT_FSIZE, failing clean-up): "
                 "in every intermediate state - hence after a crash at any point and for every length at which the write is cut short - the target is the complete old or the "
                 "complete new file; an error leaves every path but the temp name as it was and removes the temp file; success installs the new bytes with the old mode; a file that "
                 "does not parse leaves the file system identical; no other path is ever touched; with several files each one ends as if rewritten alone. Tie: the real binary is run "
                 "under exact-byte RLIMIT_FSIZE limits, strace error/SIGKILL injection at the n-th openat/read/write/fsync/close/newfstatat/fchmodat/renameat/unlinkat, as an unprivileged "
                 "user in read-only directories / on unreadable files, and on several files at once; the resulting directory is compared byte for byte with the model and the Lean "
                 "predicate allOrNothing is evaluated on it; the call sites and the pinned atomic.WriteFile are checked against the model's operation sequence by go/ast.",
        "note": "PARTIAL with respect to the operating system: rename(2) atomicity and fsync durability are assumptions of the model (rename is one step); power loss is not modelled. "
                "Trusted: Lean kernel; axioms propext, Classical.choice, Quot.sound; the renderer (formatter / inference) is a parameter of the model, the harness takes the real "
                "command's fault-free output as 'the new contents'; strace, setrlimit, the kernel.",
        "rule": "streams: limit (format and infer -i on generated files - plain, big, empty, already formatted, unparseable, no final newline; modes 0644/0600/0664/0640 - under "
                "RLIMIT_FSIZE = k for boundary and random k, every k for small files in the thorough tier), inject (error x {EIO,ENOSPC,EACCES} or SIGKILL at the n-th call of nine syscalls, "
                "clean-up made to fail), perm (uid 65534, directory modes 555/755/777/500, file modes 644/444/400/000/600/200), multi (2-6 files, one unparseable, limit between the sizes), "
                "siblings (2-12 files in one command, 0-3 failing at the first/middle/last/random argument positions by a damaged line, non-text bytes, mode 000 as uid 65534, a missing file or "
                "RLIMIT_FSIZE between the sizes, GOMAXPROCS 1/2/16/unset and schedule seeds: every file that parses and meets no fault of its own holds its complete new contents, every other one its old ones), "
                "facts (go/ast). A class = (stream, command, file kind, cut/fits, limit bucket) resp. (syscall, file kind, exit) resp. (dir mode, file mode, kind) resp. (n, bad, limit, exit).",
        "assumptions": ["rename(2) replaces the target atomically and fsync makes the temp file durable before it (kernel / file system)",
                        "the temp name chosen by ioutil.TempFile is fresh (O_EXCL) and differs from every target"],
        "timeout": {"quick": 900, "thorough": 3000},
    },
    "C13": {
        "lean": ["Knut.Properties.C13", "Knut.Properties.C13Text", "Knut.FactsAgree.TransJPrinter", "Knut.FactsAgree.TransJPrinter2", "Knut.Properties.C13Go"],
        "level": "proof",
        "claim": "Proof (row level and text level, all eleven importers; for revolut2 / revolut / interactivebrokers, whose output carries the statement's balance assertions, acceptance is proved equivalent to the statement's balance column being consistent with its amounts) + full correspondence. Lean row models (Model/Import/*.lean) from the records as encoding/csv / encoding/json decoded them "
                 "to the directives added to the journal.Builder (explicit error / panic outcomes), printed by the model of journal.Print (C09); a specification-side reader per format "
                 "(Spec/ImportItems.lean: which records are booking rows, their date / currency / signed amount on the import account, carried balances and prices) and the predicate "
                 "Faithful (Spec/ImportSpec.lean). Proved for ALL record lists and field contents, for all eleven importers (swisscard2, swisscard, supercard, cumulus, postfinance, revolut2, "
                 "revolut, wise, viac, swissquote, interactivebrokers): C13_<importer> - if the importer succeeds its directives are, one for one and in order, the statement's items: one transaction per "
                 "booking row, on the row's date, whose net effect on the import account equals the row's signed amount in every commodity, with at least one booking; the carried "
                 "balances / prices verbatim; nothing else (C13_count, C13_booking_row, C13_nothing_else, C13_no_open_close, C13_swisscard2_one_tx_per_row); C13_<importer>_wellformed - every "
                 "emitted directive is well-formed (at least one booking per transaction, postings in pairs, every account / commodity / @performance target a valid name for knut's registry "
                 "and parser) whatever the free text contains: the hypothesis of the print-then-parse round trip; the monitor's executable "
                 "predicate is complete and sound for Faithful (C13_monitor_complete, C13_monitor_sound, C13_matchesB_iff). C13_description_has_no_quote + C13_replaceQuotes_idempotent (transaction.Builder.Build stores a quote-free description, so the day's transactions are sorted by the "
                 "text that is printed; the printer's own replacement is idle). Kernel-checked witnesses: wise_conversion_two_transactions, swissquote_forex_pair_one_transaction "
                 "(by-design deviations), swissquote_sale_without_proceeds_is_a_sale (repaired behaviour). "
                 "TEXT LEVEL, proved for all eleven importers and all statements (Properties/C13Text.lean, on the models: render = journal.Print of the importer's builder, loadText = parser model + elaboration, printFile = knut print on one file): C13_<importer>_printable - every emitted directive is PrintableDir, the hypothesis of the C09 round trip: valid names (C13_<importer>_wellformed), dates in the range of time.Parse (years 0000..9999, derived from the model of time.Parse for the five layouts), amounts decimal rationals (derived from the model of decimal.NewFromString, closed under the negations / sums / roundings the importers do), transactions built by transaction.Builder.Build whose quote replacement makes the description quote-free - nothing is assumed about free text; C13_text_parses - the emitted text parses (C13_text_parser_accepts) and loads to exactly the directives the importer built, in the order journal.Print writes them (a permutation of the order they were added in), and printing the reloaded journal gives the same text; C13_text_reprinted_with_opens - the file `one open per account dated before the first directive, blank line, output` is reproduced byte for byte by knut print whenever the checker accepts it; C13_text_accepted_with_opens / C13_text_valid - and the checker does accept it when the output consists of transactions and prices (C13_<importer>_tx_or_price: swisscard2, swisscard, supercard, cumulus, postfinance, wise, viac, swissquote) on accounts each opened once; C13_text_valid_prices_only (viac). For revolut2, revolut, interactivebrokers the output carries the statement's balance assertions; what is true is stated on the statement (Proofs/PrintImportBalances.lean): Consistent items - every balance the statement carries equals the sum, from a zero opening balance, of the amounts (less fees, per currency) of the booking rows up to and including its day (decidable). C13_text_accepted_iff_consistent - for every import Faithful to the statement's items, an asset/liability import account, every account booked on opened once before the first directive: the checker accepts opens + output IF AND ONLY IF the statement is consistent (C13_revolut2_accepted_iff, C13_revolut_accepted_iff, C13_interactivebrokers_accepted_iff); C13_text_valid_iff_consistent - knut print reproduces opens + output byte for byte if consistent, fails in processing if not. Kernel-checked consistent and inconsistent two-row revolut2 statement; the real binary agrees on both (import, then print on opens + output: reproduced / failed assertion). OPEN: the statement decoders (encoding/csv, json, charmap) are outside the models; the harness generates consistent statements only. The same clauses are also decided on every run on the REAL output by knut's own parser, the Lean parser model, `knut print` on opens + output (accepted, byte-identical), over free text with quotes, separators, newlines, control characters and Unicode. Tie: `knut import <x>` as a subprocess on generated statements of every format (and the "
                 "repository's eleven example inputs), stdout compared byte for byte with the Lean row model + printer for all eleven importers, also on a malformed stream (mutated "
                 "fields, structure, bytes, flags: same ok / error / panic outcome); the library functions the models rely on (decimal.NewFromString, time.Parse x 5 layouts, "
                 "strings.TrimSpace/Fields/Trim/Replacer, the importers' regular expressions, registry name checks) are compared with Go on structured and mutated strings.",
        "note": "Trusted: Lean kernel; axioms propext, Classical.choice, Quot.sound; encoding/csv, encoding/json, charmap ISO 8859-1 and the BOM skipper (decoding is mirrored by the harness with the "
                "importers' reader settings and handed to the models as records); cobra flag parsing; journal.Print's sort (sort.Slice modelled as stable). Domain: statements are text in their "
                "encoding (a statement that is not valid UTF-8 yields descriptions the journal syntax cannot carry). Known findings (KNOWN-FINDING lines, exit 0; by-design deviations from the literal wording): "
                "C13-wise-conversion-two-transactions, C13-swissquote-forex-pair-one-transaction, C13-interactivebrokers-rounds-to-cents. Fixed in /repo and modelled as fixed (a return of the "
                "behaviour is a VIOLATION): C13-postfinance-debug-line-on-stdout (3b9fb06), C13-swissquote-sale-without-proceeds-booked-as-purchase (c9fcfe1), "
                "C13-quote-replaced-after-sorting (7934e0c). The printer's quote replacement is modelled character-wise (JournalPrinter.descText) and proved to be the identity on a quote-free description (descText_id).",
        "rule": "streams: stmt (per importer: 0-60 rows, dates over several years and days with several rows, debits and credits, zero amounts, amounts with thousands separators / trailing zeros / "
                "up to 8 decimals / leading-dot / exponent literals, several currencies incl. non-ASCII commodity names, fees, exchange rows, forex pairs, trades, dividends with withholding, "
                "pending / cancelled / ignored rows, balances consistent from a zero opening balance, free text from plain / Latin-1 / Unicode / quotes / separators / newlines / control characters, "
                "CSV written quoted-all or minimally, bare quotes for LazyQuotes readers, blanks after separators, CRLF, BOM), malformed (a well-formed statement with one mutation: empty, truncated, "
                "line removed / doubled / blanked / swapped, field added / dropped, stray quote, damaged number / date / currency, invalid account flag, random byte), golden (the repository's example "
                "inputs), flags (the importers with several account flags under every set partition of {Expenses:TBD, flag accounts}: two, three or all flags naming one account, flags naming Expenses:TBD, "
                "never the import account; half of the stmt / malformed statements of these importers also draw such a collision), big (statements of hundreds to tens of thousands of rows, output 100 KiB to several MiB, "
                "imported once with an eager reader - all monitors of stmt - and then with stdout read by paced consumers: late start, stall at an offset, slow / tiny / bursty reads, pipes of 4 KiB to 1 MiB, "
                "regular file; every consumer's bytes must equal the eager reader's and the model's and satisfy output_parses, one_transaction_per_row, faithful_to_statement), "
                "long (per importer: statements of 1-40 rows in which one to three free-text fields - first / middle / last rows, ch.viac: white space between values - are 1 KiB to 1 MiB long, the length of the field or of its physical line "
                "at 4096 / 65536 / 1 MiB / another power of two +-2, just above 64 KiB or log-uniform, as plain words / one token / embedded line ends / Unicode / quotes and separators; all monitors of stmt), lib-dec, lib-date, lib-str. "
                "class = (stream, importer, outcome, row bucket, free-text features, amount / row-kind features, flag collisions).",
        "assumptions": ["statements are valid text in their encoding (UTF-8, resp. ISO 8859-1 for ch.supercard)",
                        "the accounts given by flags differ from the import account (otherwise a posting pair cancels itself)",
                        "the print-then-parse round trip of journal.Print is not mechanised; it is monitored on the real output of every case"],
        "timeout": {"quick": 900, "thorough": 3000},
    },
}

NOT_APPLICABLE = {}
