import Knut.Generated.TransWeights
import Knut.FactsAgree.TransPerformance
import Knut.Proofs.GoSemTree
import Knut.Model.Weights
/-!
# The translated `lib/reports/weights` (the report tree) agrees with the model (`Model/Weights.lean`), part 1: the closures

`Knut/Generated/TransWeights.lean` is regenerated from /repo on every run (`harness/trans_units_perf.go`; the tree of
`lib/common/multimap` has the pinned meaning of `GoSem/Multimap.lean`).  `float64` is an exact rational (`GoSem/Float.lean`).
The map `Value.Weights` is `Option (AMap Int Rat)` (none = nil): the code tests it for nil, and storing into a nil map would panic.

| Go | theorem | what it says |
|---|---|---|
| `NewReport` | `NewReport_agrees` | no dates, the root `""` without children |
| `Report.Add` | `Add_agrees` | the date is added to the set; along the path the nodes are created, the node at its end gets `Weights[date] += w` (`bumpW`; a node that had no map becomes a `Leaf`): `MNode.modifyAt (bumpW date w) ss`; never a panic |
| the loop over one child's map in `PropagateWeights` | `Propagate_range_agrees` | for EVERY iteration order without repetition that reaches all dates of the child: the node's weight on every date grows by the child's (a date the node did not have is added) |
| the function `PropagateWeights` passes to `PostOrder` | `Propagate_post_agrees` | the node's map afterwards: on every date its own weight plus the weights of ALL its children (added in the order of their names: `dict.SortedKeys`), a date being present iff the node or a child had it; never a panic (the nil map is replaced first) |
| the function `SortWeighted` passes to `PostOrder`; its comparator | `SortWeighted_post_agrees`, `SortWeighted_cmp_agrees` | `Weight` = minus the sum of the node's weights (added in date order: in exact arithmetic the sum); nodes compare by `Weight`, ties by segment |

In exact arithmetic none of the results depends on an iteration order; the orders that the repaired code fixes (`dict.SortedKeys`) matter
for IEEE addition only.
-/
namespace Knut.FactsAgree.TransWeights
open Knut Knut.GoSem Knut.MapSum
open Knut.Generated.Go
open Knut.FactsAgree.TransPerformance (map_get_keys)

/-! ## `NewReport`, `Report.Add` -/

theorem NewReport_agrees : weights.NewReport = { dates := [], weights := MNode.new "" } := rfl

/-- `n.Value.Weights[date] += w` on the node `GetOrCreate` returned; a node without a map gets one and becomes a leaf -/
def bumpW (date : Int) (w : Rat) (n : MNode weights.Value) : MNode weights.Value :=
  { n with Value :=
      { Leaf := if n.Value.Weights.isNone then true else n.Value.Leaf
        Weights := some (AMap.set (n.Value.Weights.getD []) date (AMap.get (n.Value.Weights.getD []) date 0 + w))
        Weight := n.Value.Weight } }

theorem modifyAt_const (f : MNode weights.Value → MNode weights.Value) (p : List String) (n : MNode weights.Value) :
    MNode.modifyAt f p n = MNode.modifyAt (fun _ => f (MNode.getAt (MNode.create p n) p)) p n := by
  rw [← MNode.setAt_getAt_create f p n, MNode.setAt_create]

/-- **`Report.Add`**: the date joins the report's dates; the path is created and the node at its end gets the weight added on the date -/
theorem Add_agrees (r : weights.Report) (ss : List String) (date : Int) (w : Rat) :
    weights.Report.Add r ss date w =
      .ok ({ dates := set.Set.Add r.dates date, weights := MNode.modifyAt (bumpW date w) ss r.weights }, none) := by
  unfold weights.Report.Add
  rw [modifyAt_const (bumpW date w)]
  cases hw : (MNode.getAt (MNode.create ss r.weights) ss).Value.Weights with
  | none =>
    simp only [hw, Option.isNone_none, if_true, MNode.setAt_create, MNode.setAt_modifyAt, nilMapE_some, Outcome.bind,
      Option.getD_some, zero_rat, bumpW, Option.getD_none]
  | some W =>
    simp only [hw, Option.isNone_some, Bool.false_eq_true, if_false, nilMapE_some, Outcome.bind, Option.getD_some, zero_rat,
      MNode.setAt_create, bumpW]

/-! ## `PropagateWeights` -/

/-- the weights of the child `name` of a node (nil and a missing child read as the empty map) -/
def childW (n : MNode weights.Value) (name : String) : AMap Int Rat :=
  ((AMap.get n.Children name (GoZero.zero : MNode weights.Value)).Value.Weights).getD []

/-- the node with its map of weights replaced -/
def setW (n : MNode weights.Value) (W : AMap Int Rat) : MNode weights.Value :=
  { n with Value := { n.Value with Weights := some W } }

@[simp] theorem setW_Children (n : MNode weights.Value) (W : AMap Int Rat) : (setW n W).Children = n.Children := rfl
@[simp] theorem setW_Weights (n : MNode weights.Value) (W : AMap Int Rat) : (setW n W).Value.Weights = some W := rfl
@[simp] theorem setW_setW (n : MNode weights.Value) (W W' : AMap Int Rat) : setW (setW n W) W' = setW n W' := rfl
@[simp] theorem childW_setW (n : MNode weights.Value) (W : AMap Int Rat) (name : String) : childW (setW n W) name = childW n name := rfl
theorem setW_self (n : MNode weights.Value) (W : AMap Int Rat) (h : n.Value.Weights = some W) : setW n W = n := by
  cases n with
  | mk seg v cs so => cases v; simp_all [setW]

@[simp] theorem bind_okW {α β : Type} (a : α) (f : α → GoSem.Outcome β) : GoSem.Outcome.bind (.ok a) f = f a := rfl

/-- one step of the loop over a child's map -/
theorem range2_cons (name : String) (d0 : Int) (o : List Int) (n : MNode weights.Value) (W : AMap Int Rat) (hW : n.Value.Weights = some W) :
    weights.Report.PropagateWeights.post1.range2 name (d0 :: o) n =
      if !(AMap.find? (childW n name) d0).isSome then weights.Report.PropagateWeights.post1.range2 name o n
      else weights.Report.PropagateWeights.post1.range2 name o
        (setW n (AMap.set W d0 (AMap.get W d0 0 + AMap.get (childW n name) d0 0))) := by
  conv => lhs; unfold weights.Report.PropagateWeights.post1.range2
  simp only [hW, nilMapE_some, bind_okW, Option.getD_some, zero_rat]
  rfl

/-- the loop over one child's map, for ANY order `o` of (some of) its dates without repetition: the node's weight on every date reached
grows by the child's weight; children, segment and the other fields stay -/
theorem Propagate_range_agrees (name : String) :
    ∀ (o : List Int) (n : MNode weights.Value) (W : AMap Int Rat), n.Value.Weights = some W → o.Nodup →
      ∃ W', weights.Report.PropagateWeights.post1.range2 name o n = .ok (setW n W') ∧ (NodupKeys W → NodupKeys W') ∧
        (∀ d, AMap.find? W' d =
          if d ∈ o ∧ (AMap.find? (childW n name) d).isSome then some (AMap.get W d 0 + AMap.get (childW n name) d 0)
          else AMap.find? W d) := by
  intro o
  induction o with
  | nil =>
    intro n W hW _
    refine ⟨W, ?_, id, fun d => by simp⟩
    unfold weights.Report.PropagateWeights.post1.range2
    rw [setW_self n W hW]
  | cons d0 o ih =>
    intro n W hW ho
    have ho' : d0 ∉ o ∧ o.Nodup := by simpa using ho
    rw [range2_cons name d0 o n W hW]
    cases hf : AMap.find? (childW n name) d0 with
    | none =>
      simp only [Option.isSome_none, Bool.not_false, if_true]
      obtain ⟨W', h1, hn, h2⟩ := ih n W hW ho'.2
      refine ⟨W', h1, hn, ?_⟩
      intro d
      rw [h2 d]
      by_cases hd : d = d0
      · subst hd; simp [hf, ho'.1]
      · simp [hd]
    | some c =>
      simp only [Option.isSome_some, Bool.not_true, Bool.false_eq_true, if_false]
      obtain ⟨W', h1, hn, h2⟩ := ih (setW n (AMap.set W d0 (AMap.get W d0 0 + AMap.get (childW n name) d0 0))) _ rfl ho'.2
      refine ⟨W', by rw [h1, setW_setW], fun h => hn (nodupKeys_set _ _ _ h), ?_⟩
      intro d
      rw [h2 d, childW_setW, AMap.find?_set]
      by_cases hd : d0 = d
      · subst hd
        simp [ho'.1, hf]
      · have hd' : ¬ d = d0 := fun e => hd e.symm
        simp only [hd, hd', List.mem_cons, false_or, if_false, AMap.get_set]

/-- the loop over the children (in the order of their names) from the node `setW n W`: per date the weights of the children are added;
a date is present afterwards iff it was or a child has it -/
theorem Propagate_children_agrees (n : MNode weights.Value) (o : List Int) (ho : o.Nodup)
    (hcov : ∀ name d, (AMap.find? (childW n name) d).isSome → d ∈ o) :
    ∀ (L : List String) (W : AMap Int Rat), ∃ W',
      foldlE (fun (st2 : MNode weights.Value) (el3 : String) =>
          GoSem.Outcome.bind (weights.Report.PropagateWeights.post1.range2 el3 o st2) (fun n => GoSem.Outcome.ok n)) (setW n W) L =
        .ok (setW n W') ∧ (NodupKeys W → NodupKeys W') ∧
      (∀ d, AMap.get W' d 0 = AMap.get W d 0 + (L.map (fun name => AMap.get (childW n name) d 0)).sum) ∧
      (∀ d, (AMap.find? W' d).isSome = ((AMap.find? W d).isSome || L.any (fun name => (AMap.find? (childW n name) d).isSome))) := by
  intro L
  induction L with
  | nil => intro W; exact ⟨W, rfl, id, fun d => by simp [Rat.add_zero], fun d => by simp⟩
  | cons name L ih =>
    intro W
    obtain ⟨W1, h1, hn1, h2⟩ := Propagate_range_agrees name o (setW n W) W rfl ho
    simp only [childW_setW] at h2
    obtain ⟨W', h3, hn3, h4, h5⟩ := ih W1
    refine ⟨W', ?_, fun h => hn3 (hn1 h), ?_, ?_⟩
    · simp only [foldlE, h1, setW_setW, bind_okW, h3]
    · intro d
      rw [h4 d, List.map_cons, sum_cons]
      have : AMap.get W1 d 0 = AMap.get W d 0 + AMap.get (childW n name) d 0 := by
        simp only [AMap.get, h2 d]
        by_cases hs : (AMap.find? (childW n name) d).isSome = true
        · simp [hcov name d hs, hs]
        · have hn : AMap.find? (childW n name) d = none := by simpa using hs
          simp [hn, Rat.add_zero]
      rw [this]; grind
    · intro d
      rw [h5 d, h2 d, List.any_cons]
      by_cases hs : (AMap.find? (childW n name) d).isSome = true
      · simp [hcov name d hs, hs]
      · have hn : AMap.find? (childW n name) d = none := by simpa using hs
        simp [hn]

/-- **the function `PropagateWeights` passes to `PostOrder`**, for EVERY iteration order `order path` of the dates without repetition that
reaches the dates of all children: the node's map afterwards has on every date the node's own weight plus the weights of its children
(taken in the order of their names), a date being present iff the node or a child had it; the children are unchanged; never a panic -/
theorem Propagate_post_agrees (order : List String → List Int) (path : List String) (n : MNode weights.Value)
    (ho : (order path).Nodup) (hcov : ∀ name d, (AMap.find? (childW n name) d).isSome → d ∈ order path) :
    ∃ W', weights.Report.PropagateWeights.post1 order path () n = .ok ((), setW n W') ∧
      (NodupKeys (n.Value.Weights.getD []) → NodupKeys W') ∧
      (∀ d, AMap.get W' d 0 = AMap.get (n.Value.Weights.getD []) d 0 +
        ((sortedKeys n.Children cmpOrdered).map (fun name => AMap.get (childW n name) d 0)).sum) ∧
      (∀ d, (AMap.find? W' d).isSome = ((AMap.find? (n.Value.Weights.getD []) d).isSome ||
        (sortedKeys n.Children cmpOrdered).any (fun name => (AMap.find? (childW n name) d).isSome))) := by
  unfold weights.Report.PropagateWeights.post1
  cases hw : n.Value.Weights with
  | none =>
    obtain ⟨W', h1, hn, h2, h3⟩ := Propagate_children_agrees n (order path) ho hcov (sortedKeys n.Children cmpOrdered) []
    refine ⟨W', ?_, hn, h2, h3⟩
    simp only [Option.isNone_none, if_true]
    have : ({ n with Value := { n.Value with Weights := some ([] : AMap Int Rat) } } : MNode weights.Value) = setW n [] := rfl
    rw [this, h1]; rfl
  | some W =>
    obtain ⟨W', h1, hn, h2, h3⟩ := Propagate_children_agrees n (order path) ho hcov (sortedKeys n.Children cmpOrdered) W
    refine ⟨W', ?_, hn, h2, h3⟩
    simp only [Option.isNone_some, Bool.false_eq_true, if_false]
    rw [setW_self n W hw] at h1
    rw [h1]; rfl

/-! ## `SortWeighted` -/

/-- **the function `SortWeighted` passes to `PostOrder`**: `Weight` is minus the sum of the node's weights (added in date order) -/
theorem SortWeighted_post_agrees (path : List String) (n : MNode weights.Value) (hn : NodupKeys (n.Value.Weights.getD [])) :
    weights.Report.SortWeighted.post1 path () n =
      .ok ((), { n with Value := { n.Value with Weight := -(total (n.Value.Weights.getD [])) } }) := by
  unfold weights.Report.SortWeighted.post1 sortedKeys
  simp only [zero_rat]
  rw [foldl_add_eq_sum (fun c => AMap.get (n.Value.Weights.getD []) c 0)]
  rw [sum_perm ((List.mergeSort_perm _ _).map _), map_get_keys _ hn]
  have : (0 : Rat) + (List.map (fun x => x.2) (n.Value.Weights.getD [])).sum = total (n.Value.Weights.getD []) := by
    simp only [total]; grind
  rw [this]

/-- **the comparator of `SortWeighted`**: by `Weight` (ascending: the heaviest node, whose `Weight` is the most negative, first), ties by
segment -/
theorem SortWeighted_cmp_agrees (a b : MNode weights.Value) :
    weights.Report.SortWeighted.cmp2 a b =
      if a.Value.Weight < b.Value.Weight then -1 else if b.Value.Weight < a.Value.Weight then 1
      else cmpOrdered a.Segment b.Segment := by
  unfold weights.Report.SortWeighted.cmp2 cmpOrdered MNode.sortAlpha cmpOrdered
  by_cases h1 : a.Value.Weight < b.Value.Weight
  · simp [h1]
  · by_cases h2 : b.Value.Weight < a.Value.Weight
    · simp [h1, h2]
    · simp [h1, h2]

/-- **`SortWeighted`**: the traversal that sets every `Weight`, then `Sort` with the comparator -/
theorem SortWeighted_agrees (r : weights.Report) (order : List String → List String) :
    weights.Report.SortWeighted r order =
      (MNode.postOrder weights.Report.SortWeighted.post1 order () r.weights).bind fun x =>
        .ok { r with weights := MNode.sort weights.Report.SortWeighted.cmp2 x.2 } := rfl

/-- **`PropagateWeights`**: the traversal with the function above -/
theorem PropagateWeights_agrees (r : weights.Report) (o1 : List String → List Int) (o2 : List String → List String) :
    weights.Report.PropagateWeights r o1 o2 =
      (MNode.postOrder (weights.Report.PropagateWeights.post1 o1) o2 () r.weights).bind fun x =>
        .ok { r with weights := x.2 } := rfl

end Knut.FactsAgree.TransWeights
